// ---- lemmas: index_rebuild ----
pub proof fn lemma_header_len(a: u64, b: u32, c: u32, d: u64)
    ensures enc_batch_header(a, b, c, d).len() == 24,
{ lemma_le_facts(); }

// the header encoding is injective
pub proof fn lemma_header_inj(a: u64, b: u32, c: u32, d: u64, a2: u64, b2: u32, c2: u32, d2: u64)
    requires enc_batch_header(a, b, c, d) == enc_batch_header(a2, b2, c2, d2),
    ensures a == a2 && b == b2 && c == c2 && d == d2,
{
    lemma_le_facts();
    let x = enc_batch_header(a, b, c, d); let y = enc_batch_header(a2, b2, c2, d2);
    assert(x.subrange(0, 8) =~= le64(a)); assert(y.subrange(0, 8) =~= le64(a2));
    assert(x.subrange(8, 12) =~= le32(b)); assert(y.subrange(8, 12) =~= le32(b2));
    assert(x.subrange(12, 16) =~= le32(c)); assert(y.subrange(12, 16) =~= le32(c2));
    assert(x.subrange(16, 24) =~= le64(d)); assert(y.subrange(16, 24) =~= le64(d2));
    assert(un_le64(le64(a)) == a && un_le64(le64(a2)) == a2);
    assert(un_le32(le32(b)) == b && un_le32(le32(b2)) == b2);
    assert(un_le32(le32(c)) == c && un_le32(le32(c2)) == c2);
    assert(un_le64(le64(d)) == d && un_le64(le64(d2)) == d2);
}

// prefixes of the log: lengths add up, a prefix of the batches is a prefix of the bytes
pub proof fn lemma_log_prefix_len(bs: Seq<BatchRec>, k: int)
    requires 0 <= k <= bs.len(),
    ensures
        log_bytes(bs.subrange(0, k)).len() <= log_bytes(bs).len(),
        k < bs.len() ==> log_bytes(bs.subrange(0, k + 1)).len() == log_bytes(bs.subrange(0, k)).len() + 24 + bs[k].payload.len(),
        k < bs.len() ==> log_bytes(bs.subrange(0, k)).len() + 24 + bs[k].payload.len() <= log_bytes(bs).len(),
    decreases bs.len() - k,
{
    if k == bs.len() {
        assert(bs.subrange(0, k) =~= bs);
    } else {
        lemma_log_prefix_len(bs, k + 1);
        assert(bs.subrange(0, k + 1).drop_last() =~= bs.subrange(0, k));
        assert(bs.subrange(0, k + 1).last() == bs[k]);
        lemma_header_len(bs[k].base, bs[k].length, bs[k].delta, bs[k].max_ts);
    }
}
// batch k sits at its file position: the 24 bytes there are its header
pub proof fn lemma_batch_at(bs: Seq<BatchRec>, k: int)
    requires 0 <= k < bs.len(),
    ensures
        ({
            let p = log_bytes(bs.subrange(0, k)).len() as int;
            p + 24 <= log_bytes(bs).len()
            && log_bytes(bs).subrange(p, p + 24) == enc_batch_header(bs[k].base, bs[k].length, bs[k].delta, bs[k].max_ts)
        }),
    decreases bs.len() - k,
{
    let p = log_bytes(bs.subrange(0, k)).len() as int;
    lemma_log_prefix_len(bs, k);
    lemma_header_len(bs[k].base, bs[k].length, bs[k].delta, bs[k].max_ts);
    lemma_prefix_bytes(bs, k + 1);
    // log_bytes(bs[0..k+1]) = log_bytes(bs[0..k]) + header + payload is a prefix of log_bytes(bs)
    assert(bs.subrange(0, k + 1).drop_last() =~= bs.subrange(0, k));
    assert(bs.subrange(0, k + 1).last() == bs[k]);
    let pre = log_bytes(bs.subrange(0, k + 1));
    assert(pre == log_bytes(bs.subrange(0, k)) + enc_batch(bs[k]));
    assert(pre.subrange(p, p + 24) =~= enc_batch_header(bs[k].base, bs[k].length, bs[k].delta, bs[k].max_ts));
    assert(log_bytes(bs).subrange(0, pre.len() as int).subrange(p, p + 24) =~= log_bytes(bs).subrange(p, p + 24));
}
pub proof fn lemma_prefix_bytes(bs: Seq<BatchRec>, k: int)
    requires 0 <= k <= bs.len(),
    ensures
        log_bytes(bs.subrange(0, k)).len() <= log_bytes(bs).len(),
        log_bytes(bs).subrange(0, log_bytes(bs.subrange(0, k)).len() as int) == log_bytes(bs.subrange(0, k)),
    decreases bs.len() - k,
{
    if k == bs.len() {
        assert(bs.subrange(0, k) =~= bs);
        assert(log_bytes(bs).subrange(0, log_bytes(bs).len() as int) =~= log_bytes(bs));
    } else {
        lemma_prefix_bytes(bs, k + 1);
        assert(bs.subrange(0, k + 1).drop_last() =~= bs.subrange(0, k));
        let a = log_bytes(bs.subrange(0, k)); let b = log_bytes(bs.subrange(0, k + 1));
        assert(b == a + enc_batch(bs.subrange(0, k + 1).last()));
        assert(b.subrange(0, a.len() as int) =~= a);
        assert(log_bytes(bs).subrange(0, b.len() as int).subrange(0, a.len() as int) =~= log_bytes(bs).subrange(0, a.len() as int));
    }
}
