// ---- unit prelude: index_rebuild (C03: the rebuilt index equals the index the send path writes) ----
global size_of usize == 8;

#[derive(Clone, Copy)]
pub struct IggyByteSize(pub u64);
impl IggyByteSize {
    pub fn as_bytes_u64(&self) -> (r: u64) ensures r == self.0, { self.0 }
}

// ---- on-disk formats (same definitions as unit codec_storage; re-anchored to the writers by [C03.rebuild.fmt.*]) ----
// batch header (24 bytes):  base_offset:u64 | length:u32 | last_offset_delta:u32 | max_timestamp:u64
pub open spec fn enc_batch_header(base_offset: u64, length: u32, last_offset_delta: u32, max_timestamp: u64) -> Seq<u8> {
    le64(base_offset) + le32(length) + le32(last_offset_delta) + le64(max_timestamp)
}
// index record (16 bytes):  offset:u32 (relative to the segment start) | position:u32 | timestamp:u64
pub open spec fn enc_index(i: Index) -> Seq<u8> { le32(i.offset) + le32(i.position) + le64(i.timestamp) }

// ---- I/O stand-ins (A-io) ----
#[derive(PartialEq, Eq, Clone, Copy)]
pub enum ErrorKind { UnexpectedEof, Other }
impl vstd::std_specs::cmp::PartialEqSpecImpl for ErrorKind {
    open spec fn obeys_eq_spec() -> bool { true }
    open spec fn eq_spec(&self, other: &ErrorKind) -> bool { *self == *other }
}
pub struct IoError { pub k: ErrorKind }
impl IoError {
    pub fn kind(&self) -> (r: ErrorKind) ensures r == self.k, { self.k }
}
// server_error::CompatError (error_set!): `?` / `.into()` wrap an io::Error
pub enum CompatError { IoError(IoError), Other }
impl From<IoError> for CompatError {
    fn from(e: IoError) -> (r: CompatError) { CompatError::IoError(e) }
}
impl vstd::std_specs::convert::FromSpecImpl<IoError> for CompatError {
    open spec fn obeys_from_spec() -> bool { true }
    open spec fn from_spec(e: IoError) -> CompatError { CompatError::IoError(e) }
}
pub enum SeekFrom { Start(u64), End(i64), Current(i64) }

#[verifier::external_body]
pub struct BufReader { _p: () }
impl BufReader {
    pub uninterp spec fn data(&self) -> Seq<u8>;    // the file
    pub uninterp spec fn pos(&self) -> nat;         // the cursor
    #[verifier::external_body]
    pub fn read_u64_le(&mut self) -> (r: Result<u64, IoError>)
        ensures
            final(self).data() == old(self).data(),
            r matches Ok(x) ==> old(self).pos() + 8 <= old(self).data().len() && final(self).pos() == old(self).pos() + 8
                && x == un_le64(old(self).data().subrange(old(self).pos() as int, old(self).pos() as int + 8)),
            r matches Err(e) ==> (e.k == ErrorKind::UnexpectedEof ==> old(self).pos() + 8 > old(self).data().len()),
    { unimplemented!() }
    #[verifier::external_body]
    pub fn read_u32_le(&mut self) -> (r: Result<u32, IoError>)
        ensures
            final(self).data() == old(self).data(),
            r matches Ok(x) ==> old(self).pos() + 4 <= old(self).data().len() && final(self).pos() == old(self).pos() + 4
                && x == un_le32(old(self).data().subrange(old(self).pos() as int, old(self).pos() as int + 4)),
            r matches Err(e) ==> (e.k == ErrorKind::UnexpectedEof ==> old(self).pos() + 4 > old(self).data().len()),
    { unimplemented!() }
    #[verifier::external_body]
    pub fn seek(&mut self, to: SeekFrom) -> (r: Result<u64, IoError>)
        ensures
            final(self).data() == old(self).data(),
            r is Ok ==> (to matches SeekFrom::Current(n) ==> (n >= 0 ==> final(self).pos() == old(self).pos() + n)),
    { unimplemented!() }
}
#[verifier::external_body]
pub struct BufWriter { _p: () }
impl BufWriter {
    pub uninterp spec fn out(&self) -> Seq<u8>;     // everything written so far
    #[verifier::external_body]
    pub fn write_u32_le(&mut self, x: u32) -> (r: Result<(), IoError>)
        ensures r is Ok ==> final(self).out() == old(self).out() + le32(x),
    { unimplemented!() }
    #[verifier::external_body]
    pub fn write_u64_le(&mut self, x: u64) -> (r: Result<(), IoError>)
        ensures r is Ok ==> final(self).out() == old(self).out() + le64(x),
    { unimplemented!() }
    #[verifier::external_body]
    pub fn flush(&mut self) -> (r: Result<(), IoError>)
        ensures r is Ok ==> final(self).out() == old(self).out(),
    { unimplemented!() }
}

// ---- the log file of a segment after a clean shutdown: the stored batches back to back ----
pub struct BatchRec { pub base: u64, pub length: u32, pub delta: u32, pub max_ts: u64, pub payload: Seq<u8> }
pub open spec fn enc_batch(b: BatchRec) -> Seq<u8> { enc_batch_header(b.base, b.length, b.delta, b.max_ts) + b.payload }
pub open spec fn log_bytes(bs: Seq<BatchRec>) -> Seq<u8>
    decreases bs.len(),
{
    if bs.len() == 0 { Seq::empty() } else { log_bytes(bs.drop_last()) + enc_batch(bs.last()) }
}
// what SegmentLogWriter::save_batches leaves behind for a segment starting at `start`: the length field is the payload
// length, the last offset of every batch lies in the segment and its relative value fits the index record's u32
pub open spec fn log_wf(bs: Seq<BatchRec>, start: u64) -> bool {
    &&& forall|i: int| 0 <= i < bs.len() ==> (#[trigger] bs[i]).payload.len() == bs[i].length
    &&& forall|i: int| 0 <= i < bs.len() ==> start <= (#[trigger] bs[i]).base + bs[i].delta <= start + u32::MAX && bs[i].base + bs[i].delta <= u64::MAX
    &&& log_bytes(bs).len() <= u32::MAX       // positions are u32 (A-size: a segment file stays below 4 GiB)
}
// [C03.rebuild] from the property: the index the send path writes — one record per stored batch;
//   offset    = last offset of the batch - segment start   (Segment::store_offset_and_timestamp_index_for_batch, [C01.idx.rel])
//   position  = file position of the batch = bytes written before it (`last_index_position` BEFORE the batch is written)
//   timestamp = the batch's max timestamp
pub open spec fn written_index(bs: Seq<BatchRec>, i: int, start: u64) -> Index {
    Index { offset: (bs[i].base + bs[i].delta - start) as u32, position: log_bytes(bs.subrange(0, i)).len() as u32, timestamp: bs[i].max_ts }
}
pub open spec fn index_bytes(bs: Seq<BatchRec>, n: int, start: u64) -> Seq<u8>
    decreases n,
{
    if n <= 0 { Seq::empty() } else { index_bytes(bs, n - 1, start) + enc_index(written_index(bs, n - 1, start)) }
}
