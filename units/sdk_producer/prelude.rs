// ---- unit prelude: sdk_producer (C20, producer half) ---------------------------------------------------------------
// MODEL. The transport is ghost state: `Wire::log()` is the sequence of SendMessages requests the producer's client object
// has been asked to put on the wire, one record per call of `Client::send_messages` (the lowest function left as a stub),
// with the result the call reported. Nothing here re-states a function body of /repo: the extracted IggyProducer methods
// are the real text, and every stub below is a callee that is not extracted.
use std::sync::Arc;

global size_of usize == 8;   // 64-bit target

#[derive(Debug)]
pub enum IggyError { CannotSendMessagesDueToClientDisconnection, CannotEncryptData, InvalidMessagesCount, Disconnected, Other(u32) }

// ---- A-std: Arc::clone returns a pointer to the same value. Verus knows this for a direct `arc.clone()`; for a clone that
// goes through `Option<Arc<T>>::clone` vstd only says `cloned(a, b)`, and Verus cannot unfold that for Arc. ----
pub mod arcax {
    use vstd::prelude::*;
    use std::sync::Arc;
    #[verifier::external_body]
    pub broadcast proof fn axiom_arc_cloned<T>(a: Arc<T>, b: Arc<T>)
        ensures #[trigger] cloned(a, b) ==> a == b,
    { }
}
broadcast use arcax::axiom_arc_cloned;

// ---- messages ------------------------------------------------------------------------------------------------------
#[verifier::external_body]
pub struct Headers { x: u8 }

// `Bytes` derefs to `[u8]` (how `&message.payload` reaches `encrypt(&[u8])`)
impl core::ops::Deref for ByteSeq {
    type Target = [u8];
    fn deref(&self) -> (r: &[u8]) ensures r@ == self@ { self.v.as_slice() }
}

// ---- identifiers and partitionings as the wire sees them (views: a deep copy denotes the same target) ---------------
pub struct IdV { pub kind: IdKind, pub length: u8, pub value: Seq<u8> }
pub open spec fn idv(i: &Identifier) -> IdV { IdV { kind: i.kind, length: i.length, value: i.value@ } }
pub struct PartV { pub kind: PartitioningKind, pub length: u8, pub value: Seq<u8> }
pub open spec fn partv(p: &Partitioning) -> PartV { PartV { kind: p.kind, length: p.length, value: p.value@ } }
// "partition n": what Partitioning::partition_id(n) denotes ([C20.shape.partition_id]; the wire layout of it is C13's)
pub open spec fn part_of_id(n: u32) -> PartV { PartV { kind: PartitioningKind::PartitionId, length: 4, value: le32(n) } }

// ---- the wire ------------------------------------------------------------------------------------------------------
// one SendMessages request as handed to the client object; `ok`: what the call reported
pub struct WireRec { pub stream: IdV, pub topic: IdV, pub part: PartV, pub msgs: Seq<Message>, pub ok: bool }

// the far end of the producer's connection (R6-wire-param): no extracted function can construct or alter it except
// through Client::send_messages
#[verifier::external_body]
pub struct Wire { x: u8 }
impl Wire {
    pub uninterp spec fn log(&self) -> Seq<WireRec>;
}

// `Arc<IggySharedMut<Box<dyn Client>>>`
#[verifier::external_body]
pub struct ClientHandle { x: u8 }
impl ClientHandle {
    // A-transport: Client::send_messages (sdk/src/client.rs MessageClient; implemented by the TCP/QUIC/HTTP clients)
    #[verifier::external_body]
    pub fn send_messages(&self, wire: &mut Wire, stream_id: &Identifier, topic_id: &Identifier, partitioning: &Partitioning, messages: &mut [Message]) -> (r: Result<(), IggyError>)
        ensures
            final(wire).log() == old(wire).log().push(WireRec { stream: idv(stream_id), topic: idv(topic_id), part: partv(&*partitioning), msgs: old(messages)@, ok: r is Ok }),
            final(messages)@ == old(messages)@,
    { unimplemented!() }
}

// ---- reading the log -------------------------------------------------------------------------------------------------
pub open spec fn extends(w0: Seq<WireRec>, w1: Seq<WireRec>) -> bool { w0.len() <= w1.len() && w1.subrange(0, w0.len() as int) == w0 }
// the records a call added
pub open spec fn delta(w0: Seq<WireRec>, w1: Seq<WireRec>) -> Seq<WireRec> { w1.subrange(w0.len() as int, w1.len() as int) }
pub open spec fn all_to(d: Seq<WireRec>, s: IdV, t: IdV) -> bool { forall|i: int| 0 <= i < d.len() ==> (#[trigger] d[i]).stream == s && d[i].topic == t }
pub open spec fn all_with(d: Seq<WireRec>, p: PartV) -> bool { forall|i: int| 0 <= i < d.len() ==> (#[trigger] d[i]).part == p }
pub open spec fn batches_ok(d: Seq<WireRec>, n: int) -> bool { forall|i: int| 0 <= i < d.len() ==> 0 < (#[trigger] d[i]).msgs.len() <= n }
// every record (also one reported as failed) carries exactly `msgs`
pub open spec fn all_carry(d: Seq<WireRec>, msgs: Seq<Message>) -> bool { forall|i: int| 0 <= i < d.len() ==> (#[trigger] d[i]).msgs == msgs }
pub open spec fn none_ok(d: Seq<WireRec>) -> bool { forall|i: int| 0 <= i < d.len() ==> !(#[trigger] d[i]).ok }
// the messages of the requests reported as accepted, in order
pub open spec fn delivered(d: Seq<WireRec>) -> Seq<Message>
    decreases d.len(),
{
    if d.len() == 0 { Seq::empty() } else { delivered(d.drop_last()) + (if d.last().ok { d.last().msgs } else { Seq::empty() }) }
}
pub open spec fn is_prefix<T>(a: Seq<T>, b: Seq<T>) -> bool { a.len() <= b.len() && b.subrange(0, a.len() as int) == a }

// ---- configuration ---------------------------------------------------------------------------------------------------
pub open spec fn eff_batch(p: &IggyProducer) -> int { match p.batch_size { Some(n) => n as int, None => MAX_BATCH_SIZE as int } }
pub open spec fn cfg_ok(p: &IggyProducer) -> bool { p.batch_size != Some(0usize) && p.send_retries_count != Some(u32::MAX) }
// the partitioning a call is addressed with when no custom partitioner is configured: the argument, else the
// producer's configured one, else its default
pub open spec fn chosen_part(p: &IggyProducer, arg: Option<Arc<Partitioning>>) -> PartV {
    match arg { Some(a) => partv(&*a), None => match p.partitioning { Some(c) => partv(&*c), None => partv(&*p.default_partitioning) } }
}
// ... and with a custom partitioner: the partition it names for (stream, topic, the messages as sent)
pub open spec fn custom_part(p: &IggyProducer, s: IdV, t: IdV, sent: Seq<Message>, pv: PartV) -> bool {
    p.partitioner matches Some(pt) && pt.calc(s, t, sent) matches Ok(pid) && pv == part_of_id(pid)
}
// what `handed` (the messages given to the producer) looks like on the wire
pub open spec fn carries1(enc: Option<Arc<EncryptorKind>>, handed: Message, sent: Message) -> bool {
    match enc {
        None => sent == handed,
        Some(e) => sent.id == handed.id && sent.headers == handed.headers && e.opens_to(sent.payload@, handed.payload@)
            && (sent.payload@.len() <= u32::MAX ==> sent.length as int == sent.payload@.len()),
    }
}
pub open spec fn carries_prefix(enc: Option<Arc<EncryptorKind>>, handed: Seq<Message>, got: Seq<Message>) -> bool {
    got.len() <= handed.len() && forall|i: int| 0 <= i < got.len() ==> carries1(enc, handed[i], #[trigger] got[i])
}
pub open spec fn carries(enc: Option<Arc<EncryptorKind>>, handed: Seq<Message>, sent: Seq<Message>) -> bool {
    sent.len() == handed.len() && carries_prefix(enc, handed, sent)
}

// ---- A-dep: encryptor and custom partitioner ------------------------------------------------------------------------
#[verifier::external_body]
pub struct EncryptorKind { x: u8 }
impl EncryptorKind {
    // "c is a ciphertext of p under this encryptor's key" (AES-256-GCM with a fresh nonce is a relation, not a function)
    pub uninterp spec fn opens_to(&self, c: Seq<u8>, p: Seq<u8>) -> bool;
    #[verifier::external_body]
    pub fn encrypt(&self, data: &[u8]) -> (r: Result<Vec<u8>, IggyError>)
        ensures r matches Ok(c) ==> self.opens_to(c@, data@),
    { unimplemented!() }
}
// `dyn Partitioner`
#[verifier::external_body]
pub struct PartitionerObj { x: u8 }
impl PartitionerObj {
    pub uninterp spec fn calc(&self, s: IdV, t: IdV, msgs: Seq<Message>) -> Result<u32, IggyError>;
    #[verifier::external_body]
    pub fn calculate_partition_id(&self, stream_id: &Identifier, topic_id: &Identifier, messages: &[Message]) -> (r: Result<u32, IggyError>)
        ensures r == self.calc(idv(stream_id), idv(topic_id), messages@),
    { unimplemented!() }
}

// ---- R6 atomics / A-seq: cells written by other tasks -----------------------------------------------------------------
#[verifier::external_body]
pub struct CellBool { x: u8 }
impl CellBool {
    #[verifier::external_body]
    pub fn load(&self) -> (r: bool) { unimplemented!() }
}
#[verifier::external_body]
pub struct CellU64 { x: u8 }
impl CellU64 {
    #[verifier::external_body]
    pub fn load(&self) -> (r: u64) { unimplemented!() }
    #[verifier::external_body]
    pub fn store(&self, v: u64) { unimplemented!() }
}

// ---- A-clock, timers ----------------------------------------------------------------------------------------------------
pub struct IggyTimestamp { pub micros: u64 }
impl IggyTimestamp {
    #[verifier::external_body]
    pub fn now() -> (r: IggyTimestamp) { unimplemented!() }
}
impl From<IggyTimestamp> for u64 {
    #[verifier::external_body]
    fn from(t: IggyTimestamp) -> (r: u64) { unimplemented!() }
}
#[verifier::external_body]
pub struct Duration { x: u8 }
#[derive(Clone, Copy)]
pub struct IggyDuration { pub micros: u64 }
impl IggyDuration {
    #[verifier::external_body]
    pub fn get_duration(&self) -> (r: Duration) { unimplemented!() }
}
pub mod tokio {
    pub mod time {
        use vstd::prelude::*;
        use super::super::Duration;
        #[verifier::external_body]
        pub struct Interval { x: u8 }
        #[verifier::external_body]
        pub fn interval(d: Duration) -> (r: Interval) { unimplemented!() }
        impl Interval {
            // tokio::time::Interval::tick: completes at the next tick (waiting has no effect on the wire log)
            #[verifier::external_body]
            pub fn tick(&mut self) { unimplemented!() }
        }
    }
}
use tokio::time::Interval;
impl IggyProducer {
    // IggyProducer::wait_before_sending (sleeps until `interval` microseconds have passed since `last_sent_at`): NOT
    // extracted; it has no access to the client or the wire
    #[verifier::external_body]
    pub fn wait_before_sending(interval: u64, last_sent_at: u64) { unimplemented!() }
}

// ---- A-std: iteration schemas (R8) ---------------------------------------------------------------------------------------
pub open spec fn views(r: Seq<&mut [Message]>) -> Seq<Seq<Message>> { Seq::new(r.len(), |k: int| (*r[k])@) }
pub open spec fn concat(cs: Seq<Seq<Message>>) -> Seq<Message>
    decreases cs.len(),
{
    if cs.len() == 0 { Seq::empty() } else { concat(cs.drop_last()) + cs.last() }
}
// the documented result of `s.chunks(n)` / `s.chunks_mut(n)`: consecutive, non-overlapping, non-empty slices of length n
// (the last one possibly shorter) that together are s
pub open spec fn chunks_of(s: Seq<Message>, n: int, cs: Seq<Seq<Message>>) -> bool {
    &&& concat(cs) == s
    &&& forall|k: int| 0 <= k < cs.len() ==> 0 < (#[trigger] cs[k]).len() <= n
    &&& forall|k: int| 0 <= k < cs.len() - 1 ==> (#[trigger] cs[k]).len() == n
}
#[verifier::external_body]
pub fn std_chunks_mut<'a>(v: &'a mut Vec<Message>, n: usize) -> (r: Vec<&'a mut [Message]>)
    requires n != 0,
    ensures
        chunks_of(old(v)@, n as int, views(r@)),
{ unimplemented!() }
// The sibling adapter `v.chunks_exact_mut(n)` (std semantics): only the COMPLETE chunks of length n, in order; a shorter remainder
// is not yielded. Offered so that an edit from chunks_mut to chunks_exact_mut is decided by the clauses (the dropped tail refutes
// [C20.all.*]) instead of ending as a lost anchor (seed C20_1).
#[verifier::external_body]
pub fn std_chunks_exact_mut<'a>(v: &'a mut Vec<Message>, n: usize) -> (r: Vec<&'a mut [Message]>)
    requires n != 0,
    ensures
        concat(views(r@)) == old(v)@.take((old(v)@.len() as int / (n as int)) * (n as int)),
        forall|k: int| 0 <= k < r@.len() ==> (#[trigger] views(r@)[k]).len() == n,
{ unimplemented!() }
// `for x in <&mut [T]>`: one exclusive reference per element, in order; the slice after the borrows end holds, at each
// index, the final value of that index's borrow (as std_vec_iter_mut of unit encryption)
#[verifier::external_body]
pub fn std_slice_iter_mut<'a>(v: &'a mut [Message]) -> (r: Vec<&'a mut Message>)
    ensures
        final(v)@.len() == old(v)@.len(),
        r@.len() == old(v)@.len(),
        forall|i: int| 0 <= i < r@.len() ==> *#[trigger] r@[i] == old(v)@[i],
        forall|i: int| #![trigger r@[i]] #![trigger final(v)@[i]] 0 <= i < r@.len() ==> *final(r@[i]) == final(v)@[i],
{ unimplemented!() }
