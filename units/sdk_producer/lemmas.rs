// ---- lemmas: sdk_producer (C20) - proved on every run, spec level only ----------------------------------------------
// Algebra of the wire log (how the predicates of prelude.rs behave under `push` and `+`) and of chunk concatenation.
// The log lemmas are broadcast: the extracted functions return from inside match arms and `?` exits where no hint
// can be placed.

pub mod wirelem {
    use vstd::prelude::*;
    use super::*;

    pub broadcast proof fn lemma_delta_push(w0: Seq<WireRec>, w1: Seq<WireRec>, rec: WireRec)
        requires extends(w0, w1),
        ensures
            #![trigger delta(w0, w1.push(rec))]
            #![trigger extends(w0, w1.push(rec))]
            extends(w0, w1.push(rec)) && delta(w0, w1.push(rec)) == delta(w0, w1).push(rec),
    {
        assert(w1.push(rec).subrange(0, w0.len() as int) =~= w0);
        assert(delta(w0, w1.push(rec)) =~= delta(w0, w1).push(rec));
    }

    pub broadcast proof fn lemma_delta_self(w: Seq<WireRec>)
        ensures #![trigger delta(w, w)] #![trigger extends(w, w)] delta(w, w) == Seq::<WireRec>::empty() && extends(w, w),
    {
        assert(delta(w, w) =~= Seq::<WireRec>::empty());
        assert(w.subrange(0, w.len() as int) =~= w);
    }

    pub broadcast proof fn lemma_delta_trans(w0: Seq<WireRec>, w1: Seq<WireRec>, w2: Seq<WireRec>)
        requires #[trigger] extends(w0, w1), #[trigger] extends(w1, w2),
        ensures extends(w0, w2) && delta(w0, w2) == delta(w0, w1) + delta(w1, w2),
    {
        assert(w2.subrange(0, w0.len() as int) =~= w1.subrange(0, w0.len() as int));
        assert(delta(w0, w2) =~= delta(w0, w1) + delta(w1, w2));
    }

    pub broadcast proof fn lemma_delivered_push(d: Seq<WireRec>, rec: WireRec)
        ensures #[trigger] delivered(d.push(rec)) == delivered(d) + (if rec.ok { rec.msgs } else { Seq::<Message>::empty() }),
    {
        assert(d.push(rec).drop_last() =~= d);
    }

    pub broadcast proof fn lemma_delivered_add(a: Seq<WireRec>, b: Seq<WireRec>)
        ensures #[trigger] delivered(a + b) == delivered(a) + delivered(b),
        decreases b.len(),
    {
        if b.len() == 0 {
            assert(a + b =~= a);
            assert(delivered(a) + delivered(b) =~= delivered(a));
        } else {
            lemma_delivered_add(a, b.drop_last());
            assert((a + b).drop_last() =~= a + b.drop_last());
            let x = if b.last().ok { b.last().msgs } else { Seq::<Message>::empty() };
            assert((delivered(a) + delivered(b.drop_last())) + x =~= delivered(a) + (delivered(b.drop_last()) + x));
        }
    }

    pub broadcast proof fn lemma_delivered_none_ok(d: Seq<WireRec>)
        requires #[trigger] none_ok(d),
        ensures delivered(d) == Seq::<Message>::empty(),
        decreases d.len(),
    {
        if d.len() > 0 {
            assert(none_ok(d.drop_last())) by { assert forall|i: int| 0 <= i < d.drop_last().len() implies !(#[trigger] d.drop_last()[i]).ok by { assert(d.drop_last()[i] == d[i]); } }
            lemma_delivered_none_ok(d.drop_last());
            assert(!d[d.len() - 1].ok);
            assert(delivered(d.drop_last()) + Seq::<Message>::empty() =~= delivered(d.drop_last()));
        }
    }

    pub broadcast proof fn lemma_add_empty(s: Seq<Message>)
        ensures #[trigger] (s + Seq::<Message>::empty()) == s, #[trigger] (Seq::<Message>::empty() + s) == s,
    {
        assert(s + Seq::<Message>::empty() =~= s);
        assert(Seq::<Message>::empty() + s =~= s);
    }

    // the address / partitioning / batch predicates under push and +
    pub broadcast proof fn lemma_all_to_push(d: Seq<WireRec>, rec: WireRec, s: IdV, t: IdV)
        ensures #[trigger] all_to(d.push(rec), s, t) <==> (all_to(d, s, t) && rec.stream == s && rec.topic == t),
    {
        if all_to(d.push(rec), s, t) {
            assert(d.push(rec)[d.len() as int] == rec);
            assert forall|i: int| 0 <= i < d.len() implies (#[trigger] d[i]).stream == s && d[i].topic == t by { assert(d.push(rec)[i] == d[i]); }
        }
    }
    pub broadcast proof fn lemma_all_to_add(a: Seq<WireRec>, b: Seq<WireRec>, s: IdV, t: IdV)
        ensures #[trigger] all_to(a + b, s, t) <==> (all_to(a, s, t) && all_to(b, s, t)),
    {
        if all_to(a + b, s, t) {
            assert forall|i: int| 0 <= i < a.len() implies (#[trigger] a[i]).stream == s && a[i].topic == t by { assert((a + b)[i] == a[i]); }
            assert forall|i: int| 0 <= i < b.len() implies (#[trigger] b[i]).stream == s && b[i].topic == t by { assert((a + b)[a.len() + i] == b[i]); }
        }
    }
    pub broadcast proof fn lemma_all_with_push(d: Seq<WireRec>, rec: WireRec, p: PartV)
        ensures #[trigger] all_with(d.push(rec), p) <==> (all_with(d, p) && rec.part == p),
    {
        if all_with(d.push(rec), p) {
            assert(d.push(rec)[d.len() as int] == rec);
            assert forall|i: int| 0 <= i < d.len() implies (#[trigger] d[i]).part == p by { assert(d.push(rec)[i] == d[i]); }
        }
    }
    pub broadcast proof fn lemma_all_with_add(a: Seq<WireRec>, b: Seq<WireRec>, p: PartV)
        ensures #[trigger] all_with(a + b, p) <==> (all_with(a, p) && all_with(b, p)),
    {
        if all_with(a + b, p) {
            assert forall|i: int| 0 <= i < a.len() implies (#[trigger] a[i]).part == p by { assert((a + b)[i] == a[i]); }
            assert forall|i: int| 0 <= i < b.len() implies (#[trigger] b[i]).part == p by { assert((a + b)[a.len() + i] == b[i]); }
        }
    }
    pub broadcast proof fn lemma_all_carry_push(d: Seq<WireRec>, rec: WireRec, m: Seq<Message>)
        ensures #[trigger] all_carry(d.push(rec), m) <==> (all_carry(d, m) && rec.msgs == m),
    {
        if all_carry(d.push(rec), m) {
            assert(d.push(rec)[d.len() as int] == rec);
            assert forall|i: int| 0 <= i < d.len() implies (#[trigger] d[i]).msgs == m by { assert(d.push(rec)[i] == d[i]); }
        }
    }
    pub broadcast proof fn lemma_none_ok_push(d: Seq<WireRec>, rec: WireRec)
        ensures #[trigger] none_ok(d.push(rec)) <==> (none_ok(d) && !rec.ok),
    {
        if none_ok(d.push(rec)) {
            assert(d.push(rec)[d.len() as int] == rec);
            assert forall|i: int| 0 <= i < d.len() implies !(#[trigger] d[i]).ok by { assert(d.push(rec)[i] == d[i]); }
        }
    }
    // a batch that every attempt carried: the size bound of one record is the size bound of all of them
    pub broadcast proof fn lemma_batches_ok_carry(d: Seq<WireRec>, m: Seq<Message>, n: int)
        requires #[trigger] all_carry(d, m), 0 < m.len() <= n,
        ensures #[trigger] batches_ok(d, n),
    {
    }
    pub broadcast proof fn lemma_batches_ok_add(a: Seq<WireRec>, b: Seq<WireRec>, n: int)
        ensures #[trigger] batches_ok(a + b, n) <==> (batches_ok(a, n) && batches_ok(b, n)),
    {
        if batches_ok(a + b, n) {
            assert forall|i: int| 0 <= i < a.len() implies 0 < (#[trigger] a[i]).msgs.len() <= n by { assert((a + b)[i] == a[i]); }
            assert forall|i: int| 0 <= i < b.len() implies 0 < (#[trigger] b[i]).msgs.len() <= n by { assert((a + b)[a.len() + i] == b[i]); }
        }
    }
    // a prefix of the wire form carries a prefix of what was handed in
    pub broadcast proof fn lemma_carries_prefix(enc: Option<Arc<EncryptorKind>>, handed: Seq<Message>, sent: Seq<Message>, got: Seq<Message>)
        requires #[trigger] carries(enc, handed, sent), #[trigger] is_prefix(got, sent),
        ensures carries_prefix(enc, handed, got), got == sent ==> carries(enc, handed, got),
    {
        assert forall|i: int| 0 <= i < got.len() implies carries1(enc, handed[i], #[trigger] got[i]) by {
            assert(sent.subrange(0, got.len() as int)[i] == sent[i]);
        }
    }
    pub broadcast proof fn lemma_is_prefix_refl(s: Seq<Message>)
        ensures #[trigger] is_prefix(s, s),
    {
        assert(s.subrange(0, s.len() as int) =~= s);
    }
    pub broadcast proof fn lemma_is_prefix_empty(e: Seq<Message>, s: Seq<Message>)
        ensures e.len() == 0 ==> #[trigger] is_prefix(e, s),
    {
        if e.len() == 0 { assert(s.subrange(0, 0) =~= e); }
    }

    // ---- chunk concatenation ----
    pub proof fn lemma_concat_take_step(cs: Seq<Seq<Message>>, i: int)
        ensures 0 <= i < cs.len() ==> concat(cs.take(i + 1)) == concat(cs.take(i)) + cs[i],
    {
        if 0 <= i < cs.len() {
            assert(cs.take(i + 1).drop_last() =~= cs.take(i));
            assert(cs.take(i + 1).last() == cs[i]);
        }
    }
    // the first i chunks are a prefix of the whole; all chunks are the whole; no chunks are nothing
    pub broadcast proof fn lemma_concat_take_prefix(cs: Seq<Seq<Message>>, i: int)
        ensures
            0 <= i <= cs.len() ==> is_prefix(#[trigger] concat(cs.take(i)), concat(cs)),
            i == cs.len() ==> concat(cs.take(i)) == concat(cs),
            i == 0 ==> concat(cs.take(i)) == Seq::<Message>::empty(),
        decreases cs.len() - i,
    {
        if 0 <= i <= cs.len() {
            if i == cs.len() {
                assert(cs.take(i) =~= cs);
                assert(concat(cs).subrange(0, concat(cs).len() as int) =~= concat(cs));
            } else {
                lemma_concat_take_prefix(cs, i + 1);
                lemma_concat_take_step(cs, i);
                let a = concat(cs.take(i));
                let b = concat(cs.take(i + 1));
                assert(b.subrange(0, a.len() as int) =~= a);
                assert(concat(cs).subrange(0, a.len() as int) =~= concat(cs).subrange(0, b.len() as int).subrange(0, a.len() as int));
            }
        }
    }

    // non-empty chunks: there are at most as many chunks as messages
    pub proof fn lemma_concat_len(cs: Seq<Seq<Message>>)
        requires forall|k: int| 0 <= k < cs.len() ==> 0 < (#[trigger] cs[k]).len(),
        ensures cs.len() <= concat(cs).len(),
        decreases cs.len(),
    {
        if cs.len() > 0 {
            assert forall|k: int| 0 <= k < cs.drop_last().len() implies 0 < (#[trigger] cs.drop_last()[k]).len() by { assert(cs.drop_last()[k] == cs[k]); }
            lemma_concat_len(cs.drop_last());
            assert(0 < cs[cs.len() - 1].len());
        }
    }
    pub broadcast proof fn lemma_chunks_count(s: Seq<Message>, n: int, cs: Seq<Seq<Message>>)
        requires #[trigger] chunks_of(s, n, cs),
        ensures cs.len() <= s.len(),
    {
        lemma_concat_len(cs);
    }

    pub broadcast group wire_algebra {
        lemma_delta_push, lemma_delta_self, lemma_delta_trans, lemma_delivered_push, lemma_delivered_add, lemma_delivered_none_ok,
        lemma_add_empty, lemma_all_to_push, lemma_all_to_add, lemma_all_with_push, lemma_all_with_add, lemma_all_carry_push,
        lemma_none_ok_push, lemma_batches_ok_carry, lemma_batches_ok_add, lemma_carries_prefix, lemma_is_prefix_refl, lemma_is_prefix_empty, lemma_concat_take_prefix, lemma_chunks_count,
    }
}
// (used function by function: `broadcast use wirelem::wire_algebra;` is the first hint of every sending function)
