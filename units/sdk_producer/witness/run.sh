#!/usr/bin/env bash
# Runs the F110 witness against the real sdk crate.  usage: ./run.sh [<repo tree, default /repo>]
# exit 0 = the producer delivered where it was told to (repaired tree); 101 = a witness test failed (the defect reproduces);
# other = build problem. Builds offline with the versions locked by the tree's Cargo.lock into
# CARGO_TARGET_DIR (default /var/tmp/sdk_producer_target), never into /repo/target.
set -u
HERE="$(dirname "$(readlink -f "$0")")"
TREE="${1:-/repo}"
WORK="$HERE"
if [ "$TREE" != "/repo" ]; then
  # same crate against another tree: a scratch copy whose path dependency points there
  WORK="$(mktemp -d /var/tmp/sdk_producer_witness.XXXXXX)"
  trap 'rm -rf "$WORK"' EXIT
  cp -r "$HERE/Cargo.toml" "$HERE/tests" "$WORK/"
  sed -i "s#path = \"/repo/sdk\"#path = \"$TREE/sdk\"#" "$WORK/Cargo.toml"
fi
cd "$WORK" || exit 2
cp "$TREE/Cargo.lock" ./Cargo.lock || exit 2
export CARGO_NET_OFFLINE=true
export CARGO_TARGET_DIR="${CARGO_TARGET_DIR:-/var/tmp/sdk_producer_target}"
export RUST_BACKTRACE=0
cargo test --offline --test f110 -- --test-threads 1
exit $?
