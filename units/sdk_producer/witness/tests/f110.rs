//! F110 (C20): `IggyProducer::send_to(stream, topic, ..)` must deliver to the stream and topic given in the call.
//! The REAL producer (iggy::clients::producer::IggyProducer, built through IggyClient::producer) is driven against a fake
//! binary transport: every blanket `impl<B: BinaryClient> ...Client for B` of the SDK (the real request encoders) runs
//! unchanged, the fake only records the (code, payload) pairs that would go on the socket and answers "ok".
use async_broadcast::{broadcast, Receiver, Sender};
use async_trait::async_trait;
use bytes::Bytes;
use iggy::binary::binary_client::BinaryClient;
use iggy::binary::{BinaryTransport, ClientState};
use iggy::bytes_serializable::BytesSerializable;
use iggy::client::Client;
use iggy::clients::client::IggyClient;
use iggy::command::{Command, SEND_MESSAGES_CODE};
use iggy::diagnostic::DiagnosticEvent;
use iggy::error::IggyError;
use iggy::identifier::Identifier;
use iggy::messages::send_messages::{Message, Partitioning};
use iggy::utils::duration::IggyDuration;
use std::str::FromStr;
use std::sync::{Arc, Mutex};

#[derive(Debug)]
struct FakeTransport {
    wire: Arc<Mutex<Vec<(u32, Bytes)>>>,
    events: (Sender<DiagnosticEvent>, Receiver<DiagnosticEvent>),
}

#[async_trait]
impl BinaryTransport for FakeTransport {
    async fn get_state(&self) -> ClientState {
        ClientState::Authenticated
    }
    async fn set_state(&self, _state: ClientState) {}
    async fn publish_event(&self, _event: DiagnosticEvent) {}
    async fn send_with_response<T: Command>(&self, command: &T) -> Result<Bytes, IggyError> {
        self.send_raw_with_response(command.code(), command.to_bytes()).await
    }
    async fn send_raw_with_response(&self, code: u32, payload: Bytes) -> Result<Bytes, IggyError> {
        self.wire.lock().unwrap().push((code, payload));
        Ok(Bytes::new())
    }
    fn get_heartbeat_interval(&self) -> IggyDuration {
        IggyDuration::from_str("5s").unwrap()
    }
}

impl BinaryClient for FakeTransport {}

#[async_trait]
impl Client for FakeTransport {
    async fn connect(&self) -> Result<(), IggyError> {
        Ok(())
    }
    async fn disconnect(&self) -> Result<(), IggyError> {
        Ok(())
    }
    async fn shutdown(&self) -> Result<(), IggyError> {
        Ok(())
    }
    async fn subscribe_events(&self) -> Receiver<DiagnosticEvent> {
        self.events.1.clone()
    }
}

/// (stream, topic) of every SendMessages request on the wire: the payload starts with the two identifiers
fn addressed(wire: &Arc<Mutex<Vec<(u32, Bytes)>>>) -> Vec<(Identifier, Identifier)> {
    let mut out = Vec::new();
    for (code, payload) in wire.lock().unwrap().iter() {
        if *code != SEND_MESSAGES_CODE {
            continue;
        }
        let stream = Identifier::from_bytes(payload.clone()).unwrap();
        let at = 2 + stream.length as usize; // kind(1) + length(1) + value
        let topic = Identifier::from_bytes(payload.slice(at..)).unwrap();
        out.push((stream, topic));
    }
    out
}

fn producer_on(
    wire: &Arc<Mutex<Vec<(u32, Bytes)>>>,
    immediate: bool,
) -> iggy::clients::producer::IggyProducer {
    let fake = FakeTransport {
        wire: wire.clone(),
        events: broadcast(16),
    };
    let client = IggyClient::new(Box::new(fake));
    // the producer's own target: stream 1, topic 1
    let builder = client.producer("1", "1").unwrap().batch_size(2);
    let builder = if immediate {
        builder.without_send_interval()
    } else {
        builder.send_interval(IggyDuration::from_str("1ms").unwrap())
    };
    builder.build()
}

fn three_messages() -> Vec<Message> {
    (0..3)
        .map(|i| Message::from_str(&format!("m{i}")).unwrap())
        .collect()
}

async fn send_to_other(immediate: bool) {
    let wire = Arc::new(Mutex::new(Vec::new()));
    let producer = producer_on(&wire, immediate);
    let other_stream = Arc::new(Identifier::numeric(7).unwrap());
    let other_topic = Arc::new(Identifier::numeric(9).unwrap());
    producer
        .send_to(
            other_stream.clone(),
            other_topic.clone(),
            three_messages(),
            Some(Arc::new(Partitioning::partition_id(1))),
        )
        .await
        .unwrap();
    let got = addressed(&wire);
    assert_eq!(got.len(), 2, "3 messages with batch size 2 are two requests");
    for (stream, topic) in got {
        assert_eq!(
            (stream.to_string(), topic.to_string()),
            (other_stream.to_string(), other_topic.to_string()),
            "send_to(stream 7, topic 9, ..) put a request for stream {stream}, topic {topic} on the wire"
        );
    }
}

#[tokio::test]
async fn f110_send_to_immediate_goes_to_the_given_stream_and_topic() {
    send_to_other(true).await;
}

#[tokio::test]
async fn f110_send_to_buffered_goes_to_the_given_stream_and_topic() {
    send_to_other(false).await;
}

/// control: the calls addressed to the producer's own target do reach it (passes on both trees)
#[tokio::test]
async fn control_send_goes_to_the_producers_stream_and_topic() {
    for immediate in [true, false] {
        let wire = Arc::new(Mutex::new(Vec::new()));
        let producer = producer_on(&wire, immediate);
        producer.send(three_messages()).await.unwrap();
        let got = addressed(&wire);
        assert_eq!(got.len(), 2);
        for (stream, topic) in got {
            assert_eq!((stream.to_string(), topic.to_string()), ("1".to_string(), "1".to_string()));
        }
    }
}
