// ---- unit prelude: codec_requests (C13): wire format of the request payloads, composed from the core encodings ---------
// (vx/prelude/wire_core.rs). `enc_<Cmd>` is the payload the SDK sends after the command code; the server decodes it with
// `<Cmd>::from_bytes` (server/src/command.rs dispatches on the code to exactly these functions).

// partition_id on the wire: u32 LE, 0 = "none" (partition ids start at 1)
pub open spec fn pid_wire(p: Option<u32>) -> u32 { match p { Some(x) => x, None => 0 } }
pub open spec fn pid_valid(p: Option<u32>) -> bool { p != Some(0u32) }

// common head of PollMessages / StoreConsumerOffset / GetConsumerOffset:  Consumer | stream Identifier | topic Identifier | partition_id:u32
pub open spec fn enc_head(c: Consumer, s: Identifier, t: Identifier, p: Option<u32>) -> Seq<u8> {
    enc_consumer(c) + enc_identifier(s) + enc_identifier(t) + le32(pid_wire(p))
}
pub open spec fn head_valid(c: Consumer, s: Identifier, t: Identifier, p: Option<u32>) -> bool {
    consumer_valid(c) && id_valid(s) && id_valid(t) && pid_valid(p)
}
pub open spec fn head_eq(c: Consumer, s: Identifier, t: Identifier, p: Option<u32>, c2: Consumer, s2: Identifier, t2: Identifier, p2: Option<u32>) -> bool {
    consumer_eq(c, c2) && id_eq(s, s2) && id_eq(t, t2) && p == p2
}

// PollMessages:  head | strategy (kind:u8, value:u64) | count:u32 | auto_commit:u8 (1 = true)
pub open spec fn bool_wire(b: bool) -> u8 { if b { 1 } else { 0 } }
pub open spec fn poll_tail(st: PollingStrategy, count: u32, auto_commit: bool) -> Seq<u8> {
    enc_strategy(st) + le32(count) + seq![bool_wire(auto_commit)]
}
pub open spec fn enc_poll(m: PollMessages) -> Seq<u8> {
    enc_head(m.consumer, m.stream_id, m.topic_id, m.partition_id) + poll_tail(m.strategy, m.count, m.auto_commit)
}
pub open spec fn poll_valid(m: PollMessages) -> bool { head_valid(m.consumer, m.stream_id, m.topic_id, m.partition_id) }
pub open spec fn poll_eq(a: PollMessages, b: PollMessages) -> bool {
    head_eq(a.consumer, a.stream_id, a.topic_id, a.partition_id, b.consumer, b.stream_id, b.topic_id, b.partition_id)
        && a.strategy == b.strategy && a.count == b.count && a.auto_commit == b.auto_commit
}

// StoreConsumerOffset:  head | offset:u64
pub open spec fn enc_store(m: StoreConsumerOffset) -> Seq<u8> {
    enc_head(m.consumer, m.stream_id, m.topic_id, m.partition_id) + le64(m.offset)
}
pub open spec fn store_valid(m: StoreConsumerOffset) -> bool { head_valid(m.consumer, m.stream_id, m.topic_id, m.partition_id) }
pub open spec fn store_eq(a: StoreConsumerOffset, b: StoreConsumerOffset) -> bool {
    head_eq(a.consumer, a.stream_id, a.topic_id, a.partition_id, b.consumer, b.stream_id, b.topic_id, b.partition_id) && a.offset == b.offset
}

// GetConsumerOffset:  head
pub open spec fn enc_get(m: GetConsumerOffset) -> Seq<u8> { enc_head(m.consumer, m.stream_id, m.topic_id, m.partition_id) + Seq::<u8>::empty() }
pub open spec fn get_valid(m: GetConsumerOffset) -> bool { head_valid(m.consumer, m.stream_id, m.topic_id, m.partition_id) }
pub open spec fn get_eq(a: GetConsumerOffset, b: GetConsumerOffset) -> bool {
    head_eq(a.consumer, a.stream_id, a.topic_id, a.partition_id, b.consumer, b.stream_id, b.topic_id, b.partition_id)
}

// ---- layout of a frame that starts with a head (facts about the specification only) ------------------------------------------
pub open spec fn tail1(s: Identifier, t: Identifier, p: Option<u32>, tail: Seq<u8>) -> Seq<u8> { enc_identifier(s) + tail2(t, p, tail) }
pub open spec fn tail2(t: Identifier, p: Option<u32>, tail: Seq<u8>) -> Seq<u8> { enc_identifier(t) + tail3(p, tail) }
pub open spec fn tail3(p: Option<u32>, tail: Seq<u8>) -> Seq<u8> { le32(pid_wire(p)) + tail }

pub proof fn lemma_head_layout(c: Consumer, s: Identifier, t: Identifier, p: Option<u32>, tail: Seq<u8>)
    ensures
        ({
            let b = enc_head(c, s, t, p) + tail;
            let p1 = 3 + c.id.value@.len() as int;
            let p2 = p1 + 2 + s.value@.len() as int;
            let p3 = p2 + 2 + t.value@.len() as int;
            &&& b.len() == p3 + 4 + tail.len()
            &&& b == enc_consumer(c) + tail1(s, t, p, tail)
            &&& b[0] == consumerkind_code(c.kind)
            &&& b.subrange(1, b.len() as int) == enc_identifier(c.id) + tail1(s, t, p, tail)
            &&& b.subrange(p1, b.len() as int) == enc_identifier(s) + tail2(t, p, tail)
            &&& b.subrange(p2, b.len() as int) == enc_identifier(t) + tail3(p, tail)
            &&& b.subrange(p3, p3 + 4) == le32(pid_wire(p))
            &&& b.subrange(p3 + 4, b.len() as int) == tail
        }),
{
    lemma_le_facts();
    let b = enc_head(c, s, t, p) + tail;
    let p1 = 3 + c.id.value@.len() as int;
    let p2 = p1 + 2 + s.value@.len() as int;
    let p3 = p2 + 2 + t.value@.len() as int;
    assert(b =~= enc_consumer(c) + tail1(s, t, p, tail));
    assert(b.subrange(1, b.len() as int) =~= enc_identifier(c.id) + tail1(s, t, p, tail));
    assert(b.subrange(p1, b.len() as int) =~= enc_identifier(s) + tail2(t, p, tail));
    assert(b.subrange(p2, b.len() as int) =~= enc_identifier(t) + tail3(p, tail));
    assert(b.subrange(p3, p3 + 4) =~= le32(pid_wire(p)));
    assert(b.subrange(p3 + 4, b.len() as int) =~= tail);
}

// two valid heads that start the same buffer are equal, and so are the tails
pub proof fn lemma_head_prefix_free(c: Consumer, s: Identifier, t: Identifier, p: Option<u32>, tail: Seq<u8>,
                                    c2: Consumer, s2: Identifier, t2: Identifier, p2: Option<u32>, tail_2: Seq<u8>)
    requires
        head_valid(c, s, t, p), head_valid(c2, s2, t2, p2),
        enc_head(c, s, t, p) + tail == enc_head(c2, s2, t2, p2) + tail_2,
    ensures
        head_eq(c, s, t, p, c2, s2, t2, p2), tail == tail_2,
{
    lemma_le_facts();
    lemma_head_layout(c, s, t, p, tail);
    lemma_head_layout(c2, s2, t2, p2, tail_2);
    lemma_consumer_prefix_free(c, tail1(s, t, p, tail), c2, tail1(s2, t2, p2, tail_2));
    lemma_identifier_prefix_free(s, tail2(t, p, tail), s2, tail2(t2, p2, tail_2));
    lemma_identifier_prefix_free(t, tail3(p, tail), t2, tail3(p2, tail_2));
    assert(le32(pid_wire(p)) =~= tail3(p, tail).subrange(0, 4));
    assert(le32(pid_wire(p2)) =~= tail3(p2, tail_2).subrange(0, 4));
    assert(tail =~= tail3(p, tail).subrange(4, tail3(p, tail).len() as int));
    assert(tail_2 =~= tail3(p2, tail_2).subrange(4, tail3(p2, tail_2).len() as int));
    assert(un_le32(le32(pid_wire(p))) == un_le32(le32(pid_wire(p2))));
}

pub proof fn lemma_poll_tail_layout(st: PollingStrategy, count: u32, auto_commit: bool)
    ensures
        ({
            let b = poll_tail(st, count, auto_commit);
            &&& b.len() == 14
            &&& b[0] == pollingkind_code(st.kind)
            &&& b.subrange(1, 9) == le64(st.value)
            &&& b.subrange(9, 13) == le32(count)
            &&& b[13] == bool_wire(auto_commit)
        }),
{
    lemma_le_facts();
    let b = poll_tail(st, count, auto_commit);
    assert(b.subrange(1, 9) =~= le64(st.value));
    assert(b.subrange(9, 13) =~= le32(count));
}

pub proof fn lemma_poll_injective(a: PollMessages, b: PollMessages)
    requires poll_valid(a), poll_valid(b), enc_poll(a) == enc_poll(b),
    ensures poll_eq(a, b),
{
    lemma_le_facts();
    let ta = poll_tail(a.strategy, a.count, a.auto_commit);
    let tb = poll_tail(b.strategy, b.count, b.auto_commit);
    lemma_head_prefix_free(a.consumer, a.stream_id, a.topic_id, a.partition_id, ta, b.consumer, b.stream_id, b.topic_id, b.partition_id, tb);
    lemma_poll_tail_layout(a.strategy, a.count, a.auto_commit);
    lemma_poll_tail_layout(b.strategy, b.count, b.auto_commit);
    lemma_pollingkind_code_injective();
    assert(un_le64(le64(a.strategy.value)) == un_le64(le64(b.strategy.value)));
    assert(un_le32(le32(a.count)) == un_le32(le32(b.count)));
    assert(ta[13] == tb[13]);
}

// absolute positions of every field of a PollMessages frame
pub proof fn lemma_poll_layout(v: PollMessages)
    ensures
        ({
            let b = enc_poll(v);
            let p1 = 3 + v.consumer.id.value@.len() as int;
            let p2 = p1 + 2 + v.stream_id.value@.len() as int;
            let p3 = p2 + 2 + v.topic_id.value@.len() as int;
            &&& b.len() == p3 + 18
            &&& b[0] == consumerkind_code(v.consumer.kind)
            &&& b.subrange(1, b.len() as int) == enc_identifier(v.consumer.id) + tail1(v.stream_id, v.topic_id, v.partition_id, poll_tail(v.strategy, v.count, v.auto_commit))
            &&& b.subrange(p1, b.len() as int) == enc_identifier(v.stream_id) + tail2(v.topic_id, v.partition_id, poll_tail(v.strategy, v.count, v.auto_commit))
            &&& b.subrange(p2, b.len() as int) == enc_identifier(v.topic_id) + tail3(v.partition_id, poll_tail(v.strategy, v.count, v.auto_commit))
            &&& b.subrange(p3, p3 + 4) == le32(pid_wire(v.partition_id))
            &&& b[p3 + 4] == pollingkind_code(v.strategy.kind)
            &&& b.subrange(p3 + 5, p3 + 13) == le64(v.strategy.value)
            &&& b.subrange(p3 + 13, p3 + 17) == le32(v.count)
            &&& b[p3 + 17] == bool_wire(v.auto_commit)
        }),
{
    let b = enc_poll(v);
    let tl = poll_tail(v.strategy, v.count, v.auto_commit);
    let p1 = 3 + v.consumer.id.value@.len() as int;
    let p2 = p1 + 2 + v.stream_id.value@.len() as int;
    let p3 = p2 + 2 + v.topic_id.value@.len() as int;
    lemma_head_layout(v.consumer, v.stream_id, v.topic_id, v.partition_id, tl);
    lemma_poll_tail_layout(v.strategy, v.count, v.auto_commit);
    let t = b.subrange(p3 + 4, b.len() as int);
    assert(t == tl);
    assert(b[p3 + 4] == t[0]);
    assert(b.subrange(p3 + 5, p3 + 13) =~= t.subrange(1, 9));
    assert(b.subrange(p3 + 13, p3 + 17) =~= t.subrange(9, 13));
    assert(b[p3 + 17] == t[13]);
}

// the encoding and validity depend on the Rust value only through its contents (Vec views)
pub proof fn lemma_poll_eq_enc(a: PollMessages, b: PollMessages)
    requires poll_eq(a, b),
    ensures enc_poll(a) == enc_poll(b), poll_valid(a) == poll_valid(b),
{
    assert(enc_poll(a) =~= enc_poll(b));
}

// ---- StoreConsumerOffset ---------------------------------------------------------------------------------------------------
pub proof fn lemma_store_layout(v: StoreConsumerOffset)
    ensures
        ({
            let b = enc_store(v);
            let p1 = 3 + v.consumer.id.value@.len() as int;
            let p2 = p1 + 2 + v.stream_id.value@.len() as int;
            let p3 = p2 + 2 + v.topic_id.value@.len() as int;
            &&& b.len() == p3 + 12
            &&& b[0] == consumerkind_code(v.consumer.kind)
            &&& b.subrange(1, b.len() as int) == enc_identifier(v.consumer.id) + tail1(v.stream_id, v.topic_id, v.partition_id, le64(v.offset))
            &&& b.subrange(p1, b.len() as int) == enc_identifier(v.stream_id) + tail2(v.topic_id, v.partition_id, le64(v.offset))
            &&& b.subrange(p2, b.len() as int) == enc_identifier(v.topic_id) + tail3(v.partition_id, le64(v.offset))
            &&& b.subrange(p3, p3 + 4) == le32(pid_wire(v.partition_id))
            &&& b.subrange(p3 + 4, p3 + 12) == le64(v.offset)
        }),
{
    lemma_le_facts();
    lemma_head_layout(v.consumer, v.stream_id, v.topic_id, v.partition_id, le64(v.offset));
}
pub proof fn lemma_store_injective(a: StoreConsumerOffset, b: StoreConsumerOffset)
    requires store_valid(a), store_valid(b), enc_store(a) == enc_store(b),
    ensures store_eq(a, b),
{
    lemma_le_facts();
    lemma_head_prefix_free(a.consumer, a.stream_id, a.topic_id, a.partition_id, le64(a.offset), b.consumer, b.stream_id, b.topic_id, b.partition_id, le64(b.offset));
    assert(un_le64(le64(a.offset)) == un_le64(le64(b.offset)));
}
pub proof fn lemma_store_eq_enc(a: StoreConsumerOffset, b: StoreConsumerOffset)
    requires store_eq(a, b),
    ensures enc_store(a) == enc_store(b), store_valid(a) == store_valid(b),
{
    assert(enc_store(a) =~= enc_store(b));
}

// ---- GetConsumerOffset -----------------------------------------------------------------------------------------------------
pub proof fn lemma_get_layout(v: GetConsumerOffset)
    ensures
        ({
            let b = enc_get(v);
            let p1 = 3 + v.consumer.id.value@.len() as int;
            let p2 = p1 + 2 + v.stream_id.value@.len() as int;
            let p3 = p2 + 2 + v.topic_id.value@.len() as int;
            &&& b.len() == p3 + 4
            &&& b[0] == consumerkind_code(v.consumer.kind)
            &&& b.subrange(1, b.len() as int) == enc_identifier(v.consumer.id) + tail1(v.stream_id, v.topic_id, v.partition_id, Seq::<u8>::empty())
            &&& b.subrange(p1, b.len() as int) == enc_identifier(v.stream_id) + tail2(v.topic_id, v.partition_id, Seq::<u8>::empty())
            &&& b.subrange(p2, b.len() as int) == enc_identifier(v.topic_id) + tail3(v.partition_id, Seq::<u8>::empty())
            &&& b.subrange(p3, p3 + 4) == le32(pid_wire(v.partition_id))
        }),
{
    lemma_le_facts();
    lemma_head_layout(v.consumer, v.stream_id, v.topic_id, v.partition_id, Seq::<u8>::empty());
}
pub proof fn lemma_get_injective(a: GetConsumerOffset, b: GetConsumerOffset)
    requires get_valid(a), get_valid(b), enc_get(a) == enc_get(b),
    ensures get_eq(a, b),
{
    lemma_head_prefix_free(a.consumer, a.stream_id, a.topic_id, a.partition_id, Seq::<u8>::empty(), b.consumer, b.stream_id, b.topic_id, b.partition_id, Seq::<u8>::empty());
}
pub proof fn lemma_get_eq_enc(a: GetConsumerOffset, b: GetConsumerOffset)
    requires get_eq(a, b),
    ensures enc_get(a) == enc_get(b), get_valid(a) == get_valid(b),
{
    assert(enc_get(a) =~= enc_get(b));
}

// ---- CreateStream:  stream_id:u32 (0 = none) | name_length:u8 | name[name_length] ------------------------------------------
pub open spec fn opt_wire(p: Option<u32>) -> u32 { match p { Some(x) => x, None => 0 } }
pub open spec fn name_valid(n: Seq<u8>) -> bool { 1 <= n.len() <= 255 }
pub open spec fn enc_name8(n: Seq<u8>) -> Seq<u8> { seq![n.len() as u8] + n }

pub open spec fn enc_create_stream(m: CreateStream) -> Seq<u8> { le32(opt_wire(m.stream_id)) + enc_name8(m.name@) }
pub open spec fn create_stream_valid(m: CreateStream) -> bool { m.stream_id != Some(0u32) && name_valid(m.name@) }
pub open spec fn create_stream_eq(a: CreateStream, b: CreateStream) -> bool { a.stream_id == b.stream_id && a.name@ == b.name@ }

pub proof fn lemma_create_stream_layout(v: CreateStream)
    requires name_valid(v.name@),
    ensures
        ({
            let b = enc_create_stream(v);
            &&& b.len() == 5 + v.name@.len()
            &&& b.subrange(0, 4) == le32(opt_wire(v.stream_id))
            &&& b[4] == v.name@.len()
            &&& b.subrange(5, 5 + v.name@.len() as int) == v.name@
        }),
{
    lemma_le_facts();
    let b = enc_create_stream(v);
    assert(b.subrange(0, 4) =~= le32(opt_wire(v.stream_id)));
    assert(b.subrange(5, 5 + v.name@.len() as int) =~= v.name@);
}
pub proof fn lemma_create_stream_injective(a: CreateStream, b: CreateStream)
    requires create_stream_valid(a), create_stream_valid(b), enc_create_stream(a) == enc_create_stream(b),
    ensures create_stream_eq(a, b),
{
    lemma_le_facts();
    lemma_create_stream_layout(a);
    lemma_create_stream_layout(b);
    assert(un_le32(le32(opt_wire(a.stream_id))) == un_le32(le32(opt_wire(b.stream_id))));
}

// ---- CreateConsumerGroup:  stream Identifier | topic Identifier | group_id:u32 (0 = none) | name_length:u8 | name ------------
pub open spec fn ccg_tail(g: Option<u32>, n: Seq<u8>) -> Seq<u8> { le32(opt_wire(g)) + enc_name8(n) }
pub open spec fn enc_ccg(m: CreateConsumerGroup) -> Seq<u8> {
    enc_identifier(m.stream_id) + (enc_identifier(m.topic_id) + ccg_tail(m.group_id, m.name@))
}
pub open spec fn ccg_valid(m: CreateConsumerGroup) -> bool {
    id_valid(m.stream_id) && id_valid(m.topic_id) && m.group_id != Some(0u32) && name_valid(m.name@)
}
pub open spec fn ccg_eq(a: CreateConsumerGroup, b: CreateConsumerGroup) -> bool {
    id_eq(a.stream_id, b.stream_id) && id_eq(a.topic_id, b.topic_id) && a.group_id == b.group_id && a.name@ == b.name@
}
pub proof fn lemma_ccg_tail_layout(g: Option<u32>, n: Seq<u8>)
    requires name_valid(n),
    ensures
        ({
            let t = ccg_tail(g, n);
            &&& t.len() == 5 + n.len()
            &&& t.subrange(0, 4) == le32(opt_wire(g))
            &&& t[4] == n.len()
            &&& t.subrange(5, 5 + n.len() as int) == n
        }),
{
    lemma_le_facts();
    let t = ccg_tail(g, n);
    assert(t.subrange(0, 4) =~= le32(opt_wire(g)));
    assert(t.subrange(5, 5 + n.len() as int) =~= n);
}
pub proof fn lemma_ccg_layout(v: CreateConsumerGroup)
    requires name_valid(v.name@),
    ensures
        ({
            let b = enc_ccg(v);
            let p1 = 2 + v.stream_id.value@.len() as int;
            let p2 = p1 + 2 + v.topic_id.value@.len() as int;
            &&& b.len() == p2 + 5 + v.name@.len()
            &&& b == enc_identifier(v.stream_id) + (enc_identifier(v.topic_id) + ccg_tail(v.group_id, v.name@))
            &&& b.subrange(p1, b.len() as int) == enc_identifier(v.topic_id) + ccg_tail(v.group_id, v.name@)
            &&& b.subrange(p2, p2 + 4) == le32(opt_wire(v.group_id))
            &&& b[p2 + 4] == v.name@.len()
            &&& b.subrange(p2 + 5, p2 + 5 + v.name@.len() as int) == v.name@
        }),
{
    let b = enc_ccg(v);
    let t = ccg_tail(v.group_id, v.name@);
    let p1 = 2 + v.stream_id.value@.len() as int;
    let p2 = p1 + 2 + v.topic_id.value@.len() as int;
    lemma_ccg_tail_layout(v.group_id, v.name@);
    lemma_identifier_layout(v.stream_id, enc_identifier(v.topic_id) + t);
    lemma_identifier_layout(v.topic_id, t);
    assert(b.subrange(p1, b.len() as int) =~= enc_identifier(v.topic_id) + t);
    assert(b.subrange(p2, b.len() as int) =~= t);
    assert(b.subrange(p2, p2 + 4) =~= t.subrange(0, 4));
    assert(b[p2 + 4] == t[4]);
    assert(b.subrange(p2 + 5, p2 + 5 + v.name@.len() as int) =~= t.subrange(5, 5 + v.name@.len() as int));
}
pub proof fn lemma_ccg_injective(a: CreateConsumerGroup, b: CreateConsumerGroup)
    requires ccg_valid(a), ccg_valid(b), enc_ccg(a) == enc_ccg(b),
    ensures ccg_eq(a, b),
{
    lemma_le_facts();
    let ta = ccg_tail(a.group_id, a.name@);
    let tb = ccg_tail(b.group_id, b.name@);
    lemma_identifier_prefix_free(a.stream_id, enc_identifier(a.topic_id) + ta, b.stream_id, enc_identifier(b.topic_id) + tb);
    lemma_identifier_prefix_free(a.topic_id, ta, b.topic_id, tb);
    lemma_ccg_tail_layout(a.group_id, a.name@);
    lemma_ccg_tail_layout(b.group_id, b.name@);
    assert(un_le32(le32(opt_wire(a.group_id))) == un_le32(le32(opt_wire(b.group_id))));
}
pub proof fn lemma_ccg_eq_enc(a: CreateConsumerGroup, b: CreateConsumerGroup)
    requires ccg_eq(a, b),
    ensures enc_ccg(a) == enc_ccg(b), ccg_valid(a) == ccg_valid(b),
{
    assert(enc_ccg(a) =~= enc_ccg(b));
}
