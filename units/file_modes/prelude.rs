// ---- unit prelude: file_modes (C04: which open mode the small state files are rewritten with) ---------------------------------
#[verifier::external_body] pub struct IoError { x: u8 }
pub struct Mode { pub read: bool, pub write: bool, pub append: bool, pub create: bool, pub truncate: bool }
pub struct OpenOptions { pub m: Mode }
pub struct File { pub mode: Mode }
impl OpenOptions {
    pub fn new() -> (r: OpenOptions) ensures r.m == (Mode { read: false, write: false, append: false, create: false, truncate: false }) {
        OpenOptions { m: Mode { read: false, write: false, append: false, create: false, truncate: false } }
    }
    pub fn read(self, v: bool) -> (r: OpenOptions) ensures r.m == (Mode { read: v, ..self.m }) { OpenOptions { m: Mode { read: v, ..self.m } } }
    pub fn write(self, v: bool) -> (r: OpenOptions) ensures r.m == (Mode { write: v, ..self.m }) { OpenOptions { m: Mode { write: v, ..self.m } } }
    pub fn append(self, v: bool) -> (r: OpenOptions) ensures r.m == (Mode { append: v, ..self.m }) { OpenOptions { m: Mode { append: v, ..self.m } } }
    pub fn create(self, v: bool) -> (r: OpenOptions) ensures r.m == (Mode { create: v, ..self.m }) { OpenOptions { m: Mode { create: v, ..self.m } } }
    pub fn truncate(self, v: bool) -> (r: OpenOptions) ensures r.m == (Mode { truncate: v, ..self.m }) { OpenOptions { m: Mode { truncate: v, ..self.m } } }
    #[verifier::external_body]
    pub fn open(self, path: &str) -> (r: Result<File, IoError>)
        ensures r matches Ok(f) ==> f.mode == self.m,
    { unimplemented!() }
}
