// ---- unit prelude: codec_headers (C13). The wire format of the header map, its abstract content and the lemmas about them live in
// vx/prelude/wire_headers.rs (shared with codec_responses); here only what is private to the unit.

global size_of usize == 8;

pub enum IggyError { InvalidNumberEncoding, InvalidHeaderKey, InvalidHeaderValue, InvalidCommand, Other }

