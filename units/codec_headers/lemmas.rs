// ---- composition harness: the round trip over the two REAL functions ---------------------------------------------------------------------
// label: C13.rt.Headers.roundtrip
pub fn c13_headers_roundtrip(m: &HashMap<HeaderKey, HeaderValue>) -> (r: Result<HashMap<HeaderKey, HeaderValue>, IggyError>)
    requires hmap_valid(m@),
    ensures r matches Ok(q) && hmap_view(q@) == hmap_view(m@) && hmap_valid(q@),
{
    let b = m.to_bytes();
    HashMap::<HeaderKey, HeaderValue>::from_bytes(b)
}

// ---- facts about the SPECIFICATION ----------------------------------------------------------------------------------------------------------
// every ordering of the entries of a map is one of its encodings ([C13.rt.Headers] then says: each of them decodes to that map)
// label: C13.rt.Headers.perm
pub proof fn c13_headers_any_order(a: HdrMap, es1: Seq<HdrEntry>, es2: Seq<HdrEntry>)
    requires lists(es1, a), lists(es2, a),
    ensures hdr_enc_ok(a, enc_entries(es1)), hdr_enc_ok(a, enc_entries(es2)), map_of(es1) == map_of(es2),
{}
// label: C13.code.HeaderKind.inj
pub proof fn c13_code_headerkind_inj()
    ensures forall|a: HeaderKind, b: HeaderKind| headerkind_code(a) == headerkind_code(b) ==> a == b,
{}
