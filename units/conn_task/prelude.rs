// ---- unit prelude: conn_task (C13 last sentence / C08 "disconnects" / C06 no ghost records) -----------------------------------
// What happens when a TCP connection task ends — by an error of the connection loop OR by a panic inside it.
#[derive(Debug)]
pub enum IggyError { ConnectionClosed, Other(u32) }
#[derive(Debug)]
pub enum ConnectionError { SdkError(IggyError), IoError, Other }
impl From<IggyError> for ConnectionError {
    fn from(e: IggyError) -> (r: ConnectionError) ensures r == ConnectionError::SdkError(e) { ConnectionError::SdkError(e) }
}
impl vstd::std_specs::convert::FromSpecImpl<IggyError> for ConnectionError {
    open spec fn obeys_from_spec() -> bool { true }
    open spec fn from_spec(e: IggyError) -> ConnectionError { ConnectionError::SdkError(e) }
}
#[verifier::external_body] pub struct PanicPayload { x: u8 }
#[verifier::external_body] pub struct SocketAddr { x: u8 }
pub struct Session { pub client_id: u32 }

// the system, as far as a listener task touches it: the ghost log of the client ids handed to delete_client, in order
#[verifier::external_body]
pub struct SharedSystem { x: u8 }
impl SharedSystem {
    pub uninterp spec fn removed(&self) -> Seq<u32>;
    // Arc clone: the same system
    #[verifier::external_body]
    pub fn clone(&self) -> (r: SharedSystem) ensures r == *self { unimplemented!() }
    // System::delete_client (interior mutability behind the shared lock, R6): unit client_disconnect proves what it does to the
    // client table and the consumer-group memberships; here only THAT it is called, for which id, how often
    // STATED, NOT LINKED (link pass 2): `removed()` is a history (event log of the calls), not a function of any state of the real System, and
    // the stand-in is opaque: the real preconditions (members_wf, cm_ids_nonzero — the latter is what keeps `Identifier::numeric(id).unwrap()`
    // from panicking, client_disconnect [C06.nopanic.delete_client]) cannot be stated here. Assumed: the call returns.
    #[verifier::external_body]
    pub fn delete_client(&mut self, client_id: u32)
        ensures final(self).removed() == old(self).removed().push(client_id),
    { unimplemented!() }
}
#[verifier::external_body]
pub struct SenderKind { x: u8 }
impl SenderKind {
    pub uninterp spec fn is_shut(&self) -> bool;
    #[verifier::external_body]
    pub fn shutdown(&mut self) -> (r: Result<(), ConnectionError>)
        ensures r is Ok ==> final(self).is_shut(),
    { unimplemented!() }
}

// the fact a bare call of the connection loop would need: the loop — with every decoder and handler behind it — never panics.
// Uninterpreted and without any axiom: it cannot be discharged.
pub uninterp spec fn conn_panic_free() -> bool;

// tcp::connection_handler::handle_connection, called BARE (outside catch_unwind): a panic would unwind through the caller
#[verifier::external_body]
pub fn handle_connection(session: Session, sender: &mut SenderKind, system: SharedSystem) -> (r: Result<(), ConnectionError>)
    requires conn_panic_free(),     //@requires [C13.frame.task.panic-free]
    ensures r is Err,               // A-loop
{ unimplemented!() }
// the same loop run under catch_unwind (R8 future schema): Ok(loop's result) or Err(panic payload); no obligation on the loop
#[verifier::external_body]
pub fn caught_handle_connection(session: Session, sender: &mut SenderKind, system: SharedSystem) -> (r: Result<Result<(), ConnectionError>, PanicPayload>)
    ensures r matches Ok(inner) ==> inner is Err,    // A-loop
{ unimplemented!() }
#[verifier::external_body]
pub fn handle_error(error: ConnectionError) { unimplemented!() }
