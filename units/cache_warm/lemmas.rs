// ---- lemmas: cache_warm — the refill path ----
// the stored batches of a partition, split at a segment boundary
pub proof fn lemma_head_tail(segs: Seq<Segment>, j: int)
    requires 0 <= j <= segs.len(),
    ensures tail_batches(segs, 0) == head_batches(segs, j) + tail_batches(segs, j),
    decreases j,
{
    if j == 0 {
        assert(head_batches(segs, 0) + tail_batches(segs, 0) =~= tail_batches(segs, 0));
    } else {
        lemma_head_tail(segs, j - 1);
        assert((head_batches(segs, j - 1) + seg_file(&segs[j - 1])) + tail_batches(segs, j)
            =~= head_batches(segs, j - 1) + (seg_file(&segs[j - 1]) + tail_batches(segs, j)));
    }
}
pub proof fn lemma_views_add(a: Seq<RetainedMessageBatch>, b: Seq<RetainedMessageBatch>)
    ensures views(a + b) == views(a) + views(b),
{
    assert(views(a + b) =~= views(a) + views(b));
}
// a run of whole batches at the end of the batch list is, flattened, a suffix of the flattened list
pub proof fn lemma_bsuffix_flat(c: Seq<BatchV>, s: Seq<BatchV>)
    requires is_bsuffix(c, s),
    ensures is_suffix(flat(c), flat(s)),
{
    let pre = choose|pre: Seq<BatchV>| s == #[trigger] (pre + c);
    lemma_flat_add(pre, c);
    assert(flat(s).subrange(flat(s).len() - flat(c).len(), flat(s).len() as int) =~= flat(c));
}
// a non-empty suffix of a contiguous run that ends at `last` is a contiguous run that ends at `last`
pub proof fn lemma_suffix_run(c: Seq<RetainedMessage>, s: Seq<RetainedMessage>)
    requires is_suffix(c, s), c.len() > 0, contig(s, s[0].offset as int),
    ensures contig(c, c[0].offset as int), c.last() == s.last(),
{
    let d = s.len() - c.len();
    assert forall|i: int| 0 <= i < c.len() implies (#[trigger] c[i]).offset == c[0].offset + i by {
        assert(c[i] == s[d + i]);
        assert(c[0] == s[d]);
    }
    assert(c[c.len() - 1] == s[d + c.len() - 1]);
}

// ---- the byte budget ([C03.cache.newest.budget.helper]) ----
// positions depend only on the batches before them
pub proof fn lemma_pos_prefix(g: Seq<BatchV>, f: Seq<BatchV>, k: int)
    requires 0 <= k <= g.len(), k <= f.len(), forall|i: int| 0 <= i < k ==> g[i] == f[i],
    ensures pos(g, k) == pos(f, k),
    decreases k,
{
    if k > 0 { lemma_pos_prefix(g, f, k - 1); }
}
pub proof fn lemma_pos_add(a: Seq<BatchV>, b: Seq<BatchV>, k: int)
    requires 0 <= k <= b.len(),
    ensures pos(a + b, a.len() + k) == pos(a, a.len() as int) + pos(b, k),
    decreases k,
{
    if k == 0 {
        lemma_pos_prefix(a + b, a, a.len() as int);
    } else {
        lemma_pos_add(a, b, k - 1);
        assert((a + b)[a.len() + k - 1] == b[k - 1]);
    }
}
pub proof fn lemma_bytes_add(a: Seq<BatchV>, b: Seq<BatchV>)
    ensures bytes_of(a + b) == bytes_of(a) + bytes_of(b),
{
    lemma_pos_add(a, b, b.len() as int);
}
// the bytes of the run that starts at batch k of a file
pub proof fn lemma_bytes_subrange(f: Seq<BatchV>, k: int)
    requires 0 <= k <= f.len(),
    ensures bytes_of(f.subrange(k, f.len() as int)) == pos(f, f.len() as int) - pos(f, k),
{
    let a = f.subrange(0, k);
    let b = f.subrange(k, f.len() as int);
    assert(a + b =~= f);
    lemma_bytes_add(a, b);
    lemma_pos_prefix(a, f, k);
}

pub proof fn lemma_suffix_trans(a: Seq<RetainedMessage>, b: Seq<RetainedMessage>, c: Seq<RetainedMessage>)
    requires is_suffix(a, b), is_suffix(b, c),
    ensures is_suffix(a, c),
{
    assert(a =~= c.subrange(c.len() - a.len(), c.len() as int));
}

// ---- LINK harnesses: the contract this unit ASSUMES for the stub SegmentLogReader::load_batches_by_size_items (R8-callback-schema, call-site
// half), proved from the REAL SegmentLogReader::load_batches_by_size_with_callback run with a collecting callback. `requires` / `ensures` are
// copied VERBATIM from the stub in prelude.rs (one clause per harness: the second clause is a helper); mirror edits there.
impl SegmentLogReader {
    // label: C03.link.cache_warm.load_batches_by_size_items
    pub fn link_load_batches_by_size_items(&self, bytes_to_load: u64) -> (r: Result<Vec<RetainedMessageBatch>, IggyError>)
        requires
            self.reader_ok(),
        ensures
            r is Ok ==> is_file_suffix(self.file(), views(r->Ok_0@)),
    {
        let mut cb = BatchCallback { items: Vec::new() };
        match self.load_batches_by_size_with_callback(bytes_to_load, &mut cb) {
            Ok(()) => {
                proof { assert forall|k: int| 0 <= k <= self.file().len() implies Seq::<BatchV>::empty() + #[trigger] self.file().subrange(k, self.file().len() as int) =~= self.file().subrange(k, self.file().len() as int) by {} }
                Ok(cb.items)
            },
            Err(e) => Err(e),
        }
    }
    // label: C03.link.cache_warm.load_batches_by_size_items.shape.cut
    pub fn link_load_batches_by_size_items_cut(&self, bytes_to_load: u64) -> (r: Result<Vec<RetainedMessageBatch>, IggyError>)
        requires
            self.reader_ok(),
        ensures
            r is Ok ==> newest_by_size(self.file(), bytes_to_load as int, views(r->Ok_0@)),
    {
        let mut cb = BatchCallback { items: Vec::new() };
        match self.load_batches_by_size_with_callback(bytes_to_load, &mut cb) {
            Ok(()) => {
                proof { assert forall|k: int| 0 <= k <= self.file().len() implies Seq::<BatchV>::empty() + #[trigger] self.file().subrange(k, self.file().len() as int) =~= self.file().subrange(k, self.file().len() as int) by {} }
                Ok(cb.items)
            },
            Err(e) => Err(e),
        }
    }
}

// ---- COMPOSITION harness: the warm-up of one partition as Topic::load_messages_from_disk_to_cache performs it — the real fetch slice
// (Topic::warm_fetch -> Partition::get_newest_messages_by_size) followed by the real fill slice (Topic::warm_cache). The hypothesis of
// [C03.cache.warm.end] ("the fetched messages end at the current offset") is ESTABLISHED by [C03.cache.warm.fetch.run], not assumed:
// for a loaded partition (stored log contiguous, ending at current_offset; cache empty after Partition::create) and EVERY size to fetch
// (A-float), the cache afterwards is empty or a contiguous run of stored messages that ends at the partition's current offset.
impl Topic {
    // label: C03.cache.warm.compose
    pub fn warm_compose(partition: &mut Partition, size_to_fetch_from_disk: u64) -> (r: Result<(), IggyError>)
        requires
            part_rd_ok(old(partition)),
            stored_run_wf(old(partition)),
            cache_msgs(old(partition)).len() == 0,
            old(partition).current_offset < u64::MAX,      // A-size (cache_integrity_check computes offset + 1)
        ensures
            cache_run_wf(final(partition)),
            is_suffix(cache_msgs(final(partition)), part_stored(old(partition))),
            final(partition).current_offset == old(partition).current_offset,
            final(partition).segments == old(partition).segments,
    {
        proof {
            let s = part_stored(partition);
            assert forall|c: Seq<RetainedMessage>| c.len() == 0 implies #[trigger] is_suffix(c, s) by {
                assert(c =~= s.subrange(s.len() - c.len(), s.len() as int));
            }
        }
        let messages = Topic::warm_fetch(partition, size_to_fetch_from_disk)?;
        let ghost m = messages@;
        Topic::warm_cache(partition, messages);
        proof {
            if cache_msgs(partition).len() > 0 { lemma_suffix_trans(cache_msgs(partition), m, part_stored(old(partition))); }
        }
        Ok(())
    }
}
