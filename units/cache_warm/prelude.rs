// ---- unit prelude: cache_warm (C03: cache integrity check and cache warm-up after a restart) ----
global size_of usize == 8;

// IggyByteSize as an opaque value: the cache's byte accounting is not part of any view (see unit.toml assumes)
#[derive(Clone, Copy)]
pub struct ByteSz { pub b: u64 }
impl ByteSz {
    #[verifier::external_body] pub fn as_bytes_u64(&self) -> (r: u64) { unimplemented!() }
}
// no requires, no functional specification: the value is opaque
impl vstd::std_specs::ops::AddAssignSpecImpl for ByteSz {
    open spec fn obeys_add_assign_spec() -> bool { false }
    open spec fn add_assign_req(&self, rhs: ByteSz) -> bool { true }
    open spec fn add_assign_spec(&self, rhs: ByteSz) -> &Self { self }
}
impl vstd::std_specs::ops::SubAssignSpecImpl for ByteSz {
    open spec fn obeys_sub_assign_spec() -> bool { false }
    open spec fn sub_assign_req(&self, rhs: ByteSz) -> bool { true }
    open spec fn sub_assign_spec(&self, rhs: ByteSz) -> &Self { self }
}
impl core::ops::AddAssign for ByteSz {
    #[verifier::external_body] fn add_assign(&mut self, rhs: ByteSz) { unimplemented!() }
}
impl core::ops::SubAssign for ByteSz {
    #[verifier::external_body] fn sub_assign(&mut self, rhs: ByteSz) { unimplemented!() }
}
#[verifier::external_body] pub struct MetricCounter { x: u8 }
#[verifier::external_body] pub struct CacheMemoryTracker { x: u8 }
impl CacheMemoryTracker {
    // answers arbitrarily: every eviction pattern is covered
    #[verifier::external_body] pub fn will_fit_into_cache(&self, requested_size: ByteSz) -> (r: bool) { unimplemented!() }
    #[verifier::external_body] pub fn increment_used_memory(&self, size: u64) { unimplemented!() }
    #[verifier::external_body] pub fn decrement_used_memory(&self, size: u64) { unimplemented!() }
}
impl RetainedMessage {
    // RealSize::real_size: in-memory footprint of a message
    #[verifier::external_body] pub fn real_size(&self) -> (r: ByteSz) { unimplemented!() }
}
// atone::Vc::pop_front
#[verifier::external_body]
pub fn vec_pop_front<T>(v: &mut Vec<T>) -> (r: Option<T>)
    ensures
        old(v)@.len() == 0 ==> r is None && final(v)@ == old(v)@,
        old(v)@.len() > 0 ==> r == Some(old(v)@[0]) && final(v)@ == old(v)@.subrange(1, old(v)@.len() as int),
{ unimplemented!() }

pub open spec fn cache_msgs(p: &Partition) -> Seq<RetainedMessage> {
    match p.cache { Some(c) => c.buffer@, None => Seq::empty() }
}
pub open spec fn is_suffix(c: Seq<RetainedMessage>, s: Seq<RetainedMessage>) -> bool {
    c.len() <= s.len() && c == s.subrange(s.len() - c.len(), s.len() as int)
}
// the part of read_wf's cache_wf (unit read_partition) that the warm-up has to establish: a contiguous run ending at the
// partition's current offset
pub open spec fn cache_run_wf(p: &Partition) -> bool {
    let c = cache_msgs(p);
    c.len() > 0 ==> contig(c, c[0].offset as int) && c[0].offset + c.len() == p.current_offset + 1
}
