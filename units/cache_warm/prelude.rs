// ---- unit prelude: cache_warm (C03: cache integrity check and cache warm-up after a restart) ----
global size_of usize == 8;

// IggyByteSize as an opaque value: the cache's byte accounting is not part of any view (see unit.toml assumes)
#[derive(Clone, Copy)]
pub struct ByteSz { pub b: u64 }
impl ByteSz {
    // IggyByteSize is a u64 newtype; as_bytes_u64 returns the number (sdk/src/utils/byte_size.rs)
    #[verifier::external_body] pub fn as_bytes_u64(&self) -> (r: u64) ensures r == self.b, { unimplemented!() }
    // IggyByteSize::default(): used only by a log line here
    #[verifier::external_body] pub fn default() -> (r: ByteSz) { unimplemented!() }
}
// no requires, no functional specification: the value is opaque
impl vstd::std_specs::ops::AddAssignSpecImpl for ByteSz {
    open spec fn obeys_add_assign_spec() -> bool { false }
    open spec fn add_assign_req(&self, rhs: ByteSz) -> bool { true }
    open spec fn add_assign_spec(&self, rhs: ByteSz) -> &Self { self }
}
impl vstd::std_specs::ops::SubAssignSpecImpl for ByteSz {
    open spec fn obeys_sub_assign_spec() -> bool { false }
    open spec fn sub_assign_req(&self, rhs: ByteSz) -> bool { true }
    open spec fn sub_assign_spec(&self, rhs: ByteSz) -> &Self { self }
}
impl core::ops::AddAssign for ByteSz {
    #[verifier::external_body] fn add_assign(&mut self, rhs: ByteSz) { unimplemented!() }
}
impl core::ops::SubAssign for ByteSz {
    #[verifier::external_body] fn sub_assign(&mut self, rhs: ByteSz) { unimplemented!() }
}
#[verifier::external_body] pub struct MetricCounter { x: u8 }
#[verifier::external_body] pub struct CacheMemoryTracker { x: u8 }
impl CacheMemoryTracker {
    // answers arbitrarily: every eviction pattern is covered
    #[verifier::external_body] pub fn will_fit_into_cache(&self, requested_size: ByteSz) -> (r: bool) { unimplemented!() }
    #[verifier::external_body] pub fn increment_used_memory(&self, size: u64) { unimplemented!() }
    #[verifier::external_body] pub fn decrement_used_memory(&self, size: u64) { unimplemented!() }
}
impl RetainedMessage {
    // RealSize::real_size: in-memory footprint of a message
    #[verifier::external_body] pub fn real_size(&self) -> (r: ByteSz) { unimplemented!() }
}
// atone::Vc::pop_front
#[verifier::external_body]
pub fn vec_pop_front<T>(v: &mut Vec<T>) -> (r: Option<T>)
    ensures
        old(v)@.len() == 0 ==> r is None && final(v)@ == old(v)@,
        old(v)@.len() > 0 ==> r == Some(old(v)@[0]) && final(v)@ == old(v)@.subrange(1, old(v)@.len() as int),
{ unimplemented!() }

pub open spec fn cache_msgs(p: &Partition) -> Seq<RetainedMessage> {
    match p.cache { Some(c) => c.buffer@, None => Seq::empty() }
}
pub open spec fn is_suffix(c: Seq<RetainedMessage>, s: Seq<RetainedMessage>) -> bool {
    c.len() <= s.len() && c == s.subrange(s.len() - c.len(), s.len() as int)
}
// the part of read_wf's cache_wf (unit read_partition) that the warm-up has to establish: a contiguous run ending at the
// partition's current offset
pub open spec fn cache_run_wf(p: &Partition) -> bool {
    let c = cache_msgs(p);
    c.len() > 0 ==> contig(c, c[0].offset as int) && c[0].offset + c.len() == p.current_offset + 1
}

// =====================================================================================================================================
// the refill path (Partition::get_newest_messages_by_size and below)
// =====================================================================================================================================
// ---- stored batches, their sizes and file positions: VERBATIM from units/read_log/prelude.rs (= vx/prelude/segview.rs + slices.rs) ----
pub struct BatchV { pub base: int, pub delta: int, pub max_ts: int, pub msgs: Seq<RetainedMessage> }
pub open spec fn batch_view(b: &RetainedMessageBatch) -> BatchV {
    BatchV { base: b.base_offset as int, delta: b.last_offset_delta as int, max_ts: b.max_timestamp as int, msgs: b.bytes.msgs() }
}
pub open spec fn views(v: Seq<RetainedMessageBatch>) -> Seq<BatchV> { v.map(|i: int, b: RetainedMessageBatch| batch_view(&b)) }
pub open spec fn flat(f: Seq<BatchV>) -> Seq<RetainedMessage>
    decreases f.len(),
{
    if f.len() == 0 { Seq::empty() } else { flat(f.drop_last()) + f.last().msgs }
}
pub proof fn lemma_flat_push(f: Seq<BatchV>, b: BatchV)
    ensures flat(f.push(b)) == flat(f) + b.msgs,
{ assert(f.push(b).drop_last() =~= f); }
pub proof fn lemma_flat_add(a: Seq<BatchV>, b: Seq<BatchV>)
    ensures flat(a + b) == flat(a) + flat(b),
    decreases b.len(),
{
    if b.len() == 0 {
        assert(a + b =~= a);
        assert(flat(a) + flat(b) =~= flat(a));
    } else {
        lemma_flat_add(a, b.drop_last());
        assert((a + b).drop_last() =~= a + b.drop_last());
        assert((a + b).last() == b.last());
        assert((flat(a) + flat(b.drop_last())) + b.last().msgs =~= flat(a) + (flat(b.drop_last()) + b.last().msgs));
    }
}
// bytes a stored batch occupies: 24-byte header + encoded messages
pub open spec fn bsize(b: BatchV) -> nat { (24 + total_size(b.msgs)) as nat }
// file position at which batch k starts (k == len: end of file)
pub open spec fn pos(f: Seq<BatchV>, k: int) -> nat
    decreases k,
{
    if k <= 0 { 0 } else { pos(f, k - 1) + bsize(f[k - 1]) }
}
pub proof fn lemma_pos_mono(f: Seq<BatchV>, i: int, j: int)
    requires 0 <= i <= j,
    ensures pos(f, i) <= pos(f, j), i < j ==> pos(f, i) + 24 <= pos(f, j),
    decreases j - i,
{
    if i < j { lemma_pos_mono(f, i, j - 1); }
}
pub open spec fn pos_injective(f: Seq<BatchV>) -> bool {
    forall|i: int, j: int| 0 <= i <= f.len() && 0 <= j <= f.len() && #[trigger] pos(f, i) == #[trigger] pos(f, j) ==> i == j
}
pub proof fn lemma_pos_inj_all(f: Seq<BatchV>)
    ensures pos_injective(f),
{
    assert forall|i: int, j: int| 0 <= i <= f.len() && 0 <= j <= f.len() && #[trigger] pos(f, i) == #[trigger] pos(f, j) implies i == j by {
        if i < j { lemma_pos_mono(f, i, j); }
        if j < i { lemma_pos_mono(f, j, i); }
    }
}

impl SegmentLogReader {
    // A-io: the log file behind the reader, as the sequence of stored batches; the published size is its length
    pub uninterp spec fn file(&self) -> Seq<BatchV>;
    pub open spec fn reader_ok(&self) -> bool { self.log_size_bytes.v == pos(self.file(), self.file().len() as int) }

    // SegmentLogReader::read_next_batch — VERBATIM from units/read_log/prelude.rs (byte-level parsing of header and payload; its
    // torn-file behaviour is C04's): at the start position of a complete stored batch it returns that batch and its size (or an I/O
    // error); it returns None only where no complete batch starts within file_size; it never invents a batch.
    #[verifier::external_body]
    pub fn read_next_batch(&self, offset: u64, file_size: u64) -> (r: Result<Option<(RetainedMessageBatch, u64)>, IggyError>)
        ensures
            r matches Ok(Some((b, n))) ==> exists|k: int| 0 <= k < self.file().len() && offset == pos(self.file(), k)
                && #[trigger] batch_view(&b) == self.file()[k] && n == bsize(self.file()[k]) && offset + n <= file_size,
            r matches Ok(None) ==> !exists|k: int| 0 <= k < self.file().len() && offset == #[trigger] pos(self.file(), k) && pos(self.file(), k + 1) <= file_size,
    { unimplemented!() }

    // SegmentLogReader::load_batches_by_range_impl (logs/log_reader.rs). ASSUMED here, PROVED in unit read_log: exactly the requires and
    // the clauses [C02.range.run], [C02.range.reach], [C02.range.min] of units/read_log/contracts.vspec (text VERBATIM from
    // units/read_disk/prelude.rs, whose copy is linked by the harness [C02.link.read_disk.load_batches_by_range_impl] of unit read_log).
    #[verifier::external_body]
    pub fn load_batches_by_range_impl(&self, index_range: &IndexRange) -> (r: Result<Vec<RetainedMessageBatch>, IggyError>)
        requires
            self.reader_ok(),
            exists|ks: int| 0 <= ks <= self.file().len() && index_range.start.position == #[trigger] pos(self.file(), ks),
        ensures
            // [C02.range.run]
            r is Ok ==> forall|ks: int| 0 <= ks <= self.file().len() && index_range.start.position == #[trigger] pos(self.file(), ks)
                ==> ks + r->Ok_0@.len() <= self.file().len() && views(r->Ok_0@) == self.file().subrange(ks, ks + r->Ok_0@.len()),
            // [C02.range.reach]
            r is Ok ==> forall|ks: int| 0 <= ks < self.file().len() && index_range.start.position == #[trigger] pos(self.file(), ks)
                ==> r->Ok_0@.len() >= 1 && (ks + r->Ok_0@.len() == self.file().len()
                     || pos(self.file(), ks + r->Ok_0@.len() - 1) >= index_range.end.position),
            // [C02.range.min]
            r is Ok ==> forall|ks: int, j: int| 0 <= ks <= self.file().len() && index_range.start.position == #[trigger] pos(self.file(), ks)
                && ks <= j < ks + r->Ok_0@.len() - 1 ==> #[trigger] pos(self.file(), j) < index_range.end.position,
    { unimplemented!() }

    // R8-callback-schema, call-site half: the batches `load_batches_by_size_with_callback(bytes_to_load, f)` hands to `f`, in order.
    // PROVED from the real function by the link harnesses [C03.link.cache_warm.load_batches_by_size_items] (first clause) and
    // [C03.link.cache_warm.load_batches_by_size_items.shape.cut] (second clause) of lemmas.rs (mirror edits there): the newest stored
    // batches — a run of whole batches at the END of the file, in file order; and where it is cut: exactly the batches that START
    // within the last `bytes_to_load` bytes of the file.
    #[verifier::external_body]
    pub fn load_batches_by_size_items(&self, bytes_to_load: u64) -> (r: Result<Vec<RetainedMessageBatch>, IggyError>)
        requires
            self.reader_ok(),
        ensures
            r is Ok ==> is_file_suffix(self.file(), views(r->Ok_0@)),
            r is Ok ==> newest_by_size(self.file(), bytes_to_load as int, views(r->Ok_0@)),
    { unimplemented!() }
}
// `got` is a run of whole stored batches at the end of the file `f`
pub open spec fn is_file_suffix(f: Seq<BatchV>, got: Seq<BatchV>) -> bool {
    exists|k: int| 0 <= k <= f.len() && got == #[trigger] f.subrange(k, f.len() as int)
}
// the byte budget: `got` is the run of the stored batches `f` that start within the last `budget` bytes of the file
pub open spec fn newest_by_size(f: Seq<BatchV>, budget: int, got: Seq<BatchV>) -> bool {
    exists|k: int| #[trigger] newest_cut(f, budget, k) && got == f.subrange(k, f.len() as int)
}
pub open spec fn newest_cut(f: Seq<BatchV>, budget: int, k: int) -> bool {
    &&& 0 <= k <= f.len()
    &&& forall|j: int| 0 <= j < k ==> #[trigger] pos(f, j) + budget < pos(f, f.len() as int)
    &&& forall|j: int| k <= j < f.len() ==> #[trigger] pos(f, j) + budget >= pos(f, f.len() as int)
}
// the bytes a run of stored batches occupies
pub open spec fn bytes_of(c: Seq<BatchV>) -> nat { pos(c, c.len() as int) }

// R8-callback-schema, reader half: the callback as an object whose only observable is the list of batches it accepted (a call may fail)
pub struct BatchCallback { pub items: Vec<RetainedMessageBatch> }
impl BatchCallback {
    #[verifier::external_body]
    pub fn call(&mut self, batch: RetainedMessageBatch) -> (r: Result<(), IggyError>)
        ensures
            r is Ok ==> final(self).items@ == old(self).items@.push(batch),
            r is Err ==> final(self).items@ == old(self).items@,
    { unimplemented!() }
}

impl RetainedMessageBatch {
    // Sizeable::get_size_bytes (header + payload length): used only by a log line here
    #[verifier::external_body] pub fn get_size_bytes(&self) -> (r: ByteSz) { unimplemented!() }
}
// R8 batch-iteration schema (VERBATIM from unit read_log): RetainedMessageBatch::into_messages_iter yields the encoded messages in order
#[verifier::external_body]
pub fn batch_messages(b: RetainedMessageBatch) -> (r: Vec<RetainedMessage>)
    ensures r@ == b.bytes.msgs(),
{ unimplemented!() }

// ---- A-std schemas ----
// `v.iter().rev()`: the elements last to first
#[verifier::external_body]
pub fn std_iter_rev<T>(v: &Vec<T>) -> (r: Vec<&T>)
    ensures r@.len() == v@.len(), forall|i: int| 0 <= i < r@.len() ==> *(#[trigger] r@[i]) == v@[v@.len() - 1 - i],
{ unimplemented!() }
// `v.splice(..0, items)`: replaces the empty range at the front by the items, i.e. prepends them
#[verifier::external_body]
pub fn vec_splice_front<T>(v: &mut Vec<T>, items: Vec<T>)
    ensures final(v)@ == items@ + old(v)@,
{ unimplemented!() }
// `v.extend(items)`: appends the items
#[verifier::external_body]
pub fn vec_extend_items<T>(v: &mut Vec<T>, items: Vec<T>)
    ensures final(v)@ == old(v)@ + items@,
{ unimplemented!() }
// R4 (Arc<T> == T): `.into_iter().map(Arc::new)` / `.into_iter().map(Arc::new).collect()` / `.map(Arc::new).collect::<Vec<_>>()` are
// the same items (verified identities)
pub trait ArcMapIdent: Sized { fn into_iter_map_arc_new(self) -> Self; fn into_iter_map_arc_new_collect(self) -> Self; fn map_arc_new_collect(self) -> Self; }
impl<T> ArcMapIdent for Vec<T> {
    fn into_iter_map_arc_new(self) -> (r: Self) ensures r == self, { self }
    fn into_iter_map_arc_new_collect(self) -> (r: Self) ensures r == self, { self }
    fn map_arc_new_collect(self) -> (r: Self) ensures r == self, { self }
}

// ---- the partition's stored log ----
// A-io: reader and writer of a segment are handles on the same file (vx/prelude/segview.rs seg_disk; rd_wf of unit read_disk)
pub open spec fn seg_file(s: &Segment) -> Seq<BatchV> { s.log_reader->0.file() }
// what the restart leaves for every segment: a reader whose published size is the file's length ([C03.seg.published]), size_bytes the
// file's length ([C03.seg.size]), the file below 4 GiB (A-size: index positions are u32; as rd_wf of unit read_disk)
pub open spec fn seg_rd_ok(s: &Segment) -> bool {
    &&& s.log_reader is Some
    &&& s.log_reader->0.reader_ok()
    &&& s.size_bytes.b == pos(seg_file(s), seg_file(s).len() as int)
    &&& pos(seg_file(s), seg_file(s).len() as int) <= u32::MAX
}
// the stored batches of the segments [j, len) / [0, j), oldest first
pub open spec fn tail_batches(segs: Seq<Segment>, j: int) -> Seq<BatchV>
    decreases segs.len() - j,
{
    if j >= segs.len() || j < 0 { Seq::empty() } else { seg_file(&segs[j]) + tail_batches(segs, j + 1) }
}
pub open spec fn head_batches(segs: Seq<Segment>, j: int) -> Seq<BatchV>
    decreases j,
{
    if j <= 0 { Seq::empty() } else { head_batches(segs, j - 1) + seg_file(&segs[j - 1]) }
}
pub open spec fn part_batches(p: &Partition) -> Seq<BatchV> { tail_batches(p.segments@, 0) }
// the partition's stored log: flat over the segments in order (after a restart the buffers are empty: this is the whole log)
pub open spec fn part_stored(p: &Partition) -> Seq<RetainedMessage> { flat(part_batches(p)) }
pub open spec fn part_rd_ok(p: &Partition) -> bool {
    forall|i: int| 0 <= i < p.segments@.len() ==> seg_rd_ok(#[trigger] &p.segments@[i])
}
// the loaded-partition invariant as far as the cache refill needs it: the stored log is one contiguous run that ends at the partition's
// current offset (units recovery / recovery_more: [C03.view], [C03.next], [C03.end])
pub open spec fn stored_run_wf(p: &Partition) -> bool {
    let s = part_stored(p);
    s.len() > 0 ==> contig(s, s[0].offset as int) && s.last().offset == p.current_offset
}
// typed views of locals declared by `let mut x = Vec::new()` (their element type is inferred later)
pub open spec fn bviews(v: &Vec<RetainedMessageBatch>) -> Seq<BatchV> { views(v@) }
pub open spec fn mview(v: &Vec<RetainedMessage>) -> Seq<RetainedMessage> { v@ }
// `c` is a run of whole batches at the end of `s`
pub open spec fn is_bsuffix(c: Seq<BatchV>, s: Seq<BatchV>) -> bool {
    exists|pre: Seq<BatchV>| s == #[trigger] (pre + c)
}
