// ---- unit prelude: offsets (C01, C18) ----
pub const RETAINED_BATCH_HEADER_LEN: u64 = 8 + 8 + 4 + 4;

pub open spec fn acc_wf(a: &BatchAccumulator) -> bool {
    a.messages@.len() > 0 ==> {
        &&& contig(a.messages@, a.base_offset as int)
        &&& a.current_offset == a.messages@.last().offset
        &&& a.current_timestamp == a.messages@.last().timestamp
    }
}

// --- configuration (only the fields the extracted functions read; all symbolic) ---
pub struct PartitionConfig { pub messages_required_to_save: u32, pub enforce_fsync: bool }
pub struct SegmentConfig { pub size: u64, pub cache_indexes: bool, pub message_expiry: IggyExpiry, pub server_confirmation: Confirmation }
pub struct SystemConfig { pub partition: PartitionConfig, pub segment: SegmentConfig }
#[derive(Clone, Copy)]
pub enum IggyExpiry { ServerDefault, ExpireDuration(u64), NeverExpire }

// --- one stored batch as the log file holds it (header + messages) ---
pub struct BatchV { pub base: int, pub delta: int, pub max_ts: int, pub msgs: Seq<RetainedMessage> }
pub open spec fn batch_view(b: &RetainedMessageBatch) -> BatchV {
    BatchV { base: b.base_offset as int, delta: b.last_offset_delta as int, max_ts: b.max_timestamp as int, msgs: b.bytes.msgs() }
}
pub open spec fn batch_wf(b: BatchV) -> bool {
    b.msgs.len() > 0 && contig(b.msgs, b.base) && b.base + b.delta == b.msgs.last().offset
}
pub open spec fn flat(f: Seq<BatchV>) -> Seq<RetainedMessage>
    decreases f.len(),
{
    if f.len() == 0 { Seq::empty() } else { flat(f.drop_last()) + f.last().msgs }
}

pub proof fn lemma_flat_push(f: Seq<BatchV>, b: BatchV)
    ensures flat(f.push(b)) == flat(f) + b.msgs,
{
    assert(f.push(b).drop_last() =~= f);
}

// --- file handles (A-io): the log file is an append-only sequence of batches, the index file of records ---
#[verifier::external_body]
pub struct SegmentLogWriter { x: u8 }
impl SegmentLogWriter {
    pub uninterp spec fn file(&self) -> Seq<BatchV>;
    // SegmentLogWriter::save_batches — Ok: exactly this batch appended (Wait: written; NoWait: queued to the
    // persister task, assumed drained in order — A-io); Err: nothing appended.
    #[verifier::external_body]
    pub fn save_batches(&mut self, batch: RetainedMessageBatch, confirmation: Confirmation) -> (r: Result<u64, IggyError>)
        ensures
            r is Ok ==> final(self).file() == old(self).file().push(batch_view(&batch)) && r->Ok_0 == batch.length + RETAINED_BATCH_HEADER_LEN,
            r is Err ==> final(self).file() == old(self).file(),
    { unimplemented!() }
}
#[verifier::external_body]
pub struct SegmentLogReader { x: u8 }
impl SegmentLogReader {
    pub uninterp spec fn file(&self) -> Seq<BatchV>;
}
#[verifier::external_body]
pub struct SegmentIndexWriter { x: u8 }
impl SegmentIndexWriter {
    pub uninterp spec fn idx(&self) -> Seq<Index>;
    #[verifier::external_body]
    pub fn save_index(&mut self, index: Index) -> (r: Result<(), IggyError>)
        ensures
            r is Ok ==> final(self).idx() == old(self).idx().push(index),
            r is Err ==> final(self).idx() == old(self).idx(),
    { unimplemented!() }
}

impl Segment {
    // Segment::is_expired reads the last message back from disk; its decision is the business of C14 (unit retention).
    pub uninterp spec fn spec_is_expired(&self, now: IggyTimestamp) -> bool;
    #[verifier::external_body]
    pub fn is_expired(&self, now: IggyTimestamp) -> (r: bool)
        ensures r == self.spec_is_expired(now), !self.is_closed ==> !r,
    { unimplemented!() }
    // Segment::shutdown_writing: hands the writers to background tasks that fsync and close them (tokio::spawn)
    #[verifier::external_body]
    pub fn shutdown_writing(&mut self)
        ensures final(self).log_writer is None, final(self).index_writer is None,
            final(self).log_reader is Some == old(self).log_reader is Some,
            // A-io: what the writer had appended is what the reader of the same path sees
            (old(self).log_writer is Some && old(self).log_reader is Some) ==> final(self).log_reader->0.file() == old(self).log_writer->0.file(),
            final(self).start_offset == old(self).start_offset, final(self).end_offset == old(self).end_offset,
            final(self).current_offset == old(self).current_offset, final(self).is_closed == old(self).is_closed,
            final(self).unsaved_messages == old(self).unsaved_messages, final(self).size_bytes == old(self).size_bytes,
            final(self).indexes == old(self).indexes, final(self).last_index_position == old(self).last_index_position,
            final(self).config == old(self).config, final(self).max_size_bytes == old(self).max_size_bytes,
            final(self).size_of_parent_stream == old(self).size_of_parent_stream,
            final(self).size_of_parent_topic == old(self).size_of_parent_topic,
            final(self).size_of_parent_partition == old(self).size_of_parent_partition,
            final(self).messages_count_of_parent_stream == old(self).messages_count_of_parent_stream,
            final(self).messages_count_of_parent_topic == old(self).messages_count_of_parent_topic,
            final(self).messages_count_of_parent_partition == old(self).messages_count_of_parent_partition,
    { unimplemented!() }
}

// --- segment view ---
pub open spec fn seg_buf(s: &Segment) -> Seq<RetainedMessage> {
    match s.unsaved_messages { Some(a) => a.messages@, None => Seq::empty() }
}
// A-io: reader and writer of a segment are handles on the same file. While the segment is open the file is viewed
// through the writer; when the writer is handed to the closing task (shutdown_writing) the reader is what is left.
pub open spec fn seg_disk(s: &Segment) -> Seq<BatchV> {
    if s.log_writer is Some { s.log_writer->0.file() } else { s.log_reader->0.file() }
}
pub open spec fn seg_msgs(s: &Segment) -> Seq<RetainedMessage> { flat(seg_disk(s)) + seg_buf(s) }

// open (writable) segment invariant
pub open spec fn seg_wf(s: &Segment) -> bool {
    &&& !s.is_closed
    &&& s.log_writer is Some && s.index_writer is Some && s.log_reader is Some
    &&& s.unsaved_messages is Some ==> acc_wf(&s.unsaved_messages->0)
    &&& contig(seg_msgs(s), s.start_offset as int)
    &&& s.start_offset + seg_msgs(s).len() <= u64::MAX + 1
    &&& seg_msgs(s).len() > 0 ==> s.current_offset == seg_msgs(s).last().offset
    &&& seg_msgs(s).len() == 0 ==> s.current_offset == s.start_offset
    &&& forall|i: int| 0 <= i < seg_disk(s).len() ==> batch_wf(#[trigger] seg_disk(s)[i])
    &&& s.index_writer->0.idx().len() == seg_disk(s).len()
    &&& forall|i: int| 0 <= i < seg_disk(s).len() ==>
            (#[trigger] s.index_writer->0.idx()[i]).offset == seg_disk(s)[i].base + seg_disk(s)[i].delta - s.start_offset
}

