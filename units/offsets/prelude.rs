// ---- unit prelude: offsets (C01, C18) ----

pub open spec fn acc_wf(a: &BatchAccumulator) -> bool {
    a.messages@.len() > 0 ==> {
        &&& contig(a.messages@, a.base_offset as int)
        &&& a.current_offset == a.messages@.last().offset
        &&& a.current_timestamp == a.messages@.last().timestamp
    }
}

// --- configuration (only the fields the extracted functions read; all symbolic) ---
pub struct PartitionConfig { pub messages_required_to_save: u32, pub enforce_fsync: bool }
pub struct SegmentConfig { pub size: u64, pub cache_indexes: bool, pub message_expiry: IggyExpiry, pub server_confirmation: Confirmation }
pub struct SystemConfig { pub partition: PartitionConfig, pub segment: SegmentConfig }
#[derive(Clone, Copy)]
pub enum IggyExpiry { ServerDefault, ExpireDuration(u64), NeverExpire }

// --- one stored batch as the log file holds it (header + messages) ---
pub struct BatchV { pub base: int, pub delta: int, pub max_ts: int, pub msgs: Seq<RetainedMessage> }
pub open spec fn batch_view(b: &RetainedMessageBatch) -> BatchV {
    BatchV { base: b.base_offset as int, delta: b.last_offset_delta as int, max_ts: b.max_timestamp as int, msgs: b.bytes.msgs() }
}
pub open spec fn batch_wf(b: BatchV) -> bool {
    b.msgs.len() > 0 && contig(b.msgs, b.base) && b.base + b.delta == b.msgs.last().offset
}
pub open spec fn flat(f: Seq<BatchV>) -> Seq<RetainedMessage>
    decreases f.len(),
{
    if f.len() == 0 { Seq::empty() } else { flat(f.drop_last()) + f.last().msgs }
}

pub proof fn lemma_flat_push(f: Seq<BatchV>, b: BatchV)
    ensures flat(f.push(b)) == flat(f) + b.msgs,
{
    assert(f.push(b).drop_last() =~= f);
}

// --- file handles (A-io): the log file is an append-only sequence of batches, the index file of records ---
#[verifier::external_body]
pub struct SegmentLogWriter { x: u8 }
impl SegmentLogWriter {
    pub uninterp spec fn file(&self) -> Seq<BatchV>;
    // SegmentLogWriter::save_batches — Ok: exactly this batch appended (Wait: written; NoWait: queued to the
    // persister task, assumed drained in order — A-io); Err: nothing appended.
    #[verifier::external_body]
    pub fn save_batches(&mut self, batch: RetainedMessageBatch, confirmation: Confirmation) -> (r: Result<u64, IggyError>)
        ensures
            r is Ok ==> final(self).file() == old(self).file().push(batch_view(&batch)) && r->Ok_0 == batch.length + RETAINED_BATCH_HEADER_LEN,
            r is Err ==> final(self).file() == old(self).file(),
    { unimplemented!() }
}
#[verifier::external_body]
pub struct SegmentLogReader { x: u8 }
impl SegmentLogReader {
    pub uninterp spec fn file(&self) -> Seq<BatchV>;
}
#[verifier::external_body]
pub struct SegmentIndexWriter { x: u8 }
impl SegmentIndexWriter {
    pub uninterp spec fn idx(&self) -> Seq<Index>;
    #[verifier::external_body]
    pub fn save_index(&mut self, index: Index) -> (r: Result<(), IggyError>)
        ensures
            r is Ok ==> final(self).idx() == old(self).idx().push(index),
            r is Err ==> final(self).idx() == old(self).idx(),
    { unimplemented!() }
}

impl Segment {
    // Segment::is_expired reads the last message back from disk; its decision is the business of C14 (unit retention).
    pub uninterp spec fn spec_is_expired(&self, now: IggyTimestamp) -> bool;
    #[verifier::external_body]
    pub fn is_expired(&self, now: IggyTimestamp) -> (r: bool)
        ensures r == self.spec_is_expired(now), !self.is_closed ==> !r,
    { unimplemented!() }
    // Segment::shutdown_writing: hands the writers to background tasks that fsync and close them (tokio::spawn)
    #[verifier::external_body]
    pub fn shutdown_writing(&mut self)
        ensures final(self).log_writer is None, final(self).index_writer is None,
            final(self).log_reader is Some == old(self).log_reader is Some,
            // A-io: what the writer had appended is what the reader of the same path sees
            (old(self).log_writer is Some && old(self).log_reader is Some) ==> final(self).log_reader->0.file() == old(self).log_writer->0.file(),
            final(self).start_offset == old(self).start_offset, final(self).end_offset == old(self).end_offset,
            final(self).current_offset == old(self).current_offset, final(self).is_closed == old(self).is_closed,
            final(self).unsaved_messages == old(self).unsaved_messages, final(self).size_bytes == old(self).size_bytes,
            final(self).indexes == old(self).indexes, final(self).last_index_position == old(self).last_index_position,
            final(self).config == old(self).config, final(self).max_size_bytes == old(self).max_size_bytes,
            final(self).size_of_parent_stream == old(self).size_of_parent_stream,
            final(self).size_of_parent_topic == old(self).size_of_parent_topic,
            final(self).size_of_parent_partition == old(self).size_of_parent_partition,
            final(self).messages_count_of_parent_stream == old(self).messages_count_of_parent_stream,
            final(self).messages_count_of_parent_topic == old(self).messages_count_of_parent_topic,
            final(self).messages_count_of_parent_partition == old(self).messages_count_of_parent_partition,
    { unimplemented!() }
}

// --- segment view ---
pub open spec fn seg_buf(s: &Segment) -> Seq<RetainedMessage> {
    match s.unsaved_messages { Some(a) => a.messages@, None => Seq::empty() }
}
// A-io: reader and writer of a segment are handles on the same file. While the segment is open the file is viewed
// through the writer; when the writer is handed to the closing task (shutdown_writing) the reader is what is left.
pub open spec fn seg_disk(s: &Segment) -> Seq<BatchV> {
    if s.log_writer is Some { s.log_writer->0.file() } else { s.log_reader->0.file() }
}
pub open spec fn seg_msgs(s: &Segment) -> Seq<RetainedMessage> { flat(seg_disk(s)) + seg_buf(s) }

// open (writable) segment invariant
pub open spec fn seg_wf(s: &Segment) -> bool {
    &&& !s.is_closed
    &&& s.log_writer is Some && s.index_writer is Some && s.log_reader is Some
    &&& s.unsaved_messages is Some ==> acc_wf(&s.unsaved_messages->0)
    &&& contig(seg_msgs(s), s.start_offset as int)
    &&& s.start_offset + seg_msgs(s).len() <= u64::MAX + 1
    &&& seg_msgs(s).len() > 0 ==> s.current_offset == seg_msgs(s).last().offset
    &&& seg_msgs(s).len() == 0 ==> s.current_offset == s.start_offset
    &&& forall|i: int| 0 <= i < seg_disk(s).len() ==> batch_wf(#[trigger] seg_disk(s)[i])
    &&& s.index_writer->0.idx().len() == seg_disk(s).len()
    &&& forall|i: int| 0 <= i < seg_disk(s).len() ==>
            (#[trigger] s.index_writer->0.idx()[i]).offset == seg_disk(s)[i].base + seg_disk(s)[i].delta - s.start_offset
}


// --- moka cache of seen message ids (A-dep moka): a set, within the configured capacity and TTL ---
#[verifier::external_body]
pub struct MokaCache { x: u8 }
impl MokaCache {
    pub uninterp spec fn seen(&self) -> Set<u128>;
    #[verifier::external_body]
    pub fn contains_key(&self, id: &u128) -> (r: bool) ensures r == self.seen().contains(*id), { unimplemented!() }
    #[verifier::external_body]
    pub fn insert(&mut self, id: u128, v: bool) ensures final(self).seen() == old(self).seen().insert(id), { unimplemented!() }
}
// in-memory message cache of the partition (C02's business): opaque here
#[verifier::external_body]
pub struct SmartCache { x: u8 }
impl SmartCache {
    #[verifier::external_body]
    pub fn extend(&mut self, msgs: Vec<RetainedMessage>) { unimplemented!() }
}

// --- deduplication oracle: which of the first n messages are kept, given the ids already seen ---
pub open spec fn kept_prefix(seen0: Set<u128>, msgs: Seq<Message>, n: int) -> (Seq<Message>, Set<u128>)
    decreases n,
{
    if n <= 0 { (Seq::empty(), seen0) } else {
        let (k, s) = kept_prefix(seen0, msgs, n - 1);
        let m = msgs[n - 1];
        if s.contains(m.id) { (k, s) } else { (k.push(m), s.insert(m.id)) }
    }
}
pub open spec fn dedup_seen(p: &Partition) -> Set<u128> { p.message_deduplicator->0.cache.seen() }
// the messages a send keeps: all of them without deduplication, first occurrences (w.r.t. ids seen before and
// earlier in the same batch) with it
pub open spec fn kept_of(p: &Partition, msgs: Seq<Message>) -> Seq<Message> {
    if p.message_deduplicator is Some { kept_prefix(dedup_seen(p), msgs, msgs.len() as int).0 } else { msgs }
}
// retained form of kept messages: offsets base, base+1, ... in order, same ids and content
pub open spec fn retained_as(r: Seq<RetainedMessage>, kept: Seq<Message>, base: int) -> bool {
    &&& r.len() == kept.len()
    &&& forall|i: int| 0 <= i < r.len() ==> (#[trigger] r[i]).offset == base + i && r[i].id == kept[i].id && r[i].content == kept[i].content
}

// --- partition view ---
pub open spec fn next_offset(p: &Partition) -> int {
    if p.should_increment_offset { p.current_offset + 1 } else { 0 }
}
pub open spec fn last_seg(p: &Partition) -> &Segment { &p.segments@[p.segments@.len() - 1] }

// What the send path needs of the partition: the last segment is where the next offset goes.
//  - open last segment: well-formed, and the offset after its last message is next_offset(p)
//  - closed last segment: next_offset(p) follows its end_offset (roll-over creates the successor there)
pub open spec fn part_wf(p: &Partition) -> bool {
    &&& p.segments@.len() >= 1
    &&& !last_seg(p).is_closed ==> seg_wf(last_seg(p)) && last_seg(p).start_offset + seg_msgs(last_seg(p)).len() == next_offset(p)
    &&& last_seg(p).is_closed ==> last_seg(p).end_offset + 1 == next_offset(p) && last_seg(p).start_offset <= last_seg(p).end_offset
            && last_seg(p).unsaved_messages is None && last_seg(p).end_offset == last_seg(p).current_offset
    &&& forall|i: int| 0 <= i < p.segments@.len() - 1 ==> (#[trigger] p.segments@[i]).start_offset < next_offset(p)
    &&& last_seg(p).start_offset <= next_offset(p)
    // the unsaved-messages counter is zero only when nothing is buffered (flush relies on it)
    &&& (!last_seg(p).is_closed && p.unsaved_messages_count == 0) ==> seg_buf(last_seg(p)).len() == 0
}
pub open spec fn flush_measure(s: &Segment) -> nat {
    if s.unsaved_messages is None { 0 } else if seg_buf(s).len() == 0 { 1 } else { 2 }
}

impl Partition {
    // Partition::add_persisted_segment (partitions/segments.rs): Segment::create + persist + push + sort_by start_offset.
    // Under contract in unit `retention`; here its effect for a start offset above every existing one.
    #[verifier::external_body]
    pub fn add_persisted_segment(&mut self, start_offset: u64) -> (r: Result<(), IggyError>)
        requires forall|i: int| 0 <= i < old(self).segments@.len() ==> (#[trigger] old(self).segments@[i]).start_offset < start_offset,
        ensures
            r is Err ==> *final(self) == *old(self),
            r is Ok ==> {
                &&& final(self).segments@.len() == old(self).segments@.len() + 1
                &&& forall|i: int| 0 <= i < old(self).segments@.len() ==> final(self).segments@[i] == old(self).segments@[i]
                &&& seg_wf(last_seg(final(self))) && last_seg(final(self)).start_offset == start_offset
                &&& seg_msgs(last_seg(final(self))).len() == 0 && last_seg(final(self)).size_bytes == 0
                &&& last_seg(final(self)).unsaved_messages is None
                &&& last_seg(final(self)).last_index_position == 0
                &&& *final(self) == (Partition { segments: final(self).segments, segments_count_of_parent_stream: final(self).segments_count_of_parent_stream, ..*old(self) })
            },
    { unimplemented!() }
}

pub open spec fn old_last_open(p: &Partition) -> bool { !last_seg(p).is_closed }
// every message of a segment, wherever it lives
pub open spec fn seg_all(s: &Segment) -> Seq<RetainedMessage> { flat(seg_disk(s)) + seg_buf(s) }
// arithmetic room for the size counters (sizes are u64; not a property concern)
pub open spec fn size_room(p: &Partition, add: int) -> bool {
    &&& !last_seg(p).is_closed ==> last_seg(p).size_bytes + add + RETAINED_BATCH_HEADER_LEN <= u64::MAX
    &&& add + RETAINED_BATCH_HEADER_LEN <= u64::MAX
    &&& (!last_seg(p).is_closed && last_seg(p).unsaved_messages is Some) ==> last_seg(p).unsaved_messages->0.current_size + add <= u64::MAX
}

// A-size (assumption, listed): positions in a segment's log file are u32, so the file stays below 4 GiB. Config
// validation caps segment.size at 1 GB, a segment is closed once size_bytes >= size, and one batch is bounded by
// the transport's maximum payload; the arithmetic `last_index_position += batch_size as u32` relies on it.
#[verifier::external_body]
pub proof fn assume_segment_below_4g(s: &Segment)
    ensures s.last_index_position + total_size(seg_buf(s)) + RETAINED_BATCH_HEADER_LEN <= u32::MAX,
        // every stored message takes at least one byte, so the segment holds fewer than 2^32 messages
        // (relative offsets in index records are u32)
        seg_msgs(s).len() <= u32::MAX,
{}

// A-size64 (assumption, listed): byte counters (u64) never come within one batch header of 2^64.
#[verifier::external_body]
pub proof fn assume_size_below_2_64(s: &Segment)
    ensures s.size_bytes + RETAINED_BATCH_HEADER_LEN <= u64::MAX,
{}
