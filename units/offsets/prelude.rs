// ---- unit prelude: offsets (C01, C18) ----
impl Segment {
    // Segment::is_expired reads the last message back from disk; its decision is the business of C14 (unit retention).
    pub uninterp spec fn spec_is_expired(&self, now: IggyTimestamp) -> bool;
    // LINKED: units/retention/lemmas.rs, harness [C14.link.offsets.is_expired], proves this contract from the real function (mirror edits there)
    #[verifier::external_body]
    pub fn is_expired(&self, now: IggyTimestamp) -> (r: bool)
        ensures r == self.spec_is_expired(now), !self.is_closed ==> !r,
    { unimplemented!() }
    // Segment::shutdown_writing: hands the writers to background tasks that fsync and close them (tokio::spawn)
    #[verifier::external_body]
    pub fn shutdown_writing(&mut self)
        ensures final(self).log_writer is None, final(self).index_writer is None,
            final(self).log_reader is Some == old(self).log_reader is Some,
            // A-io: what the writer had appended is what the reader of the same path sees
            (old(self).log_writer is Some && old(self).log_reader is Some) ==> final(self).log_reader->0.file() == old(self).log_writer->0.file(),
            final(self).start_offset == old(self).start_offset, final(self).end_offset == old(self).end_offset,
            final(self).current_offset == old(self).current_offset, final(self).is_closed == old(self).is_closed,
            final(self).unsaved_messages == old(self).unsaved_messages, final(self).size_bytes == old(self).size_bytes,
            final(self).indexes == old(self).indexes, final(self).last_index_position == old(self).last_index_position,
            final(self).config == old(self).config, final(self).max_size_bytes == old(self).max_size_bytes,
            final(self).size_of_parent_stream == old(self).size_of_parent_stream,
            final(self).size_of_parent_topic == old(self).size_of_parent_topic,
            final(self).size_of_parent_partition == old(self).size_of_parent_partition,
            final(self).messages_count_of_parent_stream == old(self).messages_count_of_parent_stream,
            final(self).messages_count_of_parent_topic == old(self).messages_count_of_parent_topic,
            final(self).messages_count_of_parent_partition == old(self).messages_count_of_parent_partition,
    { unimplemented!() }
}

// --- deduplication oracle: which of the first n messages are kept, given the ids already seen ---
pub open spec fn kept_prefix(seen0: Set<u128>, msgs: Seq<Message>, n: int) -> (Seq<Message>, Set<u128>)
    decreases n,
{
    if n <= 0 { (Seq::empty(), seen0) } else {
        let (k, s) = kept_prefix(seen0, msgs, n - 1);
        let m = msgs[n - 1];
        if s.contains(m.id) { (k, s) } else { (k.push(m), s.insert(m.id)) }
    }
}
pub open spec fn dedup_seen(p: &Partition) -> Set<u128> { p.message_deduplicator->0.cache.seen() }
// the messages a send keeps: all of them without deduplication, first occurrences (w.r.t. ids seen before and
// earlier in the same batch) with it
pub open spec fn kept_of(p: &Partition, msgs: Seq<Message>) -> Seq<Message> {
    if p.message_deduplicator is Some { kept_prefix(dedup_seen(p), msgs, msgs.len() as int).0 } else { msgs }
}
// retained form of kept messages: offsets base, base+1, ... in order, same ids and content
pub open spec fn retained_as(r: Seq<RetainedMessage>, kept: Seq<Message>, base: int) -> bool {
    &&& r.len() == kept.len()
    &&& forall|i: int| 0 <= i < r.len() ==> (#[trigger] r[i]).offset == base + i && r[i].id == kept[i].id && r[i].content == kept[i].content
}

impl Partition {
    // Partition::add_persisted_segment (partitions/segments.rs): Segment::create + persist + push + sort_by start_offset.
    // Proved in unit `retention` ([C14.off.add.last], [C14.shape.add.err], [C14.shape.add.frame], [C14.off.create.start]):
    // for a SORTED vector and a start offset above every existing one the new empty open segment lands last, prefix unchanged.
    // The Ok clause is split in two. (1) what is a fact about the extracted text — LINKED: unit retention proves exactly the `requires`,
    // the Err clause and the first Ok clause of the real function (units/retention/lemmas.rs, harness
    // [C14.link.offsets.add_persisted_segment]; an edit here has to be mirrored there). (2) what additionally rests on A-io of
    // `Segment::persist` (a successful persist leaves all handles open on two EMPTY files) — retention's Segment has opaque handles and
    // cannot state it: still ASSUMED.
    #[verifier::external_body]
    pub fn add_persisted_segment(&mut self, start_offset: u64) -> (r: Result<(), IggyError>)
        requires forall|i: int| 0 <= i < old(self).segments@.len() ==> (#[trigger] old(self).segments@[i]).start_offset < start_offset,
            segs_sorted_strict(old(self).segments@),
        ensures
            r is Err ==> *final(self) == *old(self),
            r is Ok ==> {
                &&& final(self).segments@.len() == old(self).segments@.len() + 1
                &&& forall|i: int| 0 <= i < old(self).segments@.len() ==> final(self).segments@[i] == old(self).segments@[i]
                &&& last_seg(final(self)).start_offset == start_offset
                &&& last_seg(final(self)).current_offset == start_offset && !last_seg(final(self)).is_closed
                &&& last_seg(final(self)).size_bytes == 0
                &&& last_seg(final(self)).unsaved_messages is None
                &&& last_seg(final(self)).last_index_position == 0
                &&& *final(self) == (Partition { segments: final(self).segments, segments_count_of_parent_stream: final(self).segments_count_of_parent_stream, ..*old(self) })
            },
            // (2) A-io (Segment::persist): handles open, log and index files empty
            r is Ok ==> seg_wf(last_seg(final(self))) && seg_msgs(last_seg(final(self))).len() == 0,
    { unimplemented!() }
}

pub open spec fn old_last_open(p: &Partition) -> bool { !last_seg(p).is_closed }
// arithmetic room for the size counters (sizes are u64; not a property concern)
pub open spec fn size_room(p: &Partition, add: int) -> bool {
    &&& !last_seg(p).is_closed ==> last_seg(p).size_bytes + add + RETAINED_BATCH_HEADER_LEN <= u64::MAX
    &&& add + RETAINED_BATCH_HEADER_LEN <= u64::MAX
    &&& (!last_seg(p).is_closed && last_seg(p).unsaved_messages is Some) ==> last_seg(p).unsaved_messages->0.current_size + add <= u64::MAX
}

// A-size (assumption, listed): positions in a segment's log file are u32, so the file stays below 4 GiB. Config
// validation caps segment.size at 1 GB, a segment is closed once size_bytes >= size, and one batch is bounded by
// the transport's maximum payload; the arithmetic `last_index_position += batch_size as u32` relies on it.
#[verifier::external_body]
pub proof fn assume_segment_below_4g(s: &Segment)
    ensures s.last_index_position + total_size(seg_buf(s)) + RETAINED_BATCH_HEADER_LEN <= u32::MAX,
        // every stored message takes at least one byte, so the segment holds fewer than 2^32 messages
        // (relative offsets in index records are u32)
        seg_msgs(s).len() <= u32::MAX,
{}

// A-size64 (assumption, listed): byte counters (u64) never come within one batch header of 2^64.
#[verifier::external_body]
pub proof fn assume_size_below_2_64(s: &Segment)
    ensures s.size_bytes + RETAINED_BATCH_HEADER_LEN <= u64::MAX,
{}


// what the background saver may assume of each segment of a partition: closed segments hold no buffer, the open one is well-formed
pub open spec fn saver_pre(s: &Segment) -> bool {
    &&& s.is_closed ==> s.unsaved_messages is None
    &&& !s.is_closed ==> seg_wf(s)
}
// A-size (assumption, listed): the running total of saved messages fits a usize
#[verifier::external_body]
pub proof fn assume_count_fits(n: usize, s: &Segment)
    ensures n + seg_buf(s).len() <= usize::MAX,
{}

// ---- the size charged on append (same vocabulary as unit size_eq, which proves [C16.size-eq]) ----
// charge(m) = Message::get_size_bytes() + POLLED_MESSAGE_METADATA
pub uninterp spec fn charge(m: Message) -> nat;
#[verifier::external_body]
pub proof fn axiom_charge_min(m: Message)
    ensures charge(m) >= POLLED_MESSAGE_METADATA,      // get_size_bytes() is unsigned
{}
pub open spec fn total_charge(s: Seq<Message>) -> nat
    decreases s.len(),
{
    if s.len() == 0 { 0 } else { total_charge(s.drop_last()) + charge(s.last()) }
}
impl Message {
    // sdk::messages::send_messages::Message::get_size_bytes (Sizeable)
    #[verifier::external_body]
    pub fn get_size_bytes(&self) -> (r: u64)
        ensures r + POLLED_MESSAGE_METADATA == charge(*self),
    { unimplemented!() }
}
pub proof fn lemma_total_charge_tail(s: Seq<Message>, i: int)
    requires 0 <= i <= s.len(),
    ensures
        i < s.len() ==> total_charge(s.subrange(i, s.len() as int)) == charge(s[i]) + total_charge(s.subrange(i + 1, s.len() as int)),
        i == s.len() ==> total_charge(s.subrange(i, s.len() as int)) == 0,
    decreases s.len() - i,
{
    let t = s.subrange(i, s.len() as int);
    if i < s.len() {
        if i + 1 == s.len() {
            assert(t.drop_last() =~= Seq::<Message>::empty());
            assert(s.subrange(i + 1, s.len() as int) =~= Seq::<Message>::empty());
        } else {
            // t = [s[i]] + u ; peel the LAST element of both and use induction on the shorter sequence s.drop_last()
            let s2 = s.drop_last();
            lemma_total_charge_tail(s2, i);
            assert(t.drop_last() =~= s2.subrange(i, s2.len() as int));
            assert(s.subrange(i + 1, s.len() as int).drop_last() =~= s2.subrange(i + 1, s2.len() as int));
            assert(t.last() == s.last());
            assert(s.subrange(i + 1, s.len() as int).last() == s.last());
        }
    }
}
pub proof fn lemma_total_charge_push(s: Seq<Message>, m: Message)
    ensures total_charge(s.push(m)) == total_charge(s) + charge(m),
{
    assert(s.push(m).drop_last() =~= s);
}

