// ---- lemmas: offsets — LINK harnesses: the contracts other units ASSUME for functions proved here, proved from the real ones ----
// Each harness has the assuming unit's stub signature, its `requires` / `ensures` copied VERBATIM from that unit's prelude.rs, and a
// body that is ONE call of the real extracted function: Verus proves "real contract ==> assumed contract" on every run.
// A later edit of a stub has to be mirrored here (and vice versa).
impl Segment {
    // copied from units/size_eq/prelude.rs, stub `Segment::append_batch` (seg_msgs / seg_wf: vx/prelude/segview.rs, wadd: storage.rs)
    // label: C16.link.size_eq.append_batch
    pub fn link_size_eq_append_batch(&mut self, batch_size: u64, messages_count: u32, batch: &[RetainedMessage]) -> (r: Result<(), IggyError>)
        requires
            batch@.len() > 0, batch@.len() == messages_count,
            old(self).size_bytes + batch_size <= u64::MAX,
            !old(self).is_closed ==> seg_wf(old(self)),
            old(self).unsaved_messages is Some ==> old(self).unsaved_messages->0.current_size + batch_size <= u64::MAX,
            !old(self).is_closed ==> contig(batch@, old(self).start_offset + seg_msgs(old(self)).len()),
        ensures
            old(self).is_closed ==> r is Err,
            !old(self).is_closed ==> r is Ok && seg_msgs(final(self)) == seg_msgs(old(self)) + batch@,
            r is Err ==> *final(self) == *old(self),
            r is Ok ==> final(self).size_bytes == old(self).size_bytes + batch_size,
            r is Ok ==> final(self).size_of_parent_stream.v == wadd(old(self).size_of_parent_stream.v, batch_size as int)
                && final(self).size_of_parent_topic.v == wadd(old(self).size_of_parent_topic.v, batch_size as int)
                && final(self).size_of_parent_partition.v == wadd(old(self).size_of_parent_partition.v, batch_size as int),
            r is Ok ==> final(self).messages_count_of_parent_partition.v == wadd(old(self).messages_count_of_parent_partition.v, batch@.len() as int),
    {
        self.append_batch(batch_size, messages_count, batch)
    }
}
