// ---- unit prelude: codec_storage (C13 storage encodings, C02.codec) -----------------------------------------------------------
// On-disk record formats as specification functions; BOTH the writer and the reader of each record are checked against them.

global size_of usize == 8;

pub enum IggyError {
    InvalidCommand, InvalidNumberEncoding, CannotReadBatchBaseOffset, CannotReadBatchLength, CannotReadLastOffsetDelta, CannotReadMaxTimestamp,
    CannotReadBatchPayload, CannotReadIndexOffset, CannotReadIndexPosition, CannotReadIndexTimestamp, CannotSaveIndexToSegment, CannotReadFile, Other,
}

#[derive(Clone, Copy)]
pub struct IggyByteSize(pub u64);
impl From<u64> for IggyByteSize {
    fn from(byte_size: u64) -> (r: Self) { IggyByteSize(byte_size) }
}
impl vstd::std_specs::convert::FromSpecImpl<u64> for IggyByteSize {
    open spec fn obeys_from_spec() -> bool { true }
    open spec fn from_spec(v: u64) -> Self { IggyByteSize(v) }
}
impl IggyByteSize {
    pub fn as_bytes_u64(&self) -> (r: u64) ensures r == self.0, { self.0 }
    pub fn as_bytes_usize(&self) -> (r: usize) ensures r == self.0, { self.0 as usize }
}

impl vstd::std_specs::cmp::PartialEqSpecImpl for MessageState {
    open spec fn obeys_eq_spec() -> bool { true }
    open spec fn eq_spec(&self, other: &MessageState) -> bool { *self == *other }
}

// ---- a stored message (inside a batch payload) --------------------------------------------------------------------------------
//   length:u32 | offset:u64 | state:u8 | timestamp:u64 | id:u128 | checksum:u32 | headers_length:u32 | headers | payload
// `length` counts everything after itself (= get_size_bytes). headers_length 0 = no headers.
pub open spec fn messagestate_code(s: MessageState) -> u8 {
    match s { MessageState::Available => 1, MessageState::Unavailable => 10, MessageState::Poisoned => 20, MessageState::MarkedForDeletion => 30 }
}
pub open spec fn rm_headers(m: RetainedMessage) -> Seq<u8> { match m.headers { Some(h) => h@, None => Seq::<u8>::empty() } }
pub open spec fn rm_fixed(m: RetainedMessage) -> Seq<u8> {
    le64(m.offset) + seq![messagestate_code(m.message_state)] + le64(m.timestamp) + le128(m.id) + le32(m.checksum)
        + le32(rm_headers(m).len() as u32)
}
pub open spec fn enc_rm_body(m: RetainedMessage) -> Seq<u8> { rm_fixed(m) + rm_headers(m) + m.payload@ }
pub open spec fn rm_size(m: RetainedMessage) -> int { 41 + rm_headers(m).len() as int + m.payload@.len() as int }
pub open spec fn enc_rm(m: RetainedMessage) -> Seq<u8> { le32(rm_size(m) as u32) + enc_rm_body(m) }
// a message the server builds: non-empty header block if any (an empty one is stored as "none"), sizes fit the u32 fields
pub open spec fn rm_hdr_ok(m: RetainedMessage) -> bool { m.headers matches Some(h) ==> h@.len() >= 1 }
pub open spec fn rm_valid(m: RetainedMessage) -> bool { rm_hdr_ok(m) && rm_size(m) <= u32::MAX }

// field-by-field reading of a record body `b` as the message `m`
pub open spec fn rm_fields_at(b: Seq<u8>, m: RetainedMessage) -> bool {
    let h = rm_headers(m).len() as int;
    &&& b.len() >= 41 + h
    &&& h <= u32::MAX
    &&& b.subrange(0, 8) == le64(m.offset)
    &&& b[8] == messagestate_code(m.message_state)
    &&& b.subrange(9, 17) == le64(m.timestamp)
    &&& b.subrange(17, 33) == le128(m.id)
    &&& b.subrange(33, 37) == le32(m.checksum)
    &&& b.subrange(37, 41) == le32(h as u32)
    &&& b.subrange(41, 41 + h) =~= rm_headers(m)
    &&& b.subrange(41 + h, b.len() as int) == m.payload@
}
pub open spec fn opt_bytes_eq(a: Option<ByteSeq>, b: Option<ByteSeq>) -> bool {
    match (a, b) { (Some(x), Some(y)) => x@ == y@, (None, None) => true, _ => false }
}
pub open spec fn rm_eq(a: RetainedMessage, b: RetainedMessage) -> bool {
    a.id == b.id && a.offset == b.offset && a.timestamp == b.timestamp && a.checksum == b.checksum
        && a.message_state == b.message_state && opt_bytes_eq(a.headers, b.headers) && a.payload@ == b.payload@
}

pub proof fn lemma_messagestate_code_injective()
    ensures forall|a: MessageState, b: MessageState| messagestate_code(a) == messagestate_code(b) ==> a == b,
{}

pub proof fn lemma_rm_layout(m: RetainedMessage)
    ensures
        ({
            let b = enc_rm_body(m);
            let h = rm_headers(m).len() as int;
            &&& rm_fixed(m).len() == 41
            &&& b.len() == 41 + h + m.payload@.len()
            &&& b.subrange(0, 8) == le64(m.offset)
            &&& b[8] == messagestate_code(m.message_state)
            &&& b.subrange(9, 17) == le64(m.timestamp)
            &&& b.subrange(17, 33) == le128(m.id)
            &&& b.subrange(33, 37) == le32(m.checksum)
            &&& b.subrange(37, 41) == le32(rm_headers(m).len() as u32)
            &&& b.subrange(41, 41 + h) =~= rm_headers(m)
            &&& b.subrange(41 + h, b.len() as int) == m.payload@
        }),
{
    lemma_le_facts();
    let b = enc_rm_body(m);
    let h = rm_headers(m).len() as int;
    assert(b.subrange(0, 8) =~= le64(m.offset));
    assert(b.subrange(9, 17) =~= le64(m.timestamp));
    assert(b.subrange(17, 33) =~= le128(m.id));
    assert(b.subrange(33, 37) =~= le32(m.checksum));
    assert(b.subrange(37, 41) =~= le32(rm_headers(m).len() as u32));
    assert(b.subrange(41, 41 + h) =~= rm_headers(m));
    assert(b.subrange(41 + h, b.len() as int) =~= m.payload@);
}

// a length-prefixed record starts at `p` and lies inside `b` (policy precondition of the batch reader: a torn record may panic)
pub open spec fn rm_framed(b: Seq<u8>, p: int) -> bool {
    &&& 0 <= p && p + 4 <= b.len()
    &&& p + 4 + un_le32(b.subrange(p, p + 4)) <= b.len()
    &&& un_le32(b.subrange(p, p + 4)) >= 41
    &&& 41 + un_le32(b.subrange(p + 4 + 37, p + 4 + 41)) <= un_le32(b.subrange(p, p + 4))
}

pub proof fn lemma_sub_sub(b: Seq<u8>, a: int, n: int, x: int, y: int)
    requires 0 <= a, 0 <= n, a + n <= b.len(), 0 <= x <= y <= n,
    ensures b.subrange(a, a + n).subrange(x, y) == b.subrange(a + x, a + y),
{
    assert(b.subrange(a, a + n).subrange(x, y) =~= b.subrange(a + x, a + y));
}
// a record found at position p of a batch payload: its length field and its body
pub proof fn lemma_rm_frame(b: Seq<u8>, p: int, v: RetainedMessage)
    requires 0 <= p, p + 4 + rm_size(v) <= b.len(), rm_size(v) <= u32::MAX, b.subrange(p, p + 4 + rm_size(v)) == enc_rm(v),
    ensures
        b.subrange(p, p + 4) == le32(rm_size(v) as u32),
        un_le32(b.subrange(p, p + 4)) == rm_size(v),
        b.subrange(p + 4, p + 4 + rm_size(v)) == enc_rm_body(v),
{
    lemma_le_facts();
    lemma_rm_layout(v);
    let e = enc_rm(v);
    assert(e.subrange(0, 4) =~= le32(rm_size(v) as u32));
    assert(e.subrange(4, e.len() as int) =~= enc_rm_body(v));
    lemma_sub_sub(b, p, 4 + rm_size(v), 0, 4);
    lemma_sub_sub(b, p, 4 + rm_size(v), 4, 4 + rm_size(v));
}

// ---- batch header on disk (24 bytes):  base_offset:u64 | length:u32 | last_offset_delta:u32 | max_timestamp:u64 -------------------
pub open spec fn enc_batch_header(base_offset: u64, length: u32, last_offset_delta: u32, max_timestamp: u64) -> Seq<u8> {
    le64(base_offset) + le32(length) + le32(last_offset_delta) + le64(max_timestamp)
}
pub proof fn lemma_batch_header_layout(base_offset: u64, length: u32, last_offset_delta: u32, max_timestamp: u64)
    ensures
        ({
            let b = enc_batch_header(base_offset, length, last_offset_delta, max_timestamp);
            &&& b.len() == 24
            &&& b.subrange(0, 8) == le64(base_offset)
            &&& b.subrange(8, 12) == le32(length)
            &&& b.subrange(12, 16) == le32(last_offset_delta)
            &&& b.subrange(16, 24) == le64(max_timestamp)
        }),
{
    lemma_le_facts();
    let b = enc_batch_header(base_offset, length, last_offset_delta, max_timestamp);
    assert(b.subrange(0, 8) =~= le64(base_offset));
    assert(b.subrange(8, 12) =~= le32(length));
    assert(b.subrange(12, 16) =~= le32(last_offset_delta));
    assert(b.subrange(16, 24) =~= le64(max_timestamp));
}

// ---- index record on disk (16 bytes):  offset:u32 (relative) | position:u32 | timestamp:u64 ---------------------------------------
pub open spec fn enc_index(i: Index) -> Seq<u8> { le32(i.offset) + le32(i.position) + le64(i.timestamp) }
pub proof fn lemma_index_layout(i: Index)
    ensures
        enc_index(i).len() == 16,
        enc_index(i).subrange(0, 4) == le32(i.offset),
        enc_index(i).subrange(4, 8) == le32(i.position),
        enc_index(i).subrange(8, 16) == le64(i.timestamp),
{
    lemma_le_facts();
    assert(enc_index(i).subrange(0, 4) =~= le32(i.offset));
    assert(enc_index(i).subrange(4, 8) =~= le32(i.position));
    assert(enc_index(i).subrange(8, 16) =~= le64(i.timestamp));
}

// ---- the log file behind SegmentLogReader (A-io): a ghost byte sequence; `read_at` is `read_exact_at` on it ---------------------
#[derive(PartialEq, Eq, Clone, Copy)]
pub enum ErrorKind { UnexpectedEof, Other }
impl vstd::std_specs::cmp::PartialEqSpecImpl for ErrorKind {
    open spec fn obeys_eq_spec() -> bool { true }
    open spec fn eq_spec(&self, other: &ErrorKind) -> bool { *self == *other }
}
pub struct IoError { pub k: ErrorKind }
impl IoError {
    pub fn kind(&self) -> (r: ErrorKind) ensures r == self.k, { self.k }
}
impl SegmentLogReader {
    pub uninterp spec fn raw(&self) -> Seq<u8>;

    // read_exact_at(buf[len], offset): Ok iff the whole range could be read - then it IS that range of the file; any error otherwise
    // (UnexpectedEof when the file ends early, anything else for other I/O failures). May also fail when the range exists.
    #[verifier::external_body]
    pub fn read_at(&self, offset: u64, len: u64) -> (r: Result<Vec<u8>, IoError>)
        ensures
            r matches Ok(buf) ==> offset + len <= self.raw().len() && buf@ == self.raw().subrange(offset as int, offset + len),
    { unimplemented!() }
}

// the record a 16-byte chunk decodes to
pub open spec fn index_of(c: Seq<u8>) -> Index {
    Index { offset: un_le32(c.subrange(0, 4)), position: un_le32(c.subrange(4, 8)), timestamp: un_le64(c.subrange(8, 16)) }
}

// ---- the index file behind SegmentIndexReader (A-io) ---------------------------------------------------------------------------
impl SegmentIndexReader {
    pub uninterp spec fn raw(&self) -> Seq<u8>;          // the bytes on disk
    pub uninterp spec fn published(&self) -> u64;        // the size the writer has published (index_size_bytes); any value

    #[verifier::external_body]
    pub fn file_size(&self) -> (r: u64)
        ensures r == self.published(),
    { unimplemented!() }

    #[verifier::external_body]
    pub fn read_at(&self, offset: u64, len: u64) -> (r: Result<Vec<u8>, IoError>)
        ensures
            r matches Ok(buf) ==> offset + len <= self.raw().len() && buf@ == self.raw().subrange(offset as int, offset + len),
    { unimplemented!() }
}

// R8 schema: `buf.chunks_exact(n).map(f).collect::<Result<Vec<_>, E>>()` (std semantics): the complete n-byte chunks of buf in
// order (a shorter remainder is dropped), each mapped by f; Ok(all results) if every call is Ok, else the first Err.
// `chunks_exact(0)` panics. The mapped function stays the real callee: its contract enters through call_requires/call_ensures.
#[verifier::external_body]
pub fn std_chunks_exact_try_map<T, F: Fn(&[u8]) -> Result<T, IggyError>>(buf: &Vec<u8>, n: usize, f: F) -> (r: Result<Vec<T>, IggyError>)
    requires
        n > 0,
        forall|c: &[u8]| c@.len() == n ==> call_requires(f, (c,)),
    ensures
        r matches Ok(v) ==> v@.len() == buf@.len() / (n as nat) && forall|i: int| 0 <= i < v@.len() ==>
            exists|c: &[u8]| c@ == buf@.subrange(i * n, (i + 1) * n) && call_ensures(f, (c,), Ok::<T, IggyError>(#[trigger] v@[i])),
        r matches Err(e) ==> exists|i: int, c: &[u8]| #![trigger trig_int(i), call_ensures(f, (c,), Err::<T, IggyError>(e))]
            0 <= i < buf@.len() / (n as nat) && c@ == buf@.subrange(i * n, (i + 1) * n)
            && call_ensures(f, (c,), Err::<T, IggyError>(e)) && trig_int(i),
{ unimplemented!() }
pub open spec fn trig_int(i: int) -> bool { true }
// The sibling adapter `buf.chunks(n)` (std semantics): like chunks_exact, PLUS a final shorter chunk holding the remainder when
// buf.len() is not a multiple of n — so the mapped function must accept that shorter chunk too. Offered so that an edit from
// chunks_exact to chunks is decided by the callee's precondition instead of ending as a lost anchor (seed C04_2).
#[verifier::external_body]
pub fn std_chunks_try_map<T, F: Fn(&[u8]) -> Result<T, IggyError>>(buf: &Vec<u8>, n: usize, f: F) -> (r: Result<Vec<T>, IggyError>)
    requires
        n > 0,
        forall|c: &[u8]| (c@.len() == n || (c@.len() == buf@.len() % (n as nat) && c@.len() > 0)) ==> call_requires(f, (c,)),
    ensures
        r matches Ok(v) ==> v@.len() == (buf@.len() + n - 1) as int / (n as int),
{ unimplemented!() }

// ---- the consumer-offset file (A-io): one file per consumer, overwritten on every store -----------------------------------------
// `Arc<PersisterKind>` -> `Persister` whose ghost state is the content of the file last overwritten; `&str` paths -> opaque PathName.
// overwrite Ok: the file now holds exactly the bytes given. The reader side is tokio's `AsyncReadExt::read_u64_le` on the opened
// file: Ok(x) iff 8 bytes could be read, x being their little-endian value.
pub struct PathName { pub p: u8 }
#[verifier::external_body]
pub struct Persister { _p: () }
impl Persister {
    pub uninterp spec fn file(&self) -> Seq<u8>;
    #[verifier::external_body]
    pub fn overwrite(&mut self, path: &PathName, bytes: &Vec<u8>) -> (r: Result<(), IggyError>)
        ensures r is Ok ==> final(self).file() == bytes@,
    { unimplemented!() }
}
#[verifier::external_body]
pub struct OffsetFile { _p: () }
impl OffsetFile {
    pub uninterp spec fn content(&self) -> Seq<u8>;
    #[verifier::external_body]
    pub fn read_u64_le(&mut self) -> (r: Result<u64, IoError>)
        ensures
            r matches Ok(x) ==> old(self).content().len() >= 8 && x == un_le64(old(self).content().subrange(0, 8)),
    { unimplemented!() }
}
