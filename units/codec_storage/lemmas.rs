// ---- labelled lemmas of codec_storage: properties of the record SPECIFICATION (no executable code is mentioned) -------------

// label: C13.code.MessageState.inj
pub proof fn c13_code_messagestate_injective()
    ensures forall|a: MessageState, b: MessageState| messagestate_code(a) == messagestate_code(b) ==> a == b,
{ lemma_messagestate_code_injective(); }

// label: C02.codec.sound.rebuild
// a buffer that reads field by field as `m` IS the encoding of `m` (so the reader accepts nothing the writer cannot produce)
pub proof fn c02_codec_fields_rebuild(b: Seq<u8>, m: RetainedMessage)
    requires rm_fields_at(b, m),
    ensures b == enc_rm_body(m),
{
    lemma_le_facts(); lemma_le128_facts();
    lemma_rm_layout(m);
    let e = enc_rm_body(m);
    let h = rm_headers(m).len() as int;
    assert(b.len() == e.len());
    assert forall|i: int| 0 <= i < b.len() implies b[i] == e[i] by {
        if i < 8 { assert(b[i] == b.subrange(0, 8)[i]); assert(e[i] == e.subrange(0, 8)[i]); }
        else if i == 8 { }
        else if i < 17 { assert(b[i] == b.subrange(9, 17)[i - 9]); assert(e[i] == e.subrange(9, 17)[i - 9]); }
        else if i < 33 { assert(b[i] == b.subrange(17, 33)[i - 17]); assert(e[i] == e.subrange(17, 33)[i - 17]); }
        else if i < 37 { assert(b[i] == b.subrange(33, 37)[i - 33]); assert(e[i] == e.subrange(33, 37)[i - 33]); }
        else if i < 41 { assert(b[i] == b.subrange(37, 41)[i - 37]); assert(e[i] == e.subrange(37, 41)[i - 37]); }
        else if i < 41 + h { assert(b[i] == b.subrange(41, 41 + h)[i - 41]); assert(e[i] == e.subrange(41, 41 + h)[i - 41]); }
        else { assert(b[i] == b.subrange(41 + h, b.len() as int)[i - 41 - h]); assert(e[i] == e.subrange(41 + h, e.len() as int)[i - 41 - h]); }
    }
    assert(b =~= e);
}

// label: C02.codec.inj
// the record encoding is injective on valid messages
pub proof fn c02_codec_injective(a: RetainedMessage, b: RetainedMessage)
    requires rm_valid(a), rm_valid(b), enc_rm_body(a) == enc_rm_body(b),
    ensures rm_eq(a, b),
{
    lemma_le_facts(); lemma_le128_facts();
    lemma_rm_layout(a);
    lemma_rm_layout(b);
    lemma_messagestate_code_injective();
    assert(un_le64(le64(a.offset)) == un_le64(le64(b.offset)));
    assert(un_le64(le64(a.timestamp)) == un_le64(le64(b.timestamp)));
    assert(un_le128(le128(a.id)) == un_le128(le128(b.id)));
    assert(un_le32(le32(a.checksum)) == un_le32(le32(b.checksum)));
    assert(un_le32(le32(rm_headers(a).len() as u32)) == un_le32(le32(rm_headers(b).len() as u32)));
}
