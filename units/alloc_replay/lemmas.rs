// ---- lemmas: C05 simulation (replay equals runtime) — spec level, re-proved on every run -----------------------------
// One allocator scope at a time (streams of a system / topics of a stream / consumer groups of a topic; users below).
// The step functions are built from the SAME spec functions the code contracts use: rt_alloc / rt_release ([C05.rt.*],
// unit alloc_runtime) and rp_alloc ([C05.rp.*], unit alloc_replay). A history is a sequence of client commands; a command
// the runtime refuses is not acknowledged: it is not journalled and ([C05.rt.*.fail]) leaves the runtime state alone.

pub enum Cmd {
    Create(Option<u32>),     // create with client-chosen id Some(w) or server-assigned id None
    Delete(u32),             // delete the entity the identifier resolves to
    Restart,                 // stop, replay the journal, start: the runtime catalogue IS the replayed one, counter back at 1
}
pub struct Alloc { pub c: u32, pub ids: Set<u32> }

pub open spec fn rt0() -> Alloc { Alloc { c: 1, ids: Set::empty() } }     // CURRENT_STREAM_ID / current_topic_id / .. start at 1
pub open spec fn rp0() -> Alloc { Alloc { c: 0, ids: Set::empty() } }     // [C05.rp.init], [C05.rp.stream.entity], [C05.rp.topic]

pub open spec fn acked(a: Alloc, cmd: Cmd) -> bool {
    match cmd {
        Cmd::Create(req) => rt_alloc(a.c, a.ids, req).0 is Some,
        Cmd::Delete(id) => a.ids.contains(id),
        Cmd::Restart => true,
    }
}
pub open spec fn rt_assigned(a: Alloc, req: Option<u32>) -> u32 { rt_alloc(a.c, a.ids, req).0->0 }
// what the handler journals for an acknowledged Create: the client's own Option (the code as it is, [C05.journal.*] refuted)
// or Some(assigned id) (what [C05.journal.*] demands)
pub open spec fn journalled_id(a: Alloc, req: Option<u32>, carried: bool) -> Option<u32> {
    if carried { Some(rt_assigned(a, req)) } else { req }
}
pub open spec fn rp_create(b: Alloc, j: Option<u32>) -> Alloc {
    Alloc { c: rp_alloc(b.c, j).1, ids: b.ids.insert(rp_alloc(b.c, j).0) }
}
// one client command on the pair (runtime, replay-of-the-journal-so-far)
// LINKED: that the two components ARE what the real code does is proved by the composition harnesses [C05.link.alloc_replay.step.*] /
// [C05.link.alloc_replay.ustep.*]: runtime half in units/alloc_runtime/lemmas.rs (which repeats Cmd / Alloc / acked / rt_assigned / journalled_id /
// rp_create / step / UCmd / max_of / ustep word for word: mirror edits there), replay half at the end of this file. Where the real code does
// less than `!acked ==> s` (a refused create may move the runtime counter) see [C05.sim.carried.any_counter].
pub open spec fn step(s: (Alloc, Alloc), cmd: Cmd, carried: bool) -> (Alloc, Alloc) {
    let (a, b) = s;
    if !acked(a, cmd) { s } else {
        match cmd {
            Cmd::Create(req) => (
                Alloc { c: rt_alloc(a.c, a.ids, req).1, ids: a.ids.insert(rt_assigned(a, req)) },
                rp_create(b, journalled_id(a, req, carried))),
            Cmd::Delete(id) => (Alloc { c: rt_release(a.c, id), ids: a.ids.remove(id) }, Alloc { c: b.c, ids: b.ids.remove(id) }),
            Cmd::Restart => (Alloc { c: 1, ids: b.ids }, b),
        }
    }
}
pub open spec fn run(h: Seq<Cmd>, carried: bool) -> (Alloc, Alloc)
    decreases h.len(),
{
    if h.len() == 0 { (rt0(), rp0()) } else { step(run(h.drop_last(), carried), h.last(), carried) }
}
// the catalogue a restart would produce equals the acknowledged one (numeric ids), after every prefix of h
pub open spec fn agrees(h: Seq<Cmd>, carried: bool) -> bool {
    forall|n: int| 0 <= n <= h.len() ==> run(#[trigger] h.take(n), carried).0.ids =~= run(h.take(n), carried).1.ids
}
// the id of every acknowledged Create equals the id replay gives to its journal entry
pub open spec fn same_id_at_last(h: Seq<Cmd>, carried: bool) -> bool {
    h.len() > 0 && h.last() is Create && acked(run(h.drop_last(), carried).0, h.last()) ==> {
        let (a, b) = run(h.drop_last(), carried);
        rp_alloc(b.c, journalled_id(a, h.last()->Create_0, carried)).0 == rt_assigned(a, h.last()->Create_0)
    }
}

// label: C05.sim.carried
// [H-journal-id] If the journal entry of every acknowledged create carries the id the runtime assigned, replay reproduces the
// runtime's ids on EVERY history: server-assigned and client-chosen ids, deletions, re-creations, restarts, in any order.
// [C05.journal.stream] (and its topic/group siblings) is exactly this hypothesis, demanded of the handlers.
pub proof fn c05_sim_carried(h: Seq<Cmd>)
    ensures run(h, true).0.ids =~= run(h, true).1.ids, same_id_at_last(h, true),
    decreases h.len(),
{
    if h.len() > 0 {
        c05_sim_carried(h.drop_last());
    }
}

// label: C05.sim.carried.all_prefixes
pub proof fn c05_sim_carried_prefixes(h: Seq<Cmd>)
    ensures agrees(h, true),
{
    assert forall|n: int| 0 <= n <= h.len() implies run(#[trigger] h.take(n), true).0.ids =~= run(h.take(n), true).1.ids by {
        c05_sim_carried(h.take(n));
    }
}

// label: C05.sim.explicit
// the code as it is (journal = the client's command): histories whose creates ALL carry a client-chosen id agree
pub open spec fn all_explicit(h: Seq<Cmd>) -> bool { forall|i: int| 0 <= i < h.len() ==> !(#[trigger] h[i] matches Cmd::Create(None)) }
pub proof fn c05_sim_explicit(h: Seq<Cmd>)
    requires all_explicit(h),
    ensures run(h, false).0.ids =~= run(h, false).1.ids, same_id_at_last(h, false),
    decreases h.len(),
{
    if h.len() > 0 {
        assert(all_explicit(h.drop_last())) by {
            assert forall|i: int| 0 <= i < h.drop_last().len() implies !(#[trigger] h.drop_last()[i] matches Cmd::Create(None)) by { assert(h.drop_last()[i] == h[i]); }
        }
        c05_sim_explicit(h.drop_last());
        assert(!(h[h.len() - 1] matches Cmd::Create(None)));
    }
}

// the code as it is, server-assigned ids: histories WITHOUT deletions and WITHOUT client-chosen ids agree (restarts allowed).
// [H-F6] `auto_only` is the hypothesis that carves out defect F6: a Delete or a Create(Some(_)) in the scope breaks it.
pub open spec fn auto_only(h: Seq<Cmd>) -> bool { forall|i: int| 0 <= i < h.len() ==> (#[trigger] h[i] == Cmd::Create(None) || h[i] == Cmd::Restart) }
pub open spec fn dense(s: (Alloc, Alloc)) -> bool {
    let (a, b) = s;
    &&& a.ids =~= b.ids
    &&& forall|k: u32| a.ids.contains(k) <==> 1 <= k <= b.c       // ids are exactly 1..=n, n = number of journalled creates
    &&& 1 <= a.c <= b.c + 1
}
pub proof fn lemma_scan_dense(c: u32, n: u32, ids: Set<u32>)
    requires 1 <= c <= n + 1, n < u32::MAX, forall|k: u32| ids.contains(k) <==> 1 <= k <= n,
    ensures rt_scan(c, ids) == n + 1,
    decreases n + 1 - c,
{
    if c <= n { lemma_scan_dense((c + 1) as u32, n, ids); }
}
// label: C05.sim.auto
pub proof fn c05_sim_auto(h: Seq<Cmd>)
    requires auto_only(h), h.len() < u32::MAX,
    ensures dense(run(h, false)), run(h, false).1.c <= h.len(), same_id_at_last(h, false),
    decreases h.len(),
{
    if h.len() > 0 {
        let p = h.drop_last();
        assert(auto_only(p)) by {
            assert forall|i: int| 0 <= i < p.len() implies (#[trigger] p[i] == Cmd::Create(None) || p[i] == Cmd::Restart) by { assert(p[i] == h[i]); }
        }
        c05_sim_auto(p);
        let (a, b) = run(p, false);
        assert(h[h.len() - 1] == Cmd::Create(None) || h[h.len() - 1] == Cmd::Restart);
        if h.last() == Cmd::Create(None) {
            lemma_scan_dense(a.c, b.c, a.ids);
        }
    }
}

// ---- F6: the unrestricted simulation is FALSE for the code as it is (journal = the client's command). Shortest witnesses,
// confirmed on the real server (see report: f6_stream_delete / f6_stream_explicit / f6_topics_groups witness tests).
pub proof fn lemma_scan_here(c: u32, ids: Set<u32>)
    requires !ids.contains(c),
    ensures rt_scan(c, ids) == c,
{
}
pub proof fn lemma_run_push(h: Seq<Cmd>, cmd: Cmd, carried: bool)
    ensures run(h.push(cmd), carried) == step(run(h, carried), cmd, carried),
{
    assert(h.push(cmd).drop_last() =~= h);
}
// label: C05.sim.f6.witness.delete
// create(None) -> 1, delete 1, create(None): the runtime moved its counter back and assigns 1 again, replay counts on and says 2
pub proof fn c05_divergence_delete()
    ensures ({ let h = seq![Cmd::Create(None), Cmd::Delete(1), Cmd::Create(None)];
        run(h, false).0.ids =~= set![1u32] && run(h, false).1.ids =~= set![2u32] }),
{
    let h0 = Seq::<Cmd>::empty();
    let h1 = h0.push(Cmd::Create(None));
    let h2 = h1.push(Cmd::Delete(1));
    let h3 = h2.push(Cmd::Create(None));
    assert(seq![Cmd::Create(None), Cmd::Delete(1), Cmd::Create(None)] =~= h3);
    lemma_run_push(h0, Cmd::Create(None), false);
    lemma_run_push(h1, Cmd::Delete(1), false);
    lemma_run_push(h2, Cmd::Create(None), false);
    lemma_scan_here(1, Set::<u32>::empty());
    let s1 = run(h1, false);
    assert(s1.0.c == 2 && s1.0.ids =~= set![1u32] && s1.1.c == 1 && s1.1.ids =~= set![1u32]);
    let s2 = run(h2, false);
    assert(s2.0.c == 1 && s2.0.ids =~= Set::<u32>::empty() && s2.1.c == 1 && s2.1.ids =~= Set::<u32>::empty());
    lemma_scan_here(1, s2.0.ids);
}
// label: C05.sim.f6.witness.explicit
// create(Some(1)), create(None): the runtime skips the taken id and assigns 2, replay says 1 and overwrites the first entity
pub proof fn c05_divergence_explicit()
    ensures ({ let h = seq![Cmd::Create(Some(1)), Cmd::Create(None)];
        run(h, false).0.ids =~= set![1u32, 2u32] && run(h, false).1.ids =~= set![1u32] }),
{
    let h0 = Seq::<Cmd>::empty();
    let h1 = h0.push(Cmd::Create(Some(1)));
    let h2 = h1.push(Cmd::Create(None));
    assert(seq![Cmd::Create(Some(1)), Cmd::Create(None)] =~= h2);
    lemma_run_push(h0, Cmd::Create(Some(1)), false);
    lemma_run_push(h1, Cmd::Create(None), false);
    let s1 = run(h1, false);
    assert(s1.0.c == 1 && s1.0.ids =~= set![1u32] && s1.1.c == 0 && s1.1.ids =~= set![1u32]);
    assert(rt_scan(1, s1.0.ids) == rt_scan(2, s1.0.ids));
    lemma_scan_here(2, s1.0.ids);
}

// ---- users: no id in the journalled CreateUser; runtime = plain counter re-seeded to max+1 at start-up ([C05.rt.user],
// [C05.rt.user.reseed]), replay = number of CreateUser entries so far ([C05.rp.user]) ---------------------------------------
pub enum UCmd { Create, Delete(u32), Restart }
pub open spec fn max_of(ids: Set<u32>) -> u32 { choose|m: u32| is_max_of(ids, m) }
// state after the first boot: the root user (id 1) exists, its CreateUser entry is journalled, USER_ID was re-seeded to 2
pub open spec fn u0() -> (Alloc, Alloc) { (Alloc { c: 2, ids: set![1u32] }, Alloc { c: 1, ids: set![1u32] }) }
pub open spec fn ustep(s: (Alloc, Alloc), cmd: UCmd) -> (Alloc, Alloc) {
    let (a, b) = s;
    match cmd {
        UCmd::Create => (Alloc { c: rt_user_alloc(a.c).1, ids: a.ids.insert(rt_user_alloc(a.c).0) }, rp_create(b, None)),
        UCmd::Delete(id) => if a.ids.contains(id) && id != 1 { (Alloc { c: a.c, ids: a.ids.remove(id) }, Alloc { c: b.c, ids: b.ids.remove(id) }) } else { s },
        // start-up: users are the replayed ones, USER_ID := highest id + 1
        UCmd::Restart => (Alloc { c: (max_of(b.ids) + 1) as u32, ids: b.ids }, b),
    }
}
pub open spec fn urun(h: Seq<UCmd>) -> (Alloc, Alloc)
    decreases h.len(),
{
    if h.len() == 0 { u0() } else { ustep(urun(h.drop_last()), h.last()) }
}
// [H-F7] at every restart the user created last (highest id ever assigned == number of CreateUser entries) still exists
pub open spec fn f7_free(h: Seq<UCmd>) -> bool {
    forall|n: int| 0 < n <= h.len() && (#[trigger] h[n - 1]) == UCmd::Restart ==> urun(h.take(n - 1)).1.ids.contains(urun(h.take(n - 1)).1.c)
}
pub open spec fn ulock(s: (Alloc, Alloc)) -> bool {
    let (a, b) = s;
    a.ids =~= b.ids && a.c == b.c + 1 && a.ids.contains(1) && forall|k: u32| a.ids.contains(k) ==> 1 <= k <= b.c
}
// label: C05.sim.users.restricted
pub proof fn c05_user_sim_restricted(h: Seq<UCmd>)
    requires f7_free(h), h.len() < u32::MAX - 2,
    ensures ulock(urun(h)), urun(h).1.c <= h.len() + 1,
    decreases h.len(),
{
    if h.len() > 0 {
        let p = h.drop_last();
        assert(f7_free(p)) by {
            assert forall|n: int| 0 < n <= p.len() && (#[trigger] p[n - 1]) == UCmd::Restart implies urun(p.take(n - 1)).1.ids.contains(urun(p.take(n - 1)).1.c) by {
                assert(p[n - 1] == h[n - 1]);
                assert(p.take(n - 1) =~= h.take(n - 1));
            }
        }
        c05_user_sim_restricted(p);
        let (a, b) = urun(p);
        if h.last() == UCmd::Restart {
            assert(h[h.len() - 1] == UCmd::Restart);
            assert(h.take(h.len() - 1) =~= p);
            assert(is_max_of(b.ids, b.c));
            assert(is_max_of(b.ids, max_of(b.ids)));
        }
    }
}
pub proof fn lemma_urun_push(h: Seq<UCmd>, cmd: UCmd)
    ensures urun(h.push(cmd)) == ustep(urun(h), cmd),
{
    assert(h.push(cmd).drop_last() =~= h);
}
// label: C05.sim.f7.witness
// create alice (-> 2), delete alice, restart (USER_ID := 1 + 1), create bob: runtime says 2, the journal's 3rd CreateUser says 3
pub proof fn c05_user_divergence()
    ensures ({ let h = seq![UCmd::Create, UCmd::Delete(2), UCmd::Restart, UCmd::Create];
        urun(h).0.ids =~= set![1u32, 2u32] && urun(h).1.ids =~= set![1u32, 3u32] }),
{
    let h0 = Seq::<UCmd>::empty();
    let h1 = h0.push(UCmd::Create);
    let h2 = h1.push(UCmd::Delete(2));
    let h3 = h2.push(UCmd::Restart);
    let h4 = h3.push(UCmd::Create);
    assert(seq![UCmd::Create, UCmd::Delete(2), UCmd::Restart, UCmd::Create] =~= h4);
    lemma_urun_push(h0, UCmd::Create);
    lemma_urun_push(h1, UCmd::Delete(2));
    lemma_urun_push(h2, UCmd::Restart);
    lemma_urun_push(h3, UCmd::Create);
    let s1 = urun(h1);
    assert(s1.0.c == 3 && s1.0.ids =~= set![1u32, 2u32] && s1.1.c == 2 && s1.1.ids =~= set![1u32, 2u32]);
    let s2 = urun(h2);
    assert(s2.0.c == 3 && s2.0.ids =~= set![1u32] && s2.1.c == 2 && s2.1.ids =~= set![1u32]);
    assert(is_max_of(s2.1.ids, 1));
    assert(is_max_of(s2.1.ids, max_of(s2.1.ids)));
    let s3 = urun(h3);
    assert(s3.0.c == 2 && s3.0.ids =~= set![1u32]);
}
// label: C05.sim.users
// From the property statement, unrestricted: after EVERY acknowledged user history a restart reproduces the same user ids.
// FALSE for the code as it is (c05_user_divergence is a proved counterexample, confirmed on the real server): defect F7.
// Kept at full strength; c05_user_sim_restricted is the strongest true form ([H-F7] carves the defect out).
pub proof fn c05_user_simulation(h: Seq<UCmd>)
    ensures urun(h).0.ids =~= urun(h).1.ids,
    decreases h.len(),
{
    if h.len() > 0 {
        c05_user_simulation(h.drop_last());
    }
}

// ---- vacuity: the hypotheses of the restricted lemmas are satisfiable (concrete histories) ----
// label: C05.sim.shape.hyp_auto_sat
pub proof fn witness_auto_only()
    ensures auto_only(seq![Cmd::Create(None), Cmd::Restart, Cmd::Create(None)]),
{
}
// label: C05.sim.shape.hyp_explicit_sat
pub proof fn witness_all_explicit()
    ensures all_explicit(seq![Cmd::Create(Some(5)), Cmd::Delete(5), Cmd::Restart]),
{
}
// label: C05.sim.shape.hyp_f7_sat
pub proof fn witness_f7_free()
    ensures f7_free(seq![UCmd::Create, UCmd::Restart, UCmd::Create]),
{
    let h = seq![UCmd::Create, UCmd::Restart, UCmd::Create];
    let h1 = Seq::<UCmd>::empty().push(UCmd::Create);
    lemma_urun_push(Seq::<UCmd>::empty(), UCmd::Create);
    assert forall|n: int| 0 < n <= h.len() && (#[trigger] h[n - 1]) == UCmd::Restart implies urun(h.take(n - 1)).1.ids.contains(urun(h.take(n - 1)).1.c) by {
        assert(n == 2);
        assert(h.take(1) =~= h1);
    }
}

// ---- COMPOSITION harnesses (link pass 2): the REPLAY half of the step function -------------------------------------------------
// `step` / `ustep` above are spec-level; that their replay component IS what the arms of SystemState::init do was a hypothesis
// ("[C05.rp.*], unit alloc_replay", cited by label). Each harness below calls ONE real extracted arm and proves, from its [C05.rp.*]
// contract, that the pair (replay counter, replayed ids) of the scope the entry addresses goes from b to `rp_create(b, j)` (j = the id
// field of the journalled command) resp. `rp_delete(b, id)` — by [C05.sim.shape.step_replay] exactly `step((a, b), cmd, carried).1`.
// The runtime half is proved the same way in units/alloc_runtime/lemmas.rs ([C05.link.alloc_replay.step.*] / [..ustep.*]). Not proved
// by either half: `Restart` for streams / topics / groups ("the runtime catalogue IS the replayed one, counter back at 1": start-up,
// units wiring / startup_match) and that both sides resolve a Delete's identifier to the same id (names: C06).
pub open spec fn rp_delete(b: Alloc, id: u32) -> Alloc { Alloc { c: b.c, ids: b.ids.remove(id) } }
// label: C05.sim.shape.step_replay
pub proof fn lemma_step_replay(a: Alloc, b: Alloc, cmd: Cmd, carried: bool)
    requires acked(a, cmd),
    ensures
        cmd matches Cmd::Create(req) ==> step((a, b), cmd, carried).1 == rp_create(b, journalled_id(a, req, carried)),
        cmd matches Cmd::Delete(id) ==> step((a, b), cmd, carried).1 == rp_delete(b, id),
        ustep((a, b), UCmd::Create).1 == rp_create(b, None),
        forall|id: u32| a.ids.contains(id) && id != 1 ==> #[trigger] ustep((a, b), UCmd::Delete(id)).1 == rp_delete(b, id),
{
}
// label: C05.sim.carried.any_counter
// One step from ANY pair of states whose id sets agree, whatever the two counters are: with the assigned id carried in the journal the
// id sets agree again. So a refused command that moved the runtime counter (a create_topic(None) refused after the scan, or a scan
// that ran out: the *.refused clauses of [C05.link.alloc_replay.step.create_*] in unit alloc_runtime) cannot break [C05.sim.carried].
pub proof fn c05_sim_carried_any_counter(s: (Alloc, Alloc), cmd: Cmd)
    requires s.0.ids =~= s.1.ids,
    ensures step(s, cmd, true).0.ids =~= step(s, cmd, true).1.ids,
{
}
pub open spec fn alloc_eq(x: Alloc, y: Alloc) -> bool { x.c == y.c && x.ids =~= y.ids }
pub open spec fn rp_streams(streams: Map<u32, StreamState>, c: u32) -> Alloc { Alloc { c, ids: streams.dom() } }
pub open spec fn rp_topics(s: StreamState) -> Alloc { Alloc { c: s.current_topic_id, ids: s.topics@.dom() } }
pub open spec fn rp_groups(t: TopicState) -> Alloc { Alloc { c: t.current_consumer_group_id, ids: t.consumer_groups@.dom() } }
pub open spec fn rp_users(users: Map<u32, UserState>, c: u32) -> Alloc { Alloc { c, ids: users.dom() } }

// label: C05.link.alloc_replay.step.rp_init
pub fn sim_rp_init() -> (r: (HashMap<u32, StreamState>, HashMap<u32, UserState>, u32, u32))
    ensures alloc_eq(rp_streams(r.0@, r.2), rp0()), alloc_eq(rp_users(r.1@, r.3), rp0()),
{ rp_init_counters() }

// label: C05.link.alloc_replay.step.rp_create_stream
pub fn sim_rp_create_stream(streams: HashMap<u32, StreamState>, current_stream_id: u32, command: CreateStream, entry: &StateEntry) -> (r: (HashMap<u32, StreamState>, u32))
    requires command.stream_id is None ==> current_stream_id < u32::MAX,
    ensures alloc_eq(rp_create(rp_streams(streams@, current_stream_id), command.stream_id), rp_streams(r.0@, r.1)),
{ rp_create_stream(streams, current_stream_id, command, entry) }

// (the replay counter is not among the arm's variables: it is the caller's unchanged `c`)
// label: C05.link.alloc_replay.step.rp_delete_stream
pub fn sim_rp_delete_stream(streams: HashMap<u32, StreamState>, command: DeleteStream, Ghost(c): Ghost<u32>) -> (r: HashMap<u32, StreamState>)
    ensures exists|sid: u32| rp_stream_denotes(streams@, &command.stream_id, sid) && alloc_eq(rp_delete(rp_streams(streams@, c), sid), rp_streams(r@, c)),
{ rp_delete_stream(streams, command) }

// label: C05.link.alloc_replay.step.rp_create_topic
pub fn sim_rp_create_topic(streams: HashMap<u32, StreamState>, command: CreateTopic, entry: &StateEntry) -> (r: HashMap<u32, StreamState>)
    requires forall|k: u32| #[trigger] streams@.contains_key(k) ==> streams@[k].current_topic_id < u32::MAX,
    ensures exists|sid: u32| rp_stream_denotes(streams@, &command.stream_id, sid) && streams@.contains_key(sid) && streams_frame(streams@, r@, sid)
        && alloc_eq(rp_create(rp_topics(streams@[sid]), command.topic_id), rp_topics(r@[sid])),
{ rp_create_topic(streams, command, entry) }

// label: C05.link.alloc_replay.step.rp_delete_topic
pub fn sim_rp_delete_topic(streams: HashMap<u32, StreamState>, command: DeleteTopic) -> (r: HashMap<u32, StreamState>)
    ensures exists|sid: u32, tid: u32| rp_stream_denotes(streams@, &command.stream_id, sid) && streams@.contains_key(sid)
        && rp_topic_denotes(streams@[sid].topics@, &command.topic_id, tid) && streams_frame(streams@, r@, sid)
        && alloc_eq(rp_delete(rp_topics(streams@[sid]), tid), rp_topics(r@[sid])),
{
    let r = rp_delete_topic(streams, command);
    proof {
        // the witnesses of [C05.rp.topic.delete]
        let (sid, tid) = choose|sid: u32, tid: u32| rp_stream_denotes(streams@, &command.stream_id, sid) && streams@.contains_key(sid)
            && rp_topic_denotes(streams@[sid].topics@, &command.topic_id, tid) && streams_frame(streams@, r@, sid)
            && r@[sid].topics@ =~= streams@[sid].topics@.remove(tid) && r@[sid].current_topic_id == streams@[sid].current_topic_id
            && r@[sid].id == streams@[sid].id && r@[sid].name == streams@[sid].name;
        assert(alloc_eq(rp_delete(rp_topics(streams@[sid]), tid), rp_topics(r@[sid])));
    }
    r
}

// label: C05.link.alloc_replay.step.rp_create_consumer_group
pub fn sim_rp_create_consumer_group(streams: HashMap<u32, StreamState>, command: CreateConsumerGroup) -> (r: HashMap<u32, StreamState>)
    requires forall|k: u32, t: u32| #[trigger] streams@.contains_key(k) && #[trigger] streams@[k].topics@.contains_key(t) ==> streams@[k].topics@[t].current_consumer_group_id < u32::MAX,
    ensures exists|sid: u32, tid: u32| rp_stream_denotes(streams@, &command.stream_id, sid) && streams@.contains_key(sid)
        && rp_topic_denotes(streams@[sid].topics@, &command.topic_id, tid) && streams@[sid].topics@.contains_key(tid)
        && streams_frame(streams@, r@, sid) && topics_frame(streams@[sid].topics@, r@[sid].topics@, tid)
        && alloc_eq(rp_create(rp_groups(streams@[sid].topics@[tid]), command.group_id), rp_groups(r@[sid].topics@[tid])),
{ rp_create_consumer_group(streams, command) }

// label: C05.link.alloc_replay.step.rp_delete_consumer_group
pub fn sim_rp_delete_consumer_group(streams: HashMap<u32, StreamState>, command: DeleteConsumerGroup) -> (r: HashMap<u32, StreamState>)
    ensures exists|sid: u32, tid: u32, gid: u32| rp_stream_denotes(streams@, &command.stream_id, sid) && streams@.contains_key(sid)
        && rp_topic_denotes(streams@[sid].topics@, &command.topic_id, tid) && streams@[sid].topics@.contains_key(tid)
        && rp_group_denotes(streams@[sid].topics@[tid].consumer_groups@, &command.group_id, gid)
        && streams_frame(streams@, r@, sid) && topics_frame(streams@[sid].topics@, r@[sid].topics@, tid)
        && alloc_eq(rp_delete(rp_groups(streams@[sid].topics@[tid]), gid), rp_groups(r@[sid].topics@[tid])),
{
    let r = rp_delete_consumer_group(streams, command);
    proof {
        // the witnesses of [C05.rp.group.delete]
        let (sid, tid, gid) = choose|sid: u32, tid: u32, gid: u32| rp_stream_denotes(streams@, &command.stream_id, sid) && streams@.contains_key(sid)
            && rp_topic_denotes(streams@[sid].topics@, &command.topic_id, tid) && streams@[sid].topics@.contains_key(tid)
            && rp_group_denotes(streams@[sid].topics@[tid].consumer_groups@, &command.group_id, gid)
            && streams_frame(streams@, r@, sid) && topics_frame(streams@[sid].topics@, r@[sid].topics@, tid)
            && r@[sid].current_topic_id == streams@[sid].current_topic_id && r@[sid].id == streams@[sid].id && r@[sid].name == streams@[sid].name
            && r@[sid].topics@[tid].consumer_groups@ =~= streams@[sid].topics@[tid].consumer_groups@.remove(gid)
            && r@[sid].topics@[tid].current_consumer_group_id == streams@[sid].topics@[tid].current_consumer_group_id
            && r@[sid].topics@[tid].id == streams@[sid].topics@[tid].id && r@[sid].topics@[tid].name == streams@[sid].topics@[tid].name;
        assert(alloc_eq(rp_delete(rp_groups(streams@[sid].topics@[tid]), gid), rp_groups(r@[sid].topics@[tid])));
    }
    r
}

// label: C05.link.alloc_replay.ustep.rp_create_user
pub fn sim_rp_create_user(users: HashMap<u32, UserState>, current_user_id: u32, command: CreateUser) -> (r: (HashMap<u32, UserState>, u32))
    requires current_user_id < u32::MAX,
    ensures alloc_eq(rp_create(rp_users(users@, current_user_id), None), rp_users(r.0@, r.1)),
{ rp_create_user(users, current_user_id, command) }

// label: C05.link.alloc_replay.ustep.rp_delete_user
pub fn sim_rp_delete_user(users: HashMap<u32, UserState>, command: DeleteUser, Ghost(c): Ghost<u32>) -> (r: HashMap<u32, UserState>)
    ensures exists|uid: u32| rp_user_denotes(users@, &command.user_id, uid) && alloc_eq(rp_delete(rp_users(users@, c), uid), rp_users(r@, c)),
{ rp_delete_user(users, command) }
