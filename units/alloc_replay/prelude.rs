// ---- unit prelude: alloc_replay (C05, replay side) -------------------------------------------------------
// Stand-ins (R4) and spec vocabulary for the match arms of SystemState::init. Nothing here re-states a body of /repo.

#[verifier::external_body]
#[derive(Debug)]
pub struct Name { s: String }
impl Clone for Name {
    #[verifier::external_body]
    fn clone(&self) -> (r: Name) ensures r == *self { unimplemented!() }
}
pub enum IggyError { InvalidIdentifier }
#[derive(Clone, Copy)]
pub struct IggyTimestamp(pub u64);
#[derive(Clone, Copy)]
pub struct IggyExpiry(pub u64);
#[derive(Clone, Copy)]
pub struct CompressionAlgorithm(pub u8);
#[derive(Clone, Copy)]
pub struct MaxTopicSize(pub u64);
#[derive(Clone, Copy)]
pub struct UserStatus(pub u8);
#[verifier::external_body]
pub struct Permissions { x: u8 }

// --- Identifier payload accessors (sdk): stubs with a small spec (same as unit catalogue_maps)
impl Identifier {
    pub uninterp spec fn num(&self) -> u32;
    pub uninterp spec fn text(&self) -> Name;
    #[verifier::external_body]
    pub fn get_u32_value(&self) -> (r: Result<u32, IggyError>)
        ensures r == (if self.kind == IdKind::Numeric && self.length == 4 { Ok::<u32, IggyError>(self.num()) } else { Err::<u32, IggyError>(IggyError::InvalidIdentifier) }),
    { unimplemented!() }
    #[verifier::external_body]
    pub fn get_cow_str_value(&self) -> (r: Result<Name, IggyError>)
        ensures r == (if self.kind == IdKind::Name { Ok::<Name, IggyError>(self.text()) } else { Err::<Name, IggyError>(IggyError::InvalidIdentifier) }),
    { unimplemented!() }
}

// R9 panic-as-divergence: the value if there is one; otherwise the call does not return (partial correctness)
pub trait UnwrapOrDiverge<T> { fn unwrap_or_diverge(self) -> T; }
impl<T> UnwrapOrDiverge<T> for Option<T> {
    #[verifier::external_body]
    fn unwrap_or_diverge(self) -> (r: T) ensures self == Some(r) { unimplemented!() }
}
impl<T, E> UnwrapOrDiverge<T> for Result<T, E> {
    #[verifier::external_body]
    fn unwrap_or_diverge(self) -> (r: T) ensures self matches Ok(v) && v == r { unimplemented!() }
}
// R8 schema for `m.values().find(|v| P)` (documented std semantics; iteration order unspecified)
#[verifier::external_body]
pub fn std_values_find<K, V>(m: &HashMap<K, V>, Ghost(f): Ghost<spec_fn(V) -> bool>) -> (r: Option<&V>)
    ensures match r {
        Some(v) => exists|k: K| #[trigger] m@.contains_key(k) && m@[k] == *v && f(*v),
        None => forall|k: K| #[trigger] m@.contains_key(k) ==> !f(m@[k]),
    },
{ unimplemented!() }

// ---- abstract view of the replayed state ----
// what an Identifier denotes during replay: a number denotes itself (no existence check), a name denotes the `id` FIELD of
// some entry carrying that name
pub open spec fn rp_stream_denotes(streams: Map<u32, StreamState>, ident: &Identifier, r: u32) -> bool {
    if ident.kind == IdKind::Numeric { ident.length == 4 && r == ident.num() }
    else { exists|k: u32| #[trigger] streams.contains_key(k) && streams[k].name == ident.text() && streams[k].id == r }
}
pub open spec fn rp_topic_denotes(topics: Map<u32, TopicState>, ident: &Identifier, r: u32) -> bool {
    if ident.kind == IdKind::Numeric { ident.length == 4 && r == ident.num() }
    else { exists|k: u32| #[trigger] topics.contains_key(k) && topics[k].name == ident.text() && topics[k].id == r }
}
pub open spec fn rp_group_denotes(groups: Map<u32, ConsumerGroupState>, ident: &Identifier, r: u32) -> bool {
    if ident.kind == IdKind::Numeric { ident.length == 4 && r == ident.num() }
    else { exists|k: u32| #[trigger] groups.contains_key(k) && groups[k].name == ident.text() && groups[k].id == r }
}
pub open spec fn rp_user_denotes(users: Map<u32, UserState>, ident: &Identifier, r: u32) -> bool {
    if ident.kind == IdKind::Numeric { ident.length == 4 && r == ident.num() }
    else { exists|k: u32| #[trigger] users.contains_key(k) && users[k].username == ident.text() && users[k].id == r }
}
// every stream but `sid` is untouched
pub open spec fn streams_frame(a: Map<u32, StreamState>, b: Map<u32, StreamState>, sid: u32) -> bool {
    &&& forall|k: u32| a.contains_key(k) <==> #[trigger] b.contains_key(k)
    &&& forall|k: u32| k != sid && #[trigger] a.contains_key(k) ==> b[k] == a[k]
}
pub open spec fn topics_frame(a: Map<u32, TopicState>, b: Map<u32, TopicState>, tid: u32) -> bool {
    &&& forall|k: u32| a.contains_key(k) <==> #[trigger] b.contains_key(k)
    &&& forall|k: u32| k != tid && #[trigger] a.contains_key(k) ==> b[k] == a[k]
}
#[verifier::external_body]
pub fn diverge<T>() -> (r: T) ensures false { unimplemented!() }
