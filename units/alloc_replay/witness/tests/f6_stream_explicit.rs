// F6 (explicit id): create(Some(1)) "a", create(None) "b" -> runtime skips to 2 ; replay numbers b as 1 and overwrites a
use c05wit::*;
use iggy::streams::create_stream::CreateStream;
use server::state::command::EntryCommand;

#[tokio::test]
async fn f6_stream_ids_explicit_then_auto_and_restart() {
    let dir = tempfile::TempDir::new().unwrap();
    let cfg = config(dir.path());
    let session = root_session();
    let (mut system, state) = boot(cfg.clone()).await;

    let a = system.create_stream(&session, Some(1), "a").await.unwrap().stream_id;
    state.apply(1, EntryCommand::CreateStream(CreateStream { stream_id: Some(1), name: "a".into() })).await.unwrap();
    let b = system.create_stream(&session, None, "b").await.unwrap().stream_id;
    state.apply(1, EntryCommand::CreateStream(CreateStream { stream_id: None, name: "b".into() })).await.unwrap();
    eprintln!("runtime: a={a} b={b}");
    let mut before: Vec<(u32, String)> = system.get_streams().iter().map(|s| (s.stream_id, s.name.clone())).collect();
    before.sort();
    let b_path = cfg.get_stream_path(b);
    drop(system);

    let (system2, _state2) = boot(cfg.clone()).await;
    let mut after: Vec<(u32, String)> = system2.get_streams().iter().map(|s| (s.stream_id, s.name.clone())).collect();
    after.sort();
    eprintln!("before restart: {before:?}\nafter restart:  {after:?}");
    eprintln!("directory of runtime stream b ({b_path}) still exists: {}", std::path::Path::new(&b_path).exists());
    assert_eq!(before, after, "C05: catalogue after restart differs from the acknowledged one");
}
