// F7: create user A (-> 2), delete A, restart (USER_ID := max+1 = 2), create B (-> runtime 2), restart: replay numbers B as 3
use c05wit::*;
use iggy::identifier::Identifier;
use iggy::models::user_status::UserStatus;
use iggy::users::create_user::CreateUser;
use iggy::users::delete_user::DeleteUser;
use server::state::command::EntryCommand;

fn users_of(system: &server::streaming::systems::system::System) -> Vec<(u32, String)> {
    let mut v = Vec::new();
    for id in 1..10u32 {
        if let Ok(u) = system.get_user(&Identifier::numeric(id).unwrap()) { v.push((u.id, u.username.clone())); }
    }
    v
}

#[tokio::test]
async fn f7_user_ids_after_delete_highest_and_two_restarts() {
    let dir = tempfile::TempDir::new().unwrap();
    let cfg = config(dir.path());
    let session = root_session();
    let (mut system, state) = boot(cfg.clone()).await;
    let a = system.create_user(&session, "alice", "secret123", UserStatus::Active, None).await.unwrap().id;
    state.apply(1, EntryCommand::CreateUser(CreateUser { username: "alice".into(), password: "hash".into(), status: UserStatus::Active, permissions: None })).await.unwrap();
    let ident = Identifier::numeric(a).unwrap();
    system.delete_user(&session, &ident).await.unwrap();
    state.apply(1, EntryCommand::DeleteUser(DeleteUser { user_id: ident })).await.unwrap();
    eprintln!("incarnation 1: alice={a}, users {:?}", users_of(&system));
    drop(system);

    let (mut system2, state2) = boot(cfg.clone()).await;
    let b = system2.create_user(&session, "bob", "secret123", UserStatus::Active, None).await.unwrap().id;
    state2.apply(1, EntryCommand::CreateUser(CreateUser { username: "bob".into(), password: "hash".into(), status: UserStatus::Active, permissions: None })).await.unwrap();
    let before = users_of(&system2);
    eprintln!("incarnation 2: bob={b}, users {before:?}");
    drop(system2);

    let (system3, _s3) = boot(cfg.clone()).await;
    let after = users_of(&system3);
    eprintln!("incarnation 3: users {after:?}");
    assert_eq!(before, after, "C05: users after restart differ from the acknowledged ones");
}
