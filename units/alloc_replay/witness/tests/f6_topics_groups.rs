// F6 at topic and consumer-group level (per-stream / per-topic counters; no process-global state involved)
use c05wit::*;
use iggy::compression::compression_algorithm::CompressionAlgorithm;
use iggy::consumer_groups::create_consumer_group::CreateConsumerGroup;
use iggy::consumer_groups::delete_consumer_group::DeleteConsumerGroup;
use iggy::identifier::Identifier;
use iggy::locking::IggySharedMutFn;
use iggy::streams::create_stream::CreateStream;
use iggy::topics::create_topic::CreateTopic;
use iggy::topics::delete_topic::DeleteTopic;
use iggy::utils::expiry::IggyExpiry;
use iggy::utils::topic_size::MaxTopicSize;
use server::state::command::EntryCommand;
use server::streaming::systems::system::System;

async fn mk_topic(system: &mut System, state: &server::state::StateKind, sid: &Identifier, name: &str) -> u32 {
    let session = root_session();
    let t = system
        .create_topic(&session, sid, None, name, 1, IggyExpiry::NeverExpire, CompressionAlgorithm::None, MaxTopicSize::Unlimited, None)
        .await
        .unwrap();
    let id = t.topic_id;
    let (exp, max) = (t.message_expiry, t.max_topic_size);
    state.apply(1, EntryCommand::CreateTopic(CreateTopic {
        stream_id: sid.clone(), topic_id: None, partitions_count: 1, compression_algorithm: CompressionAlgorithm::None,
        message_expiry: exp, max_topic_size: max, replication_factor: None, name: name.into(),
    })).await.unwrap();
    id
}

async fn topics_of(system: &System, sid: &Identifier) -> Vec<(u32, String)> {
    let mut v: Vec<(u32, String)> = system.get_stream(sid).unwrap().get_topics().iter().map(|t| (t.topic_id, t.name.clone())).collect();
    v.sort();
    v
}

#[tokio::test]
async fn f6_topic_ids_after_delete_and_restart() {
    let dir = tempfile::TempDir::new().unwrap();
    let cfg = config(dir.path());
    let session = root_session();
    let (mut system, state) = boot(cfg.clone()).await;
    system.create_stream(&session, Some(77), "s").await.unwrap();
    state.apply(1, EntryCommand::CreateStream(CreateStream { stream_id: Some(77), name: "s".into() })).await.unwrap();
    let sid = Identifier::numeric(77).unwrap();

    let t1 = mk_topic(&mut system, &state, &sid, "t1").await;
    let tid = Identifier::numeric(t1).unwrap();
    system.delete_topic(&session, &sid, &tid).await.unwrap();
    state.apply(1, EntryCommand::DeleteTopic(DeleteTopic { stream_id: sid.clone(), topic_id: tid })).await.unwrap();
    let t2 = mk_topic(&mut system, &state, &sid, "t2").await;
    eprintln!("runtime: t1={t1} t2={t2}");
    let t2_path = cfg.get_topic_path(77, t2);
    std::fs::write(format!("{t2_path}/marker"), b"data of t2").unwrap();
    let before = topics_of(&system, &sid).await;
    drop(system);

    let (system2, _s2) = boot(cfg.clone()).await;
    let after = topics_of(&system2, &sid).await;
    eprintln!("topics before restart: {before:?}\ntopics after restart:  {after:?}");
    eprintln!("marker in runtime topic dir survives: {}", std::path::Path::new(&format!("{t2_path}/marker")).exists());
    assert_eq!(before, after, "C05: topics after restart differ from the acknowledged ones");
}

#[tokio::test]
async fn f6_group_ids_after_delete_and_restart() {
    let dir = tempfile::TempDir::new().unwrap();
    let cfg = config(dir.path());
    let session = root_session();
    let (mut system, state) = boot(cfg.clone()).await;
    system.create_stream(&session, Some(78), "s").await.unwrap();
    state.apply(1, EntryCommand::CreateStream(CreateStream { stream_id: Some(78), name: "s".into() })).await.unwrap();
    let sid = Identifier::numeric(78).unwrap();
    let t = mk_topic(&mut system, &state, &sid, "t").await;
    let tid = Identifier::numeric(t).unwrap();

    let g1 = { let g = system.create_consumer_group(&session, &sid, &tid, None, "g1").await.unwrap(); let g = g.read().await; g.group_id };
    state.apply(1, EntryCommand::CreateConsumerGroup(CreateConsumerGroup { stream_id: sid.clone(), topic_id: tid.clone(), group_id: None, name: "g1".into() })).await.unwrap();
    let gid = Identifier::numeric(g1).unwrap();
    system.delete_consumer_group(&session, &sid, &tid, &gid).await.unwrap();
    state.apply(1, EntryCommand::DeleteConsumerGroup(DeleteConsumerGroup { stream_id: sid.clone(), topic_id: tid.clone(), group_id: gid })).await.unwrap();
    let g2 = { let g = system.create_consumer_group(&session, &sid, &tid, None, "g2").await.unwrap(); let g = g.read().await; g.group_id };
    state.apply(1, EntryCommand::CreateConsumerGroup(CreateConsumerGroup { stream_id: sid.clone(), topic_id: tid.clone(), group_id: None, name: "g2".into() })).await.unwrap();
    eprintln!("runtime: g1={g1} g2={g2}");
    drop(system);

    let (system2, _s2) = boot(cfg.clone()).await;
    let topic = system2.get_stream(&sid).unwrap().get_topic(&tid).unwrap();
    let mut after = Vec::new();
    for g in topic.get_consumer_groups() { let g = g.read().await; after.push((g.group_id, g.name.clone())); }
    after.sort();
    eprintln!("groups after restart: {after:?}");
    assert_eq!(after, vec![(g2, "g2".to_string())], "C05: consumer groups after restart differ from the acknowledged ones");
}
