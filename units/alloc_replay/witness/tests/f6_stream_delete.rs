// F6 (delete): create(None) -> 1, delete 1, create(None) -> runtime 1 ; replay numbers it 2
use c05wit::*;
use iggy::identifier::Identifier;
use iggy::streams::create_stream::CreateStream;
use iggy::streams::delete_stream::DeleteStream;
use server::state::command::EntryCommand;

#[tokio::test]
async fn f6_stream_ids_after_delete_and_restart() {
    let dir = tempfile::TempDir::new().unwrap();
    let cfg = config(dir.path());
    let session = root_session();
    let (mut system, state) = boot(cfg.clone()).await;

    let a = system.create_stream(&session, None, "a").await.unwrap().stream_id;
    state.apply(1, EntryCommand::CreateStream(CreateStream { stream_id: None, name: "a".into() })).await.unwrap();
    let ident = Identifier::numeric(a).unwrap();
    system.delete_stream(&session, &ident).await.unwrap();
    state.apply(1, EntryCommand::DeleteStream(DeleteStream { stream_id: ident })).await.unwrap();
    let b = system.create_stream(&session, None, "b").await.unwrap().stream_id;
    state.apply(1, EntryCommand::CreateStream(CreateStream { stream_id: None, name: "b".into() })).await.unwrap();
    eprintln!("runtime: a={a} b={b}");
    let b_path = cfg.get_stream_path(b);
    std::fs::write(format!("{b_path}/marker"), b"data of b").unwrap();
    let mut before: Vec<(u32, String)> = system.get_streams().iter().map(|s| (s.stream_id, s.name.clone())).collect();
    before.sort();
    drop(system);

    let (system2, _state2) = boot(cfg.clone()).await;
    let mut after: Vec<(u32, String)> = system2.get_streams().iter().map(|s| (s.stream_id, s.name.clone())).collect();
    after.sort();
    eprintln!("before restart: {before:?}\nafter restart:  {after:?}");
    eprintln!("directory of runtime stream b ({b_path}) still exists: {}", std::path::Path::new(&b_path).exists());
    eprintln!("marker file survives: {}", std::path::Path::new(&format!("{b_path}/marker")).exists());
    assert_eq!(before, after, "C05: catalogue after restart differs from the acknowledged one");
    assert!(std::path::Path::new(&format!("{b_path}/marker")).exists(), "C05: data directory of a live stream was discarded");
}
