// ---- lemmas: encryption (C19) — proved on every run, spec level only ---------------------------------------------
// They compose the sink contract ([C19.sink-msg]) with the poll contract ([C19.poll]) under the assumption that the
// storage layer returns the payload bytes it was handed (C01/C02's subject: `stored.payload@ == handed.payload@`).

// lossless read: a message sealed under k at send time and opened under the same k at poll time carries the sent payload
// label: C19.rt
pub proof fn lemma_round_trip(k: Key, sent: Message, handed: Message, stored: PolledMessage, returned: PolledMessage)
    requires sealed_as(k, sent, handed), stored.payload@ == handed.payload@, opened_as(k, stored, returned),
    ensures returned.payload@ == sent.payload@, returned.length == sent.payload@.len(),
{
}

// data written under one key is never returned as valid content under another key: no poll result can be `opened_as`
// under k2 != k, so by [C19.poll] the poll is not Ok
// label: C19.rt.other-key
pub proof fn lemma_other_key_never_opens(k: Key, k2: Key, sent: Message, handed: Message, stored: PolledMessage, returned: PolledMessage)
    requires sealed_as(k, sent, handed), stored.payload@ == handed.payload@, k2 != k,
    ensures !opened_as(k2, stored, returned),
{
    assert(dec(k2, handed.payload@) is None);
}

// nothing sensitive in clear at the sink: what is handed over differs from what was sent and opens to it only under k
// label: C19.sink-msg.not-clear
pub proof fn lemma_sink_not_clear(k: Key, orig: Seq<Message>, size: u64, msgs: Seq<Message>, i: int)
    requires sink_ok(Some(k), orig, size, msgs), 0 <= i < msgs.len(),
    ensures msgs[i].payload@ != orig[i].payload@, dec(k, msgs[i].payload@) == Some(orig[i].payload@),
{
    assert(sealed_as(k, orig[i], msgs[i]));
}

// the journal: a command written under k ([C19.journal.sink]) and loaded under k ([C19.journal.load.decrypts]) is
// rebuilt to exactly the clear framed command the checksum was computed over; under k2 != k the loader fails
// label: C19.journal.rt
pub proof fn lemma_journal_round_trip(k: Key, stored_cmd: Seq<u8>, clear: Seq<u8>, code: u32)
    requires
        journal_cmd_ok(Some(k), stored_cmd, clear), cmd_wf(clear), le32(code) == stored_cmd.subrange(0, 4),
    ensures
        dec(k, stored_cmd.subrange(8, stored_cmd.len() as int)) matches Some(p)
            && le32(code) + le32(p.len() as u32) + p == clear,
        forall|k2: Key| k2 != k ==> dec(k2, stored_cmd.subrange(8, stored_cmd.len() as int)) is None,
{
    let p = clear.subrange(8, clear.len() as int);
    assert(p.len() == clear.len() - 8);
    assert(le32(code) == clear.subrange(0, 4));
    assert(le32(p.len() as u32) == clear.subrange(4, 8));
    assert(clear.subrange(0, 4) + clear.subrange(4, 8) + p =~= clear);
}
