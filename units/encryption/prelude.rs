// ---- unit prelude: encryption (C19) ------------------------------------------------------------------------------
// Stand-ins (R4) and assumed contracts for everything the extracted encrypt/decrypt placements call but which is not
// extracted, plus the spec vocabulary. Nothing here re-states a function body of /repo.

global size_of usize == 8;   // 64-bit target

#[derive(Debug)]
pub enum IggyError {
    CannotEncryptData, CannotDecryptData, InvalidMessagesCount, NoPartitions(u32, u32), Unauthenticated, Unauthorized,
    InvalidCommand, InvalidNumberEncoding, CannotAppendToFile, InvalidStateEntryChecksum(u32, u32, u64), InvalidEncryptionKey, Other,
}

// R4: IggyByteSize -> u64; its conversions are identities
pub fn bs_from(x: u64) -> (r: u64) ensures r == x, { x }
pub fn bs_default() -> (r: u64) ensures r == 0, { 0 }

// `Bytes` derefs to `[u8]` (how `&message.payload` reaches `encrypt(&[u8])`)
impl core::ops::Deref for ByteSeq {
    type Target = [u8];
    fn deref(&self) -> (r: &[u8]) ensures r@ == self@ { self.v.as_slice() }
}

// ---- A-dep(AES-GCM) ------------------------------------------------------------------------------------------------
// `Key`: the identity of a 256-bit key. `aead_dec(k, nonce, body)`: the AEAD's decryption function (None: the tag
// does not verify). What the server stores is `nonce(12) ++ body`; `dec` is decryption of that stored form.
pub struct Key { pub id: int }
pub uninterp spec fn aead_dec(k: Key, nonce: Seq<u8>, body: Seq<u8>) -> Option<Seq<u8>>;
pub open spec fn dec(k: Key, c: Seq<u8>) -> Option<Seq<u8>> {
    if c.len() < 12 { None } else { aead_dec(k, c.subrange(0, 12), c.subrange(12, c.len() as int)) }
}
#[derive(Debug)]
pub struct AeadError { pub k: u8 }
// aes_gcm::Aes256Gcm (the cipher object holding the key)
#[verifier::external_body]
pub struct AeadCipher { x: u8 }
// aead::generic_array::GenericArray<u8, U12> (the nonce)
#[verifier::external_body]
pub struct GenericArray { x: u8 }
impl GenericArray {
    pub uninterp spec fn bytes(&self) -> Seq<u8>;
    // GenericArray::from_slice panics unless the slice has exactly the array's length (12)
    #[verifier::external_body]
    pub fn from_slice<'a>(s: &'a [u8]) -> (r: &'a GenericArray)
        requires s@.len() == 12,
        ensures r.bytes() == s@,
    { unimplemented!() }
}
impl AeadCipher {
    pub uninterp spec fn key(&self) -> Key;
    #[verifier::external_body]
    pub fn decrypt(&self, nonce: &GenericArray, data: &[u8]) -> (r: Result<Vec<u8>, AeadError>)
        ensures match r { Ok(p) => aead_dec(self.key(), nonce.bytes(), data@) == Some(p@) && p@.len() <= data@.len(), Err(_) => aead_dec(self.key(), nonce.bytes(), data@) is None },
    { unimplemented!() }
}
// aead::generic_array::GenericArray<u8, U32> (the key; R4 monomorphic instance of from_slice, only in Aes256GcmEncryptor::new):
// panics unless the slice has exactly 32 bytes. `key_of_bytes`: the key that 32 bytes of key material are (A-dep(AES-GCM):
// Aes256Gcm::new builds the cipher for exactly the bytes it is given)
#[verifier::external_body]
pub struct KeyArray { x: u8 }
pub uninterp spec fn key_of_bytes(b: Seq<u8>) -> Key;
impl KeyArray {
    pub uninterp spec fn bytes(&self) -> Seq<u8>;
    #[verifier::external_body]
    pub fn from_slice<'a>(s: &'a [u8]) -> (r: &'a KeyArray)
        requires s@.len() == 32,
        ensures r.bytes() == s@,
    { unimplemented!() }
}
impl AeadCipher {
    #[verifier::external_body]
    pub fn new(k: &KeyArray) -> (r: AeadCipher)
        ensures r.key() == key_of_bytes(k.bytes()),
    { unimplemented!() }
}
// Aes256GcmEncryptor::encrypt (sdk/src/utils/crypto.rs; fresh random nonce, `[&nonce, ct].concat()`): NOT extracted
// (array-of-slices concat). Assumed: the result is nonce ++ ciphertext+tag (28 bytes longer than the plaintext), opens
// to the plaintext under this key and under no other, and is not the plaintext.
impl Aes256GcmEncryptor {
    #[verifier::external_body]
    pub fn encrypt(&self, data: &[u8]) -> (r: Result<Vec<u8>, IggyError>)
        ensures r matches Ok(c) ==> dec(self.cipher.key(), c@) == Some(data@) && c@ != data@ && c@.len() == data@.len() + 28
            && (forall|k2: Key| k2 != self.cipher.key() ==> #[trigger] dec(k2, c@) is None),
    { unimplemented!() }
}
pub open spec fn key_of(e: EncryptorKind) -> Key { match e { EncryptorKind::Aes256Gcm(a) => a.cipher.key() } }
pub open spec fn sys_key(e: Option<EncryptorKind>) -> Option<Key> { match e { Some(x) => Some(key_of(x)), None => None } }

// ---- messages --------------------------------------------------------------------------------------------------------
#[verifier::external_body]
pub struct Headers { x: u8 }
impl Clone for Headers { #[verifier::external_body] fn clone(&self) -> (r: Self) ensures r == *self { unimplemented!() } }
pub uninterp spec fn hdr_size(h: Option<Headers>) -> u32;
pub mod header {
    use super::*;
    // sdk/src/models/header.rs: the size is accumulated in a u32 and widened
    #[verifier::external_body]
    pub fn get_headers_size_bytes(headers: &Option<Headers>) -> (r: u64) ensures r == hdr_size(*headers) { unimplemented!() }
}
// ID + Length + Payload + Headers (what Message::get_size_bytes computes: [C19.shape.size])
pub open spec fn msg_size(m: Message) -> int { hdr_size(m.headers) + 20 + m.payload@.len() }
pub open spec fn sum_sizes(s: Seq<Message>) -> int
    decreases s.len(),
{
    if s.len() == 0 { 0 } else { sum_sizes(s.drop_last()) + msg_size(s.last()) }
}
// R8 schema instance: v.iter().map(|msg| msg.get_size_bytes()).sum::<IggyByteSize>()  (u64 additions: the sum must fit)
#[verifier::external_body]
pub fn std_iter_sum_size_bytes(v: &Vec<Message>) -> (r: u64)
    requires sum_sizes(v@) <= u64::MAX,
    ensures r == sum_sizes(v@),
{ unimplemented!() }
// R8 schema: `v.iter_mut()`: one exclusive reference per element, in order; the vector after the borrows end holds,
// at each index, the final value of that index's borrow
#[verifier::external_body]
pub fn std_vec_iter_mut<'a, T>(v: &'a mut Vec<T>) -> (r: Vec<&'a mut T>)
    ensures
        final(v)@.len() == old(v)@.len(),
        r@.len() == old(v)@.len(),
        forall|i: int| 0 <= i < r@.len() ==> *#[trigger] r@[i] == old(v)@[i],
        forall|i: int| #![trigger r@[i]] #![trigger final(v)@[i]] 0 <= i < r@.len() ==> *final(r@[i]) == final(v)@[i],
{ unimplemented!() }

// ---- the sink and the source of the data path (A-trace) ----------------------------------------------------------------
pub uninterp spec fn handed_to_sink(batch_size: u64, msgs: Seq<Message>) -> bool;
pub uninterp spec fn was_read(pm: PolledMessages) -> bool;

#[verifier::external_body] pub struct Identifier { x: u8 }
#[verifier::external_body] pub struct Partitioning { x: u8 }
#[verifier::external_body] pub struct Confirmation { x: u8 }
#[verifier::external_body] pub struct Consumer { x: u8 }
#[derive(Clone, Copy)]
pub struct PollingConsumer { pub k: u8, pub id: u32 }
#[derive(Clone, Copy, Debug)]
pub struct PollingStrategy { pub k: u8, pub v: u64 }
pub struct Session { pub client_id: u32, pub uid: u32 }
impl Session {
    pub fn get_user_id(&self) -> (r: u32) { self.uid }
}
#[verifier::external_body] pub struct Permissioner { x: u8 }
impl Permissioner {
    #[verifier::external_body] pub fn poll_messages(&self, user_id: u32, stream_id: u32, topic_id: u32) -> (r: Result<(), IggyError>) { unimplemented!() }
    #[verifier::external_body] pub fn append_messages(&self, user_id: u32, stream_id: u32, topic_id: u32) -> (r: Result<(), IggyError>) { unimplemented!() }
}
#[verifier::external_body] pub struct Metrics { x: u8 }
impl Metrics {
    #[verifier::external_body] pub fn increment_messages(&self, n: u64) { unimplemented!() }
}
#[verifier::external_body] pub struct CacheMemoryTracker { x: u8 }
impl CacheMemoryTracker {
    #[verifier::external_body] pub fn get_instance() -> (r: Option<CacheMemoryTracker>) { unimplemented!() }
    #[verifier::external_body] pub fn will_fit_into_cache(&self, requested_size: u64) -> (r: bool) { unimplemented!() }
}
// the storage layer below System (C01/C02's subject)
pub struct Topic { pub stream_id: u32, pub topic_id: u32 }
impl Topic {
    #[verifier::external_body] pub fn has_partitions(&self) -> (r: bool) { unimplemented!() }
    #[verifier::external_body]
    pub fn resolve_consumer_with_partition_id(&self, consumer: &Consumer, client_id: u32, partition_id: Option<u32>, calculate_partition_id: bool)
        -> (r: Result<Option<(PollingConsumer, u32)>, IggyError>) { unimplemented!() }
    // SOURCE: whatever comes back is recorded as read
    #[verifier::external_body]
    pub fn get_messages(&self, consumer: PollingConsumer, partition_id: u32, strategy: PollingStrategy, count: u32) -> (r: Result<PolledMessages, IggyError>)
        ensures r matches Ok(pm) ==> was_read(pm),
    { unimplemented!() }
    #[verifier::external_body]
    pub fn store_consumer_offset_internal(&self, consumer: PollingConsumer, offset: u64, partition_id: u32) -> (r: Result<(), IggyError>) { unimplemented!() }
    // SINK: whatever is passed in is recorded as handed over
    #[verifier::external_body]
    pub fn append_messages(&self, batch_size: u64, partitioning: Partitioning, messages: Vec<Message>, confirmation: Option<Confirmation>) -> (r: Result<(), IggyError>)
        ensures handed_to_sink(batch_size, messages@),
    { unimplemented!() }
}
impl System {
    #[verifier::external_body] pub fn ensure_authenticated(&self, session: &Session) -> (r: Result<(), IggyError>) { unimplemented!() }
    #[verifier::external_body] pub fn find_topic(&self, session: &Session, stream_id: &Identifier, topic_id: &Identifier) -> (r: Result<&Topic, IggyError>) { unimplemented!() }
    #[verifier::external_body] pub fn clean_cache(&self, size_to_clean: u64) { unimplemented!() }
}

// what the sink must have received for the send `orig` (k: the system's key, None = encryption off)
// c opens under k only
pub open spec fn other_keys_reject(k: Key, c: Seq<u8>) -> bool { forall|k2: Key| k2 != k ==> #[trigger] dec(k2, c) is None }
pub open spec fn sealed_as(k: Key, o: Message, m: Message) -> bool {
    &&& dec(k, m.payload@) == Some(o.payload@)
    &&& other_keys_reject(k, m.payload@)
    &&& m.payload@ != o.payload@
    &&& m.length == m.payload@.len() as u32
    &&& m.id == o.id && m.headers == o.headers
}
pub open spec fn sink_ok(k: Option<Key>, orig: Seq<Message>, size: u64, msgs: Seq<Message>) -> bool {
    &&& msgs.len() == orig.len()
    &&& size == sum_sizes(msgs)
    &&& match k {
            Some(k) => forall|i: int| 0 <= i < msgs.len() ==> sealed_as(k, orig[i], #[trigger] msgs[i]),
            None => msgs == orig,
        }
}
// what a poll must return for the stored batch `s`
pub open spec fn opened_as(k: Key, s: PolledMessage, o: PolledMessage) -> bool {
    &&& dec(k, s.payload@) == Some(o.payload@)
    &&& o.length == o.payload@.len()
    &&& o.id == s.id && o.offset == s.offset && o.state == s.state && o.timestamp == s.timestamp && o.checksum == s.checksum
    &&& o.headers == s.headers
}
pub open spec fn poll_ok(k: Option<Key>, s: PolledMessages, o: PolledMessages) -> bool {
    match k {
        Some(k) => o.partition_id == s.partition_id && o.current_offset == s.current_offset && o.messages@.len() == s.messages@.len()
            && forall|i: int| 0 <= i < o.messages@.len() ==> opened_as(k, s.messages@[i], #[trigger] o.messages@[i]),
        None => o == s,
    }
}

// ---- the journal sink (FileState) ------------------------------------------------------------------------------------
pub enum Ordering { Relaxed, Release, Acquire, AcqRel, SeqCst }
pub struct AtomicU64 { pub v: u64 }
impl AtomicU64 {
    pub fn load(&self, ord: Ordering) -> (r: u64) ensures r == self.v, { self.v }
    // fetch_add wraps around on overflow (std documentation), returns the previous value
    #[verifier::external_body]
    pub fn fetch_add(&mut self, n: u64, ord: Ordering) -> (r: u64)
        ensures r == old(self).v, final(self).v as int == (old(self).v + n) % 0x1_0000_0000_0000_0000,
    { unimplemented!() }
}
pub struct AtomicU32 { pub v: u32 }
impl AtomicU32 {
    pub fn load(&self, ord: Ordering) -> (r: u32) ensures r == self.v, { self.v }
}
#[derive(Clone, Copy)]
pub struct IggyTimestamp(pub u64);
impl IggyTimestamp {
    #[verifier::external_body]
    pub fn now() -> (r: IggyTimestamp) { unimplemented!() }
}
// A-io: the journal file behind the persister (as in unit journal)
#[verifier::external_body]
pub struct Persister { _p: () }
impl Persister {
    pub uninterp spec fn file(&self) -> Seq<u8>;
    #[verifier::external_body]
    pub fn append(&mut self, path: &String, bytes: &ByteSeq) -> (r: Result<(), IggyError>)
        ensures r is Ok ==> final(self).file() == old(self).file() + bytes@,
    { unimplemented!() }
}
// EntryCommand (server/src/state/command.rs): opaque; to_bytes frames the payload as code(4) ++ len(4) ++ payload
pub open spec fn cmd_wf(c: Seq<u8>) -> bool {
    c.len() >= 8 && c.len() - 8 <= u32::MAX && c.subrange(4, 8) == le32((c.len() - 8) as u32)
}
#[verifier::external_body]
pub struct EntryCommand { _p: () }
pub uninterp spec fn cmd_bytes(c: EntryCommand) -> Seq<u8>;
impl EntryCommand {
    // LINKED: units/journal_cmd/lemmas.rs, harness [C13.link.encryption.to_bytes] proves this contract from the real function, with
    // `cmd_bytes` DEFINED there as the journal form `cmd_enc` (mirror edits there). The link added the `requires` (the real function
    // needs the payload length to fit the u32 length word: otherwise the word is truncated and cmd_wf is false; the stub had hidden it).
    #[verifier::external_body]
    pub fn to_bytes(&self) -> (r: ByteSeq)
        requires cmd_bytes(*self).len() <= 8 + u32::MAX,
        ensures r@ == cmd_bytes(*self), cmd_wf(r@) { unimplemented!() }
    // contract-less here (the result is only propagated with `?`). NOT linked: the real function (unit journal_cmd) is under contract
    // only for frames whose declared lengths lie inside the buffer and PANICS on others (slice out of range); this unit makes no
    // no-panic claim for the loader (that is unit journal's [C11.total], which calls it only after the checksum comparison)
    #[verifier::external_body]
    pub fn from_bytes(bytes: ByteSeq) -> (r: Result<EntryCommand, IggyError>) { unimplemented!() }
}
// C11's subject (unit journal proves the layout and the checksum input): here only names
pub uninterp spec fn entry_bytes(e: StateEntry) -> Seq<u8>;
pub uninterp spec fn crc_fields(index: u64, term: u64, leader_id: u32, version: u32, flags: u64, ts: u64, user_id: u32, context: Seq<u8>, command: Seq<u8>) -> u32;
impl StateEntry {
    // LINKED: units/journal/lemmas.rs, harness [C11.link.encryption.StateEntry.to_bytes] proves this contract from the real function,
    // with `entry_bytes` DEFINED there as the layout `enc` (mirror edits there). The link added the `requires` (unit journal has the
    // real function under contract for well-formed entries: context length fits its u32 word, framed command; the stub had hidden it).
    #[verifier::external_body]
    pub fn to_bytes(&self) -> (r: ByteSeq)
        requires self.context@.len() <= u32::MAX && cmd_wf(self.command@),
        ensures r@ == entry_bytes(*self) { unimplemented!() }
    // LINKED: units/journal/lemmas.rs, harness [C11.link.encryption.StateEntry.calculate_checksum], with `crc_fields` DEFINED there as
    // crc32 over `crc_input` (mirror edits there). The link added the `requires` (the real function sums the lengths into a buffer
    // capacity and writes `context.len() as u32`; the stub had hidden it).
    #[verifier::external_body]
    pub fn calculate_checksum(index: u64, term: u64, leader_id: u32, version: u32, flags: u64, timestamp: IggyTimestamp, user_id: u32,
                              context: &ByteSeq, command: &ByteSeq) -> (r: u32)
        requires context@.len() <= u32::MAX && command@.len() <= 8 + u32::MAX,
        ensures r == crc_fields(index, term, leader_id, version, flags, timestamp.0, user_id, context@, command@),
    { unimplemented!() }
}
// the command bytes written to the journal for the clear framed command `clear`
pub open spec fn journal_cmd_ok(k: Option<Key>, stored: Seq<u8>, clear: Seq<u8>) -> bool {
    match k {
        None => stored == clear,
        Some(k) => {
            &&& stored.len() >= 8 && clear.len() >= 8
            &&& stored.subrange(0, 4) == clear.subrange(0, 4)
            &&& stored.subrange(4, 8) == le32((stored.len() - 8) as u32)
            &&& dec(k, stored.subrange(8, stored.len() as int)) == Some(clear.subrange(8, clear.len() as int))
            &&& other_keys_reject(k, stored.subrange(8, stored.len() as int))
            &&& stored.subrange(8, stored.len() as int) != clear.subrange(8, clear.len() as int)
        },
    }
}

// ---- helper lemmas for proof hints (no preconditions: every fact is an implication) ----------------------------------
pub proof fn lemma_sum_push(s: Seq<Message>, m: Message)
    ensures sum_sizes(s.push(m)) == sum_sizes(s) + msg_size(m),
{
    assert(s.push(m).drop_last() =~= s);
    assert(s.push(m).last() == m);
}
pub proof fn lemma_sum_nonneg(s: Seq<Message>)
    ensures sum_sizes(s) >= 0,
    decreases s.len(),
{
    if s.len() > 0 { lemma_sum_nonneg(s.drop_last()); }
}
// prefix sums grow: sum(take(j)) + size(s[j]) == sum(take(j+1)) <= sum(s)
pub proof fn lemma_sum_take(s: Seq<Message>, j: int)
    ensures 0 <= j < s.len() ==> sum_sizes(s.take(j + 1)) == sum_sizes(s.take(j)) + msg_size(s[j]) && sum_sizes(s.take(j + 1)) <= sum_sizes(s)
        && sum_sizes(s.take(j)) >= 0,
    decreases s.len() - j,
{
    if 0 <= j < s.len() {
        assert(s.take(j + 1) =~= s.take(j).push(s[j]));
        lemma_sum_push(s.take(j), s[j]);
        lemma_sum_nonneg(s.take(j));
        if j + 1 == s.len() {
            assert(s.take(j + 1) =~= s);
        } else {
            lemma_sum_take(s, j + 1);
            lemma_sum_nonneg(s.take(j + 1));
            assert(msg_size(s[j + 1]) >= 0);
        }
    }
}
// every element's size is bounded by the whole sum
pub proof fn lemma_sum_bounds_each(s: Seq<Message>)
    ensures forall|i: int| 0 <= i < s.len() ==> msg_size(#[trigger] s[i]) <= sum_sizes(s),
{
    assert forall|i: int| 0 <= i < s.len() implies msg_size(#[trigger] s[i]) <= sum_sizes(s) by {
        lemma_sum_take(s, i);
    }
}
pub proof fn lemma_empty_first(s: Seq<u8>)
    ensures Seq::<u8>::empty() + s == s,
{
    assert(Seq::<u8>::empty() + s =~= s);
}

// ---- System::new: where the encryptor of a running server comes from ----------------------------------------------------------
pub fn arc_new<T>(x: T) -> (r: T) ensures r == x, { x }
// R9 panic-as-divergence: the value if there is one; otherwise the call does not return (the server refuses to start)
pub trait UnwrapOrDiverge<T> { fn unwrap_or_diverge(self) -> T; }
impl<T, E> UnwrapOrDiverge<T> for Result<T, E> {
    #[verifier::external_body]
    fn unwrap_or_diverge(self) -> (r: T) ensures self matches Ok(v) && v == r { unimplemented!() }
}
// the key a base64 text stands for: the text decodes (base64 crate, A-dep: `b64_decode`) to EXACTLY 32 bytes, which are the key
pub uninterp spec fn b64_decode(t: String) -> Option<Seq<u8>>;
pub open spec fn key_from_text(t: String) -> Option<Key> {
    match b64_decode(t) { Some(b) => if b.len() == 32 { Some(key_of_bytes(b)) } else { None }, None => None }
}
pub mod text {
    use super::*;
    // sdk/src/utils/text.rs (not extracted: base64 crate): the decoded bytes, or Err if the text is not base64
    #[verifier::external_body]
    pub fn from_base64_as_bytes(value: &String) -> (r: Result<Vec<u8>, IggyError>)
        ensures match r { Ok(b) => b64_decode(*value) == Some(b@), Err(_) => b64_decode(*value) is None },
    { unimplemented!() }
}

// R11 (slice of one loop iteration): what one iteration of the load loop yields — the entry to push, or (rule R11-slice-break,
// inert on today's text: the sliced region has no `break`) the decision to stop loading and return what was read so far with Ok
pub enum LoadStep { Entry(StateEntry), Break }
