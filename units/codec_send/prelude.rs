// ---- unit prelude: codec_send (C13). The SendMessages request: stream id ++ topic id ++ partitioning ++ messages back to back.
// Wire specification of the head (identifier, partitioning): vx/prelude/wire_core.rs; of the header map: vx/prelude/wire_headers.rs;
// list framing: vx/prelude/wire_list.rs. Here: the wire layout of one message and of the whole request, the stand-ins the extracted
// text needs, and lemmas about this SPECIFICATION only. No body of /repo is re-typed here.

// ---- stand-ins ------------------------------------------------------------------------------------------------------------------------------
// `impl Add for IggyByteSize` (sdk/src/utils/byte_size.rs): `IggyByteSize(Byte::from_u64(self.as_bytes_u64() + rhs.as_bytes_u64()))`, a
// u64 addition (overflow panics in debug builds: it is the precondition here)
impl vstd::std_specs::ops::AddSpecImpl<IggyByteSize> for IggyByteSize {
    open spec fn obeys_add_spec() -> bool { true }
    open spec fn add_req(self, rhs: IggyByteSize) -> bool { self.0 + rhs.0 <= u64::MAX }
    open spec fn add_spec(self, rhs: IggyByteSize) -> IggyByteSize { IggyByteSize((self.0 + rhs.0) as u64) }
}
impl core::ops::Add for IggyByteSize {
    type Output = IggyByteSize;
    fn add(self, rhs: IggyByteSize) -> (r: IggyByteSize) { IggyByteSize(self.0 + rhs.0) }
}
// `use crate::models::header;` + `header::get_headers_size_bytes(..)`: the path names the EXTRACTED function
pub mod header { pub use super::get_headers_size_bytes; }

// uuid::Uuid::now_v7().to_u128_le(): some id (nothing is known about it)
pub struct Uuid { pub p: u8 }
impl Uuid {
    #[verifier::external_body]
    pub fn now_v7() -> (r: Uuid) { unimplemented!() }
    #[verifier::external_body]
    pub fn to_u128_le(&self) -> (r: u128) { unimplemented!() }
}

// R8 iterator schema `xs.iter().map(f).sum::<IggyByteSize>()` (A-std(iter)): f is called once per element, in order, and the results
// are added up from 0 with `impl Add for IggyByteSize` (u64 additions: if the mathematical sum does not fit, the debug build panics
// and the release build wraps - nothing is promised then)
pub open spec fn bs_sum(rs: Seq<IggyByteSize>) -> int
    decreases rs.len(),
{
    if rs.len() == 0 { 0 } else { bs_sum(rs.drop_last()) + rs.last().0 }
}
pub open spec fn sum_results<F: Fn(&Message) -> IggyByteSize>(v: Seq<Message>, f: F, rs: Seq<IggyByteSize>) -> bool {
    rs.len() == v.len() && forall|i: int| 0 <= i < v.len() ==> call_ensures(f, (&v[i],), #[trigger] rs[i])
}
#[verifier::external_body]
pub fn std_iter_map_sum<F: Fn(&Message) -> IggyByteSize>(v: &[Message], f: F) -> (r: IggyByteSize)
    requires forall|i: int| 0 <= i < v@.len() ==> call_requires(f, (&#[trigger] v@[i],)),
    ensures exists|rs: Seq<IggyByteSize>| #[trigger] sum_results(v@, f, rs) && (bs_sum(rs) <= u64::MAX ==> r.0 == bs_sum(rs)),
{ unimplemented!() }

// ---- the wire format (specification) --------------------------------------------------------------------------------------------------
// one message:  id:u128 | headers_length:u32 | headers[headers_length] | payload_length:u32 | payload[payload_length]
// (headers_length 0 = no headers; the payload must not be empty; id 0 = "let the server generate one")
pub ghost struct MsgW { pub id: u128, pub hb: Seq<u8>, pub length: u32, pub payload: Seq<u8> }
impl Wire for MsgW {
    open spec fn enc(self) -> Seq<u8> { le128(self.id) + le32(self.hb.len() as u32) + self.hb + le32(self.length) + self.payload }
}
// b is the encoding of SOME valid header map (entries with distinct keys, lengths 1..=255); the empty block encodes the empty map
pub open spec fn hdr_block_valid(b: Seq<u8>) -> bool { exists|es: Seq<HdrEntry>| keys_distinct(es) && entries_valid(es) && b == enc_entries(es) }
// a has the content of every map that b encodes (there is only one: any entry order gives the same map)
pub open spec fn hdr_decodes(b: Seq<u8>, a: HdrMap) -> bool {
    forall|es: Seq<HdrEntry>| keys_distinct(es) && entries_valid(es) && b == #[trigger] enc_entries(es) ==> a == map_of(es)
}
// a message the wire can carry and the decoder accepts. REPRESENTATIONAL LIMITS of the format: the payload length is a u32 that must be
// the length of the payload (so at most 4 GiB - 1) and must not be 0 (the decoder refuses a message without payload, and so does
// `validate`); the header block is shorter than 4 GiB - 4 (its length is a u32; the size functions add the 4-byte length field in u32)
pub open spec fn msgw_valid(w: MsgW) -> bool {
    w.hb.len() + 4 <= u32::MAX && hdr_block_valid(w.hb) && w.length == w.payload.len() && w.payload.len() >= 1
}
pub open spec fn msgs_valid(ws: Seq<MsgW>) -> bool { forall|i: int| 0 <= i < ws.len() ==> msgw_valid(#[trigger] ws[i]) }

// the SendMessages request:  stream_id | topic_id | partitioning | message*        (no count: the messages run to the end of the frame)
pub open spec fn enc_send(stream_id: Identifier, topic_id: Identifier, partitioning: Partitioning, ws: Seq<MsgW>) -> Seq<u8> {
    enc_identifier(stream_id) + (enc_identifier(topic_id) + (enc_partitioning(partitioning) + enc_seq(ws)))
}
// b is the frame of a valid request. At least one message: a request without messages is refused by `validate`, and the
// partitioning decoder needs a byte after a Balanced partitioning (see codec_core [C13.prefix.Partitioning])
pub open spec fn send_frame(b: Seq<u8>, sid: Identifier, tid: Identifier, part: Partitioning, ws: Seq<MsgW>) -> bool {
    id_valid(sid) && id_valid(tid) && part_valid(part) && ws.len() >= 1 && msgs_valid(ws) && b == enc_send(sid, tid, part, ws)
}

// ---- the Rust values and what they put on the wire ----------------------------------------------------------------------------------------
pub open spec fn hdr_content(h: Option<HashMap<HeaderKey, HeaderValue>>) -> HdrMap {
    match h { None => Map::empty(), Some(m) => hmap_view(m@) }
}
// what `to_bytes` emits for the optional header map of THIS message object (the map's own iteration order)
pub open spec fn opt_hdr_bytes(h: Option<HashMap<HeaderKey, HeaderValue>>) -> Seq<u8> {
    match h { None => Seq::<u8>::empty(), Some(m) => hdr_bytes(m) }
}
pub open spec fn opt_hdr_valid(h: Option<HashMap<HeaderKey, HeaderValue>>) -> bool { h matches Some(m) ==> hmap_valid(m@) }
pub open spec fn msg_w(m: Message) -> MsgW { MsgW { id: m.id, hb: opt_hdr_bytes(m.headers), length: m.length, payload: m.payload@ } }
pub open spec fn msgs_w(s: Seq<Message>) -> Seq<MsgW> { Seq::new(s.len(), |i: int| msg_w(s[i])) }
// A-size: the header block is shorter than 4 GiB - 4 and the encoded message fits into one allocation (to_bytes allocates it)
pub open spec fn msg_fits(m: Message) -> bool { opt_hdr_bytes(m.headers).len() + 4 <= u32::MAX && msg_w(m).enc().len() <= isize::MAX }
// the invariant of the type `Message` (kept by Message::new / from_str / default and by the clients' encryption step): `length` is the
// payload length; header keys and values are 1..=255 bytes long (HeaderKey::new / HeaderValue::from_*)
pub open spec fn msg_wf(m: Message) -> bool { m.length == m.payload@.len() && opt_hdr_valid(m.headers) && msg_fits(m) }
pub open spec fn msgs_wf(s: Seq<Message>) -> bool { forall|i: int| 0 <= i < s.len() ==> msg_wf(#[trigger] s[i]) }
pub open spec fn msgs_fit(s: Seq<Message>) -> bool { forall|i: int| 0 <= i < s.len() ==> msg_fits(#[trigger] s[i]) }
// the decoded message m carries what the wire message w carries: the id unless it was 0 (then the server generates one), the payload,
// and the header map compared AS A MAP (no headers and an empty map are the same content; the entry order is not part of the value)
pub open spec fn msg_matches(m: Message, w: MsgW) -> bool {
    &&& w.id != 0 ==> m.id == w.id
    &&& m.length == w.length && m.payload@ == w.payload
    &&& opt_hdr_valid(m.headers)
    &&& (w.hb.len() == 0 <==> m.headers is None)
    &&& hdr_decodes(w.hb, hdr_content(m.headers))
}
pub open spec fn msgs_match(ms: Seq<Message>, ws: Seq<MsgW>) -> bool {
    ms.len() == ws.len() && forall|i: int| 0 <= i < ms.len() ==> msg_matches(#[trigger] ms[i], ws[i])
}
pub open spec fn vec_msgs_match(ms: &Vec<Message>, ws: Seq<MsgW>) -> bool { msgs_match(ms@, ws) }
pub open spec fn vec_msgs_len(ms: &Vec<Message>) -> int { ms@.len() as int }

// the invariant of the type `SendMessages` (its parts are built by Identifier::numeric/named, Partitioning::*, Message::new)
pub open spec fn sm_wf(v: SendMessages) -> bool {
    id_valid(v.stream_id) && id_valid(v.topic_id) && (v.partitioning.value@.len() <= 255 ==> part_valid(v.partitioning)) && msgs_wf(v.messages@)
}
pub open spec fn sm_frame_len(v: SendMessages) -> int { enc_send(v.stream_id, v.topic_id, v.partitioning, msgs_w(v.messages@)).len() as int }
// what the decoder needs (and what `validate` must therefore guarantee): at least one message, no message without payload, a
// partitioning value the u8 length field can express
pub open spec fn sm_sendable(v: SendMessages) -> bool {
    v.messages@.len() >= 1 && v.partitioning.value@.len() <= 255 && forall|i: int| 0 <= i < v.messages@.len() ==> (#[trigger] v.messages@[i]).payload@.len() >= 1
}
// a valid request: the type invariants, what `validate` checks, and (A-size) a frame that fits into one allocation
pub open spec fn sm_valid(v: SendMessages) -> bool {
    id_valid(v.stream_id) && id_valid(v.topic_id) && part_valid(v.partitioning) && msgs_wf(v.messages@) && sm_sendable(v) && sm_frame_len(v) <= isize::MAX
}
// the decoded request c is the request v: identifiers and partitioning equal, the messages one by one in the same order
pub open spec fn sm_same(c: SendMessages, v: SendMessages) -> bool {
    id_eq(c.stream_id, v.stream_id) && id_eq(c.topic_id, v.topic_id) && part_eq(c.partitioning, v.partitioning) && msgs_match(c.messages@, msgs_w(v.messages@))
}

// ---- lemmas about the SPECIFICATION -----------------------------------------------------------------------------------------------------
// where the fields of a message sit in any buffer that starts with its encoding
pub proof fn lemma_msg_layout(w: MsgW, rest: Seq<u8>)
    requires w.hb.len() <= u32::MAX,
    ensures
        ({
            let b = w.enc() + rest;
            let h = w.hb.len() as int;
            let p = w.payload.len() as int;
            &&& w.enc().len() == 24 + h + p
            &&& b.len() == 24 + h + p + rest.len()
            &&& b.subrange(0, 16) == le128(w.id)
            &&& b.subrange(16, 20) == le32(w.hb.len() as u32)
            &&& b.subrange(20, 20 + h) == w.hb
            &&& b.subrange(20 + h, 24 + h) == le32(w.length)
            &&& b.subrange(24 + h, 24 + h + p) == w.payload
        }),
{
    lemma_le_facts();
    lemma_le128_facts();
    let b = w.enc() + rest;
    let h = w.hb.len() as int;
    let p = w.payload.len() as int;
    assert(b.subrange(0, 16) =~= le128(w.id));
    assert(b.subrange(16, 20) =~= le32(w.hb.len() as u32));
    assert(b.subrange(20, 20 + h) =~= w.hb);
    assert(b.subrange(20 + h, 24 + h) =~= le32(w.length));
    assert(b.subrange(24 + h, 24 + h + p) =~= w.payload);
}
pub proof fn lemma_msg_len(w: MsgW)
    ensures w.enc().len() == 24 + w.hb.len() + w.payload.len(),
{
    lemma_le_facts();
    lemma_le128_facts();
}
pub proof fn lemma_msgs_nonempty(ws: Seq<MsgW>)
    ensures all_nonempty(ws),
{
    assert forall|i: int| 0 <= i < ws.len() implies (#[trigger] ws[i]).enc().len() > 0 by { lemma_msg_len(ws[i]); }
}
// an entry sitting at `pos` is followed by the rest of the buffer
pub proof fn lemma_at_pos_split(buf: Seq<u8>, pos: int, e: Seq<u8>)
    requires at_pos(buf, pos, e),
    ensures buf.subrange(pos, buf.len() as int) == e + buf.subrange(pos + e.len(), buf.len() as int),
{
    assert(buf.subrange(pos, buf.len() as int) =~= buf.subrange(pos, pos + e.len()) + buf.subrange(pos + e.len(), buf.len() as int));
}
// a non-empty list starts with something
pub proof fn lemma_enc_seq_len_pos<V: Wire>(ws: Seq<V>)
    requires ws.len() >= 1, all_nonempty(ws),
    ensures enc_seq(ws).len() > 0,
{
    assert(ws.last().enc().len() > 0);
}
// the length of a list encoding is the sum of the lengths of its entries
pub open spec fn seq_len_sum<V: Wire>(ws: Seq<V>) -> int
    decreases ws.len(),
{
    if ws.len() == 0 { 0 } else { seq_len_sum(ws.drop_last()) + ws.last().enc().len() }
}
pub proof fn lemma_enc_seq_len<V: Wire>(ws: Seq<V>)
    ensures enc_seq(ws).len() == seq_len_sum(ws),
    decreases ws.len(),
{
    if ws.len() > 0 { lemma_enc_seq_len(ws.drop_last()); }
}
// the results of one size call per message add up to the length of the list encoding
pub proof fn lemma_bs_sum_is_len(rs: Seq<IggyByteSize>, ws: Seq<MsgW>)
    requires rs.len() == ws.len(), forall|i: int| 0 <= i < rs.len() ==> (#[trigger] rs[i]).0 == ws[i].enc().len(),
    ensures bs_sum(rs) == enc_seq(ws).len(),
    decreases rs.len(),
{
    if rs.len() > 0 {
        let rp = rs.drop_last();
        let wp = ws.drop_last();
        assert forall|i: int| 0 <= i < rp.len() implies (#[trigger] rp[i]).0 == wp[i].enc().len() by { assert(rs[i].0 == ws[i].enc().len()); }
        lemma_bs_sum_is_len(rp, wp);
        assert(rs.last().0 == ws[ws.len() - 1].enc().len());
    }
}
// two lists whose entries have pairwise the same lengths encode to the same length
pub proof fn lemma_enc_seq_same_len(a: Seq<MsgW>, b: Seq<MsgW>)
    requires a.len() == b.len(), forall|i: int| 0 <= i < a.len() ==> (#[trigger] a[i]).enc().len() == b[i].enc().len(),
    ensures enc_seq(a).len() == enc_seq(b).len(),
    decreases a.len(),
{
    if a.len() > 0 {
        let ap = a.drop_last();
        let bp = b.drop_last();
        assert forall|i: int| 0 <= i < ap.len() implies (#[trigger] ap[i]).enc().len() == bp[i].enc().len() by { assert(a[i].enc().len() == b[i].enc().len()); }
        lemma_enc_seq_same_len(ap, bp);
        assert(a.last().enc().len() == b[b.len() - 1].enc().len());
    }
}

// ---- the length of a header block depends on the map's content only, not on the entry order -----------------------------------------------
pub open spec fn entry_len(k: Seq<u8>, v: (HeaderKind, Seq<u8>)) -> int { 9 + k.len() as int + v.1.len() as int }
pub open spec fn map_total(a: HdrMap) -> int
    decreases a.dom().len(),
{
    if a.dom().len() == 0 { 0 } else {
        let k = choose|k: Seq<u8>| a.contains_key(k);
        if a.contains_key(k) { entry_len(k, a[k]) + map_total(a.remove(k)) } else { 0 }
    }
}
pub proof fn lemma_map_total_remove(a: HdrMap, k: Seq<u8>)
    requires a.contains_key(k),
    ensures map_total(a) == entry_len(k, a[k]) + map_total(a.remove(k)),
    decreases a.dom().len(),
{
    assert(a.dom().contains(k));
    assert(a.dom().len() > 0);
    let c = choose|c: Seq<u8>| a.contains_key(c);
    assert(a.contains_key(c));
    if c != k {
        let ac = a.remove(c);
        let ak = a.remove(k);
        assert(ac.contains_key(k));
        assert(ak.contains_key(c));
        lemma_map_total_remove(ac, k);
        lemma_map_total_remove(ak, c);
        assert(ac.remove(k) =~= ak.remove(c));
    }
}
pub proof fn lemma_entry_len(e: HdrEntry)
    requires e.key.len() <= u32::MAX, e.value.len() <= u32::MAX,
    ensures enc_entry(e).len() == entry_len(e.key, (e.kind, e.value)),
{
    lemma_le_facts();
}
pub proof fn lemma_entries_len_total(es: Seq<HdrEntry>)
    requires keys_distinct(es), entries_valid(es),
    ensures enc_entries(es).len() == map_total(map_of(es)),
    decreases es.len(),
{
    if es.len() == 0 {
        assert(map_of(es).dom() =~= Set::<Seq<u8>>::empty());
    } else {
        let p = es.drop_last();
        let e = es.last();
        assert(keys_distinct(p)) by { assert forall|i: int, j: int| 0 <= i < j < p.len() implies p[i].key != p[j].key by { assert(es[i].key != es[j].key); } }
        assert(entries_valid(p)) by { assert forall|i: int| 0 <= i < p.len() implies entry_valid(#[trigger] p[i]) by { assert(entry_valid(es[i])); } }
        lemma_entries_len_total(p);
        lemma_map_of_dom(p);
        assert(!map_of(p).contains_key(e.key)) by {
            if map_of(p).contains_key(e.key) {
                let i = choose|i: int| 0 <= i < p.len() && p[i].key == e.key;
                assert(es[i].key != es[es.len() - 1].key);
            }
        }
        let a = map_of(es);
        assert(a == map_of(p).insert(e.key, (e.kind, e.value)));
        lemma_map_total_remove(a, e.key);
        assert(a.remove(e.key) =~= map_of(p));
        assert(entry_valid(es[es.len() - 1]));
        lemma_entry_len(e);
    }
}
// two encodings of the same map (any two entry orders) have the same length
pub proof fn lemma_hdr_len_unique(es1: Seq<HdrEntry>, es2: Seq<HdrEntry>)
    requires keys_distinct(es1), entries_valid(es1), keys_distinct(es2), entries_valid(es2), map_of(es1) == map_of(es2),
    ensures enc_entries(es1).len() == enc_entries(es2).len(),
{
    lemma_entries_len_total(es1);
    lemma_entries_len_total(es2);
}
// what a valid map object emits is a valid block, and it decodes to the map's content
pub proof fn lemma_hdr_bytes_block(m: HashMap<HeaderKey, HeaderValue>)
    requires hmap_valid(m@),
    ensures hdr_block_valid(hdr_bytes(m)), hdr_decodes(hdr_bytes(m), hmap_view(m@)), lists(es_of(m), hmap_view(m@)),
{
    axiom_hdr_key_order(m);
    lemma_es_of_lists(m);
    let es0 = es_of(m);
    assert(keys_distinct(es0) && entries_valid(es0) && hdr_bytes(m) == enc_entries(es0));
    assert forall|es: Seq<HdrEntry>| keys_distinct(es) && entries_valid(es) && hdr_bytes(m) == #[trigger] enc_entries(es) implies hmap_view(m@) == map_of(es) by {
        lemma_entries_unique(es0, es);
    }
}
// the list framing of header entries is injective: a block is the encoding of at most one entry list
pub proof fn lemma_entries_unique(a: Seq<HdrEntry>, b: Seq<HdrEntry>)
    requires entries_valid(a), entries_valid(b), enc_entries(a) == enc_entries(b),
    ensures a == b,
    decreases a.len() + b.len(),
{
    lemma_entries_nonempty(a);
    lemma_entries_nonempty(b);
    let buf = enc_entries(a);
    lemma_list_start(a);
    lemma_list_start(b);
    lemma_entries_unique_from(buf, a, b, 0, 0);
}
pub proof fn lemma_entries_unique_from(buf: Seq<u8>, a: Seq<HdrEntry>, b: Seq<HdrEntry>, k: int, pos: int)
    requires
        entries_valid(a), entries_valid(b), buf == enc_entries(a), buf == enc_entries(b),
        list_progress(a, k, pos, a.take(k)), list_progress(b, k, pos, b.take(k)), a.take(k) == b.take(k),
    ensures a == b,
    decreases buf.len() - pos,
{
    lemma_entries_nonempty(a);
    lemma_entries_nonempty(b);
    if pos >= buf.len() {
        lemma_list_done(buf, a, k, pos, a.take(k));
        lemma_list_done(buf, b, k, pos, b.take(k));
    } else {
        lemma_list_step(buf, a, k, pos, a.take(k));
        lemma_list_step(buf, b, k, pos, b.take(k));
        let x = a[k];
        let y = b[k];
        assert(entry_valid(x) && entry_valid(y));
        lemma_entry_at(buf, pos, x);
        lemma_entry_at(buf, pos, y);
        lemma_le_facts();
        assert(un_le32(le32(x.key.len() as u32)) == un_le32(le32(y.key.len() as u32)));
        assert(x.key.len() == y.key.len());
        assert(x.key == y.key);
        assert(x.kind == y.kind);
        assert(un_le32(le32(x.value.len() as u32)) == un_le32(le32(y.value.len() as u32)));
        assert(x.value.len() == y.value.len());
        assert(x.value == y.value);
        assert(x == y);
        assert(a.take(k).push(x) =~= a.take(k + 1));
        assert(b.take(k).push(y) =~= b.take(k + 1));
        lemma_enc_entry_pos(x);
        lemma_entries_unique_from(buf, a, b, k + 1, pos + enc_entry(x).len());
    }
}
pub proof fn lemma_enc_entry_pos(e: HdrEntry)
    ensures enc_entry(e).len() > 0,
{
    lemma_le_facts();
}
// a decoded message occupies on the wire (when encoded again, in whatever entry order its map iterates) exactly what it was read from
pub proof fn lemma_match_same_len(m: Message, w: MsgW)
    requires msgw_valid(w), msg_matches(m, w),
    ensures opt_hdr_bytes(m.headers).len() == w.hb.len(), msg_w(m).enc().len() == w.enc().len(), hdr_block_valid(opt_hdr_bytes(m.headers)),
{
    let es = choose|es: Seq<HdrEntry>| keys_distinct(es) && entries_valid(es) && w.hb == enc_entries(es);
    assert(hdr_content(m.headers) == map_of(es));
    match m.headers {
        None => {
            assert(w.hb.len() == 0);
            assert(keys_distinct(Seq::<HdrEntry>::empty()) && entries_valid(Seq::<HdrEntry>::empty()));
            assert(enc_entries(Seq::<HdrEntry>::empty()) =~= Seq::<u8>::empty());
        },
        Some(h) => {
            lemma_hdr_bytes_block(h);
            lemma_hdr_len_unique(es_of(h), es);
        },
    }
    lemma_msg_len(w);
    lemma_msg_len(msg_w(m));
}
// the head of a SendMessages frame: where identifier, identifier, partitioning and the message list sit
pub proof fn lemma_send_layout(b: Seq<u8>, sid: Identifier, tid: Identifier, part: Partitioning, ws: Seq<MsgW>)
    requires send_frame(b, sid, tid, part, ws),
    ensures
        ({
            let n = b.len() as int;
            let a = enc_identifier(sid).len() as int;
            let c = enc_identifier(tid).len() as int;
            let d = enc_partitioning(part).len() as int;
            &&& a == 2 + sid.value@.len() && c == 2 + tid.value@.len() && d == 2 + part.value@.len()
            &&& n == a + c + d + enc_seq(ws).len() && enc_seq(ws).len() >= 25
            &&& b == enc_identifier(sid) + b.subrange(a, n)
            &&& b.subrange(a, n) == enc_identifier(tid) + b.subrange(a + c, n)
            &&& b.subrange(a + c, n) == enc_partitioning(part) + b.subrange(a + c + d, n)
            &&& b.subrange(a + c + d, n) == enc_seq(ws)
            &&& b[1] == sid.length && b[a + 1] == tid.length && b[a + c + 1] == part.length
        }),
{
    let n = b.len() as int;
    let t3 = enc_seq(ws);
    let t2 = enc_partitioning(part) + t3;
    let t1 = enc_identifier(tid) + t2;
    lemma_identifier_layout(sid, t1);
    lemma_identifier_layout(tid, t2);
    lemma_partitioning_layout(part, t3);
    let a = enc_identifier(sid).len() as int;
    let c = enc_identifier(tid).len() as int;
    let d = enc_partitioning(part).len() as int;
    assert(b.subrange(a, n) =~= t1);
    assert(b.subrange(a + c, n) =~= t2);
    assert(b.subrange(a + c + d, n) =~= t3);
    lemma_msgs_nonempty(ws);
    lemma_enc_seq_take(ws, 0);
    lemma_enc_seq_take(ws, 1);
    assert(ws.take(0) =~= Seq::<MsgW>::empty());
    lemma_msg_len(ws[0]);
    assert(msgw_valid(ws[0]));
    assert(t1[1] == tid.length);
    assert(t2[1] == part.length);
}
// id_eq / part_eq values have the same encoding
pub proof fn lemma_id_eq_enc(a: Identifier, b: Identifier)
    requires id_eq(a, b),
    ensures enc_identifier(a) == enc_identifier(b), id_valid(a) == id_valid(b),
{}
pub proof fn lemma_part_eq_enc(a: Partitioning, b: Partitioning)
    requires part_eq(a, b),
    ensures enc_partitioning(a) == enc_partitioning(b), part_valid(a) == part_valid(b),
{}
// the wire messages of a list of well-formed messages with payload are valid wire messages
pub proof fn lemma_msgs_w_valid(s: Seq<Message>)
    requires msgs_wf(s), forall|i: int| 0 <= i < s.len() ==> (#[trigger] s[i]).payload@.len() >= 1,
    ensures msgs_valid(msgs_w(s)),
{
    assert forall|i: int| 0 <= i < s.len() implies msgw_valid(#[trigger] msgs_w(s)[i]) by {
        let m = s[i];
        assert(msg_wf(m));
        match m.headers {
            None => {
                assert(keys_distinct(Seq::<HdrEntry>::empty()) && entries_valid(Seq::<HdrEntry>::empty()));
                assert(enc_entries(Seq::<HdrEntry>::empty()) =~= Seq::<u8>::empty());
            },
            Some(h) => { lemma_hdr_bytes_block(h); },
        }
    }
}
