// ---- unit prelude: codec_send (C13). The SendMessages request: stream id ++ topic id ++ partitioning ++ messages back to back.
// Wire specification of the head (identifier, partitioning): vx/prelude/wire_core.rs; of the header map: vx/prelude/wire_headers.rs;
// list framing: vx/prelude/wire_list.rs. Here: the wire layout of one message and of the whole request, the stand-ins the extracted
// text needs, and lemmas about this SPECIFICATION only. No body of /repo is re-typed here.

// ---- stand-ins ------------------------------------------------------------------------------------------------------------------------------
// `impl Add for IggyByteSize` (sdk/src/utils/byte_size.rs): `IggyByteSize(Byte::from_u64(self.as_bytes_u64() + rhs.as_bytes_u64()))`, a
// u64 addition (overflow panics in debug builds: it is the precondition here)
impl vstd::std_specs::ops::AddSpecImpl<IggyByteSize> for IggyByteSize {
    open spec fn obeys_add_spec() -> bool { true }
    open spec fn add_req(self, rhs: IggyByteSize) -> bool { self.0 + rhs.0 <= u64::MAX }
    open spec fn add_spec(self, rhs: IggyByteSize) -> IggyByteSize { IggyByteSize((self.0 + rhs.0) as u64) }
}
impl core::ops::Add for IggyByteSize {
    type Output = IggyByteSize;
    fn add(self, rhs: IggyByteSize) -> (r: IggyByteSize) { IggyByteSize(self.0 + rhs.0) }
}
// `use crate::models::header;` + `header::get_headers_size_bytes(..)`: the path names the EXTRACTED function
pub mod header { pub use super::get_headers_size_bytes; }

// uuid::Uuid::now_v7().to_u128_le(): some id (nothing is known about it)
pub struct Uuid { pub p: u8 }
impl Uuid {
    #[verifier::external_body]
    pub fn now_v7() -> (r: Uuid) { unimplemented!() }
    #[verifier::external_body]
    pub fn to_u128_le(&self) -> (r: u128) { unimplemented!() }
}

// R8 iterator schema `xs.iter().map(f).sum::<IggyByteSize>()` (A-std(iter)): f is called once per element, in order, and the results
// are added up from 0 with `impl Add for IggyByteSize` (u64 additions: if the mathematical sum does not fit, the debug build panics
// and the release build wraps - nothing is promised then)
pub open spec fn bs_sum(rs: Seq<IggyByteSize>) -> int
    decreases rs.len(),
{
    if rs.len() == 0 { 0 } else { bs_sum(rs.drop_last()) + rs.last().0 }
}
pub open spec fn sum_results<F: Fn(&Message) -> IggyByteSize>(v: Seq<Message>, f: F, rs: Seq<IggyByteSize>) -> bool {
    rs.len() == v.len() && forall|i: int| 0 <= i < v.len() ==> call_ensures(f, (&v[i],), #[trigger] rs[i])
}
#[verifier::external_body]
pub fn std_iter_map_sum<F: Fn(&Message) -> IggyByteSize>(v: &[Message], f: F) -> (r: IggyByteSize)
    requires forall|i: int| 0 <= i < v@.len() ==> call_requires(f, (&#[trigger] v@[i],)),
    ensures exists|rs: Seq<IggyByteSize>| #[trigger] sum_results(v@, f, rs) && (bs_sum(rs) <= u64::MAX ==> r.0 == bs_sum(rs)),
{ unimplemented!() }

// ---- the wire format (specification) --------------------------------------------------------------------------------------------------
// one message:  id:u128 | headers_length:u32 | headers[headers_length] | payload_length:u32 | payload[payload_length]
// (headers_length 0 = no headers; the payload must not be empty; id 0 = "let the server generate one")
pub ghost struct MsgW { pub id: u128, pub hb: Seq<u8>, pub length: u32, pub payload: Seq<u8> }
impl Wire for MsgW {
    open spec fn enc(self) -> Seq<u8> { le128(self.id) + le32(self.hb.len() as u32) + self.hb + le32(self.length) + self.payload }
}
// b is the encoding of SOME valid header map (entries with distinct keys, lengths 1..=255); the empty block encodes the empty map
pub open spec fn hdr_block_valid(b: Seq<u8>) -> bool { exists|es: Seq<HdrEntry>| keys_distinct(es) && entries_valid(es) && b == enc_entries(es) }
// a has the content of every map that b encodes (there is only one: any entry order gives the same map)
pub open spec fn hdr_decodes(b: Seq<u8>, a: HdrMap) -> bool {
    forall|es: Seq<HdrEntry>| keys_distinct(es) && entries_valid(es) && b == #[trigger] enc_entries(es) ==> a == map_of(es)
}
// a message the wire can carry and the decoder accepts. REPRESENTATIONAL LIMITS of the format: the payload length is a u32 that must be
// the length of the payload (so at most 4 GiB - 1) and must not be 0 (the decoder refuses a message without payload, and so does
// `validate`); the header block is shorter than 4 GiB - 4 (its length is a u32; the size functions add the 4-byte length field in u32)
pub open spec fn msgw_valid(w: MsgW) -> bool {
    w.hb.len() + 4 <= u32::MAX && hdr_block_valid(w.hb) && w.length == w.payload.len() && w.payload.len() >= 1
}
pub open spec fn msgs_valid(ws: Seq<MsgW>) -> bool { forall|i: int| 0 <= i < ws.len() ==> msgw_valid(#[trigger] ws[i]) }

// the SendMessages request:  stream_id | topic_id | partitioning | message*        (no count: the messages run to the end of the frame)
pub open spec fn enc_send(stream_id: Identifier, topic_id: Identifier, partitioning: Partitioning, ws: Seq<MsgW>) -> Seq<u8> {
    enc_identifier(stream_id) + (enc_identifier(topic_id) + (enc_partitioning(partitioning) + enc_seq(ws)))
}
// b is the frame of a valid request. At least one message: a request without messages is refused by `validate`, and the
// partitioning decoder needs a byte after a Balanced partitioning (see codec_core [C13.prefix.Partitioning])
pub open spec fn send_frame(b: Seq<u8>, sid: Identifier, tid: Identifier, part: Partitioning, ws: Seq<MsgW>) -> bool {
    id_valid(sid) && id_valid(tid) && part_valid(part) && ws.len() >= 1 && msgs_valid(ws) && b == enc_send(sid, tid, part, ws)
}

// ---- the Rust values and what they put on the wire ----------------------------------------------------------------------------------------
pub open spec fn hdr_content(h: Option<HashMap<HeaderKey, HeaderValue>>) -> HdrMap {
    match h { None => Map::empty(), Some(m) => hmap_view(m@) }
}
// what `to_bytes` emits for the optional header map of THIS message object (the map's own iteration order)
pub open spec fn opt_hdr_bytes(h: Option<HashMap<HeaderKey, HeaderValue>>) -> Seq<u8> {
    match h { None => Seq::<u8>::empty(), Some(m) => hdr_bytes(m) }
}
pub open spec fn opt_hdr_valid(h: Option<HashMap<HeaderKey, HeaderValue>>) -> bool { h matches Some(m) ==> hmap_valid(m@) }
pub open spec fn msg_w(m: Message) -> MsgW { MsgW { id: m.id, hb: opt_hdr_bytes(m.headers), length: m.length, payload: m.payload@ } }
pub open spec fn msgs_w(s: Seq<Message>) -> Seq<MsgW> { Seq::new(s.len(), |i: int| msg_w(s[i])) }
// A-size: the header block is shorter than 4 GiB - 4 and the encoded message fits into one allocation (to_bytes allocates it)
pub open spec fn msg_fits(m: Message) -> bool { opt_hdr_bytes(m.headers).len() + 4 <= u32::MAX && msg_w(m).enc().len() <= isize::MAX }
// the invariant of the type `Message` (kept by Message::new / from_str / default and by the clients' encryption step): `length` is the
// payload length; header keys and values are 1..=255 bytes long (HeaderKey::new / HeaderValue::from_*)
pub open spec fn msg_wf(m: Message) -> bool { m.length == m.payload@.len() && opt_hdr_valid(m.headers) && msg_fits(m) }
pub open spec fn msgs_wf(s: Seq<Message>) -> bool { forall|i: int| 0 <= i < s.len() ==> msg_wf(#[trigger] s[i]) }
pub open spec fn msgs_fit(s: Seq<Message>) -> bool { forall|i: int| 0 <= i < s.len() ==> msg_fits(#[trigger] s[i]) }
// the decoded message m carries what the wire message w carries: the id unless it was 0 (then the server generates one), the payload,
// and the header map compared AS A MAP (no headers and an empty map are the same content; the entry order is not part of the value)
pub open spec fn msg_matches(m: Message, w: MsgW) -> bool {
    &&& w.id != 0 ==> m.id == w.id
    &&& m.length == w.length && m.payload@ == w.payload
    &&& opt_hdr_valid(m.headers)
    &&& (w.hb.len() == 0 <==> m.headers is None)
    &&& hdr_decodes(w.hb, hdr_content(m.headers))
}
pub open spec fn msgs_match(ms: Seq<Message>, ws: Seq<MsgW>) -> bool {
    ms.len() == ws.len() && forall|i: int| 0 <= i < ms.len() ==> msg_matches(#[trigger] ms[i], ws[i])
}
pub open spec fn vec_msgs_match(ms: &Vec<Message>, ws: Seq<MsgW>) -> bool { msgs_match(ms@, ws) }
pub open spec fn vec_msgs_len(ms: &Vec<Message>) -> int { ms@.len() as int }

// the invariant of the type `SendMessages` (its parts are built by Identifier::numeric/named, Partitioning::*, Message::new)
pub open spec fn sm_wf(v: SendMessages) -> bool {
    id_valid(v.stream_id) && id_valid(v.topic_id) && (v.partitioning.value@.len() <= 255 ==> part_valid(v.partitioning)) && msgs_wf(v.messages@)
}
pub open spec fn sm_frame_len(v: SendMessages) -> int { enc_send(v.stream_id, v.topic_id, v.partitioning, msgs_w(v.messages@)).len() as int }
// what the decoder needs (and what `validate` must therefore guarantee): at least one message, no message without payload, a
// partitioning value the u8 length field can express
pub open spec fn sm_sendable(v: SendMessages) -> bool {
    v.messages@.len() >= 1 && v.partitioning.value@.len() <= 255 && forall|i: int| 0 <= i < v.messages@.len() ==> (#[trigger] v.messages@[i]).payload@.len() >= 1
}
// a valid request: the type invariants, what `validate` checks, and (A-size) a frame that fits into one allocation
pub open spec fn sm_valid(v: SendMessages) -> bool {
    id_valid(v.stream_id) && id_valid(v.topic_id) && part_valid(v.partitioning) && msgs_wf(v.messages@) && sm_sendable(v) && sm_frame_len(v) <= isize::MAX
}
// the decoded request c is the request v: identifiers and partitioning equal, the messages one by one in the same order
// (a message: the id unless it was 0 - then the server generates one -, the length field, the payload, the headers compared AS MAPS:
// no headers and an empty map are the same content, the iteration order of the map object is not part of the value)
pub open spec fn msg_same(c: Message, v: Message) -> bool {
    (v.id != 0 ==> c.id == v.id) && c.length == v.length && c.payload@ == v.payload@ && hdr_content(c.headers) == hdr_content(v.headers)
}
pub open spec fn msgs_same(cs: Seq<Message>, vs: Seq<Message>) -> bool {
    cs.len() == vs.len() && forall|i: int| 0 <= i < cs.len() ==> msg_same(#[trigger] cs[i], vs[i])
}
pub open spec fn sm_same(c: SendMessages, v: SendMessages) -> bool {
    id_eq(c.stream_id, v.stream_id) && id_eq(c.topic_id, v.topic_id) && part_eq(c.partitioning, v.partitioning) && msgs_same(c.messages@, v.messages@)
}

// ---- lemmas about the SPECIFICATION -----------------------------------------------------------------------------------------------------
// where the fields of a message sit in any buffer that starts with its encoding
pub proof fn lemma_msg_layout(w: MsgW, rest: Seq<u8>)
    requires w.hb.len() <= u32::MAX,
    ensures
        ({
            let b = w.enc() + rest;
            let h = w.hb.len() as int;
            let p = w.payload.len() as int;
            &&& w.enc().len() == 24 + h + p
            &&& b.len() == 24 + h + p + rest.len()
            &&& b.subrange(0, 16) == le128(w.id)
            &&& b.subrange(16, 20) == le32(w.hb.len() as u32)
            &&& b.subrange(20, 20 + h) == w.hb
            &&& b.subrange(20 + h, 24 + h) == le32(w.length)
            &&& b.subrange(24 + h, 24 + h + p) == w.payload
        }),
{
    lemma_le_facts();
    lemma_le128_facts();
    let b = w.enc() + rest;
    let h = w.hb.len() as int;
    let p = w.payload.len() as int;
    assert(b.subrange(0, 16) =~= le128(w.id));
    assert(b.subrange(16, 20) =~= le32(w.hb.len() as u32));
    assert(b.subrange(20, 20 + h) =~= w.hb);
    assert(b.subrange(20 + h, 24 + h) =~= le32(w.length));
    assert(b.subrange(24 + h, 24 + h + p) =~= w.payload);
}
pub proof fn lemma_msg_len(w: MsgW)
    ensures w.enc().len() == 24 + w.hb.len() + w.payload.len(),
{
    lemma_le_facts();
    lemma_le128_facts();
}
pub proof fn lemma_msgs_nonempty(ws: Seq<MsgW>)
    ensures all_nonempty(ws),
{
    assert forall|i: int| 0 <= i < ws.len() implies (#[trigger] ws[i]).enc().len() > 0 by { lemma_msg_len(ws[i]); }
}
// an entry sitting at `pos` is followed by the rest of the buffer
pub proof fn lemma_at_pos_split(buf: Seq<u8>, pos: int, e: Seq<u8>)
    requires at_pos(buf, pos, e),
    ensures buf.subrange(pos, buf.len() as int) == e + buf.subrange(pos + e.len(), buf.len() as int),
{
    assert(buf.subrange(pos, buf.len() as int) =~= buf.subrange(pos, pos + e.len()) + buf.subrange(pos + e.len(), buf.len() as int));
}
// a non-empty list starts with something
pub proof fn lemma_enc_seq_len_pos<V: Wire>(ws: Seq<V>)
    requires ws.len() >= 1, all_nonempty(ws),
    ensures enc_seq(ws).len() > 0,
{
    assert(ws.last().enc().len() > 0);
}
// the length of a list encoding is the sum of the lengths of its entries
pub open spec fn seq_len_sum<V: Wire>(ws: Seq<V>) -> int
    decreases ws.len(),
{
    if ws.len() == 0 { 0 } else { seq_len_sum(ws.drop_last()) + ws.last().enc().len() }
}
pub proof fn lemma_enc_seq_len<V: Wire>(ws: Seq<V>)
    ensures enc_seq(ws).len() == seq_len_sum(ws),
    decreases ws.len(),
{
    if ws.len() > 0 { lemma_enc_seq_len(ws.drop_last()); }
}
// the results of one size call per message add up to the length of the list encoding
pub proof fn lemma_bs_sum_is_len(rs: Seq<IggyByteSize>, ws: Seq<MsgW>)
    requires rs.len() == ws.len(), forall|i: int| 0 <= i < rs.len() ==> (#[trigger] rs[i]).0 == ws[i].enc().len(),
    ensures bs_sum(rs) == enc_seq(ws).len(),
    decreases rs.len(),
{
    if rs.len() > 0 {
        let rp = rs.drop_last();
        let wp = ws.drop_last();
        assert forall|i: int| 0 <= i < rp.len() implies (#[trigger] rp[i]).0 == wp[i].enc().len() by { assert(rs[i].0 == ws[i].enc().len()); }
        lemma_bs_sum_is_len(rp, wp);
        assert(rs.last().0 == ws[ws.len() - 1].enc().len());
    }
}
// two lists whose entries have pairwise the same lengths encode to the same length
pub proof fn lemma_enc_seq_same_len(a: Seq<MsgW>, b: Seq<MsgW>)
    requires a.len() == b.len(), forall|i: int| 0 <= i < a.len() ==> (#[trigger] a[i]).enc().len() == b[i].enc().len(),
    ensures enc_seq(a).len() == enc_seq(b).len(),
    decreases a.len(),
{
    if a.len() > 0 {
        let ap = a.drop_last();
        let bp = b.drop_last();
        assert forall|i: int| 0 <= i < ap.len() implies (#[trigger] ap[i]).enc().len() == bp[i].enc().len() by { assert(a[i].enc().len() == b[i].enc().len()); }
        lemma_enc_seq_same_len(ap, bp);
        assert(a.last().enc().len() == b[b.len() - 1].enc().len());
    }
}

// ---- the length of a header block depends on the map's content only, not on the entry order -----------------------------------------------
pub open spec fn entry_len(k: Seq<u8>, v: (HeaderKind, Seq<u8>)) -> int { 9 + k.len() as int + v.1.len() as int }
pub open spec fn map_total(a: HdrMap) -> int
    decreases a.dom().len(),
{
    if a.dom().len() == 0 { 0 } else {
        let k = choose|k: Seq<u8>| a.contains_key(k);
        if a.contains_key(k) { entry_len(k, a[k]) + map_total(a.remove(k)) } else { 0 }
    }
}
pub proof fn lemma_map_total_remove(a: HdrMap, k: Seq<u8>)
    requires a.contains_key(k),
    ensures map_total(a) == entry_len(k, a[k]) + map_total(a.remove(k)),
    decreases a.dom().len(),
{
    assert(a.dom().contains(k));
    assert(a.dom().len() > 0);
    let c = choose|c: Seq<u8>| a.contains_key(c);
    assert(a.contains_key(c));
    if c != k {
        let ac = a.remove(c);
        let ak = a.remove(k);
        assert(ac.contains_key(k));
        assert(ak.contains_key(c));
        lemma_map_total_remove(ac, k);
        lemma_map_total_remove(ak, c);
        assert(ac.remove(k) =~= ak.remove(c));
    }
}
pub proof fn lemma_entry_len(e: HdrEntry)
    requires e.key.len() <= u32::MAX, e.value.len() <= u32::MAX,
    ensures enc_entry(e).len() == entry_len(e.key, (e.kind, e.value)),
{
    lemma_le_facts();
}
pub proof fn lemma_entries_len_total(es: Seq<HdrEntry>)
    requires keys_distinct(es), entries_valid(es),
    ensures enc_entries(es).len() == map_total(map_of(es)),
    decreases es.len(),
{
    if es.len() == 0 {
        assert(map_of(es).dom() =~= Set::<Seq<u8>>::empty());
    } else {
        let p = es.drop_last();
        let e = es.last();
        assert(keys_distinct(p)) by { assert forall|i: int, j: int| 0 <= i < j < p.len() implies p[i].key != p[j].key by { assert(es[i].key != es[j].key); } }
        assert(entries_valid(p)) by { assert forall|i: int| 0 <= i < p.len() implies entry_valid(#[trigger] p[i]) by { assert(entry_valid(es[i])); } }
        lemma_entries_len_total(p);
        lemma_map_of_dom(p);
        assert(!map_of(p).contains_key(e.key)) by {
            if map_of(p).contains_key(e.key) {
                let i = choose|i: int| 0 <= i < p.len() && p[i].key == e.key;
                assert(es[i].key != es[es.len() - 1].key);
            }
        }
        let a = map_of(es);
        assert(a == map_of(p).insert(e.key, (e.kind, e.value)));
        lemma_map_total_remove(a, e.key);
        assert(a.remove(e.key) =~= map_of(p));
        assert(entry_valid(es[es.len() - 1]));
        lemma_entry_len(e);
    }
}
// two encodings of the same map (any two entry orders) have the same length
pub proof fn lemma_hdr_len_unique(es1: Seq<HdrEntry>, es2: Seq<HdrEntry>)
    requires keys_distinct(es1), entries_valid(es1), keys_distinct(es2), entries_valid(es2), map_of(es1) == map_of(es2),
    ensures enc_entries(es1).len() == enc_entries(es2).len(),
{
    lemma_entries_len_total(es1);
    lemma_entries_len_total(es2);
}
// what a valid map object emits is a valid block, and it decodes to the map's content
pub proof fn lemma_hdr_bytes_block(m: HashMap<HeaderKey, HeaderValue>)
    requires hmap_valid(m@),
    ensures hdr_block_valid(hdr_bytes(m)), hdr_decodes(hdr_bytes(m), hmap_view(m@)), lists(es_of(m), hmap_view(m@)),
{
    axiom_hdr_key_order(m);
    lemma_es_of_lists(m);
    let es0 = es_of(m);
    assert(keys_distinct(es0) && entries_valid(es0) && hdr_bytes(m) == enc_entries(es0));
    assert forall|es: Seq<HdrEntry>| keys_distinct(es) && entries_valid(es) && hdr_bytes(m) == #[trigger] enc_entries(es) implies hmap_view(m@) == map_of(es) by {
        lemma_entries_unique(es0, es);
    }
}
// the list framing of header entries is injective: a block is the encoding of at most one entry list
pub proof fn lemma_entries_unique(a: Seq<HdrEntry>, b: Seq<HdrEntry>)
    requires entries_valid(a), entries_valid(b), enc_entries(a) == enc_entries(b),
    ensures a == b,
    decreases a.len() + b.len(),
{
    lemma_entries_nonempty(a);
    lemma_entries_nonempty(b);
    let buf = enc_entries(a);
    lemma_list_start(a);
    lemma_list_start(b);
    lemma_entries_unique_from(buf, a, b, 0, 0);
}
pub proof fn lemma_entries_unique_from(buf: Seq<u8>, a: Seq<HdrEntry>, b: Seq<HdrEntry>, k: int, pos: int)
    requires
        entries_valid(a), entries_valid(b), buf == enc_entries(a), buf == enc_entries(b),
        list_progress(a, k, pos, a.take(k)), list_progress(b, k, pos, b.take(k)), a.take(k) == b.take(k),
    ensures a == b,
    decreases buf.len() - pos,
{
    lemma_entries_nonempty(a);
    lemma_entries_nonempty(b);
    if pos >= buf.len() {
        lemma_list_done(buf, a, k, pos, a.take(k));
        lemma_list_done(buf, b, k, pos, b.take(k));
    } else {
        lemma_list_step(buf, a, k, pos, a.take(k));
        lemma_list_step(buf, b, k, pos, b.take(k));
        let x = a[k];
        let y = b[k];
        assert(entry_valid(x) && entry_valid(y));
        lemma_entry_at(buf, pos, x);
        lemma_entry_at(buf, pos, y);
        lemma_le_facts();
        assert(un_le32(le32(x.key.len() as u32)) == un_le32(le32(y.key.len() as u32)));
        assert(x.key.len() == y.key.len());
        assert(x.key == y.key);
        assert(x.kind == y.kind);
        assert(un_le32(le32(x.value.len() as u32)) == un_le32(le32(y.value.len() as u32)));
        assert(x.value.len() == y.value.len());
        assert(x.value == y.value);
        assert(x == y);
        assert(a.take(k).push(x) =~= a.take(k + 1));
        assert(b.take(k).push(y) =~= b.take(k + 1));
        lemma_enc_entry_pos(x);
        lemma_entries_unique_from(buf, a, b, k + 1, pos + enc_entry(x).len());
    }
}
pub proof fn lemma_enc_entry_pos(e: HdrEntry)
    ensures enc_entry(e).len() > 0,
{
    lemma_le_facts();
}
// a decoded message occupies on the wire (when encoded again, in whatever entry order its map iterates) exactly what it was read from
pub proof fn lemma_match_same_len(m: Message, w: MsgW)
    requires msgw_valid(w), msg_matches(m, w),
    ensures opt_hdr_bytes(m.headers).len() == w.hb.len(), msg_w(m).enc().len() == w.enc().len(), hdr_block_valid(opt_hdr_bytes(m.headers)),
{
    let es = choose|es: Seq<HdrEntry>| keys_distinct(es) && entries_valid(es) && w.hb == enc_entries(es);
    assert(hdr_content(m.headers) == map_of(es));
    match m.headers {
        None => {
            assert(w.hb.len() == 0);
            assert(keys_distinct(Seq::<HdrEntry>::empty()) && entries_valid(Seq::<HdrEntry>::empty()));
            assert(enc_entries(Seq::<HdrEntry>::empty()) =~= Seq::<u8>::empty());
        },
        Some(h) => {
            lemma_hdr_bytes_block(h);
            lemma_hdr_len_unique(es_of(h), es);
        },
    }
    lemma_msg_len(w);
    lemma_msg_len(msg_w(m));
}
// the head of a SendMessages frame: where identifier, identifier, partitioning and the message list sit
pub proof fn lemma_send_layout(b: Seq<u8>, sid: Identifier, tid: Identifier, part: Partitioning, ws: Seq<MsgW>)
    requires send_frame(b, sid, tid, part, ws),
    ensures
        ({
            let n = b.len() as int;
            let a = enc_identifier(sid).len() as int;
            let c = enc_identifier(tid).len() as int;
            let d = enc_partitioning(part).len() as int;
            &&& a == 2 + sid.value@.len() && c == 2 + tid.value@.len() && d == 2 + part.value@.len()
            &&& n == a + c + d + enc_seq(ws).len() && enc_seq(ws).len() >= 25
            &&& b == enc_identifier(sid) + b.subrange(a, n)
            &&& b.subrange(a, n) == enc_identifier(tid) + b.subrange(a + c, n)
            &&& b.subrange(a + c, n) == enc_partitioning(part) + b.subrange(a + c + d, n)
            &&& b.subrange(a + c + d, n) == enc_seq(ws)
            &&& b[1] == sid.length && b[a + 1] == tid.length && b[a + c + 1] == part.length
        }),
{
    let n = b.len() as int;
    let t3 = enc_seq(ws);
    let t2 = enc_partitioning(part) + t3;
    let t1 = enc_identifier(tid) + t2;
    lemma_identifier_layout(sid, t1);
    lemma_identifier_layout(tid, t2);
    lemma_partitioning_layout(part, t3);
    let a = enc_identifier(sid).len() as int;
    let c = enc_identifier(tid).len() as int;
    let d = enc_partitioning(part).len() as int;
    assert(b.subrange(a, n) =~= t1);
    assert(b.subrange(a + c, n) =~= t2);
    assert(b.subrange(a + c + d, n) =~= t3);
    lemma_msgs_nonempty(ws);
    lemma_enc_seq_take(ws, 0);
    lemma_enc_seq_take(ws, 1);
    assert(ws.take(0) =~= Seq::<MsgW>::empty());
    lemma_msg_len(ws[0]);
    assert(msgw_valid(ws[0]));
    assert(t1[1] == tid.length);
    assert(t2[1] == part.length);
}
// id_eq / part_eq values have the same encoding
pub proof fn lemma_id_eq_enc(a: Identifier, b: Identifier)
    requires id_eq(a, b),
    ensures enc_identifier(a) == enc_identifier(b), id_valid(a) == id_valid(b),
{}
pub proof fn lemma_part_eq_enc(a: Partitioning, b: Partitioning)
    requires part_eq(a, b),
    ensures enc_partitioning(a) == enc_partitioning(b), part_valid(a) == part_valid(b),
{}
// the wire messages of a list of well-formed messages with payload are valid wire messages
pub proof fn lemma_msgs_w_valid(s: Seq<Message>)
    requires msgs_wf(s), forall|i: int| 0 <= i < s.len() ==> (#[trigger] s[i]).payload@.len() >= 1,
    ensures msgs_valid(msgs_w(s)),
{
    assert forall|i: int| 0 <= i < s.len() implies msgw_valid(#[trigger] msgs_w(s)[i]) by {
        let m = s[i];
        assert(msg_wf(m));
        match m.headers {
            None => {
                assert(keys_distinct(Seq::<HdrEntry>::empty()) && entries_valid(Seq::<HdrEntry>::empty()));
                assert(enc_entries(Seq::<HdrEntry>::empty()) =~= Seq::<u8>::empty());
            },
            Some(h) => { lemma_hdr_bytes_block(h); },
        }
    }
}
// ---- the decoder's walk over the message list ------------------------------------------------------------------------------------------------
// the cursor stands on the boundary before message k: the first k messages lie before it, and - unless it is the end of the list -
// message k sits at the cursor, followed by the rest of the list
pub open spec fn send_cursor(tail: Seq<u8>, ws: Seq<MsgW>, k: int, pos: int) -> bool {
    &&& tail == enc_seq(ws) && msgs_valid(ws)
    &&& list_progress(ws, k, pos, ws.take(k))
    &&& pos <= tail.len()
    &&& pos < tail.len() ==> (k < ws.len() && msgw_valid(ws[k]) && pos + ws[k].enc().len() <= tail.len()
            && tail.subrange(pos, tail.len() as int) == ws[k].enc() + tail.subrange(pos + ws[k].enc().len(), tail.len() as int))
}
pub proof fn lemma_send_cursor(tail: Seq<u8>, ws: Seq<MsgW>, k: int, pos: int)
    requires msgs_valid(ws), tail == enc_seq(ws), list_progress(ws, k, pos, ws.take(k)),
    ensures send_cursor(tail, ws, k, pos),
{
    lemma_enc_seq_take(ws, k);
    if pos < tail.len() {
        lemma_list_step(tail, ws, k, pos, ws.take(k));
        lemma_at_pos_split(tail, pos, ws[k].enc());
    }
}
pub proof fn lemma_send_start(tail: Seq<u8>, ws: Seq<MsgW>)
    requires msgs_valid(ws), tail == enc_seq(ws),
    ensures send_cursor(tail, ws, 0, 0), msgs_match(Seq::<Message>::empty(), ws.take(0)),
{
    lemma_list_start(ws);
    assert(ws.take(0) =~= Seq::<MsgW>::empty());
    lemma_send_cursor(tail, ws, 0, 0);
}
// message k was read at `pos` as m: the cursor advanced by the size of m stands on the boundary before message k + 1
pub proof fn lemma_send_step(tail: Seq<u8>, ws: Seq<MsgW>, k: int, pos: int, ms: Seq<Message>, m: Message)
    requires
        send_cursor(tail, ws, k, pos), pos < tail.len(),
        msgs_match(ms, ws.take(k)), k < ws.len() ==> msg_matches(m, ws[k]),
    ensures
        send_cursor(tail, ws, k + 1, pos + msg_w(m).enc().len()),
        msgs_match(ms.push(m), ws.take(k + 1)),
{
    lemma_list_step(tail, ws, k, pos, ws.take(k));
    lemma_match_same_len(m, ws[k]);
    assert(ws.take(k).push(ws[k]) =~= ws.take(k + 1));
    let ms2 = ms.push(m);
    let w2 = ws.take(k + 1);
    assert forall|i: int| 0 <= i < ms2.len() implies msg_matches(#[trigger] ms2[i], w2[i]) by {
        if i < k { assert(msg_matches(ms[i], ws.take(k)[i])); }
    }
    lemma_send_cursor(tail, ws, k + 1, pos + msg_w(m).enc().len());
}
// the cursor reached the end of the list: every message was read
pub proof fn lemma_send_done(tail: Seq<u8>, ws: Seq<MsgW>, k: int, pos: int)
    requires send_cursor(tail, ws, k, pos), pos >= tail.len(),
    ensures k == ws.len(), pos == tail.len(), ws.take(k) == ws,
{
    lemma_msgs_nonempty(ws);
    lemma_list_done(tail, ws, k, pos, ws.take(k));
}
// a decoded list that matches valid wire messages is a list of well-formed messages with payload, and encodes to the same length
pub proof fn lemma_matched_list(ms: Seq<Message>, ws: Seq<MsgW>)
    requires msgs_valid(ws), msgs_match(ms, ws), enc_seq(ws).len() <= isize::MAX,
    ensures
        msgs_wf(ms), forall|i: int| 0 <= i < ms.len() ==> (#[trigger] ms[i]).payload@.len() >= 1,
        enc_seq(msgs_w(ms)).len() == enc_seq(ws).len(),
{
    let mw = msgs_w(ms);
    assert forall|i: int| 0 <= i < ms.len() implies msg_wf(#[trigger] ms[i]) && ms[i].payload@.len() >= 1 && mw[i].enc().len() == ws[i].enc().len() by {
        assert(msgw_valid(ws[i]));
        assert(msg_matches(ms[i], ws[i]));
        lemma_match_same_len(ms[i], ws[i]);
        lemma_enc_seq_take(ws, i);
        lemma_enc_seq_take(ws, i + 1);
        assert(ws[i].enc().len() <= enc_seq(ws).len());
    }
    assert forall|i: int| 0 <= i < mw.len() implies (#[trigger] mw[i]).enc().len() == ws[i].enc().len() by { assert(msg_wf(ms[i])); }
    lemma_enc_seq_same_len(mw, ws);
}
// a message decoded from what the well-formed message v put on the wire is v
pub proof fn lemma_matches_same(cs: Seq<Message>, vs: Seq<Message>)
    requires msgs_wf(vs), msgs_match(cs, msgs_w(vs)),
    ensures msgs_same(cs, vs),
{
    assert forall|i: int| 0 <= i < cs.len() implies msg_same(#[trigger] cs[i], vs[i]) by {
        let c = cs[i];
        let v = vs[i];
        assert(msg_matches(c, msgs_w(vs)[i]));
        assert(msg_wf(v));
        match v.headers {
            None => {
                let e0 = Seq::<HdrEntry>::empty();
                assert(keys_distinct(e0) && entries_valid(e0));
                assert(enc_entries(e0) =~= Seq::<u8>::empty());
                assert(hdr_content(c.headers) == map_of(e0));
            },
            Some(h) => {
                lemma_hdr_bytes_block(h);
                let es = es_of(h);
                assert(keys_distinct(es) && entries_valid(es) && hdr_bytes(h) == enc_entries(es));
                assert(hdr_content(c.headers) == map_of(es));
            },
        }
    }
}

// ---- the server's binary handler: stand-ins --------------------------------------------------------------------------------------------------
// A-std: derived Clone copies the value
impl Clone for Identifier { #[verifier::external_body] fn clone(&self) -> (r: Self) ensures r == *self { unimplemented!() } }
impl Clone for Partitioning { #[verifier::external_body] fn clone(&self) -> (r: Self) ensures r == *self { unimplemented!() } }
#[verifier::external_body]
pub struct Session { p: u8 }
pub enum Confirmation { Wait, NoWait }
// the response channel of the connection: what was sent is not modelled here (unit frame_gate), only THAT the empty OK response is
// sent through it
pub struct SenderKind { pub oks: Ghost<nat> }
impl SenderKind {
    #[verifier::external_body]
    pub fn send_empty_ok_response(&mut self) -> (r: Result<(), IggyError>)
        ensures final(self).oks@ == old(self).oks@ + 1,
    { unimplemented!() }
}
// one invocation of System::append_messages (server/src/streaming/systems/messages.rs; under contract in units authn_gate /
// encryption / topic_send): the arguments it was given, and whether it succeeded
pub ghost struct AppendCall { pub stream_id: Identifier, pub topic_id: Identifier, pub partitioning: Partitioning, pub messages: Seq<Message>, pub confirmation: Option<Confirmation>, pub ok: bool }
pub struct System { pub calls: Ghost<Seq<AppendCall>> }
impl System {
    #[verifier::external_body]
    pub fn append_messages(&mut self, session: &Session, stream_id: Identifier, topic_id: Identifier, partitioning: Partitioning, messages: Vec<Message>, confirmation: Option<Confirmation>) -> (r: Result<(), IggyError>)
        ensures final(self).calls@ == old(self).calls@.push(AppendCall { stream_id, topic_id, partitioning, messages: messages@, confirmation, ok: r is Ok }),
    { unimplemented!() }
}

// ---- the limits `validate` enforces, and the longest frame a validated request can have --------------------------------------------------
// total payload bytes of a batch; total header VALUE bytes of a batch (what validate adds up against MAX_PAYLOAD_SIZE / MAX_HEADERS_SIZE)
pub open spec fn payload_total(s: Seq<Message>) -> int
    decreases s.len(),
{
    if s.len() == 0 { 0 } else { payload_total(s.drop_last()) + s.last().payload@.len() }
}
pub open spec fn values_total(es: Seq<HdrEntry>) -> int
    decreases es.len(),
{
    if es.len() == 0 { 0 } else { values_total(es.drop_last()) + es.last().value.len() }
}
pub open spec fn msg_values(m: Message) -> int { match m.headers { None => 0, Some(h) => values_total(es_of(h)) } }
pub open spec fn hv_total(s: Seq<Message>) -> int
    decreases s.len(),
{
    if s.len() == 0 { 0 } else { hv_total(s.drop_last()) + msg_values(s.last()) }
}
pub proof fn lemma_totals_step(s: Seq<Message>, i: int)
    requires 0 <= i < s.len(),
    ensures
        payload_total(s.take(i + 1)) == payload_total(s.take(i)) + s[i].payload@.len(),
        hv_total(s.take(i + 1)) == hv_total(s.take(i)) + msg_values(s[i]),
        payload_total(s.take(0)) == 0 && hv_total(s.take(0)) == 0,
{
    assert(s.take(i + 1).drop_last() =~= s.take(i));
    assert(s.take(0) =~= Seq::<Message>::empty());
}
pub proof fn lemma_values_step(es: Seq<HdrEntry>, j: int)
    requires 0 <= j < es.len(),
    ensures values_total(es.take(j + 1)) == values_total(es.take(j)) + es[j].value.len(), values_total(es.take(0)) == 0,
{
    assert(es.take(j + 1).drop_last() =~= es.take(j));
    assert(es.take(0) =~= Seq::<HdrEntry>::empty());
}
// a header block is at most 265 times as long as its values (an entry: 9 bytes of framing, a key of at most 255 bytes, a value of >= 1)
pub proof fn lemma_entries_len_bound(es: Seq<HdrEntry>)
    requires entries_valid(es),
    ensures enc_entries(es).len() <= 265 * values_total(es), values_total(es) >= 0,
    decreases es.len(),
{
    if es.len() > 0 {
        let p = es.drop_last();
        assert(entries_valid(p)) by { assert forall|i: int| 0 <= i < p.len() implies entry_valid(#[trigger] p[i]) by { assert(entry_valid(es[i])); } }
        lemma_entries_len_bound(p);
        assert(entry_valid(es[es.len() - 1]));
        lemma_entry_len(es.last());
    }
}
// a batch of n well-formed messages with payload: n <= payload bytes, and the list encoding is bounded by framing + headers + payloads
pub proof fn lemma_msgs_len_bound(s: Seq<Message>)
    requires msgs_wf(s), forall|i: int| 0 <= i < s.len() ==> (#[trigger] s[i]).payload@.len() >= 1,
    ensures
        s.len() <= payload_total(s), hv_total(s) >= 0,
        enc_seq(msgs_w(s)).len() <= 24 * payload_total(s) + 265 * hv_total(s) + payload_total(s),
    decreases s.len(),
{
    if s.len() > 0 {
        let p = s.drop_last();
        let m = s.last();
        assert(msgs_wf(p)) by { assert forall|i: int| 0 <= i < p.len() implies msg_wf(#[trigger] p[i]) by { assert(msg_wf(s[i])); } }
        assert forall|i: int| 0 <= i < p.len() implies (#[trigger] p[i]).payload@.len() >= 1 by { assert(s[i].payload@.len() >= 1); }
        lemma_msgs_len_bound(p);
        assert(msgs_w(s).drop_last() =~= msgs_w(p));
        assert(msgs_w(s).last() == msg_w(m));
        assert(msg_wf(s[s.len() - 1]) && s[s.len() - 1].payload@.len() >= 1);
        lemma_msg_len(msg_w(m));
        match m.headers {
            None => {},
            Some(h) => { lemma_hdr_bytes_block(h); lemma_entries_len_bound(es_of(h)); },
        }
    }
}
// the longest request frame (length prefix and command code included) that `validate` lets through
pub open spec fn max_valid_frame() -> int { 8 + 3 * 257 + 24 * (MAX_PAYLOAD_SIZE as int) + 265 * (MAX_HEADERS_SIZE as int) + MAX_PAYLOAD_SIZE as int }
pub open spec fn sm_within_limits(v: SendMessages) -> bool { payload_total(v.messages@) <= MAX_PAYLOAD_SIZE && hv_total(v.messages@) <= MAX_HEADERS_SIZE }
pub proof fn lemma_valid_frame_bound(v: SendMessages)
    requires sm_wf(v), sm_sendable(v), sm_within_limits(v),
    ensures 8 + sm_frame_len(v) <= max_valid_frame(),
{
    lemma_msgs_len_bound(v.messages@);
    let t3 = enc_seq(msgs_w(v.messages@));
    let t2 = enc_partitioning(v.partitioning) + t3;
    let t1 = enc_identifier(v.topic_id) + t2;
    lemma_identifier_layout(v.stream_id, t1);
    lemma_identifier_layout(v.topic_id, t2);
    lemma_partitioning_layout(v.partitioning, t3);
    assert(24 * payload_total(v.messages@) <= 24 * (MAX_PAYLOAD_SIZE as int)) by (nonlinear_arith) requires payload_total(v.messages@) <= MAX_PAYLOAD_SIZE;
    assert(265 * hv_total(v.messages@) <= 265 * (MAX_HEADERS_SIZE as int)) by (nonlinear_arith) requires hv_total(v.messages@) <= MAX_HEADERS_SIZE;
}

// ---- the QUIC listener's read of one request (server/src/quic/listener.rs handle_stream, first part) ----------------------------------
// quinn and anyhow stand-ins. One request = one bidirectional stream: the client writes the frame and finishes its side.
//   pending()    ALL bytes the peer put on this stream before finishing it
//   read_fails() the connection is lost / the peer reset the stream before everything arrived
// quinn RecvStream::read_to_end(size_limit) (TRUE contract, quinn 0.11 recv_stream.rs): the whole content of the stream up to its end;
// fails with ReadToEndError::TooLong when the stream carries more than `size_limit` bytes (all data is discarded), or with a read error.
#[verifier::external_body]
pub struct SendStream { _p: u8 }
#[verifier::external_body]
pub struct RecvStream { _p: u8 }
pub struct ReadToEndError { pub p: u8 }
impl RecvStream {
    pub uninterp spec fn pending(&self) -> Seq<u8>;
    pub uninterp spec fn read_fails(&self) -> bool;
    #[verifier::external_body]
    pub fn read_to_end(&mut self, size_limit: usize) -> (r: Result<Vec<u8>, ReadToEndError>)
        ensures
            r matches Ok(v) ==> v@ == old(self).pending() && v@.len() <= size_limit,
            (!old(self).read_fails() && old(self).pending().len() <= size_limit) ==> r is Ok,
    { unimplemented!() }
}
pub struct AnyhowError { pub p: u8 }
impl AnyhowError {
    #[verifier::external_body]
    pub fn msg() -> (r: AnyhowError) { unimplemented!() }
}
// anyhow::Context::with_context(|| text): Ok stays Ok with the same value, Err becomes an anyhow error carrying the text
pub trait Context<T> { fn with_context<F: FnOnce() -> &'static str>(self, f: F) -> Result<T, AnyhowError>; }
impl<T, E> Context<T> for Result<T, E> {
    #[verifier::external_body]
    fn with_context<F: FnOnce() -> &'static str>(self, f: F) -> (r: Result<T, AnyhowError>)
        ensures
            self matches Ok(v) ==> r == Ok::<T, AnyhowError>(v),
            self is Err ==> r is Err,
    { unimplemented!() }
}

// ---- the SDK's QUIC client: stand-ins -------------------------------------------------------------------------------------------------------
impl IggyError {
    // the error-code table (sdk/src/error.rs, strum discriminants): uninterpreted here (its bijectivity is the Kani table check of C13)
    pub uninterp spec fn from_code_spec(code: u32) -> IggyError;
    #[verifier::external_body]
    pub fn from_code(code: u32) -> (r: IggyError) ensures r == IggyError::from_code_spec(code) { unimplemented!() }
}
impl ByteSeq {
    // Bytes::copy_from_slice: a copy of the slice
    #[verifier::external_body]
    pub fn copy_from_slice(s: &[u8]) -> (r: ByteSeq) ensures r@ == s@ { unimplemented!() }
}
// the response frame of the binary protocol:  status:u32 | length:u32 | body[length]     (status 0 = OK; an error response has no body)
pub open spec fn resp_frame(status: u32, body: Seq<u8>) -> Seq<u8> { le32(status) + le32(body.len() as u32) + body }
pub proof fn lemma_resp_layout(status: u32, body: Seq<u8>)
    requires body.len() <= u32::MAX,
    ensures
        ({
            let b = resp_frame(status, body);
            &&& b.len() == 8 + body.len()
            &&& b.subrange(0, 4) == le32(status) && un_le32(b.subrange(0, 4)) == status
            &&& b.subrange(4, 8) == le32(body.len() as u32) && un_le32(b.subrange(4, 8)) == body.len()
            &&& b.subrange(8, 8 + body.len() as int) == body
        }),
{
    lemma_le_facts();
    let b = resp_frame(status, body);
    assert(b.subrange(0, 4) =~= le32(status));
    assert(b.subrange(4, 8) =~= le32(body.len() as u32));
    assert(b.subrange(8, 8 + body.len() as int) =~= body);
}
// R8 schema for Result::map_err (std semantics): the closure body is lifted verbatim as the ghost function `f`
pub trait MapErrSpec<T, E> { fn map_err_spec<F>(self, f: Ghost<spec_fn(E) -> F>) -> Result<T, F>; }
impl<T, E> MapErrSpec<T, E> for Result<T, E> {
    #[verifier::external_body]
    fn map_err_spec<F>(self, Ghost(f): Ghost<spec_fn(E) -> F>) -> (r: Result<T, F>)
        ensures
            self matches Ok(v) ==> r == Ok::<T, F>(v),
            self matches Err(e) ==> r == Err::<T, F>(f(e)),
    { unimplemented!() }
}

// ---- the server's QUIC response writer (server/src/quic/quic_sender.rs): stand-ins ------------------------------------------------------------
//   sent()     the bytes handed to this send stream so far, in order (appended ONLY by write_all)
//   finished() the stream was finished: the peer's read_to_end sees exactly sent() (quinn SendStream::finish)
pub struct WriteError { pub p: u8 }
pub struct ClosedStream { pub p: u8 }
impl SendStream {
    pub uninterp spec fn sent(&self) -> Seq<u8>;
    pub uninterp spec fn finished(&self) -> bool;
    // quinn SendStream::write_all: Ok => the whole buffer was accepted, in order; on Err nothing is promised about how far it got
    #[verifier::external_body]
    pub fn write_all(&mut self, buf: &[u8]) -> (r: Result<(), WriteError>)
        ensures
            r is Ok ==> final(self).sent() == old(self).sent() + buf@ && final(self).finished() == old(self).finished(),
            final(self).sent().len() >= old(self).sent().len(),
    { unimplemented!() }
    #[verifier::external_body]
    pub fn finish(&mut self) -> (r: Result<(), ClosedStream>)
        ensures final(self).sent() == old(self).sent(), r is Ok ==> final(self).finished(),
    { unimplemented!() }
}
// <[&[u8]]>::concat (R4-concat): the slices one after the other
pub open spec fn concat_all(s: Seq<&[u8]>) -> Seq<u8>
    decreases s.len()
{
    if s.len() == 0 { Seq::<u8>::empty() } else { concat_all(s.drop_last()) + s.last()@ }
}
pub trait ConcatBytes { fn concat_bytes(&self) -> Vec<u8>; }
impl<'a> ConcatBytes for [&'a [u8]] {
    #[verifier::external_body]
    fn concat_bytes(&self) -> (r: Vec<u8>) ensures r@ == concat_all(self@) { unimplemented!() }
}
impl IggyError {
    // the server's side of the error-code table (uninterpreted; `from_code(as_code(e))` is the Kani table check of C13)
    pub uninterp spec fn code_spec(&self) -> u32;
    #[verifier::external_body]
    pub fn as_code(&self) -> (r: u32) ensures r == self.code_spec() { unimplemented!() }
}
// the value of the server's STATUS_OK constant (proved of its extracted initializer, see unit.toml R12-const)
pub open spec fn all_zero4(s: Seq<u8>) -> bool { s.len() == 4 && forall|i: int| 0 <= i < 4 ==> s[i] == 0 }
// A-math: the little-endian bytes of 0u32 are four zero bytes (vstd keeps `spec_u32_to_le_bytes` closed and exports only the
// bijection lemma, so this one value of the encoding has to be stated; it ties the server's STATUS_OK = [0; 4] to `status == 0`)
#[verifier::external_body]
pub proof fn axiom_le32_zero()
    ensures le32(0) == Seq::new(4, |i: int| 0u8),
{}
// technical: the four zero bytes of the server's STATUS_OK are the status word 0
pub proof fn lemma_le32_zero()
    ensures forall|s: Seq<u8>| #[trigger] all_zero4(s) ==> s == le32(0),
{
    axiom_le32_zero();
    let z = le32(0);
    assert forall|s: Seq<u8>| #[trigger] all_zero4(s) implies s == z by { assert(s =~= z); }
}

// ---- the SDK's QUIC client: the request side (sdk/src/quic/client.rs send_raw) ------------------------------------------------------------------
// the request frame of the binary protocol:  length:u32 (= 4 + |payload|) | code:u32 | payload        (length counts code and payload)
pub open spec fn quic_req_frame(code: u32, payload: Seq<u8>) -> Seq<u8> { le32((payload.len() + 4) as u32) + le32(code) + payload }
// what the receive side of a request stream carries: nothing (the server dropped the stream without answering: it refused the frame
// at the gate, unit frame_gate) or exactly ONE response frame ([C13.quic.response.frame*]: the server's writers emit nothing else)
pub open spec fn quic_response_stream(b: Seq<u8>) -> bool {
    b.len() == 0 || exists|status: u32, body: Seq<u8>| body.len() <= u32::MAX && b == resp_frame(status, body)
}
#[verifier::external_body]
pub struct Connection { _p: u8 }
pub struct ConnectionError { pub p: u8 }
impl Connection {
    // quinn Connection::open_bi: a NEW bidirectional stream - nothing was written on it yet. A-peer: its receive side will carry
    // what the server answers to the request written on its send side (see quic_response_stream)
    #[verifier::external_body]
    pub fn open_bi(&self) -> (r: Result<(SendStream, RecvStream), ConnectionError>)
        ensures r matches Ok(x) ==> x.0.sent() == Seq::<u8>::empty() && !x.0.finished() && quic_response_stream(x.1.pending()),
    { unimplemented!() }
}
// `Bytes: Deref<Target = [u8]>`: a `&Bytes` is accepted where a `&[u8]` is expected (`send.write_all(&payload)`)
impl core::ops::Deref for ByteSeq {
    type Target = [u8];
    #[verifier::external_body]
    fn deref(&self) -> (r: &[u8])
        ensures r@ == self@,
    { unimplemented!() }
}
