// Witnesses of unit codec_send (property C13) on the REAL crates. Each test asserts the CORRECT behaviour, so it FAILS on a tree
// that has the defect and passes on the repaired tree.
//
// F160  The QUIC listener reads a request with `recv_stream.read_to_end(MAX_PAYLOAD_SIZE)`: the limit on the total PAYLOAD bytes of
//       a SendMessages request (what `validate()` checks, on both sides) is used as the limit on the whole FRAME (4 length + 4 code
//       + identifiers + partitioning + 24 bytes per message + headers + payloads). A request that the SDK builds, that `validate()`
//       accepts and that the TCP transport delivers is therefore refused by the QUIC transport - without any response (the stream is
//       dropped, the client sees EmptyResponse) - as soon as payloads + framing exceed 10 000 000 bytes.
use bytes::Bytes;
use iggy::client::{Client, MessageClient, StreamClient, TopicClient, UserClient};
use iggy::compression::compression_algorithm::CompressionAlgorithm;
use iggy::identifier::Identifier;
use iggy::messages::send_messages::{Message, Partitioning, SendMessages};
use iggy::messages::MAX_PAYLOAD_SIZE;
use iggy::quic::client::QuicClient;
use iggy::quic::config::{QuicClientConfig, QuicClientReconnectionConfig};
use iggy::tcp::client::TcpClient;
use iggy::tcp::config::{TcpClientConfig, TcpClientReconnectionConfig};
use iggy::utils::expiry::IggyExpiry;
use iggy::utils::topic_size::MaxTopicSize;
use iggy::validatable::Validatable;
use server::configs::quic::QuicConfig;
use server::configs::server::{DataMaintenanceConfig, PersonalAccessTokenConfig};
use server::configs::system::SystemConfig;
use server::configs::tcp::TcpConfig;
use server::streaming::systems::system::{SharedSystem, System};
use std::sync::Arc;

async fn start_system(dir: &tempfile::TempDir) -> SharedSystem {
    let mut config = SystemConfig::default();
    config.path = dir.path().join("local_data").to_str().unwrap().to_string();
    let config = Arc::new(config);
    std::fs::create_dir_all(config.get_system_path()).unwrap();
    let mut system = System::new(config, DataMaintenanceConfig::default(), PersonalAccessTokenConfig::default());
    system.init().await.unwrap();
    SharedSystem::new(system)
}

fn batch(count: usize, payload_len: usize) -> Vec<Message> {
    (0..count).map(|i| Message::new(Some(i as u128 + 1), Bytes::from(vec![b'x'; payload_len]), None)).collect()
}

// what the request looks like to `validate()` (the check both the SDK user and the server run) and how long its frame is
fn describe(stream_id: &Identifier, topic_id: &Identifier, partitioning: &Partitioning, messages: &[Message]) -> (bool, usize) {
    let command = SendMessages {
        stream_id: stream_id.clone(),
        topic_id: topic_id.clone(),
        partitioning: partitioning.clone(),
        messages: messages.to_vec(),
    };
    let valid = command.validate().is_ok();
    let frame = 4 + 4 + iggy::bytes_serializable::BytesSerializable::to_bytes(&command).len();
    (valid, frame)
}

async fn prepare<C: Client>(client: &C) -> (Identifier, Identifier) {
    client.connect().await.expect("connect");
    client.login_user("iggy", "iggy").await.expect("login");
    let stream_id = Identifier::numeric(1).unwrap();
    let topic_id = Identifier::numeric(1).unwrap();
    if client.get_stream(&stream_id).await.ok().flatten().is_none() {
        client.create_stream("s", Some(1)).await.expect("create_stream");
        client
            .create_topic(&stream_id, "t", 1, CompressionAlgorithm::None, None, Some(1), IggyExpiry::NeverExpire, MaxTopicSize::Unlimited)
            .await
            .expect("create_topic");
    }
    (stream_id, topic_id)
}

async fn f160(count: usize, payload_len: usize) {
    let dir = tempfile::TempDir::new().unwrap();
    let system = start_system(&dir).await;
    let mut quic = QuicConfig::default();
    quic.address = "127.0.0.1:0".to_string();
    quic.certificate.self_signed = true;
    let quic_addr = server::quic::quic_server::start(quic, system.clone());
    let mut tcp = TcpConfig::default();
    tcp.address = "127.0.0.1:0".to_string();
    tcp.tls.enabled = false;
    let tcp_addr = server::tcp::tcp_server::start(tcp, system.clone()).await;

    let partitioning = Partitioning::partition_id(1);

    // control: the same request over TCP
    let tcp_client = TcpClient::create(Arc::new(TcpClientConfig {
        server_address: tcp_addr.to_string(),
        reconnection: TcpClientReconnectionConfig { enabled: false, ..Default::default() },
        ..Default::default()
    }))
    .unwrap();
    let (stream_id, topic_id) = prepare(&tcp_client).await;
    let mut messages = batch(count, payload_len);
    let (valid, frame) = describe(&stream_id, &topic_id, &partitioning, &messages);
    let over_tcp = tcp_client.send_messages(&stream_id, &topic_id, &partitioning, &mut messages).await;
    println!(
        "F160: {count} message(s) x {payload_len} bytes: total payload {} (MAX_PAYLOAD_SIZE {MAX_PAYLOAD_SIZE}), validate() ok = {valid}, frame = {frame} bytes; TCP -> {over_tcp:?}",
        count * payload_len
    );
    assert!(valid, "the witness request must be one that validate() accepts");
    assert!(over_tcp.is_ok(), "control: the TCP transport delivers the request");

    let quic_client = QuicClient::create(Arc::new(QuicClientConfig {
        server_address: quic_addr.to_string(),
        client_address: "127.0.0.1:0".to_string(),
        server_name: "localhost".to_string(),
        validate_certificate: false,
        reconnection: QuicClientReconnectionConfig { enabled: false, ..Default::default() },
        ..Default::default()
    }))
    .unwrap();
    let (stream_id, topic_id) = prepare(&quic_client).await;
    // a small request goes through: the transport works
    let mut small = batch(1, 100);
    quic_client.send_messages(&stream_id, &topic_id, &partitioning, &mut small).await.expect("small request over QUIC");
    let mut messages = batch(count, payload_len);
    let over_quic = quic_client.send_messages(&stream_id, &topic_id, &partitioning, &mut messages).await;
    println!("F160: the same request over QUIC -> {over_quic:?}");
    assert!(
        over_quic.is_ok(),
        "F160: a request that validate() accepts ({} payload bytes <= MAX_PAYLOAD_SIZE, frame {frame} bytes) and that TCP delivers is refused by the QUIC listener: {over_quic:?}",
        count * payload_len
    );
}

// the boundary itself: one message whose payload is exactly MAX_PAYLOAD_SIZE bytes (frame: 10 000 046 bytes)
#[tokio::test(flavor = "multi_thread", worker_threads = 4)]
async fn f160_quic_delivers_validated_request_at_max_payload() {
    f160(1, MAX_PAYLOAD_SIZE as usize).await;
}

// an everyday batch: 1000 messages of 9 990 bytes (9.99 MB of payload, 24 bytes of framing per message)
#[tokio::test(flavor = "multi_thread", worker_threads = 4)]
async fn f160_quic_delivers_validated_batch_of_1000() {
    f160(1000, 9_990).await;
}

// O1 (observation, NOT a registered defect: no SDK encoder produces such a frame - a HashMap has no duplicate keys). The decoder of
// SendMessages advances its cursor by `get_size_bytes()` of the DECODED message, not by the bytes it consumed. The two differ exactly
// when the header block names a key twice (the map keeps one entry): the cursor then lands inside the payload of that message and
// the rest of the frame is parsed from there. This test only prints what happens; it always passes.
#[test]
fn o1_duplicate_header_key_shifts_the_cursor() {
    use bytes::{BufMut, BytesMut};
    use iggy::bytes_serializable::BytesSerializable;
    let entry = |k: &[u8], v: &[u8]| {
        let mut b = BytesMut::new();
        b.put_u32_le(k.len() as u32);
        b.put_slice(k);
        b.put_u8(2);
        b.put_u32_le(v.len() as u32);
        b.put_slice(v);
        b
    };
    let message = |id: u128, headers: &[u8], payload: &[u8]| {
        let mut b = BytesMut::new();
        b.put_u128_le(id);
        b.put_u32_le(headers.len() as u32);
        b.put_slice(headers);
        b.put_u32_le(payload.len() as u32);
        b.put_slice(payload);
        b
    };
    // message 1 names the key "a" twice (11 bytes per entry): the decoded map has ONE entry, so get_size_bytes() of the decoded
    // message is 11 bytes less than what was consumed and the cursor continues 11 bytes before the end of payload 1
    let mut headers = entry(b"a", b"1");
    headers.extend_from_slice(&entry(b"a", b"2"));
    let m1 = message(1, &headers, b"first payload, long enough to hold the shifted cursor");
    let m2 = message(2, &[], b"second");
    let mut frame = BytesMut::new();
    frame.put_slice(&Identifier::numeric(1).unwrap().to_bytes());
    frame.put_slice(&Identifier::numeric(1).unwrap().to_bytes());
    frame.put_slice(&Partitioning::balanced().to_bytes());
    frame.put_slice(&m1);
    frame.put_slice(&m2);
    let decoded = std::panic::catch_unwind(|| SendMessages::from_bytes(frame.freeze()));
    match decoded {
        Ok(Ok(c)) => println!(
            "O1: a frame of 2 messages (message 1 names header key \"a\" twice) decodes to {} message(s): {:?}",
            c.messages.len(),
            c.messages.iter().map(|m| (m.id, m.payload.len(), m.headers.as_ref().map(|h| h.len()))).collect::<Vec<_>>()
        ),
        Ok(Err(e)) => println!("O1: a frame of 2 messages (message 1 names header key \"a\" twice) is refused: {e:?} (the cursor left the message boundary)"),
        Err(_) => println!("O1: a frame of 2 messages (message 1 names header key \"a\" twice) makes the decoder panic (the cursor left the message boundary)"),
    }
}
