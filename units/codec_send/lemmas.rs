// ---- composition harnesses: the property clause itself, stated over the REAL functions (client code that only calls them) -------------
// Verus proves from the contracts alone that the decoder's precondition holds for whatever the encoder emits and that the decoded
// request is the request that was encoded.

// The two encoders of the SDK - `as_bytes(parts)` used by the binary clients (TCP/QUIC `send_messages`) and `to_bytes()` of the struct
// (used by ServerCommand and `send_with_response(&SendMessages)`) - produce the same frame for the same parts.
// label: C13.req.SendMessages.same
pub fn c13_send_same(v: &SendMessages) -> (r: (ByteSeq, ByteSeq))
    requires msgs_fit(v.messages@), sm_frame_len(*v) <= isize::MAX,
    ensures r.0@ == r.1@,
{
    let a = as_bytes(&v.stream_id, &v.topic_id, &v.partitioning, v.messages.as_slice());
    let b = v.to_bytes();
    (a, b)
}

// every valid request the SDK builds is decoded by the server to the same request
// label: C13.req.SendMessages.roundtrip
pub fn c13_send_roundtrip(v: &SendMessages) -> (r: Result<SendMessages, IggyError>)
    requires sm_valid(*v),
    ensures r matches Ok(c) && sm_same(c, *v) && sm_frame_len(c) == sm_frame_len(*v),
{
    proof {
        lemma_msgs_w_valid(v.messages@);
        assert(msgs_fit(v.messages@)) by { assert forall|i: int| 0 <= i < v.messages@.len() implies msg_fits(#[trigger] v.messages@[i]) by { assert(msg_wf(v.messages@[i])); } }
    }
    let b = v.to_bytes();
    proof { assert(send_frame(b@, v.stream_id, v.topic_id, v.partitioning, msgs_w(v.messages@))); }
    let r = SendMessages::from_bytes(b);
    proof { if r is Ok { lemma_matches_same(r->Ok_0.messages@, v.messages@); } }
    r
}

// the same through the borrowed-parts encoder the binary clients call
// label: C13.req.SendMessages.roundtrip.parts
pub fn c13_send_roundtrip_parts(stream_id: &Identifier, topic_id: &Identifier, partitioning: &Partitioning, messages: &[Message]) -> (r: Result<SendMessages, IggyError>)
    requires
        id_valid(*stream_id), id_valid(*topic_id), part_valid(*partitioning), msgs_wf(messages@), messages@.len() >= 1,
        forall|i: int| 0 <= i < messages@.len() ==> (#[trigger] messages@[i]).payload@.len() >= 1,
        enc_send(*stream_id, *topic_id, *partitioning, msgs_w(messages@)).len() <= isize::MAX,
    ensures
        r matches Ok(c) && id_eq(c.stream_id, *stream_id) && id_eq(c.topic_id, *topic_id) && part_eq(c.partitioning, *partitioning) && msgs_same(c.messages@, messages@),
{
    proof {
        lemma_msgs_w_valid(messages@);
        assert(msgs_fit(messages@)) by { assert forall|i: int| 0 <= i < messages@.len() implies msg_fits(#[trigger] messages@[i]) by { assert(msg_wf(messages@[i])); } }
    }
    let b = as_bytes(stream_id, topic_id, partitioning, messages);
    proof { assert(send_frame(b@, *stream_id, *topic_id, *partitioning, msgs_w(messages@))); }
    let r = SendMessages::from_bytes(b);
    proof { if r is Ok { lemma_matches_same(r->Ok_0.messages@, messages@); } }
    r
}

// `validate` and the decoder agree: a request (of well-formed parts) that validate accepts is encoded to a frame the decoder accepts,
// and it is decoded to the same request
// label: C13.req.SendMessages.validated
pub fn c13_send_validated(v: &SendMessages) -> (r: Option<Result<SendMessages, IggyError>>)
    requires
        sm_wf(*v), sm_frame_len(*v) <= isize::MAX,
        forall|i: int| 0 <= i < v.messages@.len() ==> (#[trigger] v.messages@[i]).payload@.len() + MAX_PAYLOAD_SIZE <= u32::MAX,
    ensures r matches Some(d) ==> (d matches Ok(c) && sm_same(c, *v)),
{
    match v.validate() {
        Ok(_) => {
            proof {
                assert(sm_valid(*v));
                lemma_msgs_w_valid(v.messages@);
                assert(msgs_fit(v.messages@)) by { assert forall|i: int| 0 <= i < v.messages@.len() implies msg_fits(#[trigger] v.messages@[i]) by { assert(msg_wf(v.messages@[i])); } }
            }
            let b = v.to_bytes();
            proof { assert(send_frame(b@, v.stream_id, v.topic_id, v.partitioning, msgs_w(v.messages@))); }
            let d = SendMessages::from_bytes(b);
            proof { if d is Ok { lemma_matches_same(d->Ok_0.messages@, v.messages@); } }
            Some(d)
        },
        Err(_) => None,
    }
}

// ---- facts about the SPECIFICATION ----------------------------------------------------------------------------------------------------------
// the length of a header block is determined by the map it encodes (any two entry orders): the decoder's cursor may be advanced by
// the size of the DECODED map
// label: C13.req.SendMessages.size.order
pub proof fn c13_hdr_len_any_order(a: HdrMap, es1: Seq<HdrEntry>, es2: Seq<HdrEntry>)
    requires lists(es1, a), lists(es2, a),
    ensures enc_entries(es1).len() == enc_entries(es2).len(),
{ lemma_hdr_len_unique(es1, es2); }
// a frame is the frame of at most one request: two descriptions of the same frame name the same identifiers, partitioning and messages
// label: C13.inj.SendMessages
pub proof fn c13_inj_send(b: Seq<u8>, s1: Identifier, t1: Identifier, p1: Partitioning, w1: Seq<MsgW>, s2: Identifier, t2: Identifier, p2: Partitioning, w2: Seq<MsgW>)
    requires send_frame(b, s1, t1, p1, w1), send_frame(b, s2, t2, p2, w2),
    ensures id_eq(s1, s2), id_eq(t1, t2), part_eq(p1, p2), enc_seq(w1) == enc_seq(w2),
{
    lemma_identifier_prefix_free(s1, enc_identifier(t1) + (enc_partitioning(p1) + enc_seq(w1)), s2, enc_identifier(t2) + (enc_partitioning(p2) + enc_seq(w2)));
    lemma_identifier_prefix_free(t1, enc_partitioning(p1) + enc_seq(w1), t2, enc_partitioning(p2) + enc_seq(w2));
    lemma_partitioning_prefix_free(p1, enc_seq(w1), p2, enc_seq(w2));
}

// ---- QUIC framing: the two ends are specified on the SAME frames ------------------------------------------------------------------------
// what the client writes on a request stream ([C13.quic.request.frame]) is what the listener reads whole ([C13.quic.request.whole]) and
// splits as the server's decoder expects (unit frame_gate: the 4-byte length prefix is skipped, then code = the next 4 bytes,
// payload = the rest)
// label: C13.quic.request.agree
pub proof fn c13_quic_request_agree(code: u32, payload: Seq<u8>)
    requires payload.len() + 4 <= u32::MAX,
    ensures
        quic_req_frame(code, payload).len() == 8 + payload.len(),
        quic_req_frame(code, payload).len() >= INITIAL_BYTES_LENGTH,
        quic_req_frame(code, payload).skip(INITIAL_BYTES_LENGTH as int) == le32(code) + payload,
        un_le32(quic_req_frame(code, payload).subrange(0, 4)) == payload.len() + 4,
{
    lemma_le_facts();
    let f = quic_req_frame(code, payload);
    assert(f.skip(4) =~= le32(code) + payload);
    assert(f.subrange(0, 4) =~= le32((payload.len() + 4) as u32));
}
// what the server's writers put on the stream ([C13.quic.response.frame*]: status ++ le32(|payload|) ++ payload on a stream nothing else
// was written on) is a frame the client's reader is under contract for (its precondition `quic_response_stream`), with that status/body
// label: C13.quic.response.agree
pub proof fn c13_quic_response_agree(status_bytes: Seq<u8>, status: u32, payload: Seq<u8>)
    requires status_bytes == le32(status), payload.len() <= u32::MAX,
    ensures
        Seq::<u8>::empty() + (status_bytes + le32(payload.len() as u32) + payload) == resp_frame(status, payload),
        quic_response_stream(resp_frame(status, payload)),
{
    assert(Seq::<u8>::empty() + (status_bytes + le32(payload.len() as u32) + payload) =~= resp_frame(status, payload));
}
