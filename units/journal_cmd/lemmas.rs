// ---- journal_cmd: clauses that span several functions, and facts about the extracted constants ------------------------------------

// dispatch by code is unambiguous: the 19 `*_CODE` constants (extracted from sdk/src/command.rs) a journal entry can carry are
// pairwise distinct - two commands journalled under the same code are the same variant
// label: C13.journal.cmd.codes-distinct
pub proof fn c13_journal_codes_distinct()
    ensures
        forall|a: EntryCommand, b: EntryCommand| cmd_code(a) == cmd_code(b) ==> variant_index(a) == variant_index(b),
        forall|c: EntryCommand| known_code(#[trigger] cmd_code(c)),
{}

// composition harness over the two REAL functions of models.rs: what `to_bytes` writes, `from_bytes` reads back as the same value
// (hypothesis: the wrapped CreatePersonalAccessToken round-trips under its own codec - unit codec_requests2
// [C13.req.CreatePersonalAccessToken.enc], [C13.req.CreatePersonalAccessToken] - and both lengths fit their u32 length words)
// label: C13.journal.pat.rt
pub fn c13_journal_pat_rt(v: &CreatePersonalAccessTokenWithHash) -> (r: Result<CreatePersonalAccessTokenWithHash, IggyError>)
    requires
        CreatePersonalAccessToken::decode_spec(v.command.enc_spec()) == Ok::<CreatePersonalAccessToken, IggyError>(v.command),
        pat_hash_valid(*v),
    ensures
        r matches Ok(d) && pat_hash_eq(d, *v),
{
    let b = v.to_bytes();
    proof {
        lemma_pat_layout(*v);
    }
    CreatePersonalAccessTokenWithHash::from_bytes(b)
}

// composition harness over the two REAL functions of command.rs: for every command whose payload round-trips under its own codec
// (hypothesis per type `payload_rt`, proved in units codec_requests / codec_requests2), what is journalled is replayed as the SAME
// command: same variant, same payload
// label: C13.journal.cmd.rt
pub fn c13_journal_cmd_rt(c: &EntryCommand) -> (r: Result<EntryCommand, IggyError>)
    requires
        cmd_payload(*c).len() <= u32::MAX,
        payload_rt(*c),
    ensures
        r matches Ok(d) && cmd_eq(d, *c),
{
    let b = c.to_bytes();
    proof {
        lemma_le_facts();
        lemma_frame3(Seq::<u8>::empty(), le32(cmd_code(*c)), le32(cmd_payload(*c).len() as u32), cmd_payload(*c));
        assert(frame_code(b@) == cmd_code(*c));
        assert(frame_len(b@) == cmd_payload(*c).len());
        assert(frame_payload(b@) == cmd_payload(*c));
        if *c is CreatePersonalAccessToken {
            lemma_pat_layout(c->CreatePersonalAccessToken_0);
        }
        c13_journal_codes_distinct();
    }
    let r = EntryCommand::from_bytes(b);
    proof {
        assert(own_accepts(cmd_code(*c), cmd_payload(*c)));
    }
    r
}

// the reader of the token layout finds in enc_pat_hash(v) exactly v's command bytes and hash bytes
pub proof fn lemma_pat_layout(v: CreatePersonalAccessTokenWithHash)
    ensures
        pat_hash_valid(v) ==> pat_framed(enc_pat_hash(v)) && pat_cmd_bytes(enc_pat_hash(v)) == v.command.enc_spec()
            && pat_hash_bytes(enc_pat_hash(v)) == v.hash@ && utf8(pat_hash_bytes(enc_pat_hash(v))),
{
    if pat_hash_valid(v) {
        lemma_le_facts();
        lemma_frame4(Seq::<u8>::empty(), le32(v.command.enc_spec().len() as u32), v.command.enc_spec(), le32(v.hash@.len() as u32), v.hash@);
        axiom_text_utf8(v.hash);
        let b = enc_pat_hash(v);
        assert(pat_cmd_len(b) == v.command.enc_spec().len());
        assert(pat_cmd_bytes(b) == v.command.enc_spec());
        assert(pat_hash_len(b) == v.hash@.len());
    }
}

// composition harness over the two REAL functions of entry.rs: an entry written by `to_bytes` is read back by `from_bytes` as the
// same entry, field by field, for any command bytes of the size of a journal form (the command is everything after the context). The timestamp is compared as
// the microsecond value that is journalled (A-clock).
// label: C13.journal.entry.rt
pub fn c13_journal_entry_rt(e: &StateEntry) -> (r: Result<StateEntry, IggyError>)
    requires
        e.context@.len() <= u32::MAX,
        e.command@.len() <= 8 + u32::MAX,
    ensures
        r matches Ok(d) && entry_eq(d, *e),
{
    let b = e.to_bytes();
    proof {
        lemma_entry_layout(*e);
    }
    StateEntry::from_bytes(b)
}

// the reader of the entry layout finds in entry_enc(e) exactly e's fields
pub proof fn lemma_entry_layout(e: StateEntry)
    ensures
        e.context@.len() <= u32::MAX ==> entry_framed(entry_enc(e)) && (forall|d: StateEntry| entry_read(d, entry_enc(e)) ==> entry_eq(d, e)),
{
    if e.context@.len() <= u32::MAX {
        lemma_le_facts();
        let b = entry_enc(e);
        let cl = e.context@.len() as int;
        assert(b.len() == 52 + cl + e.command@.len());
        assert(b.subrange(0, 8) =~= le64(e.index));
        assert(b.subrange(8, 16) =~= le64(e.term));
        assert(b.subrange(16, 20) =~= le32(e.leader_id));
        assert(b.subrange(20, 24) =~= le32(e.version));
        assert(b.subrange(24, 32) =~= le64(e.flags));
        assert(b.subrange(32, 40) =~= le64(e.timestamp.0));
        assert(b.subrange(40, 44) =~= le32(e.user_id));
        assert(b.subrange(44, 48) =~= le32(e.checksum));
        assert(b.subrange(48, 52) =~= le32(cl as u32));
        assert(entry_ctx_len(b) == cl);
        assert(b.subrange(52, 52 + cl) =~= e.context@);
        assert(b.subrange(52 + cl, b.len() as int) =~= e.command@);
    }
}

// ---- LINK harnesses: the contracts unit journal (and unit encryption) ASSUME for EntryCommand::{to_bytes, from_bytes}, proved from the
// real functions ---------------------------------------------------------------------------------------------------------------------
// Each harness has the assuming unit's stub signature, its `requires` / `ensures` copied VERBATIM from that unit's prelude.rs, and a
// body that is ONE call of the real extracted function (plus proof blocks calling proved lemmas): Verus proves
// "real contract ==> assumed contract" on every run. A later edit of a stub has to be mirrored here (and vice versa).
//
// (vocabulary of units/journal/prelude.rs and units/encryption/prelude.rs used by the copied clauses; `cmd_wf` is the same text in both)
pub open spec fn cmd_wf(c: Seq<u8>) -> bool {
    c.len() >= 8 && c.len() - 8 <= u32::MAX && c.subrange(4, 8) == le32((c.len() - 8) as u32)
}
// INTERPRETATION of unit journal's uninterpreted `decodable` ("the decoders do not panic on this framed command"): the hypothesis under
// which the REAL `EntryCommand::from_bytes` is under contract here - the declared payload length lies inside the buffer, and for the token
// command the payload's own two lengths lie inside the payload. This covers the slicing of command.rs and models.rs. The 18 SDK payload
// decoders below that are total stubs in this unit (unit.toml, assumption "the per-type decoder stubs have no precondition"): their own
// panic freedom on a payload that came out of their own encoder is units codec_requests / codec_requests2's subject and stays assumed here.
pub open spec fn decodable(c: Seq<u8>) -> bool {
    frame_ok(c) && (frame_code(c) == CreatePersonalAccessToken::code_spec() ==> pat_framed(frame_payload(c)))
}
// INTERPRETATION of unit encryption's uninterpreted `cmd_bytes` (the clear journal form of a command): THE journal form `cmd_enc`
pub open spec fn cmd_bytes(c: EntryCommand) -> Seq<u8> { cmd_enc(c) }

// what `to_bytes` writes is a frame `from_bytes` is under contract for (spec level; used by the to_bytes harnesses)
pub proof fn lemma_cmd_enc_decodable(c: EntryCommand)
    ensures
        cmd_payload(c).len() <= u32::MAX ==> cmd_wf(cmd_enc(c)) && decodable(cmd_enc(c)) && frame_code(cmd_enc(c)) == cmd_code(c)
            && frame_payload(cmd_enc(c)) == cmd_payload(c),
{
    if cmd_payload(c).len() <= u32::MAX {
        lemma_le_facts();
        lemma_frame3(Seq::<u8>::empty(), le32(cmd_code(c)), le32(cmd_payload(c).len() as u32), cmd_payload(c));
        let b = cmd_enc(c);
        assert(b =~= Seq::<u8>::empty() + le32(cmd_code(c)) + le32(cmd_payload(c).len() as u32) + cmd_payload(c));
        assert(frame_code(b) == cmd_code(c));
        assert(frame_len(b) == cmd_payload(c).len());
        assert(frame_payload(b) == cmd_payload(c));
        c13_journal_codes_distinct();
        if c is CreatePersonalAccessToken {
            // 8 + |command| + |hash| <= u32::MAX: both inner lengths fit their words
            let p = c->CreatePersonalAccessToken_0;
            assert(enc_pat_hash(p).len() == 8 + p.command.enc_spec().len() + p.hash@.len());
            lemma_pat_layout(p);
        }
    }
}

impl EntryCommand {
    // INTERPRETATION of unit journal's uninterpreted `EntryCommand::payload_fits` (journal's EntryCommand is opaque): the precondition of
    // the real `to_bytes` - the payload length fits the u32 length word
    pub open spec fn payload_fits(&self) -> bool { cmd_payload(*self).len() <= u32::MAX }
    // INTERPRETATION of unit journal's `EntryCommand::cmd_bytes` (no definition there): THE journal form `cmd_enc` (as for unit encryption's
    // free function `cmd_bytes` above)
    pub open spec fn cmd_bytes(&self) -> Seq<u8> { cmd_enc(*self) }

    // copied from units/journal/prelude.rs, stub `EntryCommand::to_bytes`
    // label: C13.link.journal.to_bytes
    pub fn link_journal_to_bytes(&self) -> (r: ByteSeq)
        requires self.payload_fits(),
        ensures cmd_wf(r@), decodable(r@), r@ == self.cmd_bytes(),
    {
        proof { lemma_cmd_enc_decodable(*self); }
        self.to_bytes()
    }

    // copied from units/journal/prelude.rs, stub `EntryCommand::from_bytes` (no ensures there: only that the call does not panic)
    // label: C13.link.journal.from_bytes
    pub fn link_journal_from_bytes(bytes: ByteSeq) -> (r: Result<EntryCommand, IggyError>)
        requires
            bytes@.len() >= 8,
            forall|n: u32| bytes@.subrange(4, 8) == #[trigger] le32(n) ==> 8 + n <= bytes@.len(),
            decodable(bytes@),
    {
        EntryCommand::from_bytes(bytes)
    }

    // copied from units/encryption/prelude.rs, stub `EntryCommand::to_bytes` (its precondition, in encryption's vocabulary: the journal
    // form is at most 8 + u32::MAX bytes long, i.e. the payload length fits the length word - the real function's `requires`)
    // label: C13.link.encryption.to_bytes
    pub fn link_encryption_to_bytes(&self) -> (r: ByteSeq)
        requires cmd_bytes(*self).len() <= 8 + u32::MAX,
        ensures r@ == cmd_bytes(*self), cmd_wf(r@)
    {
        proof { lemma_le_facts(); lemma_cmd_enc_decodable(*self); }
        self.to_bytes()
    }
}
