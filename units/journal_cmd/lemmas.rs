// ---- journal_cmd: clauses that span several functions, and facts about the extracted constants ------------------------------------

// dispatch by code is unambiguous: the 19 `*_CODE` constants (extracted from sdk/src/command.rs) a journal entry can carry are
// pairwise distinct - two commands journalled under the same code are the same variant
// label: C13.journal.cmd.codes-distinct
pub proof fn c13_journal_codes_distinct()
    ensures
        forall|a: EntryCommand, b: EntryCommand| cmd_code(a) == cmd_code(b) ==> variant_index(a) == variant_index(b),
        forall|c: EntryCommand| known_code(#[trigger] cmd_code(c)),
{}

// composition harness over the two REAL functions of models.rs: what `to_bytes` writes, `from_bytes` reads back as the same value
// (hypothesis: the wrapped CreatePersonalAccessToken round-trips under its own codec - unit codec_requests2
// [C13.req.CreatePersonalAccessToken.enc], [C13.req.CreatePersonalAccessToken] - and both lengths fit their u32 length words)
// label: C13.journal.pat.rt
pub fn c13_journal_pat_rt(v: &CreatePersonalAccessTokenWithHash) -> (r: Result<CreatePersonalAccessTokenWithHash, IggyError>)
    requires
        CreatePersonalAccessToken::decode_spec(v.command.enc_spec()) == Ok::<CreatePersonalAccessToken, IggyError>(v.command),
        pat_hash_valid(*v),
    ensures
        r matches Ok(d) && pat_hash_eq(d, *v),
{
    let b = v.to_bytes();
    proof {
        lemma_pat_layout(*v);
    }
    CreatePersonalAccessTokenWithHash::from_bytes(b)
}

// composition harness over the two REAL functions of command.rs: for every command whose payload round-trips under its own codec
// (hypothesis per type `payload_rt`, proved in units codec_requests / codec_requests2), what is journalled is replayed as the SAME
// command: same variant, same payload
// label: C13.journal.cmd.rt
pub fn c13_journal_cmd_rt(c: &EntryCommand) -> (r: Result<EntryCommand, IggyError>)
    requires
        cmd_payload(*c).len() <= u32::MAX,
        payload_rt(*c),
    ensures
        r matches Ok(d) && cmd_eq(d, *c),
{
    let b = c.to_bytes();
    proof {
        lemma_le_facts();
        lemma_frame3(Seq::<u8>::empty(), le32(cmd_code(*c)), le32(cmd_payload(*c).len() as u32), cmd_payload(*c));
        assert(frame_code(b@) == cmd_code(*c));
        assert(frame_len(b@) == cmd_payload(*c).len());
        assert(frame_payload(b@) == cmd_payload(*c));
        if *c is CreatePersonalAccessToken {
            lemma_pat_layout(c->CreatePersonalAccessToken_0);
        }
        c13_journal_codes_distinct();
    }
    let r = EntryCommand::from_bytes(b);
    proof {
        assert(own_accepts(cmd_code(*c), cmd_payload(*c)));
    }
    r
}

// the reader of the token layout finds in enc_pat_hash(v) exactly v's command bytes and hash bytes
pub proof fn lemma_pat_layout(v: CreatePersonalAccessTokenWithHash)
    ensures
        pat_hash_valid(v) ==> pat_framed(enc_pat_hash(v)) && pat_cmd_bytes(enc_pat_hash(v)) == v.command.enc_spec()
            && pat_hash_bytes(enc_pat_hash(v)) == v.hash@ && utf8(pat_hash_bytes(enc_pat_hash(v))),
{
    if pat_hash_valid(v) {
        lemma_le_facts();
        lemma_frame4(Seq::<u8>::empty(), le32(v.command.enc_spec().len() as u32), v.command.enc_spec(), le32(v.hash@.len() as u32), v.hash@);
        axiom_text_utf8(v.hash);
        let b = enc_pat_hash(v);
        assert(pat_cmd_len(b) == v.command.enc_spec().len());
        assert(pat_cmd_bytes(b) == v.command.enc_spec());
        assert(pat_hash_len(b) == v.hash@.len());
    }
}

// composition harness over the two REAL functions of entry.rs: an entry written by `to_bytes` is read back by `from_bytes` as the
// same entry, field by field, for any command bytes of the size of a journal form (the command is everything after the context). The timestamp is compared as
// the microsecond value that is journalled (A-clock).
// label: C13.journal.entry.rt
pub fn c13_journal_entry_rt(e: &StateEntry) -> (r: Result<StateEntry, IggyError>)
    requires
        e.context@.len() <= u32::MAX,
        e.command@.len() <= 8 + u32::MAX,
    ensures
        r matches Ok(d) && entry_eq(d, *e),
{
    let b = e.to_bytes();
    proof {
        lemma_entry_layout(*e);
    }
    StateEntry::from_bytes(b)
}

// the reader of the entry layout finds in entry_enc(e) exactly e's fields
pub proof fn lemma_entry_layout(e: StateEntry)
    ensures
        e.context@.len() <= u32::MAX ==> entry_framed(entry_enc(e)) && (forall|d: StateEntry| entry_read(d, entry_enc(e)) ==> entry_eq(d, e)),
{
    if e.context@.len() <= u32::MAX {
        lemma_le_facts();
        let b = entry_enc(e);
        let cl = e.context@.len() as int;
        assert(b.len() == 52 + cl + e.command@.len());
        assert(b.subrange(0, 8) =~= le64(e.index));
        assert(b.subrange(8, 16) =~= le64(e.term));
        assert(b.subrange(16, 20) =~= le32(e.leader_id));
        assert(b.subrange(20, 24) =~= le32(e.version));
        assert(b.subrange(24, 32) =~= le64(e.flags));
        assert(b.subrange(32, 40) =~= le64(e.timestamp.0));
        assert(b.subrange(40, 44) =~= le32(e.user_id));
        assert(b.subrange(44, 48) =~= le32(e.checksum));
        assert(b.subrange(48, 52) =~= le32(cl as u32));
        assert(entry_ctx_len(b) == cl);
        assert(b.subrange(52, 52 + cl) =~= e.context@);
        assert(b.subrange(52 + cl, b.len() as int) =~= e.command@);
    }
}
