// ---- unit prelude: journal_cmd (C13 "the journal and on-disk encodings of the same values round-trip too"; C05: a journalled
// command is replayed as the SAME command) ---------------------------------------------------------------------------------
// Stand-ins (R4) and spec vocabulary for `impl BytesSerializable for EntryCommand` (server/src/state/command.rs) and
// `CreatePersonalAccessTokenWithHash` (server/src/state/models.rs). Nothing here re-states a function body of /repo.
//
// Journal form of a command:   code:u32 | length:u32 | payload(length)          (all integers little-endian)
//   code    = the command code of the payload's SDK type (`Command::code()`, the `*_CODE` constant of sdk/src/command.rs)
//   payload = that type's OWN encoding (`T::enc_spec`), decoded on replay by that type's OWN decoder (`T::decode_spec`)
// Journal form of CreatePersonalAccessToken (the token itself is never journalled, its hash is):
//   command_length:u32 | command (CreatePersonalAccessToken's own encoding) | hash_length:u32 | hash (UTF-8)

global size_of usize == 8;    // 64-bit target

// --- errors: the variants the extracted text names; everything else is Other ---
#[derive(Debug)]
pub enum IggyError {
    InvalidCommand,
    InvalidNumberEncoding,
    InvalidUtf8,
    Other(u32),
}

// --- the SDK payload types a journal entry can carry: opaque; each has its own codec (units codec_requests / codec_requests2
// are about those: [C13.req.<T>.enc], [C13.req.<T>]). One macro instead of 19 copies: every line marked external_body / uninterp
// below is an assumption PER payload type. `code()` is NOT a stub: it is extracted from the SDK (contracts.vspec) ---
macro_rules! payload_standin {
    ($(($t:ident, $code:ident)),*) => { $( verus! {
        #[verifier::external_body]
        pub struct $t { _p: u8 }
        impl $t {
            // the command code the journal entry of a $t must carry: the constant of the same name (extracted from sdk/src/command.rs)
            pub open spec fn code_spec() -> u32 { $code }
            // the type's own encoding / its own decoder's verdict (uninterpreted here)
            pub uninterp spec fn enc_spec(&self) -> Seq<u8>;
            pub uninterp spec fn decode_spec(b: Seq<u8>) -> Result<$t, IggyError>;
            #[verifier::external_body]
            pub fn to_bytes(&self) -> (r: ByteSeq) ensures r@ == self.enc_spec() { unimplemented!() }
            #[verifier::external_body]
            pub fn from_bytes(bytes: ByteSeq) -> (r: Result<$t, IggyError>) ensures r == $t::decode_spec(bytes@) { unimplemented!() }
        }
        // every one of these SDK types has a Default (derived or hand-written): SOME value of the type, nothing known about it
        impl Default for $t {
            #[verifier::external_body]
            fn default() -> (r: $t) { unimplemented!() }
        }
    } )* }
}
// (payload type, the `*_CODE` constant its journal entry carries)
payload_standin!(
    (CreateStream, CREATE_STREAM_CODE),
    (UpdateStream, UPDATE_STREAM_CODE),
    (DeleteStream, DELETE_STREAM_CODE),
    (PurgeStream, PURGE_STREAM_CODE),
    (CreateTopic, CREATE_TOPIC_CODE),
    (UpdateTopic, UPDATE_TOPIC_CODE),
    (DeleteTopic, DELETE_TOPIC_CODE),
    (PurgeTopic, PURGE_TOPIC_CODE),
    (CreatePartitions, CREATE_PARTITIONS_CODE),
    (DeletePartitions, DELETE_PARTITIONS_CODE),
    (CreateConsumerGroup, CREATE_CONSUMER_GROUP_CODE),
    (DeleteConsumerGroup, DELETE_CONSUMER_GROUP_CODE),
    (CreateUser, CREATE_USER_CODE),
    (UpdateUser, UPDATE_USER_CODE),
    (DeleteUser, DELETE_USER_CODE),
    (ChangePassword, CHANGE_PASSWORD_CODE),
    (UpdatePermissions, UPDATE_PERMISSIONS_CODE),
    (CreatePersonalAccessToken, CREATE_PERSONAL_ACCESS_TOKEN_CODE),
    (DeletePersonalAccessToken, DELETE_PERSONAL_ACCESS_TOKEN_CODE));

// --- the frame: code | length | payload ---
pub open spec fn frame_code(b: Seq<u8>) -> u32 { un_le32(b.subrange(0, 4)) }
pub open spec fn frame_len(b: Seq<u8>) -> u32 { un_le32(b.subrange(4, 8)) }
pub open spec fn frame_payload(b: Seq<u8>) -> Seq<u8> { b.subrange(8, 8 + frame_len(b)) }
// the declared payload length lies inside the buffer (otherwise `bytes.slice(..)` panics)
pub open spec fn frame_ok(b: Seq<u8>) -> bool { b.len() >= 8 && 8 + frame_len(b) <= b.len() }

// --- CreatePersonalAccessTokenWithHash: command_length | command | hash_length | hash (layout written from the format) ---
pub open spec fn enc_pat_hash(v: CreatePersonalAccessTokenWithHash) -> Seq<u8> {
    le32(v.command.enc_spec().len() as u32) + v.command.enc_spec() + le32(v.hash@.len() as u32) + v.hash@
}
// both length words can hold their lengths
pub open spec fn pat_hash_valid(v: CreatePersonalAccessTokenWithHash) -> bool {
    v.command.enc_spec().len() <= u32::MAX && v.hash@.len() <= u32::MAX
}
// what a reader of that layout finds in a buffer
pub open spec fn pat_cmd_len(b: Seq<u8>) -> u32 { un_le32(b.subrange(0, 4)) }
pub open spec fn pat_cmd_bytes(b: Seq<u8>) -> Seq<u8> { b.subrange(4, 4 + pat_cmd_len(b)) }
pub open spec fn pat_hash_len(b: Seq<u8>) -> u32 { un_le32(b.subrange(4 + pat_cmd_len(b), 8 + pat_cmd_len(b))) }
pub open spec fn pat_hash_bytes(b: Seq<u8>) -> Seq<u8> { b.subrange(8 + pat_cmd_len(b), 8 + pat_cmd_len(b) + pat_hash_len(b)) }
// the declared lengths lie inside the buffer (otherwise slicing panics)
pub open spec fn pat_framed(b: Seq<u8>) -> bool {
    b.len() >= 4 && 8 + pat_cmd_len(b) <= b.len() && 8 + pat_cmd_len(b) + pat_hash_len(b) <= b.len()
}
// v is what the layout's reader makes of b: the command bytes through CreatePersonalAccessToken's OWN decoder, the hash bytes as text
pub open spec fn pat_decoded(v: CreatePersonalAccessTokenWithHash, b: Seq<u8>) -> bool {
    CreatePersonalAccessToken::decode_spec(pat_cmd_bytes(b)) == Ok::<CreatePersonalAccessToken, IggyError>(v.command) && v.hash@ == pat_hash_bytes(b)
}
pub open spec fn pat_rejects(b: Seq<u8>) -> bool {
    CreatePersonalAccessToken::decode_spec(pat_cmd_bytes(b)) is Err || !utf8(pat_hash_bytes(b))
}
// equality up to the string view (A-std(str): a string IS its bytes)
pub open spec fn pat_hash_eq(a: CreatePersonalAccessTokenWithHash, b: CreatePersonalAccessTokenWithHash) -> bool {
    a.command == b.command && a.hash@ == b.hash@
}

// --- vocabulary of the clauses on EntryCommand::{to_bytes, from_bytes} ---
// the code under which a command is journalled: the code of its payload's SDK type
pub open spec fn cmd_code(c: EntryCommand) -> u32 {
    match c {
        EntryCommand::CreateStream(_) => CreateStream::code_spec(),
        EntryCommand::UpdateStream(_) => UpdateStream::code_spec(),
        EntryCommand::DeleteStream(_) => DeleteStream::code_spec(),
        EntryCommand::PurgeStream(_) => PurgeStream::code_spec(),
        EntryCommand::CreateTopic(_) => CreateTopic::code_spec(),
        EntryCommand::UpdateTopic(_) => UpdateTopic::code_spec(),
        EntryCommand::DeleteTopic(_) => DeleteTopic::code_spec(),
        EntryCommand::PurgeTopic(_) => PurgeTopic::code_spec(),
        EntryCommand::CreatePartitions(_) => CreatePartitions::code_spec(),
        EntryCommand::DeletePartitions(_) => DeletePartitions::code_spec(),
        EntryCommand::CreateConsumerGroup(_) => CreateConsumerGroup::code_spec(),
        EntryCommand::DeleteConsumerGroup(_) => DeleteConsumerGroup::code_spec(),
        EntryCommand::CreateUser(_) => CreateUser::code_spec(),
        EntryCommand::UpdateUser(_) => UpdateUser::code_spec(),
        EntryCommand::DeleteUser(_) => DeleteUser::code_spec(),
        EntryCommand::ChangePassword(_) => ChangePassword::code_spec(),
        EntryCommand::UpdatePermissions(_) => UpdatePermissions::code_spec(),
        EntryCommand::CreatePersonalAccessToken(_) => CreatePersonalAccessToken::code_spec(),
        EntryCommand::DeletePersonalAccessToken(_) => DeletePersonalAccessToken::code_spec(),
    }
}
// the payload of its journal form: the payload type's own encoding
pub open spec fn cmd_payload(c: EntryCommand) -> Seq<u8> {
    match c {
        EntryCommand::CreateStream(p) => p.enc_spec(),
        EntryCommand::UpdateStream(p) => p.enc_spec(),
        EntryCommand::DeleteStream(p) => p.enc_spec(),
        EntryCommand::PurgeStream(p) => p.enc_spec(),
        EntryCommand::CreateTopic(p) => p.enc_spec(),
        EntryCommand::UpdateTopic(p) => p.enc_spec(),
        EntryCommand::DeleteTopic(p) => p.enc_spec(),
        EntryCommand::PurgeTopic(p) => p.enc_spec(),
        EntryCommand::CreatePartitions(p) => p.enc_spec(),
        EntryCommand::DeletePartitions(p) => p.enc_spec(),
        EntryCommand::CreateConsumerGroup(p) => p.enc_spec(),
        EntryCommand::DeleteConsumerGroup(p) => p.enc_spec(),
        EntryCommand::CreateUser(p) => p.enc_spec(),
        EntryCommand::UpdateUser(p) => p.enc_spec(),
        EntryCommand::DeleteUser(p) => p.enc_spec(),
        EntryCommand::ChangePassword(p) => p.enc_spec(),
        EntryCommand::UpdatePermissions(p) => p.enc_spec(),
        EntryCommand::CreatePersonalAccessToken(p) => enc_pat_hash(p),
        EntryCommand::DeletePersonalAccessToken(p) => p.enc_spec(),
    }
}
// THE journal form of a command
pub open spec fn cmd_enc(c: EntryCommand) -> Seq<u8> {
    le32(cmd_code(c)) + le32(cmd_payload(c).len() as u32) + cmd_payload(c)
}
// some journalled command type has this code
pub open spec fn known_code(code: u32) -> bool {
    code == CreateStream::code_spec()
        || code == UpdateStream::code_spec()
        || code == DeleteStream::code_spec()
        || code == PurgeStream::code_spec()
        || code == CreateTopic::code_spec()
        || code == UpdateTopic::code_spec()
        || code == DeleteTopic::code_spec()
        || code == PurgeTopic::code_spec()
        || code == CreatePartitions::code_spec()
        || code == DeletePartitions::code_spec()
        || code == CreateConsumerGroup::code_spec()
        || code == DeleteConsumerGroup::code_spec()
        || code == CreateUser::code_spec()
        || code == UpdateUser::code_spec()
        || code == DeleteUser::code_spec()
        || code == ChangePassword::code_spec()
        || code == UpdatePermissions::code_spec()
        || code == CreatePersonalAccessToken::code_spec()
        || code == DeletePersonalAccessToken::code_spec()
}
// the variant's payload is what the decoder of its OWN type makes of `tail`
pub open spec fn cmd_decoded(c: EntryCommand, tail: Seq<u8>) -> bool {
    match c {
        EntryCommand::CreateStream(p) => CreateStream::decode_spec(tail) == Ok::<CreateStream, IggyError>(p),
        EntryCommand::UpdateStream(p) => UpdateStream::decode_spec(tail) == Ok::<UpdateStream, IggyError>(p),
        EntryCommand::DeleteStream(p) => DeleteStream::decode_spec(tail) == Ok::<DeleteStream, IggyError>(p),
        EntryCommand::PurgeStream(p) => PurgeStream::decode_spec(tail) == Ok::<PurgeStream, IggyError>(p),
        EntryCommand::CreateTopic(p) => CreateTopic::decode_spec(tail) == Ok::<CreateTopic, IggyError>(p),
        EntryCommand::UpdateTopic(p) => UpdateTopic::decode_spec(tail) == Ok::<UpdateTopic, IggyError>(p),
        EntryCommand::DeleteTopic(p) => DeleteTopic::decode_spec(tail) == Ok::<DeleteTopic, IggyError>(p),
        EntryCommand::PurgeTopic(p) => PurgeTopic::decode_spec(tail) == Ok::<PurgeTopic, IggyError>(p),
        EntryCommand::CreatePartitions(p) => CreatePartitions::decode_spec(tail) == Ok::<CreatePartitions, IggyError>(p),
        EntryCommand::DeletePartitions(p) => DeletePartitions::decode_spec(tail) == Ok::<DeletePartitions, IggyError>(p),
        EntryCommand::CreateConsumerGroup(p) => CreateConsumerGroup::decode_spec(tail) == Ok::<CreateConsumerGroup, IggyError>(p),
        EntryCommand::DeleteConsumerGroup(p) => DeleteConsumerGroup::decode_spec(tail) == Ok::<DeleteConsumerGroup, IggyError>(p),
        EntryCommand::CreateUser(p) => CreateUser::decode_spec(tail) == Ok::<CreateUser, IggyError>(p),
        EntryCommand::UpdateUser(p) => UpdateUser::decode_spec(tail) == Ok::<UpdateUser, IggyError>(p),
        EntryCommand::DeleteUser(p) => DeleteUser::decode_spec(tail) == Ok::<DeleteUser, IggyError>(p),
        EntryCommand::ChangePassword(p) => ChangePassword::decode_spec(tail) == Ok::<ChangePassword, IggyError>(p),
        EntryCommand::UpdatePermissions(p) => UpdatePermissions::decode_spec(tail) == Ok::<UpdatePermissions, IggyError>(p),
        EntryCommand::CreatePersonalAccessToken(p) => pat_decoded(p, tail),
        EntryCommand::DeletePersonalAccessToken(p) => DeletePersonalAccessToken::decode_spec(tail) == Ok::<DeletePersonalAccessToken, IggyError>(p),
    }
}
// the decoder of the type that OWNS this code rejects `tail`
pub open spec fn own_rejects(code: u32, tail: Seq<u8>) -> bool {
    (code == CreateStream::code_spec() && CreateStream::decode_spec(tail) is Err)
        || (code == UpdateStream::code_spec() && UpdateStream::decode_spec(tail) is Err)
        || (code == DeleteStream::code_spec() && DeleteStream::decode_spec(tail) is Err)
        || (code == PurgeStream::code_spec() && PurgeStream::decode_spec(tail) is Err)
        || (code == CreateTopic::code_spec() && CreateTopic::decode_spec(tail) is Err)
        || (code == UpdateTopic::code_spec() && UpdateTopic::decode_spec(tail) is Err)
        || (code == DeleteTopic::code_spec() && DeleteTopic::decode_spec(tail) is Err)
        || (code == PurgeTopic::code_spec() && PurgeTopic::decode_spec(tail) is Err)
        || (code == CreatePartitions::code_spec() && CreatePartitions::decode_spec(tail) is Err)
        || (code == DeletePartitions::code_spec() && DeletePartitions::decode_spec(tail) is Err)
        || (code == CreateConsumerGroup::code_spec() && CreateConsumerGroup::decode_spec(tail) is Err)
        || (code == DeleteConsumerGroup::code_spec() && DeleteConsumerGroup::decode_spec(tail) is Err)
        || (code == CreateUser::code_spec() && CreateUser::decode_spec(tail) is Err)
        || (code == UpdateUser::code_spec() && UpdateUser::decode_spec(tail) is Err)
        || (code == DeleteUser::code_spec() && DeleteUser::decode_spec(tail) is Err)
        || (code == ChangePassword::code_spec() && ChangePassword::decode_spec(tail) is Err)
        || (code == UpdatePermissions::code_spec() && UpdatePermissions::decode_spec(tail) is Err)
        || (code == CreatePersonalAccessToken::code_spec() && pat_rejects(tail))
        || (code == DeletePersonalAccessToken::code_spec() && DeletePersonalAccessToken::decode_spec(tail) is Err)
}
// ... accepts `tail`
pub open spec fn own_accepts(code: u32, tail: Seq<u8>) -> bool {
    (code == CreateStream::code_spec() && CreateStream::decode_spec(tail) is Ok)
        || (code == UpdateStream::code_spec() && UpdateStream::decode_spec(tail) is Ok)
        || (code == DeleteStream::code_spec() && DeleteStream::decode_spec(tail) is Ok)
        || (code == PurgeStream::code_spec() && PurgeStream::decode_spec(tail) is Ok)
        || (code == CreateTopic::code_spec() && CreateTopic::decode_spec(tail) is Ok)
        || (code == UpdateTopic::code_spec() && UpdateTopic::decode_spec(tail) is Ok)
        || (code == DeleteTopic::code_spec() && DeleteTopic::decode_spec(tail) is Ok)
        || (code == PurgeTopic::code_spec() && PurgeTopic::decode_spec(tail) is Ok)
        || (code == CreatePartitions::code_spec() && CreatePartitions::decode_spec(tail) is Ok)
        || (code == DeletePartitions::code_spec() && DeletePartitions::decode_spec(tail) is Ok)
        || (code == CreateConsumerGroup::code_spec() && CreateConsumerGroup::decode_spec(tail) is Ok)
        || (code == DeleteConsumerGroup::code_spec() && DeleteConsumerGroup::decode_spec(tail) is Ok)
        || (code == CreateUser::code_spec() && CreateUser::decode_spec(tail) is Ok)
        || (code == UpdateUser::code_spec() && UpdateUser::decode_spec(tail) is Ok)
        || (code == DeleteUser::code_spec() && DeleteUser::decode_spec(tail) is Ok)
        || (code == ChangePassword::code_spec() && ChangePassword::decode_spec(tail) is Ok)
        || (code == UpdatePermissions::code_spec() && UpdatePermissions::decode_spec(tail) is Ok)
        || (code == CreatePersonalAccessToken::code_spec() && !pat_rejects(tail))
        || (code == DeletePersonalAccessToken::code_spec() && DeletePersonalAccessToken::decode_spec(tail) is Ok)
}
// hypothesis of the round-trip clause, per payload type: the payload round-trips under its OWN codec (proved in units
// codec_requests / codec_requests2, cited) and its length fits the length word
pub open spec fn payload_rt(c: EntryCommand) -> bool {
    match c {
        EntryCommand::CreateStream(p) => CreateStream::decode_spec(p.enc_spec()) == Ok::<CreateStream, IggyError>(p),
        EntryCommand::UpdateStream(p) => UpdateStream::decode_spec(p.enc_spec()) == Ok::<UpdateStream, IggyError>(p),
        EntryCommand::DeleteStream(p) => DeleteStream::decode_spec(p.enc_spec()) == Ok::<DeleteStream, IggyError>(p),
        EntryCommand::PurgeStream(p) => PurgeStream::decode_spec(p.enc_spec()) == Ok::<PurgeStream, IggyError>(p),
        EntryCommand::CreateTopic(p) => CreateTopic::decode_spec(p.enc_spec()) == Ok::<CreateTopic, IggyError>(p),
        EntryCommand::UpdateTopic(p) => UpdateTopic::decode_spec(p.enc_spec()) == Ok::<UpdateTopic, IggyError>(p),
        EntryCommand::DeleteTopic(p) => DeleteTopic::decode_spec(p.enc_spec()) == Ok::<DeleteTopic, IggyError>(p),
        EntryCommand::PurgeTopic(p) => PurgeTopic::decode_spec(p.enc_spec()) == Ok::<PurgeTopic, IggyError>(p),
        EntryCommand::CreatePartitions(p) => CreatePartitions::decode_spec(p.enc_spec()) == Ok::<CreatePartitions, IggyError>(p),
        EntryCommand::DeletePartitions(p) => DeletePartitions::decode_spec(p.enc_spec()) == Ok::<DeletePartitions, IggyError>(p),
        EntryCommand::CreateConsumerGroup(p) => CreateConsumerGroup::decode_spec(p.enc_spec()) == Ok::<CreateConsumerGroup, IggyError>(p),
        EntryCommand::DeleteConsumerGroup(p) => DeleteConsumerGroup::decode_spec(p.enc_spec()) == Ok::<DeleteConsumerGroup, IggyError>(p),
        EntryCommand::CreateUser(p) => CreateUser::decode_spec(p.enc_spec()) == Ok::<CreateUser, IggyError>(p),
        EntryCommand::UpdateUser(p) => UpdateUser::decode_spec(p.enc_spec()) == Ok::<UpdateUser, IggyError>(p),
        EntryCommand::DeleteUser(p) => DeleteUser::decode_spec(p.enc_spec()) == Ok::<DeleteUser, IggyError>(p),
        EntryCommand::ChangePassword(p) => ChangePassword::decode_spec(p.enc_spec()) == Ok::<ChangePassword, IggyError>(p),
        EntryCommand::UpdatePermissions(p) => UpdatePermissions::decode_spec(p.enc_spec()) == Ok::<UpdatePermissions, IggyError>(p),
        EntryCommand::CreatePersonalAccessToken(p) => CreatePersonalAccessToken::decode_spec(p.command.enc_spec()) == Ok::<CreatePersonalAccessToken, IggyError>(p.command) && pat_hash_valid(p),
        EntryCommand::DeletePersonalAccessToken(p) => DeletePersonalAccessToken::decode_spec(p.enc_spec()) == Ok::<DeletePersonalAccessToken, IggyError>(p),
    }
}
// the same command (same variant, same payload; strings compared by their bytes)
pub open spec fn cmd_eq(a: EntryCommand, b: EntryCommand) -> bool {
    match (a, b) {
        (EntryCommand::CreateStream(p), EntryCommand::CreateStream(q)) => p == q,
        (EntryCommand::UpdateStream(p), EntryCommand::UpdateStream(q)) => p == q,
        (EntryCommand::DeleteStream(p), EntryCommand::DeleteStream(q)) => p == q,
        (EntryCommand::PurgeStream(p), EntryCommand::PurgeStream(q)) => p == q,
        (EntryCommand::CreateTopic(p), EntryCommand::CreateTopic(q)) => p == q,
        (EntryCommand::UpdateTopic(p), EntryCommand::UpdateTopic(q)) => p == q,
        (EntryCommand::DeleteTopic(p), EntryCommand::DeleteTopic(q)) => p == q,
        (EntryCommand::PurgeTopic(p), EntryCommand::PurgeTopic(q)) => p == q,
        (EntryCommand::CreatePartitions(p), EntryCommand::CreatePartitions(q)) => p == q,
        (EntryCommand::DeletePartitions(p), EntryCommand::DeletePartitions(q)) => p == q,
        (EntryCommand::CreateConsumerGroup(p), EntryCommand::CreateConsumerGroup(q)) => p == q,
        (EntryCommand::DeleteConsumerGroup(p), EntryCommand::DeleteConsumerGroup(q)) => p == q,
        (EntryCommand::CreateUser(p), EntryCommand::CreateUser(q)) => p == q,
        (EntryCommand::UpdateUser(p), EntryCommand::UpdateUser(q)) => p == q,
        (EntryCommand::DeleteUser(p), EntryCommand::DeleteUser(q)) => p == q,
        (EntryCommand::ChangePassword(p), EntryCommand::ChangePassword(q)) => p == q,
        (EntryCommand::UpdatePermissions(p), EntryCommand::UpdatePermissions(q)) => p == q,
        (EntryCommand::CreatePersonalAccessToken(p), EntryCommand::CreatePersonalAccessToken(q)) => pat_hash_eq(p, q),
        (EntryCommand::DeletePersonalAccessToken(p), EntryCommand::DeletePersonalAccessToken(q)) => p == q,
        _ => false,
    }
}
// position of a variant in the enum (only used to say "same variant")
pub open spec fn variant_index(c: EntryCommand) -> int {
    match c {
        EntryCommand::CreateStream(_) => 0,
        EntryCommand::UpdateStream(_) => 1,
        EntryCommand::DeleteStream(_) => 2,
        EntryCommand::PurgeStream(_) => 3,
        EntryCommand::CreateTopic(_) => 4,
        EntryCommand::UpdateTopic(_) => 5,
        EntryCommand::DeleteTopic(_) => 6,
        EntryCommand::PurgeTopic(_) => 7,
        EntryCommand::CreatePartitions(_) => 8,
        EntryCommand::DeletePartitions(_) => 9,
        EntryCommand::CreateConsumerGroup(_) => 10,
        EntryCommand::DeleteConsumerGroup(_) => 11,
        EntryCommand::CreateUser(_) => 12,
        EntryCommand::UpdateUser(_) => 13,
        EntryCommand::DeleteUser(_) => 14,
        EntryCommand::ChangePassword(_) => 15,
        EntryCommand::UpdatePermissions(_) => 16,
        EntryCommand::CreatePersonalAccessToken(_) => 17,
        EntryCommand::DeletePersonalAccessToken(_) => 18,
    }
}

// ---- helper lemmas used by proof hints (proved here, nothing assumed; no preconditions: every fact is an implication) ----
pub proof fn lemma_sub_full(s: Seq<u8>, n: int)
    ensures n == s.len() ==> s.subrange(0, n) == s,
{
    if n == s.len() { assert(s.subrange(0, n) =~= s); }
}
pub proof fn lemma_sub_sub(s: Seq<u8>, a: int, b: int)
    ensures 0 <= a <= b <= s.len() ==> s.subrange(a, b).subrange(0, b - a) == s.subrange(a, b),
{
    if 0 <= a <= b <= s.len() { assert(s.subrange(a, b).subrange(0, b - a) =~= s.subrange(a, b)); }
}
// layout of x ++ a ++ b ++ c with x empty and a, b four bytes wide
pub proof fn lemma_frame3(x: Seq<u8>, a: Seq<u8>, b: Seq<u8>, c: Seq<u8>)
    ensures
        x.len() == 0 && a.len() == 4 && b.len() == 4 ==> (x + a + b + c).subrange(0, 4) == a && (x + a + b + c).subrange(4, 8) == b
            && (x + a + b + c).subrange(8, 8 + c.len() as int) == c && (x + a + b + c).len() == 8 + c.len() && x + a + b + c == a + b + c,
{
    if x.len() == 0 && a.len() == 4 && b.len() == 4 {
        assert((x + a + b + c).subrange(0, 4) =~= a);
        assert((x + a + b + c).subrange(4, 8) =~= b);
        assert((x + a + b + c).subrange(8, 8 + c.len() as int) =~= c);
        assert(x + a + b + c =~= a + b + c);
    }
}
// layout of x ++ a ++ c ++ b ++ h with x empty and a, b four bytes wide
pub proof fn lemma_frame4(x: Seq<u8>, a: Seq<u8>, c: Seq<u8>, b: Seq<u8>, h: Seq<u8>)
    ensures
        x.len() == 0 && a.len() == 4 && b.len() == 4 ==> (x + a + c + b + h).subrange(0, 4) == a && (x + a + c + b + h).subrange(4, 4 + c.len() as int) == c
            && (x + a + c + b + h).subrange(4 + c.len() as int, 8 + c.len() as int) == b && (x + a + c + b + h).subrange(8 + c.len() as int, 8 + c.len() as int + h.len() as int) == h
            && (x + a + c + b + h).len() == 8 + c.len() + h.len() && x + a + c + b + h == a + c + b + h,
{
    if x.len() == 0 && a.len() == 4 && b.len() == 4 {
        let s = x + a + c + b + h;
        assert(s.subrange(0, 4) =~= a);
        assert(s.subrange(4, 4 + c.len() as int) =~= c);
        assert(s.subrange(4 + c.len() as int, 8 + c.len() as int) =~= b);
        assert(s.subrange(8 + c.len() as int, 8 + c.len() as int + h.len() as int) =~= h);
        assert(s =~= a + c + b + h);
    }
}


// ==== StateEntry (server/src/state/entry.rs): the entry around the command =========================================================
// Unit journal (C11) has `StateEntry::{to_bytes, from_bytes}` under contract separately ([C11.enc.to_bytes], [C11.enc.from_bytes]: both
// against ONE layout) and the loader's own parse ([C11.load.file]); what is added here is the composition [C13.journal.entry.rt].
// --- IggyTimestamp: the same stand-in as unit journal: the value is microseconds since the epoch, which is all `into::<u64>()` /
// `from(u64)` observe (A-clock: the sub-microsecond part of a SystemTime is not journalled and not observable through as_micros) ---
#[derive(Clone, Copy)]
pub struct IggyTimestamp(pub u64);
impl From<u64> for IggyTimestamp {
    fn from(timestamp: u64) -> (r: Self) { IggyTimestamp(timestamp) }
}
impl vstd::std_specs::convert::FromSpecImpl<u64> for IggyTimestamp {
    open spec fn obeys_from_spec() -> bool { true }
    open spec fn from_spec(v: u64) -> Self { IggyTimestamp(v) }
}
impl From<IggyTimestamp> for u64 {
    fn from(timestamp: IggyTimestamp) -> (r: u64) { timestamp.0 }
}
impl vstd::std_specs::convert::FromSpecImpl<IggyTimestamp> for u64 {
    open spec fn obeys_from_spec() -> bool { true }
    open spec fn from_spec(v: IggyTimestamp) -> u64 { v.0 }
}
// one entry: 52-byte header ++ context ++ command (the layout of unit journal's `enc`), all integers little-endian:
//   index u64 | term u64 | leader_id u32 | version u32 | flags u64 | timestamp u64 | user_id u32 | checksum u32 | context_length u32 | context | command
pub open spec fn entry_enc(e: StateEntry) -> Seq<u8> {
    le64(e.index) + le64(e.term) + le32(e.leader_id) + le32(e.version) + le64(e.flags) + le64(e.timestamp.0)
        + le32(e.user_id) + le32(e.checksum) + le32(e.context@.len() as u32) + e.context@ + e.command@
}
// what a reader of that layout finds in a buffer (the command is everything after the context)
pub open spec fn entry_ctx_len(b: Seq<u8>) -> u32 { un_le32(b.subrange(48, 52)) }
pub open spec fn entry_framed(b: Seq<u8>) -> bool { b.len() >= 52 && 52 + entry_ctx_len(b) <= b.len() }
pub open spec fn entry_read(e: StateEntry, b: Seq<u8>) -> bool {
    &&& e.index == un_le64(b.subrange(0, 8))
    &&& e.term == un_le64(b.subrange(8, 16))
    &&& e.leader_id == un_le32(b.subrange(16, 20))
    &&& e.version == un_le32(b.subrange(20, 24))
    &&& e.flags == un_le64(b.subrange(24, 32))
    &&& e.timestamp.0 == un_le64(b.subrange(32, 40))
    &&& e.user_id == un_le32(b.subrange(40, 44))
    &&& e.checksum == un_le32(b.subrange(44, 48))
    &&& e.context@ == b.subrange(52, 52 + entry_ctx_len(b))
    &&& e.command@ == b.subrange(52 + entry_ctx_len(b), b.len() as int)
}
// the same entry (byte buffers compared by content)
pub open spec fn entry_eq(a: StateEntry, b: StateEntry) -> bool {
    a.index == b.index && a.term == b.term && a.leader_id == b.leader_id && a.version == b.version && a.flags == b.flags
        && a.timestamp == b.timestamp && a.user_id == b.user_id && a.checksum == b.checksum && a.context@ == b.context@ && a.command@ == b.command@
}
