// ---- lemmas: user_disconnect — spec level, re-proved on every run ----
