// ---- lemmas: user_disconnect — spec level, re-proved on every run ----

// ---- LINK harnesses: the contracts other units ASSUME for System::delete_clients_for_user (the repair F70), proved from the real one ----
// Each harness has the assuming unit's stub signature, its `requires` / `ensures` copied VERBATIM from that unit's prelude.rs, and a body
// that is ONE call of the real extracted function: Verus proves "real contract ==> assumed contract" on every run. A later edit of a
// stub has to be mirrored here (and vice versa). The assuming units keep MORE fields of System (users, storage, config, state ..) than
// this unit: the frame `*final(self) == System { client_manager: .., ..*old(self) }` proved here is its projection on the kept fields (a
// function that touched a dropped field would not type-check here: exit 2).
impl System {
    // copied from units/catalogue_more/prelude.rs, stub `System::delete_clients_for_user`. cm_keys_wf / members_wf / cm_ids_nonzero /
    // client_left_all / user_clients_left there are word for word vx/prelude/disconnect.rs; `left_evt` / `membership_live` are
    // UNINTERPRETED there ("this unit only passes them through") and are the definitions of vx/prelude/disconnect.rs here.
    // label: C08.link.catalogue_more.system_delete_clients_for_user
    pub fn link_catalogue_more_delete_clients_for_user(&mut self, user_id: u32)
        requires cm_keys_wf(&old(self).client_manager), members_wf(&old(self).client_manager), cm_ids_nonzero(&old(self).client_manager),
        ensures
            *final(self) == (System { client_manager: final(self).client_manager, ..*old(self) }),
            forall|k: u32| #[trigger] final(self).client_manager.clients@.contains_key(k)
                <==> (old(self).client_manager.clients@.contains_key(k) && old(self).client_manager.clients@[k].user_id != Some(user_id)),
            forall|k: u32| #[trigger] final(self).client_manager.clients@.contains_key(k) ==> final(self).client_manager.clients@[k] == old(self).client_manager.clients@[k],
            user_clients_left(old(self).streams@, &old(self).client_manager, user_id),
    {
        self.delete_clients_for_user(user_id)
    }

    // copied from units/alloc_runtime/prelude.rs, stub `System::delete_clients_for_user`. The client manager is an opaque stand-in there and
    // `cm_inv` an UNINTERPRETED predicate over it; the link INTERPRETS it (below) as the three representation invariants this unit's real
    // function requires. The `requires` was added to the stub by this link (it had none), and System::delete_user of alloc_runtime now
    // carries it as an exposed precondition.
    // label: C06.link.alloc_runtime.system_delete_clients_for_user
    pub fn link_alloc_runtime_delete_clients_for_user(&mut self, user_id: u32)
        requires cm_inv(&old(self).client_manager),
        ensures *final(self) == (System { client_manager: final(self).client_manager, ..*old(self) }),
    {
        self.delete_clients_for_user(user_id)
    }
}
// (interpretation of units/alloc_runtime/prelude.rs `cm_inv`, uninterpreted there)
pub open spec fn cm_inv(cm: &ClientManager) -> bool {
    cm_keys_wf(cm) && members_wf(cm) && cm_ids_nonzero(cm)
}
