// ---- unit prelude: user_disconnect — the shared stand-ins and vocabulary live in vx/prelude/disconnect.rs ----
