// ---- unit prelude: retention (C14) --------------------------------------------------------------
// Stand-in types (R4), stubs of callees that are not extracted (I/O, read path, archiver) with their
// ASSUMED contracts, R8 schemas of the std functions used, and the spec vocabulary of C14.

use std::sync::Arc;

// ================================ stand-in types (R4) ============================================
#[derive(Debug)]
pub enum IggyError { SegmentNotFound, PartitionNotFound(u32, u32, u32), Io }

// IggyDuration wraps std::time::Duration; `IggyDuration::from(u64 micros).as_micros()` is the identity.
#[derive(Clone, Copy)]
pub struct IggyDuration { pub micros: u64 }
impl IggyDuration {
    pub fn as_micros(&self) -> (r: u64) ensures r == self.micros { self.micros }
}

// IggyTimestamp wraps SystemTime; only its microsecond value is used. A-clock: now() is arbitrary.
#[derive(Clone, Copy)]
pub struct IggyTimestamp { pub micros: u64 }
impl IggyTimestamp {
    pub fn as_micros(&self) -> (r: u64) ensures r == self.micros { self.micros }
    // A-clock: an arbitrary u64; `is_clock_reading` only marks the provenance of the value (no assumption on it)
    #[verifier::external_body]
    pub fn now() -> (r: IggyTimestamp) ensures is_clock_reading(r.micros as int), { unimplemented!() }
    pub fn from(micros: u64) -> (r: IggyTimestamp) ensures r.micros == micros { IggyTimestamp { micros } }
}
pub uninterp spec fn is_clock_reading(n: int) -> bool;

pub fn byte_size_from(v: u64) -> (r: u64) ensures r == v { v }

// memory orderings are kept in the text and ignored by the Counter stand-in (R6)
pub enum Ordering { Relaxed, Release, Acquire, AcqRel, SeqCst }

// Arc<AtomicU64> / Arc<AtomicU32>: plain integer cells with the wrapping semantics of the atomics (R6).
// Sharing between owners is not modelled here (C16's business).
pub struct Counter { pub v: u64 }
impl Counter {
    pub fn new(v: u64) -> (r: Counter) ensures r.v == v { Counter { v } }
    pub fn load(&self, o: Ordering) -> (r: u64) ensures r == self.v { self.v }
    #[verifier::external_body]
    pub fn fetch_add(&mut self, n: u64, o: Ordering) -> (r: u64)
        ensures r == old(self).v, final(self).v == (if old(self).v + n > u64::MAX { old(self).v + n - 0x1_0000_0000_0000_0000 } else { old(self).v + n }),
    { unimplemented!() }
    #[verifier::external_body]
    pub fn fetch_sub(&mut self, n: u64, o: Ordering) -> (r: u64)
        ensures r == old(self).v, final(self).v == (if old(self).v < n { old(self).v - n + 0x1_0000_0000_0000_0000 } else { old(self).v - n }),
    { unimplemented!() }
}
impl Clone for Counter {
    fn clone(&self) -> (r: Counter) ensures r == *self { Counter { v: self.v } }
}
pub struct Counter32 { pub v: u32 }
impl Counter32 {
    #[verifier::external_body]
    pub fn fetch_add(&mut self, n: u32, o: Ordering) -> (r: u32)
        ensures r == old(self).v, final(self).v == (if old(self).v + n > u32::MAX { old(self).v + n - 0x1_0000_0000 } else { old(self).v + n }),
    { unimplemented!() }
    #[verifier::external_body]
    pub fn fetch_sub(&mut self, n: u32, o: Ordering) -> (r: u32)
        ensures r == old(self).v, final(self).v == (if old(self).v < n { old(self).v - n + 0x1_0000_0000 } else { old(self).v - n }),
    { unimplemented!() }
}
impl Clone for Counter32 {
    fn clone(&self) -> (r: Counter32) ensures r == *self { Counter32 { v: self.v } }
}

// opaque handles / caches of a segment: never inspected by the extracted code of this unit
#[verifier::external_body] pub struct SegmentLogWriter { _p: u8 }
#[verifier::external_body] pub struct SegmentLogReader { _p: u8 }
#[verifier::external_body] pub struct SegmentIndexWriter { _p: u8 }
#[verifier::external_body] pub struct SegmentIndexReader { _p: u8 }
#[verifier::external_body] pub struct BatchAccumulator { _p: u8 }
#[verifier::external_body] pub struct Index { _p: u8 }
#[verifier::external_body] pub struct ArchiverKind { _p: u8 }

// ================================ stubs: callees that are not extracted ===========================
// The read path (unit read_segment, C02) — ASSUMED here: reading one message at the segment's current offset
// yields the segment's newest stored message, if it can be read. `seg_last_ts` names that observation: the
// timestamp of the newest message of the segment as served by the read path (None: nothing stored / not readable).
pub uninterp spec fn seg_last_ts(s: Segment) -> Option<u64>;

impl Segment {
    #[verifier::external_body]
    pub fn get_messages_by_offset(&self, offset: u64, count: u32) -> (r: Result<Vec<Arc<RetainedMessage>>, IggyError>)
        ensures
            (offset == self.current_offset && count == 1) ==> match r {
                Ok(v) => (v@.len() == 0 && seg_last_ts(*self) is None)
                      || (v@.len() == 1 && seg_last_ts(*self) == Some(v@[0].timestamp)),
                Err(_) => seg_last_ts(*self) is None,
            },
    { unimplemented!() }

    // file deletion, closing of readers/writers, parent counters: I/O. May fail. ASSUMED to leave the
    // offsets, flags, expiry and stored messages' identity of the in-memory segment untouched.
    // LINKED: unit counters proves exactly this contract of the real function (units/counters/lemmas.rs, harness
    // [C16.link.retention.delete]; an edit here has to be mirrored there). The `requires` was added by the link: the real function
    // computes `current_offset - start_offset + 1` (Segment::get_messages_count) — the stub had no precondition.
    #[verifier::external_body]
    pub fn delete(&mut self) -> (r: Result<(), IggyError>)
        requires
            old(self).current_offset >= old(self).start_offset,
            old(self).current_offset - old(self).start_offset + 1 <= u64::MAX,
        ensures seg_core_eq(*old(self), *final(self)),
    { unimplemented!() }

    // creates / opens the two files of a fresh segment: I/O. May fail.
    #[verifier::external_body]
    pub fn persist(&mut self) -> (r: Result<(), IggyError>)
        ensures seg_core_eq(*old(self), *final(self)),
    { unimplemented!() }

    #[verifier::external_body]
    pub fn get_log_path(path: &str) -> (r: String) { unimplemented!() }
    #[verifier::external_body]
    pub fn get_index_path(path: &str) -> (r: String) { unimplemented!() }
}

impl SystemConfig {
    #[verifier::external_body]
    pub fn get_segment_path(&self, stream_id: u32, topic_id: u32, partition_id: u32, start_offset: u64) -> (r: String)
    { unimplemented!() }
}

// ================================ R8 schemas (A-std) ==============================================
pub open spec fn sorted_u64(s: Seq<u64>) -> bool { forall|i: int, j: int| 0 <= i <= j < s.len() ==> s[i] <= s[j] }
pub open spec fn strict_u64(s: Seq<u64>) -> bool { forall|i: int, j: int| 0 <= i < j < s.len() ==> s[i] < s[j] }

// `v.sort()` on Vec<u64> (stable, ascending): a sorted permutation; an already sorted input is unchanged.
#[verifier::external_body]
pub fn std_sort_u64(v: &mut Vec<u64>)
    ensures
        final(v)@.len() == old(v)@.len(),
        sorted_u64(final(v)@),
        final(v)@.to_multiset() == old(v)@.to_multiset(),
        forall|x: u64| #![trigger final(v)@.contains(x)] #![trigger old(v)@.contains(x)] final(v)@.contains(x) <==> old(v)@.contains(x),
        sorted_u64(old(v)@) ==> final(v)@ == old(v)@,
{ unimplemented!() }

// ================================ spec vocabulary of C14 ==========================================
// what delete()/persist() (I/O) may not change: everything except the four file handles, the shared parent counters
// and the two file-size cells
pub open spec fn seg_core_eq(a: Segment, b: Segment) -> bool {
    &&& b == (Segment {
            log_writer: b.log_writer, log_reader: b.log_reader, index_writer: b.index_writer, index_reader: b.index_reader,
            size_of_parent_stream: b.size_of_parent_stream, size_of_parent_topic: b.size_of_parent_topic,
            size_of_parent_partition: b.size_of_parent_partition,
            messages_count_of_parent_stream: b.messages_count_of_parent_stream,
            messages_count_of_parent_topic: b.messages_count_of_parent_topic,
            messages_count_of_parent_partition: b.messages_count_of_parent_partition,
            log_size_bytes: b.log_size_bytes, index_size_bytes: b.index_size_bytes,
            ..a })
}

// the state Segment::create must produce for a new segment at `start` (from the property: it starts exactly at `start`,
// is open and empty; ServerDefault expiry is resolved against the server configuration)
pub open spec fn fresh_segment(s: Segment, start: u64, expiry: IggyExpiry, cfg: SystemConfig) -> bool {
    &&& s.start_offset == start && s.current_offset == start && s.end_offset == 0 && !s.is_closed
    &&& s.size_bytes == 0 && s.last_index_position == 0 && s.unsaved_messages is None
    &&& s.max_size_bytes == cfg.segment.size
    &&& s.message_expiry == (match expiry { IggyExpiry::ServerDefault => cfg.segment.message_expiry, e => e })
}

// [C14.dec] over MATHEMATICAL integers: closed, finite expiry d, newest message timestamp + d <= now
pub open spec fn seg_expired(s: Segment, now: int) -> bool {
    s.is_closed && match s.message_expiry {
        IggyExpiry::ExpireDuration(d) => seg_last_ts(s) is Some && seg_last_ts(s)->0 + d.micros <= now,
        _ => false,
    }
}

// segment representation invariant used by this unit: the message range is [start_offset, current_offset] and the
// relative offset fits the u32 of the index format (Index.offset: u32)
pub open spec fn seg_wf(s: Segment) -> bool {
    s.start_offset <= s.current_offset && s.current_offset - s.start_offset < 0x1_0000_0000 && s.end_offset < u64::MAX
}
// segments of a partition are kept sorted by start offset, without duplicates
// (opaque: its two-variable trigger is quadratic in the number of known elements; instances are drawn by lemma_sorted_at)
#[verifier::opaque]
pub open spec fn segs_sorted(s: Seq<Segment>) -> bool {
    forall|i: int, j: int| 0 <= i < j < s.len() ==> (#[trigger] s[i]).start_offset < (#[trigger] s[j]).start_offset
}
pub proof fn lemma_sorted_at(s: Seq<Segment>, i: int, j: int)
    requires segs_sorted(s), 0 <= i < j < s.len(),
    ensures s[i].start_offset < s[j].start_offset,
{ reveal(segs_sorted); }
pub proof fn lemma_sorted_update(s: Seq<Segment>, i: int, x: Segment)
    requires segs_sorted(s), 0 <= i < s.len(), x.start_offset == s[i].start_offset,
    ensures segs_sorted(s.update(i, x)),
{ reveal(segs_sorted); }
pub proof fn lemma_sorted_unique(s: Seq<Segment>, i: int, j: int)
    requires segs_sorted(s), 0 <= i < s.len(), 0 <= j < s.len(), s[i].start_offset == s[j].start_offset,
    ensures i == j,
{ reveal(segs_sorted); }
// o is the start offset of one of the first `upto` segments, and that segment is expired at `now`
pub open spec fn expired_start(segs: Seq<Segment>, upto: int, now: int, o: u64) -> bool {
    exists|i: int| 0 <= i < upto && (#[trigger] segs[i]).start_offset == o && seg_expired(segs[i], now)
}

// ---- order-preserving filter of a sequence (what Vec::retain keeps) and its elementary facts -------------
pub open spec fn seq_keep<T>(s: Seq<T>, f: spec_fn(T) -> bool) -> Seq<T>
    decreases s.len()
{
    if s.len() == 0 { Seq::<T>::empty() }
    else if f(s.last()) { seq_keep(s.drop_last(), f).push(s.last()) }
    else { seq_keep(s.drop_last(), f) }
}

pub proof fn lemma_keep_props<T>(s: Seq<T>, f: spec_fn(T) -> bool)
    ensures
        seq_keep(s, f).len() <= s.len(),
        forall|j: int| 0 <= j < seq_keep(s, f).len() ==> f(#[trigger] seq_keep(s, f)[j]) && exists|i: int| 0 <= i < s.len() && s[i] == seq_keep(s, f)[j],
        forall|i: int| 0 <= i < s.len() && f(#[trigger] s[i]) ==> exists|j: int| 0 <= j < seq_keep(s, f).len() && seq_keep(s, f)[j] == s[i],
    decreases s.len()
{
    if s.len() > 0 {
        let d = s.drop_last();
        lemma_keep_props(d, f);
        let kd = seq_keep(d, f);
        let k = seq_keep(s, f);
        assert forall|j: int| 0 <= j < k.len() implies f(#[trigger] k[j]) && exists|i: int| 0 <= i < s.len() && s[i] == k[j] by {
            if j < kd.len() {
                assert(k[j] == kd[j]);
                let i = choose|i: int| 0 <= i < d.len() && d[i] == kd[j];
                assert(s[i] == k[j]);
            } else {
                assert(k[j] == s.last());
                assert(s[s.len() - 1] == k[j]);
            }
        }
        assert forall|i: int| 0 <= i < s.len() && f(#[trigger] s[i]) implies exists|j: int| 0 <= j < k.len() && k[j] == s[i] by {
            if i < d.len() {
                assert(d[i] == s[i]);
                let j = choose|j: int| 0 <= j < kd.len() && kd[j] == d[i];
                assert(k[j] == s[i]);
            } else {
                assert(k[k.len() - 1] == s[i]);
            }
        }
    }
}

// witness-returning forms (no quantified conclusions: safe to use inside large functions)
pub proof fn lemma_keep_src<T>(s: Seq<T>, f: spec_fn(T) -> bool, j: int) -> (i: int)
    requires 0 <= j < seq_keep(s, f).len(),
    ensures 0 <= i < s.len() && s[i] == seq_keep(s, f)[j] && f(s[i]),
{
    lemma_keep_props(s, f);
    choose|i: int| 0 <= i < s.len() && s[i] == seq_keep(s, f)[j]
}
pub proof fn lemma_keep_dst<T>(s: Seq<T>, f: spec_fn(T) -> bool, i: int) -> (j: int)
    requires 0 <= i < s.len(), f(s[i]),
    ensures 0 <= j < seq_keep(s, f).len() && seq_keep(s, f)[j] == s[i],
{
    lemma_keep_props(s, f);
    choose|j: int| 0 <= j < seq_keep(s, f).len() && seq_keep(s, f)[j] == s[i]
}

pub proof fn lemma_keep_all<T>(s: Seq<T>, f: spec_fn(T) -> bool)
    requires forall|i: int| 0 <= i < s.len() ==> f(#[trigger] s[i]),
    ensures seq_keep(s, f) == s,
    decreases s.len()
{
    if s.len() > 0 {
        let d = s.drop_last();
        assert forall|i: int| 0 <= i < d.len() implies f(#[trigger] d[i]) by { assert(d[i] == s[i]); }
        lemma_keep_all(d, f);
        assert(d.push(s.last()) == s);
    } else {
        assert(s == Seq::<T>::empty());
    }
}

pub proof fn lemma_keep_ext<T>(s: Seq<T>, f: spec_fn(T) -> bool, g: spec_fn(T) -> bool)
    requires forall|i: int| 0 <= i < s.len() ==> f(#[trigger] s[i]) == g(s[i]),
    ensures seq_keep(s, f) == seq_keep(s, g),
    decreases s.len()
{
    if s.len() > 0 {
        let d = s.drop_last();
        assert forall|i: int| 0 <= i < d.len() implies f(#[trigger] d[i]) == g(d[i]) by { assert(d[i] == s[i]); }
        lemma_keep_ext(d, f, g);
        assert(s.last() == s[s.len() - 1]);
    }
}

pub proof fn lemma_keep_keep<T>(s: Seq<T>, f: spec_fn(T) -> bool, g: spec_fn(T) -> bool, h: spec_fn(T) -> bool)
    requires forall|i: int| 0 <= i < s.len() ==> h(#[trigger] s[i]) == (f(s[i]) && g(s[i])),
    ensures seq_keep(seq_keep(s, f), g) == seq_keep(s, h),
    decreases s.len()
{
    if s.len() > 0 {
        let d = s.drop_last();
        assert forall|i: int| 0 <= i < d.len() implies h(#[trigger] d[i]) == (f(d[i]) && g(d[i])) by { assert(d[i] == s[i]); }
        lemma_keep_keep(d, f, g, h);
        assert(s.last() == s[s.len() - 1]);
        if f(s.last()) {
            let kd = seq_keep(d, f);
            assert(kd.push(s.last()).drop_last() == kd);
            assert(kd.push(s.last()).last() == s.last());
        }
    } else {
        assert(seq_keep(s, f).len() == 0);
    }
}

pub proof fn lemma_take_contains(lo: Seq<u64>, idx: int, v: u64)
    requires 0 <= idx < lo.len(),
    ensures lo.take(idx + 1).contains(v) <==> (lo.take(idx).contains(v) || v == lo[idx]),
{
    let a = lo.take(idx);
    let b = lo.take(idx + 1);
    if b.contains(v) {
        let w = choose|w: int| 0 <= w < b.len() && b[w] == v;
        if w < idx { assert(a[w] == v); }
    }
    if a.contains(v) {
        let w = choose|w: int| 0 <= w < a.len() && a[w] == v;
        assert(b[w] == v);
    }
    if v == lo[idx] { assert(b[idx] == v); }
}

pub open spec fn segs_below(s: Seq<Segment>, b: int) -> bool { forall|i: int| 0 <= i < s.len() ==> (#[trigger] s[i]).start_offset < b }

pub proof fn lemma_keep_below(s: Seq<Segment>, f: spec_fn(Segment) -> bool, b: int)
    requires segs_below(s, b),
    ensures segs_below(seq_keep(s, f), b),
    decreases s.len()
{
    if s.len() > 0 {
        let d = s.drop_last();
        assert forall|i: int| 0 <= i < d.len() implies (#[trigger] d[i]).start_offset < b by { assert(d[i] == s[i]); }
        lemma_keep_below(d, f, b);
        assert(s.last() == s[s.len() - 1]);
    }
}

pub proof fn lemma_keep_sorted(s: Seq<Segment>, f: spec_fn(Segment) -> bool)
    requires segs_sorted(s),
    ensures segs_sorted(seq_keep(s, f)),
    decreases s.len()
{
    reveal(segs_sorted);
    if s.len() > 0 {
        let d = s.drop_last();
        let last = s[s.len() - 1];
        assert(s.last() == last);
        assert forall|i: int, j: int| 0 <= i < j < d.len() implies (#[trigger] d[i]).start_offset < (#[trigger] d[j]).start_offset by {
            assert(d[i] == s[i] && d[j] == s[j]);
        }
        lemma_keep_sorted(d, f);
        assert forall|i: int| 0 <= i < d.len() implies (#[trigger] d[i]).start_offset < last.start_offset by { assert(d[i] == s[i]); }
        lemma_keep_below(d, f, last.start_offset as int);
        let kd = seq_keep(d, f);
        let k = seq_keep(s, f);
        if f(last) {
            assert(k == kd.push(last));
            assert forall|i: int, j: int| 0 <= i < j < k.len() implies (#[trigger] k[i]).start_offset < (#[trigger] k[j]).start_offset by {
                if j < kd.len() { assert(k[i] == kd[i] && k[j] == kd[j]); } else { assert(k[i] == kd[i]); assert(k[j] == last); }
            }
        } else {
            assert(k == kd);
        }
    }
}

// ---- R8 schemas on Vec (A-std): retain, sort_by(|a, b| a.K.cmp(&b.K)), iter_mut().find -------------------
pub open spec fn sorted_by_key<T>(s: Seq<T>, key: spec_fn(T) -> u64) -> bool {
    forall|i: int, j: int| 0 <= i <= j < s.len() ==> key(#[trigger] s[i]) <= key(#[trigger] s[j])
}

pub trait VecSchemas<T> {
    spec fn sv(&self) -> Seq<T>;
    // `v.retain(|x| P)`: keeps exactly the elements satisfying P, in their original order
    fn retain_spec(&mut self, f: Ghost<spec_fn(T) -> bool>)
        ensures final(self).sv() == seq_keep(old(self).sv(), f@);
    // `v.sort_by(|a, b| a.K.cmp(&b.K))`: stable ascending sort by key K — a sorted permutation of the input;
    // an input that is already sorted is left as it is (stability)
    fn sort_by_key_spec(&mut self, key: Ghost<spec_fn(T) -> u64>)
        ensures
            final(self).sv().len() == old(self).sv().len(),
            sorted_by_key(final(self).sv(), key@),
            final(self).sv().to_multiset() == old(self).sv().to_multiset(),
            sorted_by_key(old(self).sv(), key@) ==> final(self).sv() == old(self).sv();
    // `v.sort_by(|a, b| b.K.cmp(&a.K))`: stable DESCENDING sort by key K
    fn sort_by_key_desc_spec(&mut self, key: Ghost<spec_fn(T) -> u64>)
        ensures
            final(self).sv().len() == old(self).sv().len(),
            forall|i: int, j: int| 0 <= i <= j < final(self).sv().len() ==> key@(#[trigger] final(self).sv()[i]) >= key@(#[trigger] final(self).sv()[j]),
            final(self).sv().to_multiset() == old(self).sv().to_multiset();
}
impl<T> VecSchemas<T> for Vec<T> {
    open spec fn sv(&self) -> Seq<T> { self@ }
    #[verifier::external_body]
    fn retain_spec(&mut self, f: Ghost<spec_fn(T) -> bool>) { unimplemented!() }
    #[verifier::external_body]
    fn sort_by_key_spec(&mut self, key: Ghost<spec_fn(T) -> u64>) { unimplemented!() }
    #[verifier::external_body]
    fn sort_by_key_desc_spec(&mut self, key: Ghost<spec_fn(T) -> u64>) { unimplemented!() }
}

// `v.iter_mut().find(|x| P)`: a mutable reference to the FIRST element satisfying P, if any
#[verifier::external_body]
pub fn std_iter_mut_find<T>(v: &mut Vec<T>, Ghost(f): Ghost<spec_fn(T) -> bool>) -> (r: Option<&mut T>)
    ensures
        match r {
            Some(x) => exists|i: int| 0 <= i < old(v)@.len() && f(#[trigger] old(v)@[i]) && *x == old(v)@[i]
                         && (forall|j: int| 0 <= j < i ==> !f(#[trigger] old(v)@[j]))
                         && final(v)@ == old(v)@.update(i, *final(x)),
            None => final(v)@ == old(v)@ && forall|i: int| 0 <= i < old(v)@.len() ==> !f(#[trigger] old(v)@[i]),
        },
{ unimplemented!() }

// ---- partition-level vocabulary ---------------------------------------------------------------------------
// every kept field of Partition except `segments` and the stream-wide segment counter
pub open spec fn part_frame(a: Partition, b: Partition) -> bool {
    &&& a.stream_id == b.stream_id && a.topic_id == b.topic_id && a.partition_id == b.partition_id
    &&& a.current_offset == b.current_offset && a.should_increment_offset == b.should_increment_offset
    &&& a.unsaved_messages_count == b.unsaved_messages_count && a.message_expiry == b.message_expiry
    &&& a.messages_count_of_parent_stream == b.messages_count_of_parent_stream
    &&& a.messages_count_of_parent_topic == b.messages_count_of_parent_topic && a.messages_count == b.messages_count
    &&& a.size_of_parent_stream == b.size_of_parent_stream && a.size_of_parent_topic == b.size_of_parent_topic
    &&& a.size_bytes == b.size_bytes && a.config == b.config
}
pub open spec fn segs_wf(s: Seq<Segment>) -> bool { forall|i: int| 0 <= i < s.len() ==> seg_wf(#[trigger] s[i]) }
pub open spec fn not_start(so: u64) -> spec_fn(Segment) -> bool { |s: Segment| s.start_offset != so }
pub open spec fn by_start() -> spec_fn(Segment) -> u64 { |s: Segment| s.start_offset }

// a failed delete_segment leaves every segment in place; only the target may have lost its file handles
#[verifier::opaque]
pub open spec fn segs_same_except(a: Seq<Segment>, b: Seq<Segment>, so: u64) -> bool {
    &&& a.len() == b.len()
    &&& forall|i: int| 0 <= i < a.len() ==> seg_core_eq(#[trigger] a[i], b[i]) && (a[i].start_offset != so ==> b[i] == a[i])
}

pub proof fn lemma_keep_update_dropped<T>(s: Seq<T>, i: int, x: T, f: spec_fn(T) -> bool)
    requires 0 <= i < s.len(), !f(s[i]), !f(x),
    ensures seq_keep(s.update(i, x), f) == seq_keep(s, f),
    decreases s.len()
{
    let u = s.update(i, x);
    if i == s.len() - 1 {
        assert(u.drop_last() == s.drop_last());
        assert(u.last() == x);
        assert(s.last() == s[i]);
    } else {
        assert(u.drop_last() == s.drop_last().update(i, x));
        assert(u.last() == s.last());
        assert(s.drop_last()[i] == s[i]);
        lemma_keep_update_dropped(s.drop_last(), i, x, f);
    }
}

pub proof fn lemma_sorted_strict_is_sorted_by_start(s: Seq<Segment>)
    requires segs_sorted(s),
    ensures sorted_by_key(s, by_start()),
{
    reveal(segs_sorted);
    assert forall|i: int, j: int| 0 <= i <= j < s.len() implies by_start()(#[trigger] s[i]) <= by_start()(#[trigger] s[j]) by {
        if i < j { assert(s[i].start_offset < s[j].start_offset); }
    }
}

// ================================ topic level =================================================================
// R8 map-iteration schema by reference: `m.iter()` yields each entry exactly once, in an unspecified order
pub open spec fn entries_of_ref<K, V>(m: Map<K, V>, e: Seq<(&K, &V)>) -> bool {
    &&& forall|i: int, j: int| 0 <= i < j < e.len() ==> *e[i].0 != *e[j].0
    &&& forall|i: int| 0 <= i < e.len() ==> m.contains_key(*(#[trigger] e[i]).0) && m[*e[i].0] == *e[i].1
    &&& forall|k: K| #[trigger] m.contains_key(k) ==> exists|i: int| 0 <= i < e.len() && *(#[trigger] e[i]).0 == k
}
impl<K, V> HashMap<K, V> {
    #[verifier::external_body]
    pub fn iter_entries(&self) -> (r: Vec<(&K, &V)>)
        ensures entries_of_ref(self@, r@),
    { unimplemented!() }
}

// R8 schema `m.into_iter().map(F).collect()`: F applied to each entry once, in the (unspecified) iteration order
#[verifier::external_body]
#[verifier::accept_recursive_types(B)]
pub struct MappedIter<B> { _p: core::marker::PhantomData<B> }
impl<B> View for MappedIter<B> { type V = Seq<B>; uninterp spec fn view(&self) -> Seq<B>; }
impl<B> MappedIter<B> {
    #[verifier::external_body]
    pub fn collect(self) -> (r: Vec<B>) ensures r@ == self@, { unimplemented!() }
}
#[verifier::external_body]
pub fn std_map_into_iter_map<K, V, B>(m: &HashMap<K, V>, Ghost(f): Ghost<spec_fn((K, V)) -> B>) -> (r: MappedIter<B>)
    ensures exists|e: Seq<(K, V)>| #![trigger entries_of(m@, e)] entries_of(m@, e) && r@.len() == e.len() && forall|i: int| #![trigger r@[i]] #![trigger e[i]] 0 <= i < e.len() ==> r@[i] == f(e[i]),
{ unimplemented!() }

// `l` is what the property allows a pass to list for partition `p` at `now`: exactly the start offsets of the segments
// satisfying [C14.dec], ascending
pub open spec fn expired_list(p: Partition, now: int, l: Seq<u64>) -> bool {
    &&& forall|k: int| 0 <= k < l.len() ==> expired_start(p.segments@, p.segments@.len() as int, now, #[trigger] l[k])
    &&& forall|i: int| 0 <= i < p.segments@.len() && seg_expired(#[trigger] p.segments@[i], now) ==> l.contains(p.segments@[i].start_offset)
    &&& sorted_u64(l)
    &&& segs_sorted(p.segments@) ==> strict_u64(l)
}
pub open spec fn has_expired(p: Partition, now: int) -> bool {
    exists|i: int| 0 <= i < p.segments@.len() && seg_expired(#[trigger] p.segments@[i], now)
}
// partitions are stored under their own id
pub open spec fn topic_keys_wf(t: Topic) -> bool {
    forall|k: u32| #[trigger] t.partitions@.contains_key(k) ==> t.partitions@[k].partition_id == k
}
pub open spec fn topic_map_sound(t: Topic, now: int, m: Map<u32, Vec<u64>>) -> bool {
    forall|pid: u32| #[trigger] m.contains_key(pid) ==> t.partitions@.contains_key(pid) && m[pid]@.len() > 0 && expired_list(t.partitions@[pid], now, m[pid]@)
}

// what a maintenance pass may hand to delete_segments for topic `t` at `now` ([C14.only]): one entry per partition that
// has expired segments, each listing exactly that partition's expired closed segments, ascending
pub open spec fn pass_list_sound(t: Topic, now: int, l: Seq<SegmentsToHandle>) -> bool {
    &&& forall|k: int| 0 <= k < l.len() ==> t.partitions@.contains_key((#[trigger] l[k]).partition_id) && l[k].start_offsets@.len() > 0
            && expired_list(t.partitions@[l[k].partition_id], now, l[k].start_offsets@)
    &&& forall|k1: int, k2: int| 0 <= k1 < k2 < l.len() ==> (#[trigger] l[k1]).partition_id != (#[trigger] l[k2]).partition_id
}
pub open spec fn pass_list_complete(t: Topic, now: int, l: Seq<SegmentsToHandle>) -> bool {
    forall|pid: u32| #[trigger] t.partitions@.contains_key(pid) && has_expired(t.partitions@[pid], now)
        ==> exists|k: int| 0 <= k < l.len() && (#[trigger] l[k]).partition_id == pid
}

// ---- delete_segments vocabulary --------------------------------------------------------------------------------
// R5/R6: `topic.get_partition(id)` hands out the IggySharedMut<Partition> stored under `id` (an Arc clone of the lock);
// with the lock dropped and the Arc alias made explicit this is a mutable reference into the topic's map.
impl Topic {
    // LINKED (the map clause): units/topic_limit/lemmas.rs, harness [C15.link.retention.get_partition] (mirror edits there)
    #[verifier::external_body]
    pub fn get_partition(&mut self, partition_id: u32) -> (r: Result<&mut Partition, IggyError>)
        ensures
            final(self).stream_id == old(self).stream_id && final(self).topic_id == old(self).topic_id
                && final(self).message_expiry == old(self).message_expiry && final(self).config == old(self).config
                && final(self).compression_algorithm == old(self).compression_algorithm,
            match r {
                Ok(p) => old(self).partitions@.contains_key(partition_id) && *p == old(self).partitions@[partition_id]
                    && final(self).partitions@ == old(self).partitions@.insert(partition_id, *final(p)),
                Err(_) => !old(self).partitions@.contains_key(partition_id) && final(self).partitions@ == old(self).partitions@,
            },
    { unimplemented!() }
}

pub open spec fn part_wf(p: Partition) -> bool {
    &&& p.segments@.len() > 0
    &&& segs_sorted(p.segments@) && segs_wf(p.segments@)
    &&& p.segments@.last().is_closed ==> p.segments@.last().end_offset == p.current_offset
}
pub open spec fn topic_wf(t: Topic) -> bool {
    forall|k: u32| #[trigger] t.partitions@.contains_key(k) ==> t.partitions@[k].partition_id == k && part_wf(t.partitions@[k])
}
pub open spec fn not_listed(lo: Seq<u64>) -> spec_fn(Segment) -> bool { |s: Segment| !lo.contains(s.start_offset) }

// an entry handed to delete_segments for partition p: ascending, and every listed start offset names a CLOSED segment of p
pub open spec fn closed_start(segs: Seq<Segment>, o: u64) -> bool {
    exists|i: int| 0 <= i < segs.len() && (#[trigger] segs[i]).start_offset == o && segs[i].is_closed
}
pub open spec fn del_entry_ok(p: Partition, lo: Seq<u64>) -> bool {
    &&& strict_u64(lo)
    &&& forall|m: int| 0 <= m < lo.len() ==> closed_start(p.segments@, #[trigger] lo[m])
}
pub open spec fn del_list_ok(t: Topic, l: Seq<SegmentsToHandle>) -> bool {
    &&& forall|k: int| 0 <= k < l.len() && t.partitions@.contains_key((#[trigger] l[k]).partition_id) ==> del_entry_ok(t.partitions@[l[k].partition_id], l[k].start_offsets@)
    &&& forall|k1: int, k2: int| 0 <= k1 < k2 < l.len() ==> (#[trigger] l[k1]).partition_id != (#[trigger] l[k2]).partition_id
}
pub open spec fn total_listed(l: Seq<SegmentsToHandle>, n: int) -> int
    decreases n
{
    if n <= 0 { 0 } else { total_listed(l, n - 1) + l[n - 1].start_offsets@.len() }
}
pub proof fn lemma_total_mono(l: Seq<SegmentsToHandle>, a: int, b: int)
    requires 0 <= a <= b,
    ensures total_listed(l, a) <= total_listed(l, b),
    decreases b - a
{
    if a < b { lemma_total_mono(l, a, b - 1); }
}

// effect of one successfully processed entry on its partition ([C14.only] exact + [C14.off]):
// exactly the listed segments are gone, the others are kept as they were and in order; offsets untouched; if nothing is
// left, one fresh open segment starting at current_offset + 1 replaces them
pub open spec fn block_ok(p0: Partition, p1: Partition, lo: Seq<u64>) -> bool {
    &&& part_frame(p0, p1)
    &&& seq_keep(p0.segments@, not_listed(lo)).len() > 0 ==> p1.segments@ == seq_keep(p0.segments@, not_listed(lo))
    &&& seq_keep(p0.segments@, not_listed(lo)).len() == 0 ==> p1.segments@.len() == 1
            && fresh_segment(p1.segments@[0], (p0.current_offset + 1) as u64, p0.message_expiry, *p0.config)
            && p0.current_offset + 1 <= u64::MAX
}
// what holds for a partition in EVERY outcome (also when an I/O error ends the pass early): offsets untouched and
// no segment that was not listed is lost or altered
#[verifier::opaque]
pub open spec fn segs_survive(a: Seq<Segment>, b: Seq<Segment>, lo: Seq<u64>) -> bool {
    forall|i: int| 0 <= i < a.len() && !lo.contains((#[trigger] a[i]).start_offset) ==> exists|j: int| 0 <= j < b.len() && #[trigger] b[j] == a[i]
}
pub open spec fn block_sound(p0: Partition, p1: Partition, lo: Seq<u64>) -> bool {
    part_frame(p0, p1) && segs_survive(p0.segments@, p1.segments@, lo)
}
pub proof fn lemma_survive_refl(a: Seq<Segment>, lo: Seq<u64>)
    ensures segs_survive(a, a, lo),
{ reveal(segs_survive); }
// b is what is kept of a after removing (a subset of) the listed segments
pub proof fn lemma_survive_keep(a: Seq<Segment>, lo: Seq<u64>, part: Seq<u64>)
    requires forall|v: u64| part.contains(v) ==> lo.contains(v),
    ensures segs_survive(a, seq_keep(a, not_listed(part)), lo),
{
    reveal(segs_survive);
    let b = seq_keep(a, not_listed(part));
    assert forall|i: int| 0 <= i < a.len() && !lo.contains((#[trigger] a[i]).start_offset) implies exists|j: int| 0 <= j < b.len() && #[trigger] b[j] == a[i] by {
        assert(not_listed(part)(a[i]));
        let j = lemma_keep_dst(a, not_listed(part), i);
        assert(b[j] == a[i]);
    }
}
// a failed delete_segment(so) with so listed: whatever it leaves (ns) still holds every unlisted segment unaltered
pub proof fn lemma_survive_err(a: Seq<Segment>, cur: Seq<Segment>, ns: Seq<Segment>, lo: Seq<u64>, so: u64)
    requires segs_survive(a, cur, lo), segs_same_except(cur, ns, so), lo.contains(so),
    ensures segs_survive(a, ns, lo),
{
    reveal(segs_survive);
    reveal(segs_same_except);
    assert forall|i: int| 0 <= i < a.len() && !lo.contains((#[trigger] a[i]).start_offset) implies exists|j: int| 0 <= j < ns.len() && #[trigger] ns[j] == a[i] by {
        let j = choose|j: int| 0 <= j < cur.len() && #[trigger] cur[j] == a[i];
        assert(seg_core_eq(cur[j], ns[j]));
        assert(ns[j] == cur[j]);
    }
}
pub proof fn lemma_block_ok_sound(p0: Partition, p1: Partition, lo: Seq<u64>)
    requires block_ok(p0, p1, lo),
    ensures block_sound(p0, p1, lo),
{
    let k = seq_keep(p0.segments@, not_listed(lo));
    lemma_survive_keep(p0.segments@, lo, lo);
    if k.len() == 0 {
        reveal(segs_survive);
        assert forall|i: int| 0 <= i < p0.segments@.len() && !lo.contains((#[trigger] p0.segments@[i]).start_offset) implies exists|j: int| 0 <= j < p1.segments@.len() && #[trigger] p1.segments@[j] == p0.segments@[i] by {
            assert(not_listed(lo)(p0.segments@[i]));
            let j = lemma_keep_dst(p0.segments@, not_listed(lo), i);
        }
    }
}
pub open spec fn topic_frame(a: Topic, b: Topic) -> bool {
    &&& a.stream_id == b.stream_id && a.topic_id == b.topic_id && a.message_expiry == b.message_expiry && a.config == b.config
    &&& a.compression_algorithm == b.compression_algorithm
    &&& forall|k: u32| #![trigger a.partitions@.contains_key(k)] #![trigger b.partitions@.contains_key(k)] a.partitions@.contains_key(k) <==> b.partitions@.contains_key(k)
}
// none of the first n entries is for partition k
pub open spec fn not_mentioned(l: Seq<SegmentsToHandle>, n: int, k: u32) -> bool {
    forall|m: int| 0 <= m < n ==> (#[trigger] l[m]).partition_id != k
}
pub proof fn lemma_not_mentioned_self(l: Seq<SegmentsToHandle>, n: int)
    requires 0 <= n < l.len(), forall|k1: int, k2: int| 0 <= k1 < k2 < l.len() ==> (#[trigger] l[k1]).partition_id != (#[trigger] l[k2]).partition_id,
    ensures not_mentioned(l, n, l[n].partition_id),
{}

// ---- the pass as a whole ------------------------------------------------------------------------------------------
// archiver (third-party storage / disk copy): not extracted. Returns Ok or Err arbitrarily; it only reads the topic.
#[verifier::external_body]
pub fn archive_segments(topic: &Topic, segments_to_archive: &[SegmentsToHandle], archiver: Arc<ArchiverKind>) -> (r: Result<u64, IggyError>)
{ unimplemented!() }

// [C14.only] at segment level: every segment of `a` that is NOT expired at `now` is still in `b`, unaltered
#[verifier::opaque]
pub open spec fn unexpired_survive(a: Seq<Segment>, b: Seq<Segment>, now: int) -> bool {
    forall|i: int| 0 <= i < a.len() && !seg_expired(#[trigger] a[i], now) ==> exists|j: int| 0 <= j < b.len() && #[trigger] b[j] == a[i]
}
// [C14.only] + [C14.off] for a whole pass over topic t0 -> t1 with clock reading `now`
pub open spec fn pass_only_expired(t0: Topic, t1: Topic, now: int) -> bool {
    &&& topic_frame(t0, t1)
    &&& forall|k: u32| #[trigger] t0.partitions@.contains_key(k) ==> part_frame(t0.partitions@[k], t1.partitions@[k])
            && unexpired_survive(t0.partitions@[k].segments@, t1.partitions@[k].segments@, now)
}
// the all-outcomes part of delete_segments' contract, bundled (helper)
pub open spec fn del_post_sound(t0: Topic, t1: Topic, l: Seq<SegmentsToHandle>) -> bool {
    &&& topic_frame(t0, t1)
    &&& forall|k: u32| #[trigger] t0.partitions@.contains_key(k) ==> part_frame(t0.partitions@[k], t1.partitions@[k])
    &&& forall|k: u32| t0.partitions@.contains_key(k) && not_mentioned(l, l.len() as int, k) ==> #[trigger] t1.partitions@[k] == t0.partitions@[k]
    &&& forall|m: int| 0 <= m < l.len() && t0.partitions@.contains_key((#[trigger] l[m]).partition_id)
            ==> block_sound(t0.partitions@[l[m].partition_id], t1.partitions@[l[m].partition_id], l[m].start_offsets@)
}
// A-range: whatever a pass can list for this topic fits the u32 statistics counter of HandledSegments
// (the stream-wide segment counter is an AtomicU32 as well)
pub open spec fn stats_room(t: Topic) -> bool {
    forall|now: int, l: Seq<SegmentsToHandle>| #[trigger] pass_list_sound(t, now, l) ==> total_listed(l, l.len() as int) <= u32::MAX
}

pub proof fn lemma_unexpired_refl(a: Seq<Segment>, now: int)
    ensures unexpired_survive(a, a, now),
{ reveal(unexpired_survive); }

pub proof fn lemma_pass_refl(t: Topic, now: int)
    ensures pass_only_expired(t, t, now),
{
    assert forall|k: u32| #[trigger] t.partitions@.contains_key(k) implies unexpired_survive(t.partitions@[k].segments@, t.partitions@[k].segments@, now) by {
        lemma_unexpired_refl(t.partitions@[k].segments@, now);
    }
}

// what get_expired_segments lists is fit for delete_segments: ascending, every listed offset names a closed segment
pub proof fn lemma_pass_list_del_ok(t: Topic, now: int, l: Seq<SegmentsToHandle>)
    requires topic_wf(t), pass_list_sound(t, now, l),
    ensures del_list_ok(t, l),
{
    assert forall|k: int| 0 <= k < l.len() && t.partitions@.contains_key((#[trigger] l[k]).partition_id) implies del_entry_ok(t.partitions@[l[k].partition_id], l[k].start_offsets@) by {
        let p = t.partitions@[l[k].partition_id];
        let lo = l[k].start_offsets@;
        assert(expired_list(p, now, lo));
        assert forall|m: int| 0 <= m < lo.len() implies closed_start(p.segments@, #[trigger] lo[m]) by {
            assert(expired_start(p.segments@, p.segments@.len() as int, now, lo[m]));
            let i = choose|i: int| 0 <= i < p.segments@.len() && (#[trigger] p.segments@[i]).start_offset == lo[m] && seg_expired(p.segments@[i], now);
            assert(p.segments@[i].is_closed);
        }
        assert(part_wf(p));
        assert(strict_u64(lo));
    }
}

// only expired segments are lost: listed => expired (start offsets are unique), unlisted => survive
pub proof fn lemma_pass_only_expired(t0: Topic, t1: Topic, l: Seq<SegmentsToHandle>, now: int)
    requires topic_wf(t0), pass_list_sound(t0, now, l), del_post_sound(t0, t1, l),
    ensures pass_only_expired(t0, t1, now),
{
    assert forall|k: u32| #[trigger] t0.partitions@.contains_key(k) implies unexpired_survive(t0.partitions@[k].segments@, t1.partitions@[k].segments@, now) by {
        let a = t0.partitions@[k].segments@;
        let b = t1.partitions@[k].segments@;
        if not_mentioned(l, l.len() as int, k) {
            assert(t1.partitions@[k] == t0.partitions@[k]);
            lemma_unexpired_refl(a, now);
        } else {
            let m = choose|m: int| 0 <= m < l.len() && (#[trigger] l[m]).partition_id == k;
            let lo = l[m].start_offsets@;
            assert(block_sound(t0.partitions@[k], t1.partitions@[k], lo));
            assert(expired_list(t0.partitions@[k], now, lo));
            reveal(segs_survive);
            reveal(unexpired_survive);
            assert forall|i: int| 0 <= i < a.len() && !seg_expired(#[trigger] a[i], now) implies exists|j: int| 0 <= j < b.len() && #[trigger] b[j] == a[i] by {
                if lo.contains(a[i].start_offset) {
                    let w = choose|w: int| 0 <= w < lo.len() && lo[w] == a[i].start_offset;
                    assert(expired_start(a, a.len() as int, now, lo[w]));
                    let i2 = choose|i2: int| 0 <= i2 < a.len() && (#[trigger] a[i2]).start_offset == lo[w] && seg_expired(a[i2], now);
                    lemma_sorted_unique(a, i, i2);
                }
            }
        }
    }
}

// R8 map-iteration schema, mutable values: `m.values_mut()` hands out one mutable reference per entry (each entry once,
// unspecified order); what is written through them is what the map holds afterwards; keys are unchanged
impl<K, V> HashMap<K, V> {
    #[verifier::external_body]
    pub fn values_mut_vec(&mut self) -> (r: Vec<&mut V>)
        ensures
            forall|k: K| #![trigger final(self)@.contains_key(k)] #![trigger old(self)@.contains_key(k)] final(self)@.contains_key(k) <==> old(self)@.contains_key(k),
            exists|keys: Seq<K>| #![trigger keys.len()] keys.len() == r@.len()
                && (forall|i: int, j: int| 0 <= i < j < keys.len() ==> keys[i] != keys[j])
                && (forall|k: K| #[trigger] old(self)@.contains_key(k) ==> exists|i: int| 0 <= i < keys.len() && #[trigger] keys[i] == k)
                && (forall|i: int| 0 <= i < keys.len() ==> old(self)@.contains_key(#[trigger] keys[i]) && *r@[i] == old(self)@[keys[i]] && final(self)@[keys[i]] == *final(r@[i])),
    { unimplemented!() }
}
// [C14.update] for one partition: it and every one of its segments carry the new expiry; nothing else changed
pub open spec fn part_expiry_updated(p0: Partition, p1: Partition, e: IggyExpiry) -> bool {
    &&& p1.message_expiry == e
    &&& p1.segments@.len() == p0.segments@.len()
    &&& forall|i: int| 0 <= i < p0.segments@.len() ==> #[trigger] p1.segments@[i] == (Segment { message_expiry: e, ..p0.segments@[i] })
    &&& p1 == (Partition { message_expiry: e, segments: p1.segments, ..p0 })
}
