// ---- lemmas: retention (C14) — proved on every run, spec level only ----

// The decision predicate itself: the open segment and never-expiring topics never qualify, whatever the clock says.
// label: C14.open.lemma
pub proof fn lemma_open_or_never_not_expired(s: Segment, now: int)
    requires !s.is_closed || s.message_expiry is NeverExpire || s.message_expiry is ServerDefault,
    ensures !seg_expired(s, now),
{}

// A message younger than the expiry is not expired — over mathematical integers, so also for the accepted expiry values
// close to u64::MAX (the F17 witness: ts = 1_700_000_000_000_000 µs, d = u64::MAX - 1 µs, one second later).
// label: C14.dec.young.lemma
pub proof fn lemma_young_not_expired(s: Segment, now: int)
    requires s.message_expiry is ExpireDuration, seg_last_ts(s) is Some,
        seg_last_ts(s)->0 + s.message_expiry->ExpireDuration_0.micros > now,
    ensures !seg_expired(s, now),
{}

// label: C14.dec.f17-witness
pub proof fn lemma_f17_numbers(s: Segment)
    requires s.is_closed, s.message_expiry == IggyExpiry::ExpireDuration(IggyDuration { micros: 0xFFFF_FFFF_FFFF_FFFE }),
        seg_last_ts(s) == Some(1_700_000_000_000_000u64),
    ensures !seg_expired(s, 1_700_000_001_000_000),
        // what a wrapping u64 addition computes instead: (ts + d) mod 2^64 = ts - 2 <= now
        (1_700_000_000_000_000 + 0xFFFF_FFFF_FFFF_FFFE) - 0x1_0000_0000_0000_0000 <= 1_700_000_001_000_000,
{}

// Expiry is monotone in the clock: once expired, expired at every later reading. Hence over a history of passes with
// non-decreasing clock readings a segment that is unexpired at the last reading was unexpired at every earlier one and
// is protected by [C14.only.pass] in each of them.
// label: C14.dec.monotone
pub proof fn lemma_expired_monotone(s: Segment, n1: int, n2: int)
    requires seg_expired(s, n1), n1 <= n2,
    ensures seg_expired(s, n2),
{}

// "nothing is left" in block_ok means exactly: every segment of the partition was listed.
// label: C14.only.all-listed
pub proof fn lemma_keep_empty_iff_all_listed(segs: Seq<Segment>, lo: Seq<u64>)
    ensures (seq_keep(segs, not_listed(lo)).len() == 0) <==> (forall|i: int| 0 <= i < segs.len() ==> lo.contains((#[trigger] segs[i]).start_offset)),
{
    lemma_keep_props(segs, not_listed(lo));
    let k = seq_keep(segs, not_listed(lo));
    if k.len() == 0 {
        assert forall|i: int| 0 <= i < segs.len() implies lo.contains((#[trigger] segs[i]).start_offset) by {
            if !lo.contains(segs[i].start_offset) {
                assert(not_listed(lo)(segs[i]));
                let j = lemma_keep_dst(segs, not_listed(lo), i);
            }
        }
    }
    if forall|i: int| 0 <= i < segs.len() ==> lo.contains((#[trigger] segs[i]).start_offset) {
        if k.len() > 0 {
            let i = lemma_keep_src(segs, not_listed(lo), 0);
            assert(!lo.contains(segs[i].start_offset));
        }
    }
}

// The offset a partition hands to its next message ([C01]'s next(p)).
pub open spec fn next_offset(p: Partition) -> int {
    if p.should_increment_offset { p.current_offset + 1 } else { 0 }
}

// [C14.off]: a processed partition hands out the same next offset as before; and when retention removed every segment,
// the replacement segment starts exactly there (so the next message continues at the next offset, no rewind, no gap).
// label: C14.off.next.lemma
pub proof fn lemma_block_ok_next(p0: Partition, p1: Partition, lo: Seq<u64>)
    requires block_ok(p0, p1, lo),
    ensures
        next_offset(p1) == next_offset(p0),
        (seq_keep(p0.segments@, not_listed(lo)).len() == 0 && p0.should_increment_offset) ==>
            p1.segments@.len() == 1 && p1.segments@[0].start_offset == next_offset(p1) && !p1.segments@[0].is_closed
            && p1.segments@[0].current_offset == p1.segments@[0].start_offset && p1.segments@[0].size_bytes == 0,
{}

// What survives a successful entry is exactly what was not listed — nothing else is removed, nothing is added,
// order and content are kept ([C14.only], exact direction), unless everything was listed.
// label: C14.only.exact.lemma
pub proof fn lemma_block_ok_exact(p0: Partition, p1: Partition, lo: Seq<u64>)
    requires block_ok(p0, p1, lo), seq_keep(p0.segments@, not_listed(lo)).len() > 0,
    ensures
        forall|j: int| 0 <= j < p1.segments@.len() ==> !lo.contains((#[trigger] p1.segments@[j]).start_offset)
            && exists|i: int| 0 <= i < p0.segments@.len() && p0.segments@[i] == p1.segments@[j],
        forall|i: int| 0 <= i < p0.segments@.len() && !lo.contains((#[trigger] p0.segments@[i]).start_offset)
            ==> exists|j: int| 0 <= j < p1.segments@.len() && p1.segments@[j] == p0.segments@[i],
        segs_sorted(p0.segments@) ==> segs_sorted(p1.segments@),
{
    lemma_keep_props(p0.segments@, not_listed(lo));
    if segs_sorted(p0.segments@) { lemma_keep_sorted(p0.segments@, not_listed(lo)); }
    assert forall|j: int| 0 <= j < p1.segments@.len() implies !lo.contains((#[trigger] p1.segments@[j]).start_offset)
        && exists|i: int| 0 <= i < p0.segments@.len() && p0.segments@[i] == p1.segments@[j] by {
        assert(not_listed(lo)(seq_keep(p0.segments@, not_listed(lo))[j]));
    }
    assert forall|i: int| 0 <= i < p0.segments@.len() && !lo.contains((#[trigger] p0.segments@[i]).start_offset)
        implies exists|j: int| 0 <= j < p1.segments@.len() && p1.segments@[j] == p0.segments@[i] by {
        assert(not_listed(lo)(p0.segments@[i]));
    }
}

// A pass over a never-expiring topic (or with the cleaner off) is the identity on every partition — stated as a
// consequence of the pass contract's frame for the record: unchanged partitions trivially satisfy [C14.only.pass].
// label: C14.only.pass.refl
pub proof fn lemma_unchanged_pass_only_expired(t: Topic, now: int)
    ensures pass_only_expired(t, t, now),
{
    lemma_pass_refl(t, now);
}

// The representation invariant assumed by the pass is re-established by it — as long as the partition's LAST segment
// is not deleted while older ones stay (then everything that remains is a prefix-complement of the list), or
// everything was deleted and the fresh replacement is the only segment. (Not covered: a pass that removes the last
// closed segment but keeps an older one, which needs last-message timestamps that decrease from one segment to the next.)
// label: C14.wf.preserved
pub proof fn lemma_block_ok_wf(p0: Partition, p1: Partition, lo: Seq<u64>)
    requires part_wf(p0), block_ok(p0, p1, lo),
        seq_keep(p0.segments@, not_listed(lo)).len() == 0 || !lo.contains(p0.segments@.last().start_offset),
    ensures part_wf(p1),
{
    let a = p0.segments@;
    let k = seq_keep(a, not_listed(lo));
    if k.len() > 0 {
        lemma_keep_sorted(a, not_listed(lo));
        assert forall|j: int| 0 <= j < k.len() implies seg_wf(#[trigger] k[j]) by {
            let i = lemma_keep_src(a, not_listed(lo), j);
        }
        assert(not_listed(lo)(a.last()));
        assert(k == seq_keep(a.drop_last(), not_listed(lo)).push(a.last()));
        assert(k.last() == a.last());
    } else {
        reveal(segs_sorted);
        assert(p1.segments@.last() == p1.segments@[0]);
    }
}
