// ---- lemmas: retention (C14) — proved on every run, spec level only ----

// The decision predicate itself: the open segment and never-expiring topics never qualify, whatever the clock says.
// label: C14.open.lemma
pub proof fn lemma_open_or_never_not_expired(s: Segment, now: int)
    requires !s.is_closed || s.message_expiry is NeverExpire || s.message_expiry is ServerDefault,
    ensures !seg_expired(s, now),
{}

// A message younger than the expiry is not expired — over mathematical integers, so also for the accepted expiry values
// close to u64::MAX (the F17 witness: ts = 1_700_000_000_000_000 µs, d = u64::MAX - 1 µs, one second later).
// label: C14.dec.young.lemma
pub proof fn lemma_young_not_expired(s: Segment, now: int)
    requires s.message_expiry is ExpireDuration, seg_last_ts(s) is Some,
        seg_last_ts(s)->0 + s.message_expiry->ExpireDuration_0.micros > now,
    ensures !seg_expired(s, now),
{}

// label: C14.dec.f17-witness
pub proof fn lemma_f17_numbers(s: Segment)
    requires s.is_closed, s.message_expiry == IggyExpiry::ExpireDuration(IggyDuration { micros: 0xFFFF_FFFF_FFFF_FFFE }),
        seg_last_ts(s) == Some(1_700_000_000_000_000u64),
    ensures !seg_expired(s, 1_700_000_001_000_000),
        // what a wrapping u64 addition computes instead: (ts + d) mod 2^64 = ts - 2 <= now
        (1_700_000_000_000_000 + 0xFFFF_FFFF_FFFF_FFFE) - 0x1_0000_0000_0000_0000 <= 1_700_000_001_000_000,
{}

// Expiry is monotone in the clock: once expired, expired at every later reading. Hence over a history of passes with
// non-decreasing clock readings a segment that is unexpired at the last reading was unexpired at every earlier one and
// is protected by [C14.only.pass] in each of them.
// label: C14.dec.monotone
pub proof fn lemma_expired_monotone(s: Segment, n1: int, n2: int)
    requires seg_expired(s, n1), n1 <= n2,
    ensures seg_expired(s, n2),
{}

// "nothing is left" in block_ok means exactly: every segment of the partition was listed.
// label: C14.only.all-listed
pub proof fn lemma_keep_empty_iff_all_listed(segs: Seq<Segment>, lo: Seq<u64>)
    ensures (seq_keep(segs, not_listed(lo)).len() == 0) <==> (forall|i: int| 0 <= i < segs.len() ==> lo.contains((#[trigger] segs[i]).start_offset)),
{
    lemma_keep_props(segs, not_listed(lo));
    let k = seq_keep(segs, not_listed(lo));
    if k.len() == 0 {
        assert forall|i: int| 0 <= i < segs.len() implies lo.contains((#[trigger] segs[i]).start_offset) by {
            if !lo.contains(segs[i].start_offset) {
                assert(not_listed(lo)(segs[i]));
                let j = lemma_keep_dst(segs, not_listed(lo), i);
            }
        }
    }
    if forall|i: int| 0 <= i < segs.len() ==> lo.contains((#[trigger] segs[i]).start_offset) {
        if k.len() > 0 {
            let i = lemma_keep_src(segs, not_listed(lo), 0);
            assert(!lo.contains(segs[i].start_offset));
        }
    }
}

// The offset a partition hands to its next message ([C01]'s next(p)).
pub open spec fn next_offset(p: Partition) -> int {
    if p.should_increment_offset { p.current_offset + 1 } else { 0 }
}

// [C14.off]: a processed partition hands out the same next offset as before; and when retention removed every segment,
// the replacement segment starts exactly there (so the next message continues at the next offset, no rewind, no gap).
// label: C14.off.next.lemma
pub proof fn lemma_block_ok_next(p0: Partition, p1: Partition, lo: Seq<u64>)
    requires block_ok(p0, p1, lo),
    ensures
        next_offset(p1) == next_offset(p0),
        (seq_keep(p0.segments@, not_listed(lo)).len() == 0 && p0.should_increment_offset) ==>
            p1.segments@.len() == 1 && p1.segments@[0].start_offset == next_offset(p1) && !p1.segments@[0].is_closed
            && p1.segments@[0].current_offset == p1.segments@[0].start_offset && p1.segments@[0].size_bytes == 0,
{}

// What survives a successful entry is exactly what was not listed — nothing else is removed, nothing is added,
// order and content are kept ([C14.only], exact direction), unless everything was listed.
// label: C14.only.exact.lemma
pub proof fn lemma_block_ok_exact(p0: Partition, p1: Partition, lo: Seq<u64>)
    requires block_ok(p0, p1, lo), seq_keep(p0.segments@, not_listed(lo)).len() > 0,
    ensures
        forall|j: int| 0 <= j < p1.segments@.len() ==> !lo.contains((#[trigger] p1.segments@[j]).start_offset)
            && exists|i: int| 0 <= i < p0.segments@.len() && p0.segments@[i] == p1.segments@[j],
        forall|i: int| 0 <= i < p0.segments@.len() && !lo.contains((#[trigger] p0.segments@[i]).start_offset)
            ==> exists|j: int| 0 <= j < p1.segments@.len() && p1.segments@[j] == p0.segments@[i],
        segs_sorted(p0.segments@) ==> segs_sorted(p1.segments@),
{
    lemma_keep_props(p0.segments@, not_listed(lo));
    if segs_sorted(p0.segments@) { lemma_keep_sorted(p0.segments@, not_listed(lo)); }
    assert forall|j: int| 0 <= j < p1.segments@.len() implies !lo.contains((#[trigger] p1.segments@[j]).start_offset)
        && exists|i: int| 0 <= i < p0.segments@.len() && p0.segments@[i] == p1.segments@[j] by {
        assert(not_listed(lo)(seq_keep(p0.segments@, not_listed(lo))[j]));
    }
    assert forall|i: int| 0 <= i < p0.segments@.len() && !lo.contains((#[trigger] p0.segments@[i]).start_offset)
        implies exists|j: int| 0 <= j < p1.segments@.len() && p1.segments@[j] == p0.segments@[i] by {
        assert(not_listed(lo)(p0.segments@[i]));
    }
}

// A pass over a never-expiring topic (or with the cleaner off) is the identity on every partition — stated as a
// consequence of the pass contract's frame for the record: unchanged partitions trivially satisfy [C14.only.pass].
// label: C14.only.pass.refl
pub proof fn lemma_unchanged_pass_only_expired(t: Topic, now: int)
    ensures pass_only_expired(t, t, now),
{
    lemma_pass_refl(t, now);
}

// The representation invariant assumed by the pass is re-established by it — as long as the partition's LAST segment
// is not deleted while older ones stay (then everything that remains is a prefix-complement of the list), or
// everything was deleted and the fresh replacement is the only segment. (Not covered: a pass that removes the last
// closed segment but keeps an older one, which needs last-message timestamps that decrease from one segment to the next.)
// label: C14.wf.preserved
pub proof fn lemma_block_ok_wf(p0: Partition, p1: Partition, lo: Seq<u64>)
    requires part_wf(p0), block_ok(p0, p1, lo),
        seq_keep(p0.segments@, not_listed(lo)).len() == 0 || !lo.contains(p0.segments@.last().start_offset),
    ensures part_wf(p1),
{
    let a = p0.segments@;
    let k = seq_keep(a, not_listed(lo));
    if k.len() > 0 {
        lemma_keep_sorted(a, not_listed(lo));
        assert forall|j: int| 0 <= j < k.len() implies seg_wf(#[trigger] k[j]) by {
            let i = lemma_keep_src(a, not_listed(lo), j);
        }
        assert(not_listed(lo)(a.last()));
        assert(k == seq_keep(a.drop_last(), not_listed(lo)).push(a.last()));
        assert(k.last() == a.last());
    } else {
        reveal(segs_sorted);
        assert(p1.segments@.last() == p1.segments@[0]);
    }
}

// ---- LINK harnesses: the contracts other units ASSUME for functions proved here, proved from the real ones ---------------------
// Each harness has the assuming unit's stub signature, its `requires` / `ensures` copied VERBATIM from that unit's prelude.rs, and a
// body that is ONE call of the real extracted function: Verus proves "real contract ==> assumed contract" on every run.
// A later edit of a stub has to be mirrored here (and vice versa). The assuming units keep fewer fields of Segment / Partition than
// this unit: their equalities / `contains` on segments are the projections of the ones proved here.
impl Partition {
    // copied from units/topic_limit/prelude.rs, stub `Partition::add_persisted_segment`
    // label: C14.link.topic_limit.add_persisted_segment
    pub fn link_topic_limit_add_persisted_segment(&mut self, start_offset: u64) -> (r: Result<(), IggyError>)
        ensures
            final(self).partition_id == old(self).partition_id,
            forall|j: int| 0 <= j < old(self).segments@.len() ==> final(self).segments@.contains(#[trigger] old(self).segments@[j]),
            forall|j: int| 0 <= j < final(self).segments@.len() ==> old(self).segments@.contains(#[trigger] final(self).segments@[j]) || final(self).segments@[j].end_offset == 0,
            // (added by the link, so that the invariant delete_segment requires survives the replacement of an emptied partition's segments)
            segs_range_ok(old(self).segments@) ==> segs_range_ok(final(self).segments@),
            (segs_strict(old(self).segments@) && forall|i: int| 0 <= i < old(self).segments@.len() ==> (#[trigger] old(self).segments@[i]).start_offset < start_offset)
                ==> segs_strict(final(self).segments@),
    {
        proof { reveal(segs_sorted); }
        let r = self.add_persisted_segment(start_offset);
        proof {
            if r is Ok {
                let ns = choose|ns: Segment| fresh_segment(ns, start_offset, old(self).message_expiry, *old(self).config)
                    && #[trigger] old(self).segments@.push(ns).to_multiset() == self.segments@.to_multiset();
                lemma_perm_push_contains(self.segments@, old(self).segments@, ns);
                if segs_range_ok(old(self).segments@) {
                    assert forall|j: int| 0 <= j < self.segments@.len() implies seg_range_ok(#[trigger] self.segments@[j]) by {
                        if old(self).segments@.contains(self.segments@[j]) {
                            let k = choose|k: int| 0 <= k < old(self).segments@.len() && old(self).segments@[k] == self.segments@[j];
                            assert(seg_range_ok(old(self).segments@[k]));
                        }
                    }
                }
            }
        }
        r
    }

    // copied from units/topic_limit/prelude.rs, stub `Partition::delete_segment`
    // label: C14.link.topic_limit.delete_segment
    pub fn link_topic_limit_delete_segment(&mut self, start_offset: u64) -> (r: Result<DeletedSegment, IggyError>)
        requires
            segs_strict(old(self).segments@), segs_range_ok(old(self).segments@),
        ensures
            segs_strict(final(self).segments@) && segs_range_ok(final(self).segments@),
            final(self).partition_id == old(self).partition_id,
            forall|j: int| 0 <= j < old(self).segments@.len() && (#[trigger] old(self).segments@[j]).start_offset != start_offset
                ==> final(self).segments@.contains(old(self).segments@[j]),
            r is Ok ==> forall|j: int| 0 <= j < final(self).segments@.len() ==> old(self).segments@.contains(#[trigger] final(self).segments@[j]),
            r is Ok ==> r->Ok_0.messages_count <= 0x1_0000_0000
                && exists|i: int| 0 <= i < old(self).segments@.len() && (#[trigger] old(self).segments@[i]).start_offset == start_offset
                    && r->Ok_0.end_offset == old(self).segments@[i].end_offset,
    {
        proof { reveal(segs_sorted); }
        let r = self.delete_segment(start_offset);
        proof {
            let a = old(self).segments@; let b = self.segments@;
            if r is Ok {
                // exactly the segments with another start offset are kept, in order
                assert forall|j: int| 0 <= j < a.len() && (#[trigger] a[j]).start_offset != start_offset implies b.contains(a[j]) by {
                    assert(not_start(start_offset)(a[j]));
                    let k = lemma_keep_dst(a, not_start(start_offset), j);
                }
                assert forall|j: int| 0 <= j < b.len() implies a.contains(#[trigger] b[j]) by {
                    let i = lemma_keep_src(a, not_start(start_offset), j);
                }
            } else {
                // a failed delete leaves every segment in place; only the target may have lost its file handles
                reveal(segs_same_except);
                assert forall|j: int| 0 <= j < a.len() && (#[trigger] a[j]).start_offset != start_offset implies b.contains(a[j]) by {
                    assert(b[j] == a[j]);
                }
            }
        }
        r
    }
}

// a rearrangement of `b.push(x)` holds every element of b, and nothing but elements of b and x
pub proof fn lemma_perm_push_contains<T>(a: Seq<T>, b: Seq<T>, x: T)
    requires b.push(x).to_multiset() == a.to_multiset(),
    ensures
        forall|j: int| 0 <= j < b.len() ==> a.contains(#[trigger] b[j]),
        forall|j: int| 0 <= j < a.len() ==> b.contains(#[trigger] a[j]) || a[j] == x,
{
    let bx = b.push(x);
    a.to_multiset_ensures();
    bx.to_multiset_ensures();
    assert forall|j: int| 0 <= j < b.len() implies a.contains(#[trigger] b[j]) by {
        assert(bx[j] == b[j]);
        assert(bx.contains(b[j]));
        assert(bx.to_multiset().count(b[j]) > 0);
        assert(a.to_multiset().count(b[j]) > 0);
    }
    assert forall|j: int| 0 <= j < a.len() implies b.contains(#[trigger] a[j]) || a[j] == x by {
        assert(a.contains(a[j]));
        assert(a.to_multiset().count(a[j]) > 0);
        assert(bx.to_multiset().count(a[j]) > 0);
        assert(bx.contains(a[j]));
        let k = choose|k: int| 0 <= k < bx.len() && bx[k] == a[j];
        if k < b.len() { assert(b[k] == a[j]); }
    }
}

impl Partition {
    // copied from units/offsets/prelude.rs, stub `Partition::add_persisted_segment`: its `requires`, its Err clause and its FIRST Ok
    // clause (the second Ok clause — seg_wf / seg_msgs of vx/prelude/segview.rs over the file views of the handles — rests on A-io of
    // Segment::persist and cannot be written with this unit's opaque handles: still assumed there).
    // `last_seg` / `segs_sorted_strict` are vx/prelude/segview.rs, repeated below word for word.
    // label: C14.link.offsets.add_persisted_segment
    pub fn link_offsets_add_persisted_segment(&mut self, start_offset: u64) -> (r: Result<(), IggyError>)
        requires forall|i: int| 0 <= i < old(self).segments@.len() ==> (#[trigger] old(self).segments@[i]).start_offset < start_offset,
            segs_sorted_strict(old(self).segments@),
        ensures
            r is Err ==> *final(self) == *old(self),
            r is Ok ==> {
                &&& final(self).segments@.len() == old(self).segments@.len() + 1
                &&& forall|i: int| 0 <= i < old(self).segments@.len() ==> final(self).segments@[i] == old(self).segments@[i]
                &&& last_seg(final(self)).start_offset == start_offset
                &&& last_seg(final(self)).current_offset == start_offset && !last_seg(final(self)).is_closed
                &&& last_seg(final(self)).size_bytes == 0
                &&& last_seg(final(self)).unsaved_messages is None
                &&& last_seg(final(self)).last_index_position == 0
                &&& *final(self) == (Partition { segments: final(self).segments, segments_count_of_parent_stream: final(self).segments_count_of_parent_stream, ..*old(self) })
            },
    {
        proof { reveal(segs_sorted); }
        let r = self.add_persisted_segment(start_offset);
        proof {
            if r is Ok {
                assert(self.segments@.drop_last() == old(self).segments@);
                assert forall|i: int| 0 <= i < old(self).segments@.len() implies self.segments@[i] == old(self).segments@[i] by {
                    assert(self.segments@.drop_last()[i] == self.segments@[i]);
                }
            }
        }
        r
    }
}
// (vocabulary of vx/prelude/segview.rs used by the copied clauses)
pub open spec fn last_seg(p: &Partition) -> &Segment { &p.segments@[p.segments@.len() - 1] }
pub open spec fn segs_sorted_strict(s: Seq<Segment>) -> bool {
    forall|i: int, j: int| 0 <= i < j < s.len() ==> (#[trigger] s[i]).start_offset < (#[trigger] s[j]).start_offset
}
// (vocabulary of units/topic_limit/prelude.rs used by the copied clauses, repeated word for word; seg_range_ok is this unit's seg_wf,
//  segs_strict this unit's segs_sorted without the opacity)
pub open spec fn segs_strict(s: Seq<Segment>) -> bool {
    forall|i: int, j: int| 0 <= i < j < s.len() ==> (#[trigger] s[i]).start_offset < (#[trigger] s[j]).start_offset
}
pub open spec fn seg_range_ok(s: Segment) -> bool {
    s.start_offset <= s.current_offset && s.current_offset - s.start_offset < 0x1_0000_0000 && s.end_offset < u64::MAX
}
pub open spec fn segs_range_ok(s: Seq<Segment>) -> bool { forall|i: int| 0 <= i < s.len() ==> seg_range_ok(#[trigger] s[i]) }

impl Segment {
    // `spec_is_expired` is an UNINTERPRETED function of (segment, now) in units offsets / recovery ("the decision is the business of C14");
    // here it is the decision this unit proves, [C14.dec]
    pub open spec fn spec_is_expired(&self, now: IggyTimestamp) -> bool { seg_expired(*self, now.micros as int) }

    // copied from units/offsets/prelude.rs, stub `Segment::is_expired`
    // label: C14.link.offsets.is_expired
    pub fn link_offsets_is_expired(&self, now: IggyTimestamp) -> (r: bool)
        ensures r == self.spec_is_expired(now), !self.is_closed ==> !r,
    {
        self.is_expired(now)
    }
    // copied from units/recovery/prelude.rs, stub `Segment::is_expired`
    // label: C14.link.recovery.is_expired
    pub fn link_recovery_is_expired(&self, now: IggyTimestamp) -> (r: bool)
        ensures r == self.spec_is_expired(now), !self.is_closed ==> !r,
    {
        self.is_expired(now)
    }
}
