// ---- lemmas: size_eq ----
// peeling the first message off a suffix
pub proof fn lemma_total_charge_tail(s: Seq<Message>, i: int)
    requires 0 <= i <= s.len(),
    ensures
        i < s.len() ==> total_charge(s.subrange(i, s.len() as int)) == charge(s[i]) + total_charge(s.subrange(i + 1, s.len() as int)),
        i == s.len() ==> total_charge(s.subrange(i, s.len() as int)) == 0,
    decreases s.len() - i,
{
    let t = s.subrange(i, s.len() as int);
    if i < s.len() {
        if i + 1 == s.len() {
            assert(t.drop_last() =~= Seq::<Message>::empty());
            assert(s.subrange(i + 1, s.len() as int) =~= Seq::<Message>::empty());
        } else {
            // t = [s[i]] + u ; peel the LAST element of both and use induction on the shorter sequence s.drop_last()
            let s2 = s.drop_last();
            lemma_total_charge_tail(s2, i);
            assert(t.drop_last() =~= s2.subrange(i, s2.len() as int));
            assert(s.subrange(i + 1, s.len() as int).drop_last() =~= s2.subrange(i + 1, s2.len() as int));
            assert(t.last() == s.last());
            assert(s.subrange(i + 1, s.len() as int).last() == s.last());
        }
    }
}
pub proof fn lemma_total_charge_push(s: Seq<Message>, m: Message)
    ensures total_charge(s.push(m)) == total_charge(s) + charge(m),
{
    assert(s.push(m).drop_last() =~= s);
}

// what is charged for the kept messages is the number of bytes their retained forms occupy in the log (A-size-eq per message)
// label: C16.size-eq.bytes
pub proof fn lemma_charge_is_stored_size(r: Seq<RetainedMessage>, kept: Seq<Message>, base: int)
    requires retained_as(r, kept, base),
    ensures total_size(r) == total_charge(kept),
    decreases r.len(),
{
    if r.len() > 0 {
        assert(retained_as(r.drop_last(), kept.drop_last(), base));
        lemma_charge_is_stored_size(r.drop_last(), kept.drop_last(), base);
        axiom_size_eq(r.last(), kept.last());
    }
}
