// ---- unit prelude: size_eq (C16: the size charged on append is the size of what is actually stored) ----
// charge(m): the bytes one message is charged on append = Message::get_size_bytes() + POLLED_MESSAGE_METADATA, which is
// also its encoded length in the log (assumption A-size-eq of unit.toml)
pub uninterp spec fn charge(m: Message) -> nat;
#[verifier::external_body]
pub proof fn axiom_charge_min(m: Message)
    ensures charge(m) >= POLLED_MESSAGE_METADATA,      // get_size_bytes() is unsigned
{}
// A-size-eq (assumption, listed): per message, the charge equals the encoded length on disk (`msg_size` of
// vx/prelude/storage.rs, the unit of `file_bytes` in unit recovery): 45 + headers + payload on both sides
#[verifier::external_body]
pub proof fn axiom_size_eq(r: RetainedMessage, m: Message)
    requires r.id == m.id, r.content == m.content,
    ensures msg_size(r) == charge(m),
{}
pub open spec fn total_charge(s: Seq<Message>) -> nat
    decreases s.len(),
{
    if s.len() == 0 { 0 } else { total_charge(s.drop_last()) + charge(s.last()) }
}
impl Message {
    // sdk::messages::send_messages::Message::get_size_bytes (Sizeable): headers + id + length field + payload
    #[verifier::external_body]
    pub fn get_size_bytes(&self) -> (r: u64)
        ensures r + POLLED_MESSAGE_METADATA == charge(*self),
    { unimplemented!() }
}

// --- deduplication oracle (same vocabulary as unit offsets) ---
pub open spec fn kept_prefix(seen0: Set<u128>, msgs: Seq<Message>, n: int) -> (Seq<Message>, Set<u128>)
    decreases n,
{
    if n <= 0 { (Seq::empty(), seen0) } else {
        let (k, s) = kept_prefix(seen0, msgs, n - 1);
        let m = msgs[n - 1];
        if s.contains(m.id) { (k, s) } else { (k.push(m), s.insert(m.id)) }
    }
}
pub open spec fn dedup_seen(p: &Partition) -> Set<u128> { p.message_deduplicator->0.cache.seen() }
pub open spec fn kept_of(p: &Partition, msgs: Seq<Message>) -> Seq<Message> {
    if p.message_deduplicator is Some { kept_prefix(dedup_seen(p), msgs, msgs.len() as int).0 } else { msgs }
}
pub open spec fn retained_as(r: Seq<RetainedMessage>, kept: Seq<Message>, base: int) -> bool {
    &&& r.len() == kept.len()
    &&& forall|i: int| 0 <= i < r.len() ==> (#[trigger] r[i]).offset == base + i && r[i].id == kept[i].id && r[i].content == kept[i].content
}

impl Segment {
    // Segment::append_batch — ASSUMED here, PROVED in unit offsets ([C01.seg.closed], [C01.seg.append], [C16.append.sizes],
    // [C16.append.counts]): an open segment buffers exactly the batch and charges `batch_size` to its own size and to the
    // three shared size cells, `messages_count` to the three message cells.
    // LINKED: unit offsets proves exactly this contract of the real function (units/offsets/lemmas.rs, harness
    // [C16.link.size_eq.append_batch]; an edit here has to be mirrored there). The link added the last three preconditions: the
    // real function needs them (accumulator arithmetic; the `assert!` of BatchAccumulator::append on contiguity, R9) — the stub had
    // promised `r is Ok` for every open segment without them.
    #[verifier::external_body]
    pub fn append_batch(&mut self, batch_size: u64, messages_count: u32, batch: &[RetainedMessage]) -> (r: Result<(), IggyError>)
        requires
            batch@.len() > 0, batch@.len() == messages_count,
            old(self).size_bytes + batch_size <= u64::MAX,
            !old(self).is_closed ==> seg_wf(old(self)),
            old(self).unsaved_messages is Some ==> old(self).unsaved_messages->0.current_size + batch_size <= u64::MAX,
            !old(self).is_closed ==> contig(batch@, old(self).start_offset + seg_msgs(old(self)).len()),
        ensures
            old(self).is_closed ==> r is Err,
            !old(self).is_closed ==> r is Ok && seg_msgs(final(self)) == seg_msgs(old(self)) + batch@,
            r is Err ==> *final(self) == *old(self),
            r is Ok ==> final(self).size_bytes == old(self).size_bytes + batch_size,
            r is Ok ==> final(self).size_of_parent_stream.v == wadd(old(self).size_of_parent_stream.v, batch_size as int)
                && final(self).size_of_parent_topic.v == wadd(old(self).size_of_parent_topic.v, batch_size as int)
                && final(self).size_of_parent_partition.v == wadd(old(self).size_of_parent_partition.v, batch_size as int),
            r is Ok ==> final(self).messages_count_of_parent_partition.v == wadd(old(self).messages_count_of_parent_partition.v, batch@.len() as int),
    { unimplemented!() }
}
