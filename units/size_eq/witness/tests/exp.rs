//! Witness runs on the REAL crates for units size_eq / wiring / index_rebuild (same conventions as /verif/replay: each test asserts
//! the correct behaviour, so it FAILS while the defect is present and passes on the repaired tree).
//!   exp_a_dedup_size_drift                     F80  [C16.size-eq]           fails on /repo (334 reported vs 210 stored), passes with F80.diff
//!   exp_b_index_rebuild_equals_written_index   --   [C03.rebuild]           passes: the rebuilt index is byte-identical to the written one (no defect)
//!   exp_c_recreated_partition_segment_counter  F81  [C16.recreate.segcount] fails on /repo (counter 3 vs 2 segments held), passes with F81.diff
//! Run (copy to a scratch dir outside /verif first; path dependencies point at /repo):
//!   cp /repo/Cargo.lock . && CARGO_NET_OFFLINE=true CARGO_TARGET_DIR=/verif/build/replay-target cargo test --offline --test exp -- --test-threads 1 --nocapture
use bytes::Bytes;
use iggy::messages::send_messages::Message;
use iggy::utils::byte_size::IggyByteSize;
use iggy::utils::expiry::IggyExpiry;
use iggy::utils::sizeable::Sizeable;
use iggy::utils::timestamp::IggyTimestamp;
use server::configs::system::{CacheConfig, MessageDeduplicationConfig, PartitionConfig, SegmentConfig, SystemConfig};
use server::state::system::PartitionState;
use server::streaming::batching::appendable_batch_info::AppendableBatchInfo;
use server::streaming::partitions::partition::Partition;
use server::streaming::persistence::persister::{FileWithSyncPersister, PersisterKind};
use server::streaming::storage::SystemStorage;
use std::sync::atomic::{AtomicU32, AtomicU64, Ordering};
use std::sync::Arc;
use tempfile::TempDir;

fn cfg(dir: &TempDir, save: u32, seg: u64, dedup: bool, cache_indexes: bool) -> Arc<SystemConfig> {
    Arc::new(SystemConfig {
        path: dir.path().to_str().unwrap().to_string(),
        cache: CacheConfig { enabled: false, ..Default::default() },
        partition: PartitionConfig { messages_required_to_save: save, ..Default::default() },
        segment: SegmentConfig { size: IggyByteSize::from(seg), cache_indexes, ..Default::default() },
        message_deduplication: MessageDeduplicationConfig { enabled: dedup, ..Default::default() },
        ..Default::default()
    })
}
struct Cells { ms: Arc<AtomicU64>, mt: Arc<AtomicU64>, ss: Arc<AtomicU64>, st: Arc<AtomicU64>, sc: Arc<AtomicU32> }
fn cells() -> Cells { Cells { ms: Arc::new(AtomicU64::new(0)), mt: Arc::new(AtomicU64::new(0)), ss: Arc::new(AtomicU64::new(0)), st: Arc::new(AtomicU64::new(0)), sc: Arc::new(AtomicU32::new(0)) } }
async fn part(config: Arc<SystemConfig>, with_segment: bool, c: &Cells) -> Partition {
    let storage = Arc::new(SystemStorage::new(config.clone(), Arc::new(PersisterKind::FileWithSync(FileWithSyncPersister {}))));
    Partition::create(1, 1, 1, with_segment, config, storage, IggyExpiry::NeverExpire,
        c.ms.clone(), c.mt.clone(), c.ss.clone(), c.st.clone(), c.sc.clone(), IggyTimestamp::now()).await
}
async fn reload(config: Arc<SystemConfig>, c: &Cells) -> Partition {
    let mut p = part(config, false, c).await;
    p.load(PartitionState { id: 1, created_at: IggyTimestamp::now() }).await.expect("load");
    p
}
fn msgs(ids: &[u128]) -> Vec<Message> {
    ids.iter().enumerate().map(|(k, i)| Message::new(Some(*i), Bytes::from(format!("payload-{k:04}-{i:04}")), None)).collect()
}
async fn send(p: &mut Partition, ids: &[u128]) {
    let b = msgs(ids);
    let size = b.iter().map(|m| m.get_size_bytes()).sum::<IggyByteSize>();
    p.append_messages(AppendableBatchInfo::new(size, 1), b, None).await.expect("append");
}
fn report(tag: &str, p: &Partition, c: &Cells) -> (u64, u64, u64) {
    let seg_sizes: Vec<u64> = p.get_segments().iter().map(|s| s.size_bytes.as_bytes_u64()).collect();
    let files: Vec<u64> = p.get_segments().iter().map(|s| std::fs::metadata(&s.log_path).map(|m| m.len()).unwrap_or(0)).collect();
    let ps = p.size_bytes.load(Ordering::SeqCst);
    println!("{tag}: partition.size_bytes={ps} topic_size={} stream_size={} seg.size_bytes={seg_sizes:?} log_file_len={files:?} messages_count={} topic_msgs={} stream_msgs={} segcount={} current_offset={}",
        c.st.load(Ordering::SeqCst), c.ss.load(Ordering::SeqCst), p.messages_count.load(Ordering::SeqCst), c.mt.load(Ordering::SeqCst), c.ms.load(Ordering::SeqCst), c.sc.load(Ordering::SeqCst), p.current_offset);
    (ps, seg_sizes.iter().sum(), files.iter().sum())
}

/// (6) C16.size-eq / F19: deduplication on, batch with duplicate ids
#[tokio::test]
async fn exp_a_dedup_size_drift() {
    let dir = TempDir::new().unwrap();
    let config = cfg(&dir, 1000, 1_000_000_000, true, false);
    let c = cells();
    let mut p = part(config.clone(), true, &c).await;
    p.persist().await.unwrap();
    send(&mut p, &[1, 2, 2, 3, 1]).await; // 3 retained, 2 dropped
    report("A after send (buffered)", &p, &c);
    p.flush_unsaved_buffer(false).await.unwrap();
    tokio::time::sleep(std::time::Duration::from_millis(300)).await;
    let (ps, ss, fl) = report("A after flush", &p, &c);
    let polled = p.get_messages_by_offset(0, 100).await.unwrap();
    println!("A polled {} messages ids={:?}", polled.len(), polled.iter().map(|m| m.id).collect::<Vec<_>>());
    drop(p);
    let c2 = cells();
    let p2 = reload(config.clone(), &c2).await;
    let (ps2, ss2, fl2) = report("A after reload", &p2, &c2);
    println!("A RESULT before: partition.size={ps} seg.size={ss} file={fl}; after reload: partition.size={ps2} seg.size={ss2} file={fl2}");
    // control: the same without duplicates
    let dir = TempDir::new().unwrap();
    let config = cfg(&dir, 1000, 1_000_000_000, true, false);
    let c = cells();
    let mut p = part(config.clone(), true, &c).await;
    p.persist().await.unwrap();
    send(&mut p, &[1, 2, 3]).await;
    p.flush_unsaved_buffer(false).await.unwrap();
    tokio::time::sleep(std::time::Duration::from_millis(300)).await;
    let (cps, css, cfl) = report("A control (no duplicates) after flush", &p, &c);
    println!("A CONTROL partition.size={cps} seg.size={css} file={cfl}");
    assert_eq!(cps, cfl, "control: reported size equals file length");
    assert_eq!(ps, fl, "F19/F80: reported partition size {ps} differs from stored bytes {fl} (after reload it reports {ps2})");
}

/// (4) C03.rebuild: delete the index file of segments holding >= 2 stored batches, restart with cache_indexes on
#[tokio::test]
async fn exp_b_index_rebuild_equals_written_index() {
    let dir = TempDir::new().unwrap();
    // 5 messages per save; segment size small enough that a second segment (start_offset > 0) gets several batches
    let config = cfg(&dir, 5, 1000, false, true);
    let c = cells();
    let mut p = part(config.clone(), true, &c).await;
    p.persist().await.unwrap();
    let mut id = 1u128;
    for _ in 0..9 {
        let ids: Vec<u128> = (id..id + 5).collect();
        id += 5;
        send(&mut p, &ids).await;
    }
    p.flush_unsaved_buffer(false).await.unwrap();
    tokio::time::sleep(std::time::Duration::from_millis(300)).await;
    report("B before", &p, &c);
    let before = p.get_messages_by_offset(0, 1000).await.unwrap();
    let before_ids: Vec<(u64, u128)> = before.iter().map(|m| (m.offset, m.id)).collect();
    let mid = p.get_messages_by_offset(7, 20).await.unwrap().iter().map(|m| m.offset).collect::<Vec<_>>();
    let segs: Vec<(u64, String, String)> = p.get_segments().iter().map(|s| (s.start_offset, s.index_path.clone(), s.log_path.clone())).collect();
    println!("B segments: {:?}", segs.iter().map(|s| s.0).collect::<Vec<_>>());
    drop(p);
    let mut originals = vec![];
    for (start, ip, _lp) in &segs {
        let bytes = std::fs::read(ip).unwrap();
        println!("B segment {start}: index file {} bytes = {} records", bytes.len(), bytes.len() / 16);
        for r in bytes.chunks(16) {
            println!("    rec offset={} position={} ts={}", u32::from_le_bytes(r[0..4].try_into().unwrap()), u32::from_le_bytes(r[4..8].try_into().unwrap()), u64::from_le_bytes(r[8..16].try_into().unwrap()));
        }
        originals.push(bytes);
        std::fs::remove_file(ip).unwrap();
    }
    let c2 = cells();
    let p2 = reload(config.clone(), &c2).await;
    report("B after reload", &p2, &c2);
    for ((start, ip, _), orig) in segs.iter().zip(originals.iter()) {
        let bytes = std::fs::read(ip).unwrap();
        println!("B segment {start}: rebuilt index {} bytes, equal to written index: {}", bytes.len(), &bytes == orig);
        for r in bytes.chunks(16) {
            println!("    rec offset={} position={} ts={}", u32::from_le_bytes(r[0..4].try_into().unwrap()), u32::from_le_bytes(r[4..8].try_into().unwrap()), u64::from_le_bytes(r[8..16].try_into().unwrap()));
        }
        assert_eq!(&bytes, orig, "rebuilt index of segment {start} differs from the written one");
    }
    let after = p2.get_messages_by_offset(0, 1000).await.unwrap();
    let after_ids: Vec<(u64, u128)> = after.iter().map(|m| (m.offset, m.id)).collect();
    assert_eq!(before_ids, after_ids, "poll after rebuild differs");
    let mid2 = p2.get_messages_by_offset(7, 20).await.unwrap().iter().map(|m| m.offset).collect::<Vec<_>>();
    assert_eq!(mid, mid2);
    println!("B polls equal: {} messages; mid poll {:?}", after.len(), mid2);
}

/// F81 candidate: a partition that is in the state but whose directory is missing is recreated on topic load
/// (recovery.recreate_missing_state = true): stream-wide segment counter vs. segments actually held
#[tokio::test]
async fn exp_c_recreated_partition_segment_counter() {
    use ahash::AHashMap;
    use iggy::locking::IggySharedMutFn;
    use iggy::compression::compression_algorithm::CompressionAlgorithm;
    use iggy::utils::topic_size::MaxTopicSize;
    use server::configs::system::RecoveryConfig;
    use server::state::system::TopicState;
    use server::streaming::topics::topic::Topic;
    let dir = TempDir::new().unwrap();
    let config = Arc::new(SystemConfig {
        path: dir.path().to_str().unwrap().to_string(),
        cache: CacheConfig { enabled: false, ..Default::default() },
        recovery: RecoveryConfig { recreate_missing_state: true },
        ..Default::default()
    });
    let storage = Arc::new(SystemStorage::new(config.clone(), Arc::new(PersisterKind::FileWithSync(FileWithSyncPersister {}))));
    let (ss, ms, sc) = (Arc::new(AtomicU64::new(0)), Arc::new(AtomicU64::new(0)), Arc::new(AtomicU32::new(0)));
    // runtime: a topic with 2 partitions, persisted
    let topic = Topic::create(1, 1, "t", 2, config.clone(), storage.clone(), ss.clone(), ms.clone(), sc.clone(),
        IggyExpiry::NeverExpire, CompressionAlgorithm::None, MaxTopicSize::ServerDefault, 1).await.unwrap();
    topic.persist().await.unwrap();
    let held: u32 = { let mut n = 0; for p in topic.get_partitions() { n += p.read().await.get_segments_count(); } n };
    println!("C runtime: stream segments counter={} segments held={held}", sc.load(Ordering::SeqCst));
    assert_eq!(sc.load(Ordering::SeqCst), held);
    let p2 = config.get_partition_path(1, 1, 2);
    drop(topic);
    // the directory of partition 2 is lost
    std::fs::remove_dir_all(&p2).unwrap();
    // restart: fresh cells, Topic::empty + load with the state that still lists both partitions
    let (ss, ms, sc) = (Arc::new(AtomicU64::new(0)), Arc::new(AtomicU64::new(0)), Arc::new(AtomicU32::new(0)));
    let mut topic = Topic::empty(1, 1, "t", ss.clone(), ms.clone(), sc.clone(), config.clone(), storage.clone()).await;
    let mut partitions = AHashMap::new();
    partitions.insert(1, PartitionState { id: 1, created_at: IggyTimestamp::now() });
    partitions.insert(2, PartitionState { id: 2, created_at: IggyTimestamp::now() });
    topic.load(TopicState { id: 1, name: "t".to_string(), partitions, consumer_groups: AHashMap::new(),
        compression_algorithm: CompressionAlgorithm::None, message_expiry: IggyExpiry::NeverExpire, max_topic_size: MaxTopicSize::ServerDefault,
        replication_factor: Some(1), created_at: IggyTimestamp::now(), current_consumer_group_id: 0 }).await.unwrap();
    let held: u32 = { let mut n = 0; for p in topic.get_partitions() { n += p.read().await.get_segments_count(); } n };
    println!("C after restart with recreated partition 2: stream segments counter={} segments held={held}", sc.load(Ordering::SeqCst));
    assert_eq!(sc.load(Ordering::SeqCst), held, "F81: stream-wide segment counter differs from the number of segments held");
}
