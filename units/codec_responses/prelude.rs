// ---- unit prelude: codec_responses (C13): wire format of the binary RESPONSE payloads ----------------------------------------
// For every response there is ONE layout specification `enc` (field order, widths, little-endian integers, length prefixes) over
// a ghost VIEW of the response data. The server-side encoder (server/src/binary/mapper.rs) is proved to emit `enc(view(entity))`,
// the SDK-side decoder (sdk/src/binary/mapper.rs) is proved to map `enc(w)` to a value whose view is `w`.

global size_of usize == 8;

pub enum IggyError { InvalidNumberEncoding, InvalidUtf8, InvalidCommand, InvalidHeaderKey, InvalidHeaderValue, Other }

// ---- ConsumerOffsetInfo:  partition_id:u32 | current_offset:u64 | stored_offset:u64 ---------------------------------------------
impl Wire for ConsumerOffsetInfo {
    open spec fn enc(self) -> Seq<u8> { le32(self.partition_id) + le64(self.current_offset) + le64(self.stored_offset) }
}
pub proof fn lemma_consumer_offset_layout(w: ConsumerOffsetInfo)
    ensures
        w.enc().len() == 20,
        w.enc().subrange(0, 4) == le32(w.partition_id),
        w.enc().subrange(4, 12) == le64(w.current_offset),
        w.enc().subrange(12, 20) == le64(w.stored_offset),
{
    lemma_le_facts();
    assert(w.enc().subrange(0, 4) =~= le32(w.partition_id));
    assert(w.enc().subrange(4, 12) =~= le64(w.current_offset));
    assert(w.enc().subrange(12, 20) =~= le64(w.stored_offset));
}

// ---- IdentityInfo (login response):  user_id:u32           (the binary transport carries no access token) ----------------------
pub open spec fn enc_identity(user_id: u32) -> Seq<u8> { le32(user_id) }

// ---- stand-ins (R4) ------------------------------------------------------------------------------------------------------------------
// IggyTimestamp wraps std::time::SystemTime (nanosecond resolution). The wire carries `as_micros()`: whole microseconds since the
// epoch. The stand-in is opaque; its view is that number. `IggyTimestamp::from(u64)` builds the timestamp with that many microseconds.
#[verifier::external_body]
pub struct IggyTimestamp { t: u64 }
impl Clone for IggyTimestamp {
    #[verifier::external_body]
    fn clone(&self) -> (r: Self) ensures r == *self, { unimplemented!() }
}
impl Copy for IggyTimestamp {}
impl View for IggyTimestamp {
    type V = u64;
    uninterp spec fn view(&self) -> u64;
}
pub uninterp spec fn ts_of_micros(v: u64) -> IggyTimestamp;
#[verifier::external_body]
pub proof fn axiom_ts_of_micros(v: u64)
    ensures ts_of_micros(v)@ == v,
{}
impl IggyTimestamp {
    #[verifier::external_body]
    pub fn as_micros(&self) -> (r: u64) ensures r == self@, { unimplemented!() }
}
impl From<u64> for IggyTimestamp {
    #[verifier::external_body]
    fn from(v: u64) -> (r: Self) { unimplemented!() }
}
impl vstd::std_specs::convert::FromSpecImpl<u64> for IggyTimestamp {
    open spec fn obeys_from_spec() -> bool { true }
    open spec fn from_spec(v: u64) -> Self { ts_of_micros(v) }
}
impl From<IggyTimestamp> for u64 {
    fn from(t: IggyTimestamp) -> (r: u64) { t.as_micros() }
}
impl vstd::std_specs::convert::FromSpecImpl<IggyTimestamp> for u64 {
    open spec fn obeys_from_spec() -> bool { true }
    open spec fn from_spec(t: IggyTimestamp) -> u64 { t@ }
}

// IggyByteSize: a byte count (sdk/src/utils/byte_size.rs); From<u64> / as_bytes_u64 are mutually inverse
#[derive(Clone, Copy)]
pub struct IggyByteSize(pub u64);
impl From<u64> for IggyByteSize {
    fn from(byte_size: u64) -> (r: Self) { IggyByteSize(byte_size) }
}
impl vstd::std_specs::convert::FromSpecImpl<u64> for IggyByteSize {
    open spec fn obeys_from_spec() -> bool { true }
    open spec fn from_spec(v: u64) -> Self { IggyByteSize(v) }
}
impl IggyByteSize {
    pub fn as_bytes_u64(&self) -> (r: u64) ensures r == self.0, { self.0 }
    pub fn as_bytes_usize(&self) -> (r: usize) ensures r == self.0, { self.0 as usize }
}

// Permissions (sdk/src/models/permissions.rs): the codec pair Permissions::{to_bytes, from_bytes} is under contract in unit
// codec_requests2, whose contract blocks (permissions.vspec) are INCLUDED here (same text, verified again in this file); wire format,
// abstract content and lemmas: vx/prelude/wire_perm.rs. Names used by the user response:
//   perm_bytes(p)      what `to_bytes` emits for the record p: the layout for the order in which its maps iterate
//   perm_enc_ok(p, b)  b is an encoding of p (for SOME entry order)
//   perm_same(q, p)    q and p are equal as values (global flags, stream and topic maps; an absent map == an empty map)
pub open spec fn perm_bytes(p: Permissions) -> Seq<u8> { enc_permissions(p) }
pub open spec fn perm_enc_ok(p: Permissions, b: Seq<u8>) -> bool { enc_permissions_rel(p, b) }
pub open spec fn perm_same(q: Permissions, p: Permissions) -> bool { perm_eq(q, p) }
pub open spec fn perm_dec_ok(b: Seq<u8>, q: Permissions) -> bool { forall|p: Permissions| perm_enc_ok(p, b) ==> perm_same(q, p) }
// A-size: the encoding of a permissions record is shorter than 4 GiB (the response frames its length as u32)
#[verifier::external_body]
pub proof fn axiom_perm_size(p: Permissions)
    ensures perm_bytes(p).len() <= u32::MAX,
{}

// ---- R8 schemas on Vec (A-std): `v.sort_by(|a, b| a.K.cmp(&b.K))` is a stable ascending sort by key K: the result is a
// permutation of the input (index form, so that it lifts to views), sorted by K, and an already sorted input is left as it is.
pub open spec fn is_perm_index(p: Seq<int>, n: int) -> bool {
    &&& p.len() == n
    &&& forall|i: int| 0 <= i < n ==> 0 <= #[trigger] p[i] < n
    &&& forall|i: int, j: int| 0 <= i < j < n ==> p[i] != p[j]
}
pub open spec fn sorted_by_key<T>(s: Seq<T>, key: spec_fn(T) -> int) -> bool {
    forall|i: int, j: int| 0 <= i <= j < s.len() ==> key(#[trigger] s[i]) <= key(#[trigger] s[j])
}
// `b` is `a` rearranged: b[i] == a[p[i]] for an index permutation p
pub open spec fn rearranged<T>(a: Seq<T>, b: Seq<T>) -> bool {
    exists|p: Seq<int>| is_perm_index(p, a.len() as int) && b.len() == a.len() && forall|i: int| 0 <= i < b.len() ==> b[i] == a[#[trigger] p[i]]
}
// String keys: `Ord for String` is the bytewise lexicographic order - here an uninterpreted total preorder on the UTF-8 bytes
pub uninterp spec fn text_le(a: Seq<u8>, b: Seq<u8>) -> bool;
pub open spec fn sorted_by_text_key<T>(s: Seq<T>, key: spec_fn(T) -> Seq<u8>) -> bool {
    forall|i: int, j: int| 0 <= i <= j < s.len() ==> text_le(key(#[trigger] s[i]), key(#[trigger] s[j]))
}
pub trait VecSort<T> {
    spec fn sv(&self) -> Seq<T>;
    fn sort_by_text_key_spec(&mut self, key: Ghost<spec_fn(T) -> Seq<u8>>)
        ensures
            rearranged(old(self).sv(), final(self).sv()),
            sorted_by_text_key(final(self).sv(), key@),
            sorted_by_text_key(old(self).sv(), key@) ==> final(self).sv() == old(self).sv();
    fn sort_by_key_spec(&mut self, key: Ghost<spec_fn(T) -> int>)
        ensures
            rearranged(old(self).sv(), final(self).sv()),
            sorted_by_key(final(self).sv(), key@),
            sorted_by_key(old(self).sv(), key@) ==> final(self).sv() == old(self).sv();
}
impl<T> VecSort<T> for Vec<T> {
    open spec fn sv(&self) -> Seq<T> { self@ }
    #[verifier::external_body]
    fn sort_by_key_spec(&mut self, key: Ghost<spec_fn(T) -> int>) { unimplemented!() }
    #[verifier::external_body]
    fn sort_by_text_key_spec(&mut self, key: Ghost<spec_fn(T) -> Seq<u8>>) { unimplemented!() }
}

// ---- UserInfo (entry of the users list; head of the user response) --------------------------------------------------------------------
//   id:u32 | created_at:u64 (micros) | status:u8 | username_length:u8 | username[username_length]
pub open spec fn userstatus_code(s: UserStatus) -> u8 { match s { UserStatus::Active => 1, UserStatus::Inactive => 2 } }
impl vstd::std_specs::cmp::PartialEqSpecImpl for UserStatus {
    open spec fn obeys_eq_spec() -> bool { true }
    open spec fn eq_spec(&self, other: &UserStatus) -> bool { *self == *other }
}
pub ghost struct UserInfoV { pub id: u32, pub created_at: u64, pub status: UserStatus, pub username: Seq<u8> }
impl View for UserInfo {
    type V = UserInfoV;
    open spec fn view(&self) -> UserInfoV { UserInfoV { id: self.id, created_at: self.created_at@, status: self.status, username: self.username@ } }
}
impl Wire for UserInfoV {
    open spec fn enc(self) -> Seq<u8> {
        le32(self.id) + le64(self.created_at) + seq![userstatus_code(self.status), self.username.len() as u8] + self.username
    }
}
// what the server guarantees about a user name: at most 255 bytes (validated 3..=50 on create/update), valid UTF-8 (a Rust String)
pub open spec fn user_info_valid(w: UserInfoV) -> bool { w.username.len() <= 255 && utf8(w.username) }
// the response's view of the server entity
pub open spec fn user_view(u: User) -> UserInfoV { UserInfoV { id: u.id, created_at: u.created_at@, status: u.status, username: u.username@ } }
pub open spec fn user_views(s: Seq<&User>) -> Seq<UserInfoV> { Seq::new(s.len(), |i: int| user_view(*s[i])) }
pub open spec fn user_info_views(s: Seq<UserInfo>) -> Seq<UserInfoV> { Seq::new(s.len(), |i: int| s[i]@) }

pub proof fn lemma_user_info_at(buf: Seq<u8>, pos: int, w: UserInfoV)
    requires at_pos(buf, pos, w.enc()),
    ensures
        w.enc().len() == 14 + w.username.len(),
        pos + 14 + w.username.len() <= buf.len(),
        buf.subrange(pos, pos + 4) == le32(w.id),
        buf.subrange(pos + 4, pos + 12) == le64(w.created_at),
        buf[pos + 12] == userstatus_code(w.status),
        buf[pos + 13] == w.username.len() as u8,
        buf.subrange(pos + 14, pos + 14 + w.username.len()) == w.username,
{
    lemma_le_facts();
    let e = w.enc();
    let s = buf.subrange(pos, pos + e.len());
    assert(buf.subrange(pos, pos + 4) =~= s.subrange(0, 4));
    assert(e.subrange(0, 4) =~= le32(w.id));
    assert(buf.subrange(pos + 4, pos + 12) =~= s.subrange(4, 12));
    assert(e.subrange(4, 12) =~= le64(w.created_at));
    assert(buf[pos + 12] == s[12]);
    assert(buf[pos + 13] == s[13]);
    assert(buf.subrange(pos + 14, pos + 14 + w.username.len()) =~= s.subrange(14, 14 + w.username.len() as int));
    assert(e.subrange(14, 14 + w.username.len() as int) =~= w.username);
}

pub proof fn lemma_rearranged_refl<T>(a: Seq<T>)
    ensures rearranged(a, a),
{
    let p = Seq::new(a.len(), |i: int| i);
    assert(is_perm_index(p, a.len() as int));
    assert(forall|i: int| 0 <= i < a.len() ==> a[i] == a[#[trigger] p[i]]);
}

// ---- users list ---------------------------------------------------------------------------------------------------------------------
pub open spec fn users_valid(ws: Seq<UserInfoV>) -> bool { forall|i: int| 0 <= i < ws.len() ==> user_info_valid(#[trigger] ws[i]) }
pub open spec fn users_sorted(s: Seq<UserInfoV>) -> bool { forall|i: int, j: int| 0 <= i <= j < s.len() ==> (#[trigger] s[i]).id <= (#[trigger] s[j]).id }
pub proof fn lemma_users_nonempty(ws: Seq<UserInfoV>)
    ensures all_nonempty(ws),
{
    assert forall|i: int| 0 <= i < ws.len() implies (#[trigger] ws[i]).enc().len() > 0 by { lemma_le_facts(); }
}

// ---- user details (GetUser response):  UserInfo | permissions block ---------------------------------------------------------------
//   permissions block:  Some(p): 1:u8 | length:u32 | Permissions bytes[length]         None: 0:u32   (the decoder looks at the first byte)
pub open spec fn enc_perm_block(pb: Option<Seq<u8>>) -> Seq<u8> {
    match pb { Some(b) => seq![1u8] + le32(b.len() as u32) + b, None => le32(0) }
}
pub open spec fn enc_user_details(w: UserInfoV, pb: Option<Seq<u8>>) -> Seq<u8> { w.enc() + enc_perm_block(pb) }
pub open spec fn perm_block_valid(pb: Option<Seq<u8>>) -> bool {
    pb matches Some(b) ==> b.len() <= u32::MAX && exists|p: Permissions| perm_enc_ok(p, b)
}
pub open spec fn user_perm_bytes(u: User) -> Option<Seq<u8>> { match u.permissions { Some(p) => Some(perm_bytes(p)), None => None } }
pub open spec fn user_details_info(x: UserInfoDetails) -> UserInfoV {
    UserInfoV { id: x.id, created_at: x.created_at@, status: x.status, username: x.username@ }
}
// A-le: the first byte of the little-endian encoding of 0u32 is 0 (u32::to_le_bytes(0) == [0, 0, 0, 0]). vstd keeps the byte-level
// definition of spec_u32_to_le_bytes closed (only the round trip is exported), so this one concrete value is an explicit assumption.
#[verifier::external_body]
pub proof fn lemma_le32_zero()
    ensures le32(0u32).len() == 4 && le32(0u32)[0] == 0u8,
{}
pub proof fn lemma_user_details_layout(w: UserInfoV, pb: Option<Seq<u8>>)
    ensures
        ({
            let b = enc_user_details(w, pb);
            let n = 14 + w.username.len() as int;
            &&& at_pos(b, 0, w.enc())
            &&& w.enc().len() == n
            &&& match pb {
                    Some(pbytes) => b.len() == n + 5 + pbytes.len() && b[n] == 1 && b.subrange(n + 1, n + 5) == le32(pbytes.len() as u32)
                        && b.subrange(n + 5, n + 5 + pbytes.len() as int) == pbytes,
                    None => b.len() == n + 4 && b[n] == 0,
                }
        }),
{
    lemma_le_facts();
    lemma_le32_zero();
    let b = enc_user_details(w, pb);
    let n = 14 + w.username.len() as int;
    assert(b.subrange(0, n) =~= w.enc());
    match pb {
        Some(pbytes) => {
            assert(b.subrange(n + 1, n + 5) =~= le32(pbytes.len() as u32));
            assert(b.subrange(n + 5, n + 5 + pbytes.len() as int) =~= pbytes);
        },
        None => {},
    }
}

// u32 lists (partition ids of a consumer-group member)
impl Wire for u32 {
    open spec fn enc(self) -> Seq<u8> { le32(self) }
}
pub proof fn lemma_u32s_len(s: Seq<u32>)
    ensures enc_seq(s).len() == 4 * s.len(),
    decreases s.len(),
{
    lemma_le_facts();
    if s.len() > 0 { lemma_u32s_len(s.drop_last()); }
}
// entry k of a u32 list that sits at `pos`
pub proof fn lemma_u32s_at(buf: Seq<u8>, pos: int, s: Seq<u32>, k: int)
    requires at_pos(buf, pos, enc_seq(s)), 0 <= k < s.len(),
    ensures pos + 4 * k + 4 <= buf.len(), buf.subrange(pos + 4 * k, pos + 4 * k + 4) == le32(s[k]),
{
    lemma_le_facts();
    lemma_u32s_len(s);
    lemma_u32s_len(s.take(k));
    lemma_u32s_len(s.take(k + 1));
    lemma_enc_seq_take(s, k);
    lemma_enc_seq_take(s, k + 1);
    let e = enc_seq(s);
    let b = enc_seq(s.take(k + 1));
    assert(buf.subrange(pos + 4 * k, pos + 4 * k + 4) =~= e.subrange(4 * k, 4 * k + 4));
    assert(e.subrange(4 * k, 4 * k + 4) =~= b.subrange(4 * k, 4 * k + 4));
    assert(b.subrange(4 * k, 4 * k + 4) =~= le32(s[k]));
}

// ---- consumer group (list entry; head of the consumer-group response) -------------------------------------------------------------------
//   id:u32 | partitions_count:u32 | members_count:u32 | name_length:u8 | name[name_length]
pub ghost struct CgV { pub id: u32, pub partitions_count: u32, pub members_count: u32, pub name: Seq<u8> }
impl View for SdkConsumerGroup {
    type V = CgV;
    open spec fn view(&self) -> CgV { CgV { id: self.id, partitions_count: self.partitions_count, members_count: self.members_count, name: self.name@ } }
}
impl Wire for CgV {
    open spec fn enc(self) -> Seq<u8> {
        le32(self.id) + le32(self.partitions_count) + le32(self.members_count) + seq![self.name.len() as u8] + self.name
    }
}
pub open spec fn cg_valid(w: CgV) -> bool { w.name.len() <= 255 && utf8(w.name) }
pub open spec fn cgs_valid(ws: Seq<CgV>) -> bool { forall|i: int| 0 <= i < ws.len() ==> cg_valid(#[trigger] ws[i]) }
pub open spec fn cgs_sorted(s: Seq<CgV>) -> bool { forall|i: int, j: int| 0 <= i <= j < s.len() ==> (#[trigger] s[i]).id <= (#[trigger] s[j]).id }
pub open spec fn sdk_cg_views(s: Seq<SdkConsumerGroup>) -> Seq<CgV> { Seq::new(s.len(), |i: int| s[i]@) }

// server side: the member table of a group and the partition table of a member are reached through `get_members()` /
// `get_partitions()` (`self.members.values().collect()`, `self.partitions.values().copied().collect()`; both extracted): the values
// in the map's iteration order, which is an attribute of the (unmodified) map object (`key_order`, vx/prelude/mapiter.rs, A-std)
pub open spec fn map_values_seq<K, V>(m: HashMap<K, V>) -> Seq<V> { Seq::new(m.key_order().len(), |i: int| m@[m.key_order()[i]]) }
pub open spec fn cg_members(g: ConsumerGroup) -> Seq<ConsumerGroupMember> { map_values_seq(g.members) }
pub open spec fn member_partitions(m: ConsumerGroupMember) -> Seq<u32> { map_values_seq(m.partitions) }
impl<K, V: Copy> HashMap<K, V> {
    // `m.values().copied().collect()`: one copy per entry, in key_order
    #[verifier::external_body]
    pub fn values_copied_vec(&self) -> (r: Vec<V>)
        ensures
            keys_exactly(self@, self.key_order()),
            r@.len() == self.key_order().len(),
            forall|i: int| 0 <= i < r@.len() ==> #[trigger] r@[i] == self@[self.key_order()[i]],
    { unimplemented!() }
}
pub open spec fn cg_view(g: ConsumerGroup) -> CgV {
    CgV { id: g.group_id, partitions_count: g.partitions_count, members_count: cg_members(g).len() as u32, name: g.name@ }
}
pub open spec fn cg_views(s: Seq<&ConsumerGroup>) -> Seq<CgV> { Seq::new(s.len(), |i: int| cg_view(*s[i])) }

pub proof fn lemma_cg_at(buf: Seq<u8>, pos: int, w: CgV)
    requires at_pos(buf, pos, w.enc()),
    ensures
        w.enc().len() == 13 + w.name.len(),
        pos + 13 + w.name.len() <= buf.len(),
        buf.subrange(pos, pos + 4) == le32(w.id),
        buf.subrange(pos + 4, pos + 8) == le32(w.partitions_count),
        buf.subrange(pos + 8, pos + 12) == le32(w.members_count),
        buf[pos + 12] == w.name.len() as u8,
        buf.subrange(pos + 13, pos + 13 + w.name.len()) == w.name,
{
    lemma_le_facts();
    let e = w.enc();
    let s = buf.subrange(pos, pos + e.len());
    assert(buf.subrange(pos, pos + 4) =~= s.subrange(0, 4));
    assert(e.subrange(0, 4) =~= le32(w.id));
    assert(buf.subrange(pos + 4, pos + 8) =~= s.subrange(4, 8));
    assert(e.subrange(4, 8) =~= le32(w.partitions_count));
    assert(buf.subrange(pos + 8, pos + 12) =~= s.subrange(8, 12));
    assert(e.subrange(8, 12) =~= le32(w.members_count));
    assert(buf[pos + 12] == s[12]);
    assert(buf.subrange(pos + 13, pos + 13 + w.name.len()) =~= s.subrange(13, 13 + w.name.len() as int));
    assert(e.subrange(13, 13 + w.name.len() as int) =~= w.name);
}
pub proof fn lemma_cgs_nonempty(ws: Seq<CgV>)
    ensures all_nonempty(ws),
{
    assert forall|i: int| 0 <= i < ws.len() implies (#[trigger] ws[i]).enc().len() > 0 by { lemma_le_facts(); }
}

// ---- consumer-group member:  id:u32 | partitions_count:u32 | partition_id:u32 [partitions_count] ---------------------------------
pub ghost struct CgMemberV { pub id: u32, pub partitions_count: u32, pub partitions: Seq<u32> }
impl View for SdkConsumerGroupMember {
    type V = CgMemberV;
    open spec fn view(&self) -> CgMemberV { CgMemberV { id: self.id, partitions_count: self.partitions_count, partitions: self.partitions@ } }
}
impl Wire for CgMemberV {
    open spec fn enc(self) -> Seq<u8> { le32(self.id) + le32(self.partitions_count) + enc_seq(self.partitions) }
}
// the count field is the number of ids that follow; the SDK computes the entry size in u32 arithmetic (8 + 4 * count)
pub open spec fn cg_member_valid(w: CgMemberV) -> bool { w.partitions.len() == w.partitions_count && 8 + 4 * w.partitions.len() <= u32::MAX }
pub open spec fn cg_members_valid(ws: Seq<CgMemberV>) -> bool { forall|i: int| 0 <= i < ws.len() ==> cg_member_valid(#[trigger] ws[i]) }
pub open spec fn cg_members_sorted(s: Seq<CgMemberV>) -> bool { forall|i: int, j: int| 0 <= i <= j < s.len() ==> (#[trigger] s[i]).id <= (#[trigger] s[j]).id }
pub open spec fn sdk_cg_member_views(s: Seq<SdkConsumerGroupMember>) -> Seq<CgMemberV> { Seq::new(s.len(), |i: int| s[i]@) }
pub open spec fn cg_member_view(m: ConsumerGroupMember) -> CgMemberV {
    CgMemberV { id: m.id, partitions_count: member_partitions(m).len() as u32, partitions: member_partitions(m) }
}
pub open spec fn cg_member_views(s: Seq<ConsumerGroupMember>) -> Seq<CgMemberV> { Seq::new(s.len(), |i: int| cg_member_view(s[i])) }
pub proof fn lemma_cg_member_at(buf: Seq<u8>, pos: int, w: CgMemberV)
    requires at_pos(buf, pos, w.enc()),
    ensures
        w.enc().len() == 8 + 4 * w.partitions.len(),
        pos + 8 + 4 * w.partitions.len() <= buf.len(),
        buf.subrange(pos, pos + 4) == le32(w.id),
        buf.subrange(pos + 4, pos + 8) == le32(w.partitions_count),
        at_pos(buf, pos + 8, enc_seq(w.partitions)),
{
    lemma_le_facts();
    lemma_u32s_len(w.partitions);
    let e = w.enc();
    let s = buf.subrange(pos, pos + e.len());
    assert(buf.subrange(pos, pos + 4) =~= s.subrange(0, 4));
    assert(e.subrange(0, 4) =~= le32(w.id));
    assert(buf.subrange(pos + 4, pos + 8) =~= s.subrange(4, 8));
    assert(e.subrange(4, 8) =~= le32(w.partitions_count));
    assert(buf.subrange(pos + 8, pos + 8 + enc_seq(w.partitions).len()) =~= s.subrange(8, e.len() as int));
    assert(e.subrange(8, e.len() as int) =~= enc_seq(w.partitions));
}
pub proof fn lemma_cg_members_nonempty(ws: Seq<CgMemberV>)
    ensures all_nonempty(ws),
{
    assert forall|i: int| 0 <= i < ws.len() implies (#[trigger] ws[i]).enc().len() > 0 by { lemma_le_facts(); }
}

// ---- consumer-group details (GetConsumerGroup response):  ConsumerGroup | member* ------------------------------------------------
pub ghost struct CgDetailsV { pub head: CgV, pub members: Seq<CgMemberV> }
impl Wire for CgDetailsV {
    open spec fn enc(self) -> Seq<u8> { self.head.enc() + enc_seq(self.members) }
}
pub open spec fn cg_details_valid(w: CgDetailsV) -> bool { cg_valid(w.head) && cg_members_valid(w.members) }
pub open spec fn cg_details_head(x: ConsumerGroupDetails) -> CgV {
    CgV { id: x.id, partitions_count: x.partitions_count, members_count: x.members_count, name: x.name@ }
}

// ---- personal access token (list entry):  name_length:u8 | name[name_length] | expiry_at:u64 (micros; 0 = never) -----------------
pub ghost struct PatV { pub name: Seq<u8>, pub expiry_at: Option<u64> }
pub open spec fn opt_ts_view(t: Option<IggyTimestamp>) -> Option<u64> { match t { Some(x) => Some(x@), None => None } }
pub open spec fn opt64_wire(x: Option<u64>) -> u64 { match x { Some(v) => v, None => 0 } }
impl View for PersonalAccessTokenInfo {
    type V = PatV;
    open spec fn view(&self) -> PatV { PatV { name: self.name@, expiry_at: opt_ts_view(self.expiry_at) } }
}
impl Wire for PatV {
    open spec fn enc(self) -> Seq<u8> { seq![self.name.len() as u8] + self.name + le64(opt64_wire(self.expiry_at)) }
}
// 0 is the wire code of "no expiry": a token never expires AT the epoch (expiry = creation time + a positive duration)
pub open spec fn pat_valid(w: PatV) -> bool { w.name.len() <= 255 && utf8(w.name) && w.expiry_at != Some(0u64) }
pub open spec fn pats_valid(ws: Seq<PatV>) -> bool { forall|i: int| 0 <= i < ws.len() ==> pat_valid(#[trigger] ws[i]) }
pub open spec fn pats_sorted(s: Seq<PatV>) -> bool { forall|i: int, j: int| 0 <= i <= j < s.len() ==> text_le((#[trigger] s[i]).name, (#[trigger] s[j]).name) }
pub open spec fn pat_info_views(s: Seq<PersonalAccessTokenInfo>) -> Seq<PatV> { Seq::new(s.len(), |i: int| s[i]@) }
pub open spec fn pat_view(t: PersonalAccessToken) -> PatV { PatV { name: t.name@, expiry_at: opt_ts_view(t.expiry_at) } }
pub open spec fn pat_views(s: Seq<&PersonalAccessToken>) -> Seq<PatV> { Seq::new(s.len(), |i: int| pat_view(*s[i])) }
pub proof fn lemma_pat_at(buf: Seq<u8>, pos: int, w: PatV)
    requires at_pos(buf, pos, w.enc()),
    ensures
        w.enc().len() == 9 + w.name.len(),
        pos + 9 + w.name.len() <= buf.len(),
        buf[pos] == w.name.len() as u8,
        buf.subrange(pos + 1, pos + 1 + w.name.len()) == w.name,
        buf.subrange(pos + 1 + w.name.len(), pos + 9 + w.name.len()) == le64(opt64_wire(w.expiry_at)),
{
    lemma_le_facts();
    let e = w.enc();
    let n = w.name.len() as int;
    let s = buf.subrange(pos, pos + e.len());
    assert(buf[pos] == s[0]);
    assert(buf.subrange(pos + 1, pos + 1 + n) =~= s.subrange(1, 1 + n));
    assert(e.subrange(1, 1 + n) =~= w.name);
    assert(buf.subrange(pos + 1 + n, pos + 9 + n) =~= s.subrange(1 + n, 9 + n));
    assert(e.subrange(1 + n, 9 + n) =~= le64(opt64_wire(w.expiry_at)));
}
pub proof fn lemma_pats_nonempty(ws: Seq<PatV>)
    ensures all_nonempty(ws),
{
    assert forall|i: int| 0 <= i < ws.len() implies (#[trigger] ws[i]).enc().len() > 0 by { lemma_le_facts(); }
}

// ---- raw personal access token (CreatePersonalAccessToken response):  token_length:u8 | token[token_length] ----------------------
pub open spec fn enc_raw_pat(token: Seq<u8>) -> Seq<u8> { seq![token.len() as u8] + token }

// ---- more stand-ins (R4/R6) ---------------------------------------------------------------------------------------------------------
// Arc<AtomicU64>: a plain counter (memory orderings dropped)
pub struct Counter { pub v: u64 }
impl Counter {
    pub fn load(&self) -> (r: u64) ensures r == self.v, { self.v }
}
// IggyDuration wraps std::time::Duration (nanosecond resolution). The wire carries `as_micros()`: whole microseconds (as u64). The
// stand-in is opaque; its view is that number. `IggyDuration::from(u64)` builds the duration of that many microseconds.
#[verifier::external_body]
pub struct IggyDuration { d: u64 }
impl Clone for IggyDuration {
    #[verifier::external_body]
    fn clone(&self) -> (r: Self) ensures r == *self, { unimplemented!() }
}
impl Copy for IggyDuration {}
impl View for IggyDuration {
    type V = u64;
    uninterp spec fn view(&self) -> u64;
}
pub uninterp spec fn dur_of_micros(v: u64) -> IggyDuration;
#[verifier::external_body]
pub proof fn axiom_dur_of_micros(v: u64)
    ensures dur_of_micros(v)@ == v,
{}
impl IggyDuration {
    #[verifier::external_body]
    pub fn as_micros(&self) -> (r: u64) ensures r == self@, { unimplemented!() }
}
impl From<u64> for IggyDuration {
    #[verifier::external_body]
    fn from(v: u64) -> (r: Self) { unimplemented!() }
}
impl vstd::std_specs::convert::FromSpecImpl<u64> for IggyDuration {
    open spec fn obeys_from_spec() -> bool { true }
    open spec fn from_spec(v: u64) -> Self { dur_of_micros(v) }
}

// ---- IggyExpiry / MaxTopicSize / CompressionAlgorithm on the wire (protocol tables) ---------------------------------------------------
//   message_expiry:u64   0 = server default | u64::MAX = never | otherwise microseconds
//   max_topic_size:u64   0 = server default | u64::MAX = unlimited | otherwise bytes
//   compression:u8       1 = none | 2 = gzip
pub ghost enum ExpiryV { ServerDefault, Expire(u64), Never }
pub ghost enum SizeV { ServerDefault, Custom(u64), Unlimited }
pub open spec fn expiry_view(e: IggyExpiry) -> ExpiryV {
    match e { IggyExpiry::ServerDefault => ExpiryV::ServerDefault, IggyExpiry::ExpireDuration(d) => ExpiryV::Expire(d@), IggyExpiry::NeverExpire => ExpiryV::Never }
}
pub open spec fn size_view(s: MaxTopicSize) -> SizeV {
    match s { MaxTopicSize::ServerDefault => SizeV::ServerDefault, MaxTopicSize::Custom(b) => SizeV::Custom(b.0), MaxTopicSize::Unlimited => SizeV::Unlimited }
}
pub open spec fn expiry_wire(e: ExpiryV) -> u64 { match e { ExpiryV::ServerDefault => 0, ExpiryV::Expire(m) => m, ExpiryV::Never => u64::MAX } }
pub open spec fn expiry_unwire(v: u64) -> ExpiryV { if v == u64::MAX { ExpiryV::Never } else if v == 0 { ExpiryV::ServerDefault } else { ExpiryV::Expire(v) } }
pub open spec fn size_wire(s: SizeV) -> u64 { match s { SizeV::ServerDefault => 0, SizeV::Custom(b) => b, SizeV::Unlimited => u64::MAX } }
pub open spec fn size_unwire(v: u64) -> SizeV { if v == 0 { SizeV::ServerDefault } else if v == u64::MAX { SizeV::Unlimited } else { SizeV::Custom(v) } }
// values that have a wire code of their own: a duration / size of 0 or u64::MAX is indistinguishable from the two sentinels
pub open spec fn expiry_exact(e: ExpiryV) -> bool { e matches ExpiryV::Expire(m) ==> 0 < m < u64::MAX }
pub open spec fn size_exact(s: SizeV) -> bool { s matches SizeV::Custom(b) ==> 0 < b < u64::MAX }
pub open spec fn compression_code(c: CompressionAlgorithm) -> u8 { match c { CompressionAlgorithm::None => 1, CompressionAlgorithm::Gzip => 2 } }
impl vstd::std_specs::cmp::PartialEqSpecImpl for CompressionAlgorithm {
    open spec fn obeys_eq_spec() -> bool { true }
    open spec fn eq_spec(&self, other: &CompressionAlgorithm) -> bool { *self == *other }
}
// the value `IggyExpiry::from(u64)` / `MaxTopicSize::from(u64)` return (extracted and proved: [C13.conv.*.dec])
pub open spec fn expiry_of_u64(v: u64) -> IggyExpiry {
    if v == u64::MAX { IggyExpiry::NeverExpire } else if v == 0 { IggyExpiry::ServerDefault } else { IggyExpiry::ExpireDuration(dur_of_micros(v)) }
}
pub open spec fn size_of_u64(v: u64) -> MaxTopicSize {
    if v == 0 { MaxTopicSize::ServerDefault } else if v == u64::MAX { MaxTopicSize::Unlimited } else { MaxTopicSize::Custom(IggyByteSize(v)) }
}
// trait glue: the extracted conversion bodies (emitted as `u64_from_expiry`, `IggyExpiry::from_u64`, ...) ARE the From impls
impl From<IggyExpiry> for u64 {
    fn from(val: IggyExpiry) -> (r: u64) { u64_from_expiry(val) }
}
impl vstd::std_specs::convert::FromSpecImpl<IggyExpiry> for u64 {
    open spec fn obeys_from_spec() -> bool { true }
    open spec fn from_spec(val: IggyExpiry) -> u64 { expiry_wire(expiry_view(val)) }
}
impl From<u64> for IggyExpiry {
    fn from(v: u64) -> (r: Self) { IggyExpiry::from_u64(v) }
}
impl vstd::std_specs::convert::FromSpecImpl<u64> for IggyExpiry {
    open spec fn obeys_from_spec() -> bool { true }
    open spec fn from_spec(v: u64) -> Self { expiry_of_u64(v) }
}
impl From<MaxTopicSize> for u64 {
    fn from(value: MaxTopicSize) -> (r: u64) { u64_from_max_topic_size(value) }
}
impl vstd::std_specs::convert::FromSpecImpl<MaxTopicSize> for u64 {
    open spec fn obeys_from_spec() -> bool { true }
    open spec fn from_spec(value: MaxTopicSize) -> u64 { size_wire(size_view(value)) }
}
impl From<u64> for MaxTopicSize {
    fn from(v: u64) -> (r: Self) { MaxTopicSize::from_u64(v) }
}
impl vstd::std_specs::convert::FromSpecImpl<u64> for MaxTopicSize {
    open spec fn obeys_from_spec() -> bool { true }
    open spec fn from_spec(v: u64) -> Self { size_of_u64(v) }
}

// ---- stream (list entry; head of the stream response) ------------------------------------------------------------------------------
//   id:u32 | created_at:u64 | topics_count:u32 | size:u64 | messages_count:u64 | name_length:u8 | name[name_length]
pub ghost struct StreamInfoV { pub id: u32, pub created_at: u64, pub topics_count: u32, pub size: u64, pub messages_count: u64, pub name: Seq<u8> }
impl View for SdkStream {
    type V = StreamInfoV;
    open spec fn view(&self) -> StreamInfoV {
        StreamInfoV { id: self.id, created_at: self.created_at@, topics_count: self.topics_count, size: self.size.0, messages_count: self.messages_count, name: self.name@ }
    }
}
impl Wire for StreamInfoV {
    open spec fn enc(self) -> Seq<u8> {
        le32(self.id) + le64(self.created_at) + le32(self.topics_count) + le64(self.size) + le64(self.messages_count)
            + seq![self.name.len() as u8] + self.name
    }
}
pub open spec fn stream_valid(w: StreamInfoV) -> bool { w.name.len() <= 255 && utf8(w.name) }
pub open spec fn streams_valid(ws: Seq<StreamInfoV>) -> bool { forall|i: int| 0 <= i < ws.len() ==> stream_valid(#[trigger] ws[i]) }
pub open spec fn streams_sorted(s: Seq<StreamInfoV>) -> bool { forall|i: int, j: int| 0 <= i <= j < s.len() ==> (#[trigger] s[i]).id <= (#[trigger] s[j]).id }
pub open spec fn sdk_stream_views(s: Seq<SdkStream>) -> Seq<StreamInfoV> { Seq::new(s.len(), |i: int| s[i]@) }
pub open spec fn stream_topics(s: Stream) -> Seq<Topic> { map_values_seq(s.topics) }
pub open spec fn stream_entity_view(s: Stream) -> StreamInfoV {
    StreamInfoV { id: s.stream_id, created_at: s.created_at@, topics_count: stream_topics(s).len() as u32, size: s.size_bytes.v, messages_count: s.messages_count.v, name: s.name@ }
}
pub open spec fn stream_views(s: Seq<&Stream>) -> Seq<StreamInfoV> { Seq::new(s.len(), |i: int| stream_entity_view(*s[i])) }
pub proof fn lemma_stream_at(buf: Seq<u8>, pos: int, w: StreamInfoV)
    requires at_pos(buf, pos, w.enc()),
    ensures
        w.enc().len() == 33 + w.name.len(),
        pos + 33 + w.name.len() <= buf.len(),
        buf.subrange(pos, pos + 4) == le32(w.id),
        buf.subrange(pos + 4, pos + 12) == le64(w.created_at),
        buf.subrange(pos + 12, pos + 16) == le32(w.topics_count),
        buf.subrange(pos + 16, pos + 24) == le64(w.size),
        buf.subrange(pos + 24, pos + 32) == le64(w.messages_count),
        buf[pos + 32] == w.name.len() as u8,
        buf.subrange(pos + 33, pos + 33 + w.name.len()) == w.name,
{
    lemma_le_facts();
    let e = w.enc();
    let n = w.name.len() as int;
    let s = buf.subrange(pos, pos + e.len());
    assert(buf.subrange(pos, pos + 4) =~= s.subrange(0, 4));
    assert(e.subrange(0, 4) =~= le32(w.id));
    assert(buf.subrange(pos + 4, pos + 12) =~= s.subrange(4, 12));
    assert(e.subrange(4, 12) =~= le64(w.created_at));
    assert(buf.subrange(pos + 12, pos + 16) =~= s.subrange(12, 16));
    assert(e.subrange(12, 16) =~= le32(w.topics_count));
    assert(buf.subrange(pos + 16, pos + 24) =~= s.subrange(16, 24));
    assert(e.subrange(16, 24) =~= le64(w.size));
    assert(buf.subrange(pos + 24, pos + 32) =~= s.subrange(24, 32));
    assert(e.subrange(24, 32) =~= le64(w.messages_count));
    assert(buf[pos + 32] == s[32]);
    assert(buf.subrange(pos + 33, pos + 33 + n) =~= s.subrange(33, 33 + n));
    assert(e.subrange(33, 33 + n) =~= w.name);
}
pub proof fn lemma_streams_nonempty(ws: Seq<StreamInfoV>)
    ensures all_nonempty(ws),
{
    assert forall|i: int| 0 <= i < ws.len() implies (#[trigger] ws[i]).enc().len() > 0 by { lemma_le_facts(); }
}

// ---- topic (list entry; entry of the stream response; head of the topic response) ---------------------------------------------------
//   id:u32 | created_at:u64 | partitions_count:u32 | message_expiry:u64 | compression:u8 | max_topic_size:u64 | replication_factor:u8
//   | size:u64 | messages_count:u64 | name_length:u8 | name[name_length]
pub ghost struct TopicV {
    pub id: u32, pub created_at: u64, pub partitions_count: u32, pub message_expiry: ExpiryV, pub compression: CompressionAlgorithm,
    pub max_topic_size: SizeV, pub replication_factor: u8, pub size: u64, pub messages_count: u64, pub name: Seq<u8>,
}
impl View for SdkTopic {
    type V = TopicV;
    open spec fn view(&self) -> TopicV {
        TopicV { id: self.id, created_at: self.created_at@, partitions_count: self.partitions_count, message_expiry: expiry_view(self.message_expiry),
                 compression: self.compression_algorithm, max_topic_size: size_view(self.max_topic_size), replication_factor: self.replication_factor,
                 size: self.size.0, messages_count: self.messages_count, name: self.name@ }
    }
}
impl Wire for TopicV {
    open spec fn enc(self) -> Seq<u8> {
        le32(self.id) + le64(self.created_at) + le32(self.partitions_count) + le64(expiry_wire(self.message_expiry))
            + seq![compression_code(self.compression)] + le64(size_wire(self.max_topic_size)) + seq![self.replication_factor]
            + le64(self.size) + le64(self.messages_count) + seq![self.name.len() as u8] + self.name
    }
}
// what the server guarantees about a topic: the name fits the u8 length; the expiry is RESOLVED (a topic never keeps
// "server default": Topic::get_message_expiry replaces it on create/update) and has a wire code of its own; so has the size
pub open spec fn topic_valid(w: TopicV) -> bool {
    w.name.len() <= 255 && utf8(w.name) && w.message_expiry != ExpiryV::ServerDefault && expiry_exact(w.message_expiry) && size_exact(w.max_topic_size)
}
pub open spec fn topics_valid(ws: Seq<TopicV>) -> bool { forall|i: int| 0 <= i < ws.len() ==> topic_valid(#[trigger] ws[i]) }
pub open spec fn topics_sorted(s: Seq<TopicV>) -> bool { forall|i: int, j: int| 0 <= i <= j < s.len() ==> (#[trigger] s[i]).id <= (#[trigger] s[j]).id }
pub open spec fn sdk_topic_views(s: Seq<SdkTopic>) -> Seq<TopicV> { Seq::new(s.len(), |i: int| s[i]@) }
pub open spec fn topic_partitions(t: Topic) -> Seq<Partition> { map_values_seq(t.partitions) }
pub open spec fn topic_view(t: Topic) -> TopicV {
    TopicV { id: t.topic_id, created_at: t.created_at@, partitions_count: topic_partitions(t).len() as u32, message_expiry: expiry_view(t.message_expiry),
             compression: t.compression_algorithm, max_topic_size: size_view(t.max_topic_size), replication_factor: t.replication_factor,
             size: t.size_bytes.v, messages_count: t.messages_count.v, name: t.name@ }
}
pub open spec fn topic_views(s: Seq<&Topic>) -> Seq<TopicV> { Seq::new(s.len(), |i: int| topic_view(*s[i])) }
pub open spec fn topic_views_owned(s: Seq<Topic>) -> Seq<TopicV> { Seq::new(s.len(), |i: int| topic_view(s[i])) }
pub proof fn lemma_topic_at(buf: Seq<u8>, pos: int, w: TopicV)
    requires at_pos(buf, pos, w.enc()),
    ensures
        w.enc().len() == 51 + w.name.len(),
        pos + 51 + w.name.len() <= buf.len(),
        buf.subrange(pos, pos + 4) == le32(w.id),
        buf.subrange(pos + 4, pos + 12) == le64(w.created_at),
        buf.subrange(pos + 12, pos + 16) == le32(w.partitions_count),
        buf.subrange(pos + 16, pos + 24) == le64(expiry_wire(w.message_expiry)),
        buf[pos + 24] == compression_code(w.compression),
        buf.subrange(pos + 25, pos + 33) == le64(size_wire(w.max_topic_size)),
        buf[pos + 33] == w.replication_factor,
        buf.subrange(pos + 34, pos + 42) == le64(w.size),
        buf.subrange(pos + 42, pos + 50) == le64(w.messages_count),
        buf[pos + 50] == w.name.len() as u8,
        buf.subrange(pos + 51, pos + 51 + w.name.len()) == w.name,
{
    lemma_le_facts();
    let e = w.enc();
    let n = w.name.len() as int;
    let s = buf.subrange(pos, pos + e.len());
    assert(buf.subrange(pos, pos + 4) =~= s.subrange(0, 4));
    assert(e.subrange(0, 4) =~= le32(w.id));
    assert(buf.subrange(pos + 4, pos + 12) =~= s.subrange(4, 12));
    assert(e.subrange(4, 12) =~= le64(w.created_at));
    assert(buf.subrange(pos + 12, pos + 16) =~= s.subrange(12, 16));
    assert(e.subrange(12, 16) =~= le32(w.partitions_count));
    assert(buf.subrange(pos + 16, pos + 24) =~= s.subrange(16, 24));
    assert(e.subrange(16, 24) =~= le64(expiry_wire(w.message_expiry)));
    assert(buf[pos + 24] == s[24]);
    assert(buf.subrange(pos + 25, pos + 33) =~= s.subrange(25, 33));
    assert(e.subrange(25, 33) =~= le64(size_wire(w.max_topic_size)));
    assert(buf[pos + 33] == s[33]);
    assert(buf.subrange(pos + 34, pos + 42) =~= s.subrange(34, 42));
    assert(e.subrange(34, 42) =~= le64(w.size));
    assert(buf.subrange(pos + 42, pos + 50) =~= s.subrange(42, 50));
    assert(e.subrange(42, 50) =~= le64(w.messages_count));
    assert(buf[pos + 50] == s[50]);
    assert(buf.subrange(pos + 51, pos + 51 + n) =~= s.subrange(51, 51 + n));
    assert(e.subrange(51, 51 + n) =~= w.name);
}
pub proof fn lemma_topics_nonempty(ws: Seq<TopicV>)
    ensures all_nonempty(ws),
{
    assert forall|i: int| 0 <= i < ws.len() implies (#[trigger] ws[i]).enc().len() > 0 by { lemma_le_facts(); }
}

// ---- partition (entry of the topic response):  id:u32 | created_at:u64 | segments_count:u32 | current_offset:u64 | size:u64 | messages_count:u64
pub ghost struct PartitionV { pub id: u32, pub created_at: u64, pub segments_count: u32, pub current_offset: u64, pub size: u64, pub messages_count: u64 }
impl View for SdkPartition {
    type V = PartitionV;
    open spec fn view(&self) -> PartitionV {
        PartitionV { id: self.id, created_at: self.created_at@, segments_count: self.segments_count, current_offset: self.current_offset, size: self.size.0, messages_count: self.messages_count }
    }
}
impl Wire for PartitionV {
    open spec fn enc(self) -> Seq<u8> {
        le32(self.id) + le64(self.created_at) + le32(self.segments_count) + le64(self.current_offset) + le64(self.size) + le64(self.messages_count)
    }
}
pub open spec fn partitions_sorted(s: Seq<PartitionV>) -> bool { forall|i: int, j: int| 0 <= i <= j < s.len() ==> (#[trigger] s[i]).id <= (#[trigger] s[j]).id }
pub open spec fn sdk_partition_views(s: Seq<SdkPartition>) -> Seq<PartitionV> { Seq::new(s.len(), |i: int| s[i]@) }
pub open spec fn partition_view(p: Partition) -> PartitionV {
    PartitionV { id: p.partition_id, created_at: p.created_at@, segments_count: p.segments@.len() as u32, current_offset: p.current_offset, size: p.size_bytes.v, messages_count: p.messages_count.v }
}
pub open spec fn partition_views(s: Seq<Partition>) -> Seq<PartitionV> { Seq::new(s.len(), |i: int| partition_view(s[i])) }
pub proof fn lemma_partition_at(buf: Seq<u8>, pos: int, w: PartitionV)
    requires at_pos(buf, pos, w.enc()),
    ensures
        w.enc().len() == 40,
        pos + 40 <= buf.len(),
        buf.subrange(pos, pos + 4) == le32(w.id),
        buf.subrange(pos + 4, pos + 12) == le64(w.created_at),
        buf.subrange(pos + 12, pos + 16) == le32(w.segments_count),
        buf.subrange(pos + 16, pos + 24) == le64(w.current_offset),
        buf.subrange(pos + 24, pos + 32) == le64(w.size),
        buf.subrange(pos + 32, pos + 40) == le64(w.messages_count),
{
    lemma_le_facts();
    let e = w.enc();
    let s = buf.subrange(pos, pos + e.len());
    assert(buf.subrange(pos, pos + 4) =~= s.subrange(0, 4));
    assert(e.subrange(0, 4) =~= le32(w.id));
    assert(buf.subrange(pos + 4, pos + 12) =~= s.subrange(4, 12));
    assert(e.subrange(4, 12) =~= le64(w.created_at));
    assert(buf.subrange(pos + 12, pos + 16) =~= s.subrange(12, 16));
    assert(e.subrange(12, 16) =~= le32(w.segments_count));
    assert(buf.subrange(pos + 16, pos + 24) =~= s.subrange(16, 24));
    assert(e.subrange(16, 24) =~= le64(w.current_offset));
    assert(buf.subrange(pos + 24, pos + 32) =~= s.subrange(24, 32));
    assert(e.subrange(24, 32) =~= le64(w.size));
    assert(buf.subrange(pos + 32, pos + 40) =~= s.subrange(32, 40));
    assert(e.subrange(32, 40) =~= le64(w.messages_count));
}
pub proof fn lemma_partitions_nonempty(ws: Seq<PartitionV>)
    ensures all_nonempty(ws),
{
    assert forall|i: int| 0 <= i < ws.len() implies (#[trigger] ws[i]).enc().len() > 0 by { lemma_le_facts(); }
}

// ---- stream details (GetStream response):  Stream | topic*          topic details (GetTopic response):  Topic | partition* ----------
pub ghost struct StreamDetailsV { pub head: StreamInfoV, pub topics: Seq<TopicV> }
impl Wire for StreamDetailsV {
    open spec fn enc(self) -> Seq<u8> { self.head.enc() + enc_seq(self.topics) }
}
pub open spec fn stream_details_valid(w: StreamDetailsV) -> bool { stream_valid(w.head) && topics_valid(w.topics) }
pub open spec fn stream_details_head(x: StreamDetails) -> StreamInfoV {
    StreamInfoV { id: x.id, created_at: x.created_at@, topics_count: x.topics_count, size: x.size.0, messages_count: x.messages_count, name: x.name@ }
}
pub ghost struct TopicDetailsV { pub head: TopicV, pub partitions: Seq<PartitionV> }
impl Wire for TopicDetailsV {
    open spec fn enc(self) -> Seq<u8> { self.head.enc() + enc_seq(self.partitions) }
}
pub open spec fn topic_details_valid(w: TopicDetailsV) -> bool { topic_valid(w.head) }
pub open spec fn topic_details_head(x: TopicDetails) -> TopicV {
    TopicV { id: x.id, created_at: x.created_at@, partitions_count: x.partitions_count, message_expiry: expiry_view(x.message_expiry),
             compression: x.compression_algorithm, max_topic_size: size_view(x.max_topic_size), replication_factor: x.replication_factor,
             size: x.size.0, messages_count: x.messages_count, name: x.name@ }
}

// ---- clients --------------------------------------------------------------------------------------------------------------------------
// std::net::SocketAddr: only its Display text goes over the wire
#[verifier::external_body]
pub struct SocketAddr { a: u8 }
pub uninterp spec fn addr_text(a: SocketAddr) -> Seq<u8>;
impl SocketAddr {
    #[verifier::external_body]
    pub fn to_string(&self) -> (r: Text) ensures r@ == addr_text(*self), { unimplemented!() }
}
// the Display text of a socket address is a String (valid UTF-8) of a few dozen bytes
#[verifier::external_body]
pub proof fn axiom_addr_text(a: SocketAddr)
    ensures utf8(addr_text(a)), addr_text(a).len() <= u32::MAX,
{}
// a string literal as Text: its UTF-8 bytes; different literals have different bytes (A-std)
pub uninterp spec fn lit_utf8(s: &str) -> Seq<u8>;
#[verifier::external_body]
pub fn text_lit(s: &'static str) -> (r: &'static Text)
    ensures r@ == lit_utf8(s),
{ unimplemented!() }
#[verifier::external_body]
pub proof fn axiom_transport_literals()
    ensures lit_utf8("TCP") != lit_utf8("QUIC"), lit_utf8("TCP") != lit_utf8("Unknown"), lit_utf8("QUIC") != lit_utf8("Unknown"),
{}

//   client_id:u32 | user_id:u32 (0 = none) | transport:u8 (1 = TCP, 2 = QUIC) | address_length:u32 | address | consumer_groups_count:u32
// The SDK model carries the transport as the text "TCP" / "QUIC" (what the server's `Display for Transport` prints).
pub ghost struct ClientV { pub client_id: u32, pub user_id: Option<u32>, pub transport: Seq<u8>, pub address: Seq<u8>, pub consumer_groups_count: u32 }
pub open spec fn opt32_wire(x: Option<u32>) -> u32 { match x { Some(v) => v, None => 0 } }
pub open spec fn transport_wire(t: Seq<u8>) -> u8 { if t == lit_utf8("TCP") { 1 } else if t == lit_utf8("QUIC") { 2 } else { 0 } }
pub open spec fn transport_text(t: Transport) -> Seq<u8> { match t { Transport::Tcp => lit_utf8("TCP"), Transport::Quic => lit_utf8("QUIC") } }
impl View for ClientInfo {
    type V = ClientV;
    open spec fn view(&self) -> ClientV {
        ClientV { client_id: self.client_id, user_id: self.user_id, transport: self.transport@, address: self.address@, consumer_groups_count: self.consumer_groups_count }
    }
}
impl Wire for ClientV {
    open spec fn enc(self) -> Seq<u8> {
        le32(self.client_id) + le32(opt32_wire(self.user_id)) + seq![transport_wire(self.transport)] + le32(self.address.len() as u32) + self.address
            + le32(self.consumer_groups_count)
    }
}
// user ids start at 1 (0 is the wire code of "not logged in"); the address text fits the u32 length
pub open spec fn client_valid(w: ClientV) -> bool {
    w.user_id != Some(0u32) && (w.transport == lit_utf8("TCP") || w.transport == lit_utf8("QUIC")) && w.address.len() <= u32::MAX && utf8(w.address)
}
pub open spec fn clients_valid(ws: Seq<ClientV>) -> bool { forall|i: int| 0 <= i < ws.len() ==> client_valid(#[trigger] ws[i]) }
pub open spec fn clients_sorted(s: Seq<ClientV>) -> bool { forall|i: int, j: int| 0 <= i <= j < s.len() ==> (#[trigger] s[i]).client_id <= (#[trigger] s[j]).client_id }
pub open spec fn client_info_views(s: Seq<ClientInfo>) -> Seq<ClientV> { Seq::new(s.len(), |i: int| s[i]@) }
pub open spec fn client_view(c: Client) -> ClientV {
    ClientV { client_id: c.session.client_id, user_id: c.user_id, transport: transport_text(c.transport), address: addr_text(c.session.ip_address),
              consumer_groups_count: c.consumer_groups@.len() as u32 }
}
pub open spec fn client_views(s: Seq<Client>) -> Seq<ClientV> { Seq::new(s.len(), |i: int| client_view(s[i])) }
pub proof fn lemma_client_at(buf: Seq<u8>, pos: int, w: ClientV)
    requires at_pos(buf, pos, w.enc()),
    ensures
        w.enc().len() == 17 + w.address.len(),
        pos + 17 + w.address.len() <= buf.len(),
        buf.subrange(pos, pos + 4) == le32(w.client_id),
        buf.subrange(pos + 4, pos + 8) == le32(opt32_wire(w.user_id)),
        buf[pos + 8] == transport_wire(w.transport),
        buf.subrange(pos + 9, pos + 13) == le32(w.address.len() as u32),
        buf.subrange(pos + 13, pos + 13 + w.address.len()) == w.address,
        buf.subrange(pos + 13 + w.address.len(), pos + 17 + w.address.len()) == le32(w.consumer_groups_count),
{
    lemma_le_facts();
    let e = w.enc();
    let n = w.address.len() as int;
    let s = buf.subrange(pos, pos + e.len());
    assert(buf.subrange(pos, pos + 4) =~= s.subrange(0, 4));
    assert(e.subrange(0, 4) =~= le32(w.client_id));
    assert(buf.subrange(pos + 4, pos + 8) =~= s.subrange(4, 8));
    assert(e.subrange(4, 8) =~= le32(opt32_wire(w.user_id)));
    assert(buf[pos + 8] == s[8]);
    assert(buf.subrange(pos + 9, pos + 13) =~= s.subrange(9, 13));
    assert(e.subrange(9, 13) =~= le32(w.address.len() as u32));
    assert(buf.subrange(pos + 13, pos + 13 + n) =~= s.subrange(13, 13 + n));
    assert(e.subrange(13, 13 + n) =~= w.address);
    assert(buf.subrange(pos + 13 + n, pos + 17 + n) =~= s.subrange(13 + n, 17 + n));
    assert(e.subrange(13 + n, 17 + n) =~= le32(w.consumer_groups_count));
}
pub proof fn lemma_clients_nonempty(ws: Seq<ClientV>)
    ensures all_nonempty(ws),
{
    assert forall|i: int| 0 <= i < ws.len() implies (#[trigger] ws[i]).enc().len() > 0 by { lemma_le_facts(); }
}

// membership record of the client response:  stream_id:u32 | topic_id:u32 | group_id:u32
pub ghost struct CgInfoV { pub stream_id: u32, pub topic_id: u32, pub group_id: u32 }
impl View for ConsumerGroupInfo {
    type V = CgInfoV;
    open spec fn view(&self) -> CgInfoV { CgInfoV { stream_id: self.stream_id, topic_id: self.topic_id, group_id: self.group_id } }
}
impl Wire for CgInfoV {
    open spec fn enc(self) -> Seq<u8> { le32(self.stream_id) + le32(self.topic_id) + le32(self.group_id) }
}
pub open spec fn cg_infos_sorted(s: Seq<CgInfoV>) -> bool { forall|i: int, j: int| 0 <= i <= j < s.len() ==> (#[trigger] s[i]).group_id <= (#[trigger] s[j]).group_id }
pub open spec fn cg_info_views(s: Seq<ConsumerGroupInfo>) -> Seq<CgInfoV> { Seq::new(s.len(), |i: int| s[i]@) }
pub open spec fn client_cg_view(g: ClientConsumerGroup) -> CgInfoV { CgInfoV { stream_id: g.stream_id, topic_id: g.topic_id, group_id: g.group_id } }
pub open spec fn client_cg_views(s: Seq<ClientConsumerGroup>) -> Seq<CgInfoV> { Seq::new(s.len(), |i: int| client_cg_view(s[i])) }
pub proof fn lemma_cg_info_at(buf: Seq<u8>, pos: int, w: CgInfoV)
    requires at_pos(buf, pos, w.enc()),
    ensures
        w.enc().len() == 12,
        pos + 12 <= buf.len(),
        buf.subrange(pos, pos + 4) == le32(w.stream_id),
        buf.subrange(pos + 4, pos + 8) == le32(w.topic_id),
        buf.subrange(pos + 8, pos + 12) == le32(w.group_id),
{
    lemma_le_facts();
    let e = w.enc();
    let s = buf.subrange(pos, pos + e.len());
    assert(buf.subrange(pos, pos + 4) =~= s.subrange(0, 4));
    assert(e.subrange(0, 4) =~= le32(w.stream_id));
    assert(buf.subrange(pos + 4, pos + 8) =~= s.subrange(4, 8));
    assert(e.subrange(4, 8) =~= le32(w.topic_id));
    assert(buf.subrange(pos + 8, pos + 12) =~= s.subrange(8, 12));
    assert(e.subrange(8, 12) =~= le32(w.group_id));
}
pub proof fn lemma_cg_infos_len(s: Seq<CgInfoV>)
    ensures enc_seq(s).len() == 12 * s.len(), all_nonempty(s),
    decreases s.len(),
{
    lemma_le_facts();
    if s.len() > 0 { lemma_cg_infos_len(s.drop_last()); }
    assert forall|i: int| 0 <= i < s.len() implies (#[trigger] s[i]).enc().len() > 0 by {}
}

// client details (GetClient / GetMe response):  Client | membership * consumer_groups_count
pub ghost struct ClientDetailsV { pub head: ClientV, pub groups: Seq<CgInfoV> }
impl Wire for ClientDetailsV {
    open spec fn enc(self) -> Seq<u8> { self.head.enc() + enc_seq(self.groups) }
}
pub open spec fn client_details_valid(w: ClientDetailsV) -> bool { client_valid(w.head) && w.groups.len() == w.head.consumer_groups_count }
pub open spec fn client_details_head(x: ClientInfoDetails) -> ClientV {
    ClientV { client_id: x.client_id, user_id: x.user_id, transport: x.transport@, address: x.address@, consumer_groups_count: x.consumer_groups_count }
}

// ---- polled messages ----------------------------------------------------------------------------------------------------------------------
// The user-headers map `HashMap<HeaderKey, HeaderValue>`: its codec pair is under contract in unit codec_headers, whose contracts are
// INCLUDED here (same text, verified again in this file); wire format and abstract content: vx/prelude/wire_headers.rs.
//   hdr_bytes(h)        what `to_bytes` emits for the map object h: its entries in its iteration order
//   hdr_block_valid(b)  b is the encoding of SOME valid header map (entries with distinct keys, lengths 1..=255)
//   hdr_decodes(b, q)   q has the content of every map that b encodes (there is only one: any entry order gives the same map)
pub open spec fn hdr_block_valid(b: Seq<u8>) -> bool { exists|es: Seq<HdrEntry>| keys_distinct(es) && entries_valid(es) && b == enc_entries(es) }
pub open spec fn hdr_decodes(b: Seq<u8>, q: HashMap<HeaderKey, HeaderValue>) -> bool {
    forall|es: Seq<HdrEntry>| keys_distinct(es) && entries_valid(es) && b == #[trigger] enc_entries(es) ==> hmap_view(q@) == map_of(es)
}
// `PolledMessage::get_size_bytes` only feeds the capacity hint of the response buffer: an opaque number
impl PolledMessage {
    pub uninterp spec fn pm_size_spec(&self) -> IggyByteSize;
    #[verifier::external_body]
    #[verifier::when_used_as_spec(pm_size_spec)]
    pub fn get_size_bytes(&self) -> (r: IggyByteSize)
        ensures r == self.pm_size_spec(),
    { unimplemented!() }
}
// R8 schema `v.iter().map(F).sum()`. A-size: the messages are in memory, so is their total size (plus the 20-byte head)
#[verifier::external_body]
pub fn std_iter_map_sum(v: &Vec<PolledMessage>, Ghost(f): Ghost<spec_fn(PolledMessage) -> IggyByteSize>) -> (r: IggyByteSize)
    ensures 20 + r.0 <= isize::MAX,
{ unimplemented!() }

pub open spec fn messagestate_code(s: MessageState) -> u8 {
    match s { MessageState::Available => 1, MessageState::Unavailable => 10, MessageState::Poisoned => 20, MessageState::MarkedForDeletion => 30 }
}
impl vstd::std_specs::cmp::PartialEqSpecImpl for MessageState {
    open spec fn obeys_eq_spec() -> bool { true }
    open spec fn eq_spec(&self, other: &MessageState) -> bool { *self == *other }
}
// a polled message on the wire:
//   offset:u64 | state:u8 | timestamp:u64 | id:u128 | checksum:u32 | headers_length:u32 | headers[headers_length] | length:u32 | payload[length]
pub ghost struct PmW {
    pub offset: u64, pub state: MessageState, pub timestamp: u64, pub id: u128, pub checksum: u32, pub hbytes: Seq<u8>, pub length: u32, pub payload: Seq<u8>,
}
impl Wire for PmW {
    open spec fn enc(self) -> Seq<u8> {
        le64(self.offset) + seq![messagestate_code(self.state)] + le64(self.timestamp) + le128(self.id) + le32(self.checksum)
            + le32(self.hbytes.len() as u32) + self.hbytes + le32(self.length) + self.payload
    }
}
// what the server guarantees about a stored message: the length field is the payload length, the payload is not empty (the
// server refuses empty payloads on send), a header block - if any - is the encoding of a header map
pub open spec fn pm_valid(w: PmW) -> bool {
    w.hbytes.len() <= u32::MAX && (w.hbytes.len() > 0 ==> hdr_block_valid(w.hbytes)) && w.payload.len() == w.length && w.payload.len() >= 1
}
pub open spec fn pms_valid(ws: Seq<PmW>) -> bool { forall|i: int| 0 <= i < ws.len() ==> pm_valid(#[trigger] ws[i]) }
pub open spec fn pms_sorted(s: Seq<PmW>) -> bool { forall|i: int, j: int| 0 <= i <= j < s.len() ==> (#[trigger] s[i]).offset <= (#[trigger] s[j]).offset }
// the SDK value x carries what the wire message w carries
pub open spec fn pm_matches(x: PolledMessage, w: PmW) -> bool {
    &&& x.offset == w.offset && x.state == w.state && x.timestamp == w.timestamp && x.id == w.id && x.checksum == w.checksum
    &&& x.length.0 == w.length && x.payload@ == w.payload
    &&& (w.hbytes.len() == 0 ==> x.headers is None)
    &&& (w.hbytes.len() > 0 ==> (x.headers matches Some(q) && hdr_decodes(w.hbytes, q)))
}
pub open spec fn pms_match(xs: Seq<PolledMessage>, ws: Seq<PmW>) -> bool {
    xs.len() == ws.len() && forall|i: int| 0 <= i < xs.len() ==> pm_matches(#[trigger] xs[i], ws[i])
}
// the wire message the server emits for m
pub open spec fn pm_wire(m: PolledMessage) -> PmW {
    PmW { offset: m.offset, state: m.state, timestamp: m.timestamp, id: m.id, checksum: m.checksum,
          hbytes: match m.headers { Some(h) => hdr_bytes(h), None => Seq::<u8>::empty() }, length: m.length.0 as u32, payload: m.payload@ }
}
pub open spec fn pm_wires(s: Seq<PolledMessage>) -> Seq<PmW> { Seq::new(s.len(), |i: int| pm_wire(s[i])) }
pub proof fn lemma_pm_at(buf: Seq<u8>, pos: int, w: PmW)
    requires at_pos(buf, pos, w.enc()),
    ensures
        ({
            let h = w.hbytes.len() as int;
            let p = w.payload.len() as int;
            &&& w.enc().len() == 45 + h + p
            &&& pos + 45 + h + p <= buf.len()
            &&& buf.subrange(pos, pos + 8) == le64(w.offset)
            &&& buf[pos + 8] == messagestate_code(w.state)
            &&& buf.subrange(pos + 9, pos + 17) == le64(w.timestamp)
            &&& buf.subrange(pos + 17, pos + 33) == le128(w.id)
            &&& buf.subrange(pos + 33, pos + 37) == le32(w.checksum)
            &&& buf.subrange(pos + 37, pos + 41) == le32(w.hbytes.len() as u32)
            &&& buf.subrange(pos + 41, pos + 41 + h) == w.hbytes
            &&& buf.subrange(pos + 41 + h, pos + 45 + h) == le32(w.length)
            &&& buf.subrange(pos + 45 + h, pos + 45 + h + p) == w.payload
        }),
{
    lemma_le_facts();
    lemma_le128_facts();
    let e = w.enc();
    let h = w.hbytes.len() as int;
    let p = w.payload.len() as int;
    let s = buf.subrange(pos, pos + e.len());
    assert(buf.subrange(pos, pos + 8) =~= s.subrange(0, 8));
    assert(e.subrange(0, 8) =~= le64(w.offset));
    assert(buf[pos + 8] == s[8]);
    assert(buf.subrange(pos + 9, pos + 17) =~= s.subrange(9, 17));
    assert(e.subrange(9, 17) =~= le64(w.timestamp));
    assert(buf.subrange(pos + 17, pos + 33) =~= s.subrange(17, 33));
    assert(e.subrange(17, 33) =~= le128(w.id));
    assert(buf.subrange(pos + 33, pos + 37) =~= s.subrange(33, 37));
    assert(e.subrange(33, 37) =~= le32(w.checksum));
    assert(buf.subrange(pos + 37, pos + 41) =~= s.subrange(37, 41));
    assert(e.subrange(37, 41) =~= le32(w.hbytes.len() as u32));
    assert(buf.subrange(pos + 41, pos + 41 + h) =~= s.subrange(41, 41 + h));
    assert(e.subrange(41, 41 + h) =~= w.hbytes);
    assert(buf.subrange(pos + 41 + h, pos + 45 + h) =~= s.subrange(41 + h, 45 + h));
    assert(e.subrange(41 + h, 45 + h) =~= le32(w.length));
    assert(buf.subrange(pos + 45 + h, pos + 45 + h + p) =~= s.subrange(45 + h, 45 + h + p));
    assert(e.subrange(45 + h, 45 + h + p) =~= w.payload);
}
pub proof fn lemma_pms_nonempty(ws: Seq<PmW>)
    ensures all_nonempty(ws),
{
    assert forall|i: int| 0 <= i < ws.len() implies (#[trigger] ws[i]).enc().len() > 0 by { lemma_le_facts(); lemma_le128_facts(); }
}

// the poll response:  partition_id:u32 | current_offset:u64 | messages_count:u32 | message*
pub ghost struct PolledV { pub partition_id: u32, pub current_offset: u64, pub count: u32, pub msgs: Seq<PmW> }
pub open spec fn polled_head(w: PolledV) -> Seq<u8> { le32(w.partition_id) + le64(w.current_offset) + le32(w.count) }
impl Wire for PolledV {
    open spec fn enc(self) -> Seq<u8> { polled_head(self) + enc_seq(self.msgs) }
}
pub open spec fn polled_valid(w: PolledV) -> bool { pms_valid(w.msgs) }
pub proof fn lemma_polled_layout(w: PolledV)
    ensures
        ({
            let b = w.enc();
            &&& b.len() == 16 + enc_seq(w.msgs).len()
            &&& b.subrange(0, 4) == le32(w.partition_id)
            &&& b.subrange(4, 12) == le64(w.current_offset)
            &&& b.subrange(12, 16) == le32(w.count)
            &&& b.subrange(16, b.len() as int) == enc_seq(w.msgs)
        }),
{
    lemma_le_facts();
    let b = w.enc();
    assert(b.subrange(0, 4) =~= le32(w.partition_id));
    assert(b.subrange(4, 12) =~= le64(w.current_offset));
    assert(b.subrange(12, 16) =~= le32(w.count));
    assert(b.subrange(16, b.len() as int) =~= enc_seq(w.msgs));
}
