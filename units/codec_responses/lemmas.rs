// ---- composition harnesses: the property clause itself, stated over the two REAL functions ---------------------------------------
// Each harness calls the server-side encoder and feeds its output to the SDK-side decoder; Verus proves from the two contracts
// alone that the decoder's precondition holds for whatever the encoder emits and that the result is the projection of the entity.

// label: C13.resp.consumer_offset
pub fn c13_resp_consumer_offset(offset: &ConsumerOffsetInfo) -> (r: Result<ConsumerOffsetInfo, IggyError>)
    ensures r == Ok::<ConsumerOffsetInfo, IggyError>(*offset),
{
    let b = map_consumer_offset(offset);
    sdk_map_consumer_offset(b)
}

// label: C13.resp.identity_info
pub fn c13_resp_identity_info(user_id: u32) -> (r: Result<IdentityInfo, IggyError>)
    ensures r matches Ok(i) && i.user_id == user_id && i.access_token is None,
{
    let b = map_identity_info(user_id);
    sdk_map_identity_info(b)
}

// server entity invariant used below: names are at most 255 bytes long (validated on create/update; the wire has a u8 length)
// label: C13.resp.users
pub fn c13_resp_users(users: &[&User]) -> (r: Result<Vec<UserInfo>, IggyError>)
    requires forall|i: int| 0 <= i < users@.len() ==> (#[trigger] users@[i]).username@.len() <= 255,
    ensures
        r matches Ok(v) && rearranged(user_views(users@), user_info_views(v@)) && users_sorted(user_info_views(v@))
            && (users_sorted(user_views(users@)) ==> user_info_views(v@) == user_views(users@)),
{
    proof {
        assert forall|i: int| 0 <= i < users@.len() implies user_info_valid(#[trigger] user_views(users@)[i]) by { axiom_text_utf8(users@[i].username); }
    }
    let b = map_users(users);
    sdk_map_users(b)
}

// label: C13.resp.user
pub fn c13_resp_user(user: &User) -> (r: Result<UserInfoDetails, IggyError>)
    requires user.username@.len() <= 255,
    ensures
        r matches Ok(x) && user_details_info(x) == user_view(*user)
            && match user.permissions { Some(p) => x.permissions matches Some(q) && perm_same(q, p), None => x.permissions is None },
{
    proof {
        axiom_text_utf8(user.username);
        if user.permissions is Some {
            let p = user.permissions->0;
            axiom_perm_size(p);
            lemma_perm_orders_ok(p);
            lemma_perm_rel_intro(p, perm_bytes(p));
            assert(perm_enc_ok(p, perm_bytes(p)));
        }
        assert(perm_block_valid(user_perm_bytes(*user)));
    }
    let b = map_user(user);
    sdk_map_user(b)
}

// label: C13.resp.consumer_groups
pub fn c13_resp_consumer_groups(consumer_groups: &[&ConsumerGroup]) -> (r: Result<Vec<SdkConsumerGroup>, IggyError>)
    requires forall|i: int| 0 <= i < consumer_groups@.len() ==> (#[trigger] consumer_groups@[i]).name@.len() <= 255,
    ensures
        r matches Ok(v) && rearranged(cg_views(consumer_groups@), sdk_cg_views(v@)) && cgs_sorted(sdk_cg_views(v@))
            && (cgs_sorted(cg_views(consumer_groups@)) ==> sdk_cg_views(v@) == cg_views(consumer_groups@)),
{
    proof {
        assert forall|i: int| 0 <= i < consumer_groups@.len() implies cg_valid(#[trigger] cg_views(consumer_groups@)[i]) by { axiom_text_utf8(consumer_groups@[i].name); }
    }
    let b = map_consumer_groups(consumer_groups);
    sdk_map_consumer_groups(b)
}

// server entity invariant: a member holds at most 2^30 - 3 partition ids (a topic has at most 1000 partitions)
// label: C13.resp.consumer_group
pub fn c13_resp_consumer_group(consumer_group: &ConsumerGroup) -> (r: Result<ConsumerGroupDetails, IggyError>)
    requires
        consumer_group.name@.len() <= 255,
        forall|i: int| 0 <= i < cg_members(*consumer_group).len() ==> 8 + 4 * member_partitions(#[trigger] cg_members(*consumer_group)[i]).len() <= u32::MAX,
    ensures
        r matches Ok(x) && cg_details_head(x) == cg_view(*consumer_group)
            && rearranged(cg_member_views(cg_members(*consumer_group)), sdk_cg_member_views(x.members@))
            && cg_members_sorted(sdk_cg_member_views(x.members@))
            && (cg_members_sorted(cg_member_views(cg_members(*consumer_group))) ==> sdk_cg_member_views(x.members@) == cg_member_views(cg_members(*consumer_group))),
{
    proof {
        axiom_text_utf8(consumer_group.name);
        let ms = cg_member_views(cg_members(*consumer_group));
        assert forall|i: int| 0 <= i < ms.len() implies cg_member_valid(#[trigger] ms[i]) by {
            assert(8 + 4 * member_partitions(cg_members(*consumer_group)[i]).len() <= u32::MAX);
        }
    }
    let b = map_consumer_group(consumer_group);
    sdk_map_consumer_group(b)
}

// server entity invariant: token names are at most 255 bytes (validated 3..=30); a token does not expire AT the epoch
// label: C13.resp.personal_access_tokens
pub fn c13_resp_personal_access_tokens(pats: &[&PersonalAccessToken]) -> (r: Result<Vec<PersonalAccessTokenInfo>, IggyError>)
    requires
        forall|i: int| 0 <= i < pats@.len() ==> (#[trigger] pats@[i]).name@.len() <= 255,
        forall|i: int| 0 <= i < pats@.len() ==> ((#[trigger] pats@[i]).expiry_at matches Some(t) ==> t@ != 0),
    ensures
        r matches Ok(v) && rearranged(pat_views(pats@), pat_info_views(v@)) && pats_sorted(pat_info_views(v@))
            && (pats_sorted(pat_views(pats@)) ==> pat_info_views(v@) == pat_views(pats@)),
{
    proof {
        assert forall|i: int| 0 <= i < pats@.len() implies pat_valid(#[trigger] pat_views(pats@)[i]) by { axiom_text_utf8(pats@[i].name); }
    }
    let b = map_personal_access_tokens(pats);
    sdk_map_personal_access_tokens(b)
}

// label: C13.resp.raw_pat
pub fn c13_resp_raw_pat(token: &Text) -> (r: Result<RawPersonalAccessToken, IggyError>)
    requires token@.len() <= 255,
    ensures r matches Ok(x) && x.token@ == token@,
{
    proof { axiom_text_utf8(*token); }
    let b = map_raw_pat(token);
    sdk_map_raw_pat(b)
}

// server entity invariants used below (established where the entities are created/updated; not proved here):
//   names are at most 255 bytes (validated); a topic's expiry is RESOLVED (never "server default": Topic::get_message_expiry) and, like
//   its max size, has a wire code of its own (a custom duration / size is neither 0 nor u64::MAX)
pub open spec fn topic_entity_ok(t: Topic) -> bool {
    t.name@.len() <= 255 && expiry_view(t.message_expiry) != ExpiryV::ServerDefault && expiry_exact(expiry_view(t.message_expiry)) && size_exact(size_view(t.max_topic_size))
}

// label: C13.resp.streams
pub fn c13_resp_streams(streams: &[&Stream]) -> (r: Result<Vec<SdkStream>, IggyError>)
    requires forall|i: int| 0 <= i < streams@.len() ==> (#[trigger] streams@[i]).name@.len() <= 255,
    ensures
        r matches Ok(v) && rearranged(stream_views(streams@), sdk_stream_views(v@)) && streams_sorted(sdk_stream_views(v@))
            && (streams_sorted(stream_views(streams@)) ==> sdk_stream_views(v@) == stream_views(streams@)),
{
    proof {
        assert forall|i: int| 0 <= i < streams@.len() implies stream_valid(#[trigger] stream_views(streams@)[i]) by { axiom_text_utf8(streams@[i].name); }
    }
    let b = map_streams(streams);
    sdk_map_streams(b)
}

// label: C13.resp.topics
pub fn c13_resp_topics(topics: &[&Topic]) -> (r: Result<Vec<SdkTopic>, IggyError>)
    requires forall|i: int| 0 <= i < topics@.len() ==> topic_entity_ok(*#[trigger] topics@[i]),
    ensures
        r matches Ok(v) && rearranged(topic_views(topics@), sdk_topic_views(v@)) && topics_sorted(sdk_topic_views(v@))
            && (topics_sorted(topic_views(topics@)) ==> sdk_topic_views(v@) == topic_views(topics@)),
{
    proof {
        assert forall|i: int| 0 <= i < topics@.len() implies topic_valid(#[trigger] topic_views(topics@)[i]) by {
            assert(topic_entity_ok(*topics@[i]));
            axiom_text_utf8(topics@[i].name);
        }
    }
    let b = map_topics(topics);
    sdk_map_topics(b)
}

// label: C13.resp.stream
pub fn c13_resp_stream(stream: &Stream) -> (r: Result<StreamDetails, IggyError>)
    requires
        stream.name@.len() <= 255,
        forall|i: int| 0 <= i < stream_topics(*stream).len() ==> topic_entity_ok(#[trigger] stream_topics(*stream)[i]),
    ensures
        r matches Ok(x) && stream_details_head(x) == stream_entity_view(*stream)
            && rearranged(topic_views_owned(stream_topics(*stream)), sdk_topic_views(x.topics@)) && topics_sorted(sdk_topic_views(x.topics@))
            && (topics_sorted(topic_views_owned(stream_topics(*stream))) ==> sdk_topic_views(x.topics@) == topic_views_owned(stream_topics(*stream))),
{
    proof {
        axiom_text_utf8(stream.name);
        let ts = topic_views_owned(stream_topics(*stream));
        assert forall|i: int| 0 <= i < ts.len() implies topic_valid(#[trigger] ts[i]) by {
            assert(topic_entity_ok(stream_topics(*stream)[i]));
            axiom_text_utf8(stream_topics(*stream)[i].name);
        }
    }
    let b = map_stream(stream);
    sdk_map_stream(b)
}

// label: C13.resp.topic
pub fn c13_resp_topic(topic: &Topic) -> (r: Result<TopicDetails, IggyError>)
    requires topic_entity_ok(*topic),
    ensures
        r matches Ok(x) && topic_details_head(x) == topic_view(*topic)
            && rearranged(partition_views(topic_partitions(*topic)), sdk_partition_views(x.partitions@)) && partitions_sorted(sdk_partition_views(x.partitions@))
            && (partitions_sorted(partition_views(topic_partitions(*topic))) ==> sdk_partition_views(x.partitions@) == partition_views(topic_partitions(*topic))),
{
    proof { axiom_text_utf8(topic.name); }
    let b = map_topic(topic);
    sdk_map_topic(b)
}

// server entity invariant: user ids start at 1 (0 is the wire code of "not logged in")
// label: C13.resp.clients
pub fn c13_resp_clients(clients: &[Client]) -> (r: Result<Vec<ClientInfo>, IggyError>)
    requires forall|i: int| 0 <= i < clients@.len() ==> (#[trigger] clients@[i]).user_id != Some(0u32),
    ensures
        r matches Ok(v) && rearranged(client_views(clients@), client_info_views(v@)) && clients_sorted(client_info_views(v@))
            && (clients_sorted(client_views(clients@)) ==> client_info_views(v@) == client_views(clients@)),
{
    proof {
        assert forall|i: int| 0 <= i < clients@.len() implies client_valid(#[trigger] client_views(clients@)[i]) by {
            assert(clients@[i].user_id != Some(0u32));
            axiom_addr_text(clients@[i].session.ip_address);
        }
    }
    let b = map_clients(clients);
    sdk_map_clients(b)
}

// label: C13.resp.client
pub fn c13_resp_client(client: &Client) -> (r: Result<ClientInfoDetails, IggyError>)
    requires client.user_id != Some(0u32), client.consumer_groups@.len() <= u32::MAX,
    ensures
        r matches Ok(x) && client_details_head(x) == client_view(*client)
            && rearranged(client_cg_views(client.consumer_groups@), cg_info_views(x.consumer_groups@)) && cg_infos_sorted(cg_info_views(x.consumer_groups@))
            && (cg_infos_sorted(client_cg_views(client.consumer_groups@)) ==> cg_info_views(x.consumer_groups@) == client_cg_views(client.consumer_groups@)),
{
    proof { axiom_addr_text(client.session.ip_address); }
    let b = map_client(client);
    sdk_map_client(b)
}

// server entity invariant for a polled message (RetainedMessage::to_polled_message; the server refuses empty payloads and stores an
// empty header map as "no headers"): length == payload length (1 ..= u32::MAX); a present header map is valid (keys and values
// 1..=255 bytes - what the decoder it came from enforces), not empty, and its encoding is shorter than 4 GiB (validation caps it at 100 KB)
pub open spec fn pm_entity_ok(m: PolledMessage) -> bool {
    m.length.0 == m.payload@.len() && 1 <= m.payload@.len() <= u32::MAX
        && (m.headers matches Some(h) ==> hmap_valid(h@) && 1 <= hdr_bytes(h).len() <= u32::MAX)
}
// x carries the same data as m
pub open spec fn pm_same(x: PolledMessage, m: PolledMessage) -> bool {
    &&& x.offset == m.offset && x.state == m.state && x.timestamp == m.timestamp && x.id == m.id && x.checksum == m.checksum
    &&& x.length.0 == m.length.0 && x.payload@ == m.payload@
    &&& match m.headers { Some(h) => x.headers matches Some(q) && hmap_view(q@) == hmap_view(h@), None => x.headers is None }
}
// the header block the server emits for a valid map is the encoding of a valid map
pub proof fn lemma_hdr_bytes_valid(h: HashMap<HeaderKey, HeaderValue>)
    requires hmap_valid(h@),
    ensures hdr_block_valid(hdr_bytes(h)), lists(es_of(h), hmap_view(h@)),
{
    axiom_hdr_key_order(h);
    lemma_es_of_lists(h);
}
// label: C13.resp.polled_message.same
pub proof fn c13_resp_polled_message_same(x: PolledMessage, m: PolledMessage)
    requires pm_entity_ok(m), pm_matches(x, pm_wire(m)),
    ensures pm_same(x, m),
{
    if m.headers is Some { lemma_hdr_bytes_valid(m.headers->0); }
}

// label: C13.resp.polled_messages
pub fn c13_resp_polled_messages(pm: &PolledMessages) -> (r: Result<PolledMessages, IggyError>)
    requires forall|i: int| 0 <= i < pm.messages@.len() ==> pm_entity_ok(#[trigger] pm.messages@[i]),
    ensures
        r matches Ok(x) && x.partition_id == pm.partition_id && x.current_offset == pm.current_offset
            && (exists|xs0: Seq<PolledMessage>| pms_match(xs0, pm_wires(pm.messages@)) && rearranged(xs0, x.messages@))
            && sorted_by_key(x.messages@, |m: PolledMessage| m.offset as int)
            && (pms_sorted(pm_wires(pm.messages@)) ==> pms_match(x.messages@, pm_wires(pm.messages@))),
{
    proof {
        let ws = pm_wires(pm.messages@);
        assert forall|i: int| 0 <= i < ws.len() implies pm_valid(#[trigger] ws[i]) by {
            let m = pm.messages@[i];
            assert(pm_entity_ok(m));
            if m.headers is Some { lemma_hdr_bytes_valid(m.headers->0); }
        }
    }
    let b = map_polled_messages(pm);
    sdk_map_polled_messages(b)
}

// ---- labelled lemmas about the wire-format SPECIFICATION (no executable code is mentioned) ---------------------------------------------
// label: C13.conv.IggyExpiry.rt
pub proof fn c13_conv_expiry_rt(e: ExpiryV)
    requires expiry_exact(e),
    ensures expiry_unwire(expiry_wire(e)) == e,
{}
// label: C13.conv.MaxTopicSize.rt
pub proof fn c13_conv_size_rt(s: SizeV)
    requires size_exact(s),
    ensures size_unwire(size_wire(s)) == s,
{}
// label: C13.code.UserStatus.inj
pub proof fn c13_code_userstatus_inj()
    ensures forall|a: UserStatus, b: UserStatus| userstatus_code(a) == userstatus_code(b) ==> a == b,
{}
// label: C13.code.CompressionAlgorithm.inj
pub proof fn c13_code_compression_inj()
    ensures forall|a: CompressionAlgorithm, b: CompressionAlgorithm| compression_code(a) == compression_code(b) ==> a == b,
{}
// label: C13.resp.code.MessageState.inj
pub proof fn c13_code_messagestate_inj()
    ensures forall|a: MessageState, b: MessageState| messagestate_code(a) == messagestate_code(b) ==> a == b,
{}
