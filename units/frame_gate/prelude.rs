// ---- unit prelude: frame_gate (C13, last sentence) ---------------------------------------------------------------
// "A frame that is not a valid request is answered with an error or a closed connection and leaves the catalogue, the
//  logs and every other connection untouched."
// Stand-ins (R4) and spec vocabulary. Nothing here re-states a function body of /repo.
//
// The wire of ONE connection is a ghost history of events. Each kind of event is established by exactly one stub:
//   Received(b)        only by a read stub returning Ok           (b = the bytes delivered into the caller's buffer)
//   AnsweredError(e)   only by SenderKind::send_error_response(e)
//   Handled(c, ok)     only by `try_handle` (the dispatcher to the command handlers): c was handed to its handler, which
//                      returned Ok (ok = true: it has sent its ok response itself) or Err (ok = false: nothing sent yet)
// The handlers are the only code that reaches the catalogue, the logs and the other connections (A-world), so
// "no Handled event" is "catalogue, logs and every other connection untouched".

// --- opaque text (R10) ---
#[verifier::external_body]
pub struct Name { s: String }
impl Name {
    #[verifier::external_body]
    pub fn opaque() -> (r: Name) { unimplemented!() }
}

// --- errors: the variants the connection loops name; everything else is Other ---
#[derive(Debug)]
pub enum IggyError {
    ConnectionClosed,
    TcpError,
    InvalidCommand,
    InvalidNumberEncoding,
    CommandLengthError(Name),
    ClientNotFound(u32),
    Other(u32),
}
impl IggyError {
    pub uninterp spec fn code_spec(&self) -> u32;
    #[verifier::external_body]
    pub fn as_code(&self) -> (r: u32) ensures r == self.code_spec() { unimplemented!() }
}

// server_error::ConnectionError (error_set!): only `From<IggyError>` is used by the loop (`ConnectionError::from(e)` and `?`)
#[derive(Debug)]
pub enum ConnectionError { SdkError(IggyError), IoError, Other }
impl From<IggyError> for ConnectionError {
    fn from(e: IggyError) -> (r: ConnectionError) ensures r == ConnectionError::SdkError(e) { ConnectionError::SdkError(e) }
}
impl vstd::std_specs::convert::FromSpecImpl<IggyError> for ConnectionError {
    open spec fn obeys_from_spec() -> bool { true }
    open spec fn from_spec(e: IggyError) -> ConnectionError { ConnectionError::SdkError(e) }
}

// --- the request payload types of the SDK: opaque; each has its own decoder and validator (units codec_* are about those) ---
macro_rules! payload_standin {
    ($($t:ident),*) => { $( verus! {
        #[verifier::external_body]
        pub struct $t { _p: u8 }
        impl $t {
            pub uninterp spec fn valid_spec(&self) -> Result<(), IggyError>;
            pub uninterp spec fn decode_payload(b: Seq<u8>) -> Result<$t, IggyError>;
            #[verifier::external_body]
            pub fn validate(&self) -> (r: Result<(), IggyError>) ensures r == self.valid_spec() { unimplemented!() }
            #[verifier::external_body]
            pub fn from_bytes(bytes: ByteSeq) -> (r: Result<$t, IggyError>) ensures r == $t::decode_payload(bytes@) { unimplemented!() }
        }
    } )* }
}
payload_standin!(Ping, GetStats, GetMe, GetClient, GetClients, GetUser, GetUsers, CreateUser, DeleteUser, UpdateUser,
    UpdatePermissions, ChangePassword, LoginUser, LogoutUser, GetPersonalAccessTokens, CreatePersonalAccessToken,
    DeletePersonalAccessToken, LoginWithPersonalAccessToken, SendMessages, PollMessages, FlushUnsavedBuffer,
    GetConsumerOffset, StoreConsumerOffset, DeleteConsumerOffset, GetStream, GetStreams, CreateStream, DeleteStream,
    UpdateStream, PurgeStream, GetTopic, GetTopics, CreateTopic, DeleteTopic, UpdateTopic, PurgeTopic, CreatePartitions,
    DeletePartitions, GetConsumerGroup, GetConsumerGroups, CreateConsumerGroup, DeleteConsumerGroup, JoinConsumerGroup,
    LeaveConsumerGroup, GetSnapshot);

// --- the decoder's and the validator's verdict on a frame (uninterpreted: this unit is about what is DONE with the verdict) ---
pub uninterp spec fn decode_spec(b: Seq<u8>) -> Result<ServerCommand, IggyError>;
pub uninterp spec fn cmd_valid(c: ServerCommand) -> Result<(), IggyError>;
impl ServerCommand {
    // no precondition: a panic on a malformed buffer ends the connection task = closed connection (allowed)
    #[verifier::external_body]
    pub fn from_bytes(bytes: ByteSeq) -> (r: Result<ServerCommand, IggyError>) ensures r == decode_spec(bytes@) { unimplemented!() }
    #[verifier::external_body]
    pub fn validate(&self) -> (r: Result<(), IggyError>) ensures r == cmd_valid(*self) { unimplemented!() }
}
// a frame (command code + payload bytes) is a valid request iff it decodes and the decoded command validates
pub open spec fn valid_request(b: Seq<u8>) -> bool {
    decode_spec(b) matches Ok(c) && cmd_valid(c) is Ok
}

// --- the ghost history of a connection's wire ---
pub enum Event {
    Received(Seq<u8>),
    AnsweredError(IggyError),
    Handled(ServerCommand, bool),
}
// framing: TCP / TCP+TLS read the 4-byte length header and then the frame (command code + payload) as two reads;
// a QUIC request is the whole content of one stream: 4-byte length, then the frame
pub enum Wire { Stream, Quic }
pub open spec fn frame_of(w: Wire, b: Seq<u8>) -> Option<Seq<u8>> {
    match w {
        Wire::Stream => Some(b),
        Wire::Quic => if b.len() >= 4 { Some(b.skip(4)) } else { None },
    }
}

// the part of the history written by one step: indices [pre.len(), post.len()) of post
pub open spec fn extends(pre: Seq<Event>, post: Seq<Event>) -> bool {
    pre.len() <= post.len() && forall|j: int| 0 <= j < pre.len() ==> post[j] == pre[j]
}
pub open spec fn no_handled(pre: Seq<Event>, post: Seq<Event>) -> bool {
    forall|j: int| pre.len() <= j < post.len() ==> !(#[trigger] post[j] is Handled)
}
pub open spec fn handled_once(pre: Seq<Event>, post: Seq<Event>, c: ServerCommand) -> bool {
    exists|j: int| pre.len() <= j < post.len() && (#[trigger] post[j] matches Event::Handled(c1, ok) && c1 == c)
        && forall|k: int| pre.len() <= k < post.len() && #[trigger] post[k] is Handled ==> k == j
}
// an event that IS a response on the wire: an error response, or a handler that returned Ok (A-handlers)
pub open spec fn is_response(e: Event) -> bool {
    e is AnsweredError || (e matches Event::Handled(c, ok) && ok)
}
pub open spec fn at_most_one_response(pre: Seq<Event>, post: Seq<Event>) -> bool {
    forall|j: int, k: int| pre.len() <= j < post.len() && pre.len() <= k < post.len()
        && is_response(#[trigger] post[j]) && is_response(#[trigger] post[k]) ==> j == k
}
pub open spec fn answered_error(pre: Seq<Event>, post: Seq<Event>) -> bool {
    exists|j: int| pre.len() <= j < post.len() && #[trigger] post[j] is AnsweredError
}
// the frame a TCP iteration has received: the header read and the body read both succeeded; the frame is the body
pub open spec fn tcp_frame_received(pre: Seq<Event>, post: Seq<Event>) -> Option<Seq<u8>> {
    if post.len() >= pre.len() + 2 && post[pre.len() as int] is Received && post[pre.len() + 1] is Received {
        Some(post[pre.len() + 1]->Received_0)
    } else {
        None
    }
}

// THE GATE (precondition of the handler entry points, checked at every call site): the handler is entered only when the
// LAST thing that happened on this wire is the arrival of a frame that decodes to exactly this command, and the command
// passed validate(). (After Handled / AnsweredError the gate is shut until the next frame arrives.)
pub open spec fn gate_open(tr: Seq<Event>, w: Wire, c: ServerCommand) -> bool {
    tr.len() > 0 && (tr.last() matches Event::Received(b) && (frame_of(w, b) matches Some(f) && decode_spec(f) == Ok::<ServerCommand, IggyError>(c)))
        && cmd_valid(c) is Ok
}
// "the handler ran on c with result r": established only by try_handle; lets a caller whose sender is a local (QUIC) state
// that the command WAS handed over
pub uninterp spec fn handler_ran(c: ServerCommand, r: Result<(), IggyError>) -> bool;

// --- the sender: TCP, TCP+TLS or QUIC stream pair behind one enum (binary/sender.rs) ---
#[verifier::external_body]
pub struct SenderKind { _p: u8 }
pub trait ReadBuf { spec fn rb_bytes(&self) -> Seq<u8>; }
impl ReadBuf for [u8; 4] { open spec fn rb_bytes(&self) -> Seq<u8> { self@ } }
impl ReadBuf for ByteSeq { open spec fn rb_bytes(&self) -> Seq<u8> { self@ } }
impl SenderKind {
    pub uninterp spec fn trace(&self) -> Seq<Event>;
    pub uninterp spec fn wire(&self) -> Wire;

    // read_exact into the caller's buffer (`&mut [u8]` in the source; the two call sites pass a [u8; 4] and a BytesMut)
    #[verifier::external_body]
    pub fn read<B: ReadBuf>(&mut self, buffer: &mut B) -> (r: Result<usize, IggyError>)
        ensures
            final(self).wire() == old(self).wire(),
            final(buffer).rb_bytes().len() == old(buffer).rb_bytes().len(),
            r is Ok ==> final(self).trace() == old(self).trace().push(Event::Received(final(buffer).rb_bytes())),
            r is Err ==> final(self).trace() == old(self).trace(),
    { unimplemented!() }

    // on Err the write failed part-way: the peer may or may not have seen the response
    #[verifier::external_body]
    pub fn send_error_response(&mut self, error: IggyError) -> (r: Result<(), IggyError>)
        ensures
            final(self).wire() == old(self).wire(),
            r is Ok ==> final(self).trace() == old(self).trace().push(Event::AnsweredError(error)),
            r is Err ==> final(self).trace() == old(self).trace() || final(self).trace() == old(self).trace().push(Event::AnsweredError(error)),
    { unimplemented!() }

    #[verifier::external_body]
    pub fn get_quic_sender(send_stream: SendStream, recv_stream: RecvStream) -> (r: SenderKind)
        ensures r.trace() == recv_stream.trace(), r.wire() is Quic,
    { unimplemented!() }
}

// --- the shared system handle and the session (A-world: no operation besides these) ---
#[verifier::external_body]
pub struct SharedSystem { _p: u8 }
impl Clone for SharedSystem {
    #[verifier::external_body]
    fn clone(&self) -> (r: SharedSystem) { unimplemented!() }
}
impl Session {
    // A-std: `Arc<Session>: AsRef<Session>` is the identity borrow
    pub fn as_ref(&self) -> (r: &Session) ensures r == self { self }
}

// --- the dispatcher to the ~45 command handlers (binary/command.rs try_handle): THE command handler of this unit ---
#[verifier::external_body]
pub fn try_handle(command: ServerCommand, sender: &mut SenderKind, session: &Session, system: &SharedSystem) -> (r: Result<(), IggyError>)
    requires
        gate_open(old(sender).trace(), old(sender).wire(), command),   //@requires [C13.frame.gate.dispatch]
    ensures
        final(sender).wire() == old(sender).wire(),
        final(sender).trace() == old(sender).trace().push(Event::Handled(command, r is Ok)),
        handler_ran(command, r),
{ unimplemented!() }
// the loops call `command::handle(..)`: binary::command::handle, extracted below (contracts.vspec `fn handle`)
pub mod command { pub use super::handle; }

// --- control transfers out of one iteration of the TCP loop (R11 slice, see unit.toml) ---
pub enum LoopStep { Continue, EndOfBody }

// --- QUIC (quinn) and anyhow stand-ins ---
#[verifier::external_body]
pub struct SendStream { _p: u8 }
#[verifier::external_body]
pub struct RecvStream { _p: u8 }
pub struct ReadToEndError { pub p: u8 }
impl RecvStream {
    pub uninterp spec fn trace(&self) -> Seq<Event>;
    // quinn RecvStream::read_to_end(limit): the whole content of the stream, Err when it is longer than `limit` or the read fails
    #[verifier::external_body]
    pub fn read_to_end(&mut self, size_limit: usize) -> (r: Result<Vec<u8>, ReadToEndError>)
        ensures
            r matches Ok(v) ==> v@.len() <= size_limit && final(self).trace() == old(self).trace().push(Event::Received(v@)),
            r is Err ==> final(self).trace() == old(self).trace(),
    { unimplemented!() }
}
pub struct AnyhowError { pub p: u8 }
impl AnyhowError {
    #[verifier::external_body]
    pub fn msg() -> (r: AnyhowError) { unimplemented!() }
}
// anyhow::Context::with_context(|| text): Ok stays Ok with the same value, Err becomes an anyhow error carrying the text
pub trait Context<T> { fn with_context<F: FnOnce() -> &'static str>(self, f: F) -> Result<T, AnyhowError>; }
impl<T, E> Context<T> for Result<T, E> {
    #[verifier::external_body]
    fn with_context<F: FnOnce() -> &'static str>(self, f: F) -> (r: Result<T, AnyhowError>)
        ensures
            self matches Ok(v) ==> r == Ok::<T, AnyhowError>(v),
            self is Err ==> r is Err,
    { unimplemented!() }
}
impl ByteSeq {
    // Bytes::copy_from_slice: a copy of the slice
    #[verifier::external_body]
    pub fn copy_from_slice(s: &[u8]) -> (r: ByteSeq) ensures r@ == s@ { unimplemented!() }
}
