// ---- unit prelude: frame_gate (C13, last sentence) ---------------------------------------------------------------
// "A frame that is not a valid request is answered with an error or a closed connection and leaves the catalogue, the
//  logs and every other connection untouched."
// Stand-ins (R4) and spec vocabulary. Nothing here re-states a function body of /repo.
//
// The wire of ONE connection is a ghost history of events. Each kind of event is established by exactly one stub:
//   Received(b)        only by a read stub returning Ok           (b = the bytes delivered into the caller's buffer)
//   AnsweredError(e)   only by SenderKind::send_error_response(e)
//   Handled(c, ok)     only by `try_handle` (the dispatcher to the command handlers): c was handed to its handler, which
//                      returned Ok (ok = true: it has sent its ok response itself) or Err (ok = false: nothing sent yet)
// The handlers are the only code that reaches the catalogue, the logs and the other connections (A-world), so
// "no Handled event" is "catalogue, logs and every other connection untouched".

global size_of usize == 8;    // 64-bit target

// --- opaque text (R10) ---
#[verifier::external_body]
#[derive(Debug)]
pub struct Name { s: String }
impl Name {
    #[verifier::external_body]
    pub fn opaque() -> (r: Name) { unimplemented!() }
}

// --- errors: the variants the connection loops name; everything else is Other ---
#[derive(Debug)]
pub enum IggyError {
    ConnectionClosed,
    TcpError,
    InvalidCommand,
    InvalidNumberEncoding,
    CommandLengthError(Name),
    ClientNotFound(u32),
    Other(u32),
}
impl IggyError {
    pub uninterp spec fn code_spec(&self) -> u32;
    #[verifier::external_body]
    pub fn as_code(&self) -> (r: u32) ensures r == self.code_spec() { unimplemented!() }
}

// server_error::ConnectionError (error_set!): only `From<IggyError>` is used by the loop (`ConnectionError::from(e)` and `?`)
#[derive(Debug)]
pub enum ConnectionError { SdkError(IggyError), IoError, Other }
impl From<IggyError> for ConnectionError {
    fn from(e: IggyError) -> (r: ConnectionError) ensures r == ConnectionError::SdkError(e) { ConnectionError::SdkError(e) }
}
impl vstd::std_specs::convert::FromSpecImpl<IggyError> for ConnectionError {
    open spec fn obeys_from_spec() -> bool { true }
    open spec fn from_spec(e: IggyError) -> ConnectionError { ConnectionError::SdkError(e) }
}

// --- the request payload types of the SDK: opaque; each has its own decoder and validator (units codec_* are about those).
// One macro instead of 45 copies: every line marked external_body / uninterp below is an assumption PER payload type ---
macro_rules! payload_standin {
    ($(($t:ident, $code:ident)),*) => { $( verus! {
        #[verifier::external_body]
        pub struct $t { _p: u8 }
        impl $t {
            // sdk `impl Command for $t { fn code(&self) -> u32 { $code } }` (the constant itself is extracted from sdk/src/command.rs)
            pub open spec fn code_spec() -> u32 { $code }
            pub uninterp spec fn valid_spec(&self) -> Result<(), IggyError>;
            pub uninterp spec fn decode_payload(b: Seq<u8>) -> Result<$t, IggyError>;
            #[verifier::external_body]
            pub fn validate(&self) -> (r: Result<(), IggyError>) ensures r == self.valid_spec() { unimplemented!() }
            #[verifier::external_body]
            pub fn from_bytes(bytes: ByteSeq) -> (r: Result<$t, IggyError>) ensures r == $t::decode_payload(bytes@) { unimplemented!() }
        }
    } )* }
}
// (payload type, the command code its SDK `Command::code()` returns)
payload_standin!(
    (Ping, PING_CODE),
    (GetStats, GET_STATS_CODE),
    (GetMe, GET_ME_CODE),
    (GetClient, GET_CLIENT_CODE),
    (GetClients, GET_CLIENTS_CODE),
    (GetUser, GET_USER_CODE),
    (GetUsers, GET_USERS_CODE),
    (CreateUser, CREATE_USER_CODE),
    (DeleteUser, DELETE_USER_CODE),
    (UpdateUser, UPDATE_USER_CODE),
    (UpdatePermissions, UPDATE_PERMISSIONS_CODE),
    (ChangePassword, CHANGE_PASSWORD_CODE),
    (LoginUser, LOGIN_USER_CODE),
    (LogoutUser, LOGOUT_USER_CODE),
    (GetPersonalAccessTokens, GET_PERSONAL_ACCESS_TOKENS_CODE),
    (CreatePersonalAccessToken, CREATE_PERSONAL_ACCESS_TOKEN_CODE),
    (DeletePersonalAccessToken, DELETE_PERSONAL_ACCESS_TOKEN_CODE),
    (LoginWithPersonalAccessToken, LOGIN_WITH_PERSONAL_ACCESS_TOKEN_CODE),
    (SendMessages, SEND_MESSAGES_CODE),
    (PollMessages, POLL_MESSAGES_CODE),
    (FlushUnsavedBuffer, FLUSH_UNSAVED_BUFFER_CODE),
    (GetConsumerOffset, GET_CONSUMER_OFFSET_CODE),
    (StoreConsumerOffset, STORE_CONSUMER_OFFSET_CODE),
    (DeleteConsumerOffset, DELETE_CONSUMER_OFFSET_CODE),
    (GetStream, GET_STREAM_CODE),
    (GetStreams, GET_STREAMS_CODE),
    (CreateStream, CREATE_STREAM_CODE),
    (DeleteStream, DELETE_STREAM_CODE),
    (UpdateStream, UPDATE_STREAM_CODE),
    (PurgeStream, PURGE_STREAM_CODE),
    (GetTopic, GET_TOPIC_CODE),
    (GetTopics, GET_TOPICS_CODE),
    (CreateTopic, CREATE_TOPIC_CODE),
    (DeleteTopic, DELETE_TOPIC_CODE),
    (UpdateTopic, UPDATE_TOPIC_CODE),
    (PurgeTopic, PURGE_TOPIC_CODE),
    (CreatePartitions, CREATE_PARTITIONS_CODE),
    (DeletePartitions, DELETE_PARTITIONS_CODE),
    (GetConsumerGroup, GET_CONSUMER_GROUP_CODE),
    (GetConsumerGroups, GET_CONSUMER_GROUPS_CODE),
    (CreateConsumerGroup, CREATE_CONSUMER_GROUP_CODE),
    (DeleteConsumerGroup, DELETE_CONSUMER_GROUP_CODE),
    (JoinConsumerGroup, JOIN_CONSUMER_GROUP_CODE),
    (LeaveConsumerGroup, LEAVE_CONSUMER_GROUP_CODE),
    (GetSnapshot, GET_SNAPSHOT_FILE_CODE));

// --- the decoder's and the validator's verdict on a frame ---
// decode_spec is uninterpreted (this unit is about what is DONE with the decoder's verdict; the decoders are units codec_*).
pub uninterp spec fn decode_spec(b: Seq<u8>) -> Result<ServerCommand, IggyError>;
// a command is valid iff its payload passes the validate() of its own type (the verdict of that validate() is opaque here);
// `ServerCommand::validate` is extracted and proved to compute exactly this ([C13.frame.validate.own])
pub open spec fn cmd_valid(c: ServerCommand) -> Result<(), IggyError> {
    match c {
        ServerCommand::Ping(p) => p.valid_spec(),
        ServerCommand::GetStats(p) => p.valid_spec(),
        ServerCommand::GetMe(p) => p.valid_spec(),
        ServerCommand::GetClient(p) => p.valid_spec(),
        ServerCommand::GetClients(p) => p.valid_spec(),
        ServerCommand::GetUser(p) => p.valid_spec(),
        ServerCommand::GetUsers(p) => p.valid_spec(),
        ServerCommand::CreateUser(p) => p.valid_spec(),
        ServerCommand::DeleteUser(p) => p.valid_spec(),
        ServerCommand::UpdateUser(p) => p.valid_spec(),
        ServerCommand::UpdatePermissions(p) => p.valid_spec(),
        ServerCommand::ChangePassword(p) => p.valid_spec(),
        ServerCommand::LoginUser(p) => p.valid_spec(),
        ServerCommand::LogoutUser(p) => p.valid_spec(),
        ServerCommand::GetPersonalAccessTokens(p) => p.valid_spec(),
        ServerCommand::CreatePersonalAccessToken(p) => p.valid_spec(),
        ServerCommand::DeletePersonalAccessToken(p) => p.valid_spec(),
        ServerCommand::LoginWithPersonalAccessToken(p) => p.valid_spec(),
        ServerCommand::SendMessages(p) => p.valid_spec(),
        ServerCommand::PollMessages(p) => p.valid_spec(),
        ServerCommand::FlushUnsavedBuffer(p) => p.valid_spec(),
        ServerCommand::GetConsumerOffset(p) => p.valid_spec(),
        ServerCommand::StoreConsumerOffset(p) => p.valid_spec(),
        ServerCommand::DeleteConsumerOffset(p) => p.valid_spec(),
        ServerCommand::GetStream(p) => p.valid_spec(),
        ServerCommand::GetStreams(p) => p.valid_spec(),
        ServerCommand::CreateStream(p) => p.valid_spec(),
        ServerCommand::DeleteStream(p) => p.valid_spec(),
        ServerCommand::UpdateStream(p) => p.valid_spec(),
        ServerCommand::PurgeStream(p) => p.valid_spec(),
        ServerCommand::GetTopic(p) => p.valid_spec(),
        ServerCommand::GetTopics(p) => p.valid_spec(),
        ServerCommand::CreateTopic(p) => p.valid_spec(),
        ServerCommand::DeleteTopic(p) => p.valid_spec(),
        ServerCommand::UpdateTopic(p) => p.valid_spec(),
        ServerCommand::PurgeTopic(p) => p.valid_spec(),
        ServerCommand::CreatePartitions(p) => p.valid_spec(),
        ServerCommand::DeletePartitions(p) => p.valid_spec(),
        ServerCommand::GetConsumerGroup(p) => p.valid_spec(),
        ServerCommand::GetConsumerGroups(p) => p.valid_spec(),
        ServerCommand::CreateConsumerGroup(p) => p.valid_spec(),
        ServerCommand::DeleteConsumerGroup(p) => p.valid_spec(),
        ServerCommand::JoinConsumerGroup(p) => p.valid_spec(),
        ServerCommand::LeaveConsumerGroup(p) => p.valid_spec(),
        ServerCommand::GetSnapshotFile(p) => p.valid_spec(),
    }
}
impl ServerCommand {
    // no precondition: a panic on a malformed buffer ends the connection task = closed connection (allowed)
    #[verifier::external_body]
    pub fn from_bytes(bytes: ByteSeq) -> (r: Result<ServerCommand, IggyError>) ensures r == decode_spec(bytes@) { unimplemented!() }
}
// --- vocabulary of the dispatch clauses on `ServerCommand::from_bytes` (contracts.vspec) ---
// the command code a frame starts with, and the payload bytes after it
pub open spec fn frame_code(b: Seq<u8>) -> u32 { un_le32(b.subrange(0, 4)) }
// the code under which the SDK sends the payload type a variant carries
pub open spec fn code_of_cmd(c: ServerCommand) -> u32 {
    match c {
        ServerCommand::Ping(_) => Ping::code_spec(),
        ServerCommand::GetStats(_) => GetStats::code_spec(),
        ServerCommand::GetMe(_) => GetMe::code_spec(),
        ServerCommand::GetClient(_) => GetClient::code_spec(),
        ServerCommand::GetClients(_) => GetClients::code_spec(),
        ServerCommand::GetUser(_) => GetUser::code_spec(),
        ServerCommand::GetUsers(_) => GetUsers::code_spec(),
        ServerCommand::CreateUser(_) => CreateUser::code_spec(),
        ServerCommand::DeleteUser(_) => DeleteUser::code_spec(),
        ServerCommand::UpdateUser(_) => UpdateUser::code_spec(),
        ServerCommand::UpdatePermissions(_) => UpdatePermissions::code_spec(),
        ServerCommand::ChangePassword(_) => ChangePassword::code_spec(),
        ServerCommand::LoginUser(_) => LoginUser::code_spec(),
        ServerCommand::LogoutUser(_) => LogoutUser::code_spec(),
        ServerCommand::GetPersonalAccessTokens(_) => GetPersonalAccessTokens::code_spec(),
        ServerCommand::CreatePersonalAccessToken(_) => CreatePersonalAccessToken::code_spec(),
        ServerCommand::DeletePersonalAccessToken(_) => DeletePersonalAccessToken::code_spec(),
        ServerCommand::LoginWithPersonalAccessToken(_) => LoginWithPersonalAccessToken::code_spec(),
        ServerCommand::SendMessages(_) => SendMessages::code_spec(),
        ServerCommand::PollMessages(_) => PollMessages::code_spec(),
        ServerCommand::FlushUnsavedBuffer(_) => FlushUnsavedBuffer::code_spec(),
        ServerCommand::GetConsumerOffset(_) => GetConsumerOffset::code_spec(),
        ServerCommand::StoreConsumerOffset(_) => StoreConsumerOffset::code_spec(),
        ServerCommand::DeleteConsumerOffset(_) => DeleteConsumerOffset::code_spec(),
        ServerCommand::GetStream(_) => GetStream::code_spec(),
        ServerCommand::GetStreams(_) => GetStreams::code_spec(),
        ServerCommand::CreateStream(_) => CreateStream::code_spec(),
        ServerCommand::DeleteStream(_) => DeleteStream::code_spec(),
        ServerCommand::UpdateStream(_) => UpdateStream::code_spec(),
        ServerCommand::PurgeStream(_) => PurgeStream::code_spec(),
        ServerCommand::GetTopic(_) => GetTopic::code_spec(),
        ServerCommand::GetTopics(_) => GetTopics::code_spec(),
        ServerCommand::CreateTopic(_) => CreateTopic::code_spec(),
        ServerCommand::DeleteTopic(_) => DeleteTopic::code_spec(),
        ServerCommand::UpdateTopic(_) => UpdateTopic::code_spec(),
        ServerCommand::PurgeTopic(_) => PurgeTopic::code_spec(),
        ServerCommand::CreatePartitions(_) => CreatePartitions::code_spec(),
        ServerCommand::DeletePartitions(_) => DeletePartitions::code_spec(),
        ServerCommand::GetConsumerGroup(_) => GetConsumerGroup::code_spec(),
        ServerCommand::GetConsumerGroups(_) => GetConsumerGroups::code_spec(),
        ServerCommand::CreateConsumerGroup(_) => CreateConsumerGroup::code_spec(),
        ServerCommand::DeleteConsumerGroup(_) => DeleteConsumerGroup::code_spec(),
        ServerCommand::JoinConsumerGroup(_) => JoinConsumerGroup::code_spec(),
        ServerCommand::LeaveConsumerGroup(_) => LeaveConsumerGroup::code_spec(),
        ServerCommand::GetSnapshotFile(_) => GetSnapshot::code_spec(),
    }
}
// some SDK command has this code
pub open spec fn known_code(code: u32) -> bool {
    code == Ping::code_spec()
        || code == GetStats::code_spec()
        || code == GetMe::code_spec()
        || code == GetClient::code_spec()
        || code == GetClients::code_spec()
        || code == GetUser::code_spec()
        || code == GetUsers::code_spec()
        || code == CreateUser::code_spec()
        || code == DeleteUser::code_spec()
        || code == UpdateUser::code_spec()
        || code == UpdatePermissions::code_spec()
        || code == ChangePassword::code_spec()
        || code == LoginUser::code_spec()
        || code == LogoutUser::code_spec()
        || code == GetPersonalAccessTokens::code_spec()
        || code == CreatePersonalAccessToken::code_spec()
        || code == DeletePersonalAccessToken::code_spec()
        || code == LoginWithPersonalAccessToken::code_spec()
        || code == SendMessages::code_spec()
        || code == PollMessages::code_spec()
        || code == FlushUnsavedBuffer::code_spec()
        || code == GetConsumerOffset::code_spec()
        || code == StoreConsumerOffset::code_spec()
        || code == DeleteConsumerOffset::code_spec()
        || code == GetStream::code_spec()
        || code == GetStreams::code_spec()
        || code == CreateStream::code_spec()
        || code == DeleteStream::code_spec()
        || code == UpdateStream::code_spec()
        || code == PurgeStream::code_spec()
        || code == GetTopic::code_spec()
        || code == GetTopics::code_spec()
        || code == CreateTopic::code_spec()
        || code == DeleteTopic::code_spec()
        || code == UpdateTopic::code_spec()
        || code == PurgeTopic::code_spec()
        || code == CreatePartitions::code_spec()
        || code == DeletePartitions::code_spec()
        || code == GetConsumerGroup::code_spec()
        || code == GetConsumerGroups::code_spec()
        || code == CreateConsumerGroup::code_spec()
        || code == DeleteConsumerGroup::code_spec()
        || code == JoinConsumerGroup::code_spec()
        || code == LeaveConsumerGroup::code_spec()
        || code == GetSnapshot::code_spec()
}
// the variant's payload is what the decoder of its own type makes of `tail`
pub open spec fn payload_decoded(c: ServerCommand, tail: Seq<u8>) -> bool {
    match c {
        ServerCommand::Ping(p) => Ping::decode_payload(tail) == Ok::<Ping, IggyError>(p),
        ServerCommand::GetStats(p) => GetStats::decode_payload(tail) == Ok::<GetStats, IggyError>(p),
        ServerCommand::GetMe(p) => GetMe::decode_payload(tail) == Ok::<GetMe, IggyError>(p),
        ServerCommand::GetClient(p) => GetClient::decode_payload(tail) == Ok::<GetClient, IggyError>(p),
        ServerCommand::GetClients(p) => GetClients::decode_payload(tail) == Ok::<GetClients, IggyError>(p),
        ServerCommand::GetUser(p) => GetUser::decode_payload(tail) == Ok::<GetUser, IggyError>(p),
        ServerCommand::GetUsers(p) => GetUsers::decode_payload(tail) == Ok::<GetUsers, IggyError>(p),
        ServerCommand::CreateUser(p) => CreateUser::decode_payload(tail) == Ok::<CreateUser, IggyError>(p),
        ServerCommand::DeleteUser(p) => DeleteUser::decode_payload(tail) == Ok::<DeleteUser, IggyError>(p),
        ServerCommand::UpdateUser(p) => UpdateUser::decode_payload(tail) == Ok::<UpdateUser, IggyError>(p),
        ServerCommand::UpdatePermissions(p) => UpdatePermissions::decode_payload(tail) == Ok::<UpdatePermissions, IggyError>(p),
        ServerCommand::ChangePassword(p) => ChangePassword::decode_payload(tail) == Ok::<ChangePassword, IggyError>(p),
        ServerCommand::LoginUser(p) => LoginUser::decode_payload(tail) == Ok::<LoginUser, IggyError>(p),
        ServerCommand::LogoutUser(p) => LogoutUser::decode_payload(tail) == Ok::<LogoutUser, IggyError>(p),
        ServerCommand::GetPersonalAccessTokens(p) => GetPersonalAccessTokens::decode_payload(tail) == Ok::<GetPersonalAccessTokens, IggyError>(p),
        ServerCommand::CreatePersonalAccessToken(p) => CreatePersonalAccessToken::decode_payload(tail) == Ok::<CreatePersonalAccessToken, IggyError>(p),
        ServerCommand::DeletePersonalAccessToken(p) => DeletePersonalAccessToken::decode_payload(tail) == Ok::<DeletePersonalAccessToken, IggyError>(p),
        ServerCommand::LoginWithPersonalAccessToken(p) => LoginWithPersonalAccessToken::decode_payload(tail) == Ok::<LoginWithPersonalAccessToken, IggyError>(p),
        ServerCommand::SendMessages(p) => SendMessages::decode_payload(tail) == Ok::<SendMessages, IggyError>(p),
        ServerCommand::PollMessages(p) => PollMessages::decode_payload(tail) == Ok::<PollMessages, IggyError>(p),
        ServerCommand::FlushUnsavedBuffer(p) => FlushUnsavedBuffer::decode_payload(tail) == Ok::<FlushUnsavedBuffer, IggyError>(p),
        ServerCommand::GetConsumerOffset(p) => GetConsumerOffset::decode_payload(tail) == Ok::<GetConsumerOffset, IggyError>(p),
        ServerCommand::StoreConsumerOffset(p) => StoreConsumerOffset::decode_payload(tail) == Ok::<StoreConsumerOffset, IggyError>(p),
        ServerCommand::DeleteConsumerOffset(p) => DeleteConsumerOffset::decode_payload(tail) == Ok::<DeleteConsumerOffset, IggyError>(p),
        ServerCommand::GetStream(p) => GetStream::decode_payload(tail) == Ok::<GetStream, IggyError>(p),
        ServerCommand::GetStreams(p) => GetStreams::decode_payload(tail) == Ok::<GetStreams, IggyError>(p),
        ServerCommand::CreateStream(p) => CreateStream::decode_payload(tail) == Ok::<CreateStream, IggyError>(p),
        ServerCommand::DeleteStream(p) => DeleteStream::decode_payload(tail) == Ok::<DeleteStream, IggyError>(p),
        ServerCommand::UpdateStream(p) => UpdateStream::decode_payload(tail) == Ok::<UpdateStream, IggyError>(p),
        ServerCommand::PurgeStream(p) => PurgeStream::decode_payload(tail) == Ok::<PurgeStream, IggyError>(p),
        ServerCommand::GetTopic(p) => GetTopic::decode_payload(tail) == Ok::<GetTopic, IggyError>(p),
        ServerCommand::GetTopics(p) => GetTopics::decode_payload(tail) == Ok::<GetTopics, IggyError>(p),
        ServerCommand::CreateTopic(p) => CreateTopic::decode_payload(tail) == Ok::<CreateTopic, IggyError>(p),
        ServerCommand::DeleteTopic(p) => DeleteTopic::decode_payload(tail) == Ok::<DeleteTopic, IggyError>(p),
        ServerCommand::UpdateTopic(p) => UpdateTopic::decode_payload(tail) == Ok::<UpdateTopic, IggyError>(p),
        ServerCommand::PurgeTopic(p) => PurgeTopic::decode_payload(tail) == Ok::<PurgeTopic, IggyError>(p),
        ServerCommand::CreatePartitions(p) => CreatePartitions::decode_payload(tail) == Ok::<CreatePartitions, IggyError>(p),
        ServerCommand::DeletePartitions(p) => DeletePartitions::decode_payload(tail) == Ok::<DeletePartitions, IggyError>(p),
        ServerCommand::GetConsumerGroup(p) => GetConsumerGroup::decode_payload(tail) == Ok::<GetConsumerGroup, IggyError>(p),
        ServerCommand::GetConsumerGroups(p) => GetConsumerGroups::decode_payload(tail) == Ok::<GetConsumerGroups, IggyError>(p),
        ServerCommand::CreateConsumerGroup(p) => CreateConsumerGroup::decode_payload(tail) == Ok::<CreateConsumerGroup, IggyError>(p),
        ServerCommand::DeleteConsumerGroup(p) => DeleteConsumerGroup::decode_payload(tail) == Ok::<DeleteConsumerGroup, IggyError>(p),
        ServerCommand::JoinConsumerGroup(p) => JoinConsumerGroup::decode_payload(tail) == Ok::<JoinConsumerGroup, IggyError>(p),
        ServerCommand::LeaveConsumerGroup(p) => LeaveConsumerGroup::decode_payload(tail) == Ok::<LeaveConsumerGroup, IggyError>(p),
        ServerCommand::GetSnapshotFile(p) => GetSnapshot::decode_payload(tail) == Ok::<GetSnapshot, IggyError>(p),
    }
}

// --- the ghost history of a connection's wire ---
pub enum Event {
    Received(Seq<u8>),
    AnsweredError(IggyError),
    Handled(ServerCommand, bool),
}
// framing: TCP / TCP+TLS read the 4-byte length header and then the frame (command code + payload) as two reads;
// a QUIC request is the whole content of one stream: 4-byte length, then the frame
pub enum Wire { Stream, Quic }
pub open spec fn frame_of(w: Wire, b: Seq<u8>) -> Option<Seq<u8>> {
    match w {
        Wire::Stream => Some(b),
        Wire::Quic => if b.len() >= 4 { Some(b.skip(4)) } else { None },
    }
}

// the part of the history written by one step: indices [pre.len(), post.len()) of post
pub open spec fn extends(pre: Seq<Event>, post: Seq<Event>) -> bool {
    pre.len() <= post.len() && forall|j: int| 0 <= j < pre.len() ==> post[j] == pre[j]
}
pub open spec fn no_handled(pre: Seq<Event>, post: Seq<Event>) -> bool {
    forall|j: int| pre.len() <= j < post.len() ==> !(#[trigger] post[j] is Handled)
}
// the command c is handed over at position j of the history, and nowhere else in this step
pub open spec fn handled_at(pre: Seq<Event>, post: Seq<Event>, j: int, c: ServerCommand) -> bool {
    pre.len() <= j < post.len() && (post[j] matches Event::Handled(c1, ok) && c1 == c)
        && forall|k: int| pre.len() <= k < post.len() && #[trigger] post[k] is Handled ==> k == j
}
// an event that IS a response on the wire: an error response, or a handler that returned Ok (A-handlers)
pub open spec fn is_response(e: Event) -> bool {
    e is AnsweredError || (e matches Event::Handled(c, ok) && ok)
}
pub open spec fn at_most_one_response(pre: Seq<Event>, post: Seq<Event>) -> bool {
    forall|j: int, k: int| pre.len() <= j < post.len() && pre.len() <= k < post.len()
        && is_response(#[trigger] post[j]) && is_response(#[trigger] post[k]) ==> j == k
}
// the step ends with an error response: it is the last thing that happened on the wire
pub open spec fn answered_error(pre: Seq<Event>, post: Seq<Event>) -> bool {
    post.len() > pre.len() && post.last() is AnsweredError
}
// the step ends with a response (an error response, or the handler's own)
pub open spec fn answered(pre: Seq<Event>, post: Seq<Event>) -> bool {
    post.len() > pre.len() && is_response(post.last())
}
// the frame a TCP iteration has received: the header read and the body read both succeeded; the frame is the body
pub open spec fn tcp_frame_received(pre: Seq<Event>, post: Seq<Event>) -> Option<Seq<u8>> {
    if post.len() >= pre.len() + 2 && post[pre.len() as int] is Received && post[pre.len() as int + 1] is Received {
        Some(post[pre.len() as int + 1]->Received_0)
    } else {
        None
    }
}

// THE GATE (precondition of the handler entry points, checked at every call site): the handler is entered only when the
// LAST thing that happened on this wire is the arrival of a frame that decodes to exactly this command, and the command
// passed validate(). (After Handled / AnsweredError the gate is shut until the next frame arrives.)
pub open spec fn gate_open(tr: Seq<Event>, w: Wire, c: ServerCommand) -> bool {
    tr.len() > 0 && (tr.last() matches Event::Received(b) && (frame_of(w, b) matches Some(f) && decode_spec(f) == Ok::<ServerCommand, IggyError>(c)))
        && cmd_valid(c) is Ok
}
// "the handler ran on c with result r": established only by try_handle; lets a caller whose sender is a local (QUIC) state
// that the command WAS handed over
pub uninterp spec fn handler_ran(c: ServerCommand, r: Result<(), IggyError>) -> bool;

// --- the sender: TCP, TCP+TLS or QUIC stream pair behind one enum (binary/sender.rs) ---
#[verifier::external_body]
pub struct SenderKind { _p: u8 }
pub trait ReadBuf { spec fn rb_bytes(&self) -> Seq<u8>; }
impl ReadBuf for [u8; 4] { open spec fn rb_bytes(&self) -> Seq<u8> { self@ } }
impl ReadBuf for ByteSeq { open spec fn rb_bytes(&self) -> Seq<u8> { self@ } }
impl SenderKind {
    pub uninterp spec fn trace(&self) -> Seq<Event>;
    pub uninterp spec fn wire(&self) -> Wire;

    // read_exact into the caller's buffer (`&mut [u8]` in the source; the two call sites pass a [u8; 4] and a BytesMut)
    #[verifier::external_body]
    pub fn read<B: ReadBuf>(&mut self, buffer: &mut B) -> (r: Result<usize, IggyError>)
        ensures
            final(self).wire() == old(self).wire(),
            final(buffer).rb_bytes().len() == old(buffer).rb_bytes().len(),
            r is Ok ==> final(self).trace() == old(self).trace().push(Event::Received(final(buffer).rb_bytes())),
            r is Err ==> final(self).trace() == old(self).trace(),
    { unimplemented!() }

    // on Err the write failed part-way: the peer may or may not have seen the response
    #[verifier::external_body]
    pub fn send_error_response(&mut self, error: IggyError) -> (r: Result<(), IggyError>)
        ensures
            final(self).wire() == old(self).wire(),
            r is Ok ==> final(self).trace() == old(self).trace().push(Event::AnsweredError(error)),
            r is Err ==> final(self).trace() == old(self).trace() || final(self).trace() == old(self).trace().push(Event::AnsweredError(error)),
    { unimplemented!() }

    #[verifier::external_body]
    pub fn get_quic_sender(send_stream: SendStream, recv_stream: RecvStream) -> (r: SenderKind)
        ensures r.trace() == recv_stream.trace(), r.wire() is Quic,
    { unimplemented!() }
}

// --- the shared system handle and the session (A-world: no operation besides these) ---
#[verifier::external_body]
pub struct SharedSystem { _p: u8 }
impl Clone for SharedSystem {
    #[verifier::external_body]
    fn clone(&self) -> (r: SharedSystem) { unimplemented!() }
}
impl Session {
    // A-std: `Arc<Session>: AsRef<Session>` is the identity borrow
    pub fn as_ref(&self) -> (r: &Session) ensures r == self { self }
}

// --- the dispatcher to the ~45 command handlers (binary/command.rs try_handle): THE command handler of this unit ---
#[verifier::external_body]
pub fn try_handle(command: ServerCommand, sender: &mut SenderKind, session: &Session, system: &SharedSystem) -> (r: Result<(), IggyError>)
    requires
        gate_open(old(sender).trace(), old(sender).wire(), command),   //@requires [C13.frame.gate.dispatch]
    ensures
        final(sender).wire() == old(sender).wire(),
        final(sender).trace() == old(sender).trace().push(Event::Handled(command, r is Ok)),
        handler_ran(command, r),
{ unimplemented!() }
// the loops call `command::handle(..)`: binary::command::handle, extracted below (contracts.vspec `fn handle`)
pub mod command { pub use super::handle; }

// --- control transfers out of one iteration of the TCP loop (R11 slice, see unit.toml) ---
pub enum LoopStep { Continue, EndOfBody }

// --- QUIC (quinn) and anyhow stand-ins ---
#[verifier::external_body]
pub struct SendStream { _p: u8 }
#[verifier::external_body]
pub struct RecvStream { _p: u8 }
pub struct ReadToEndError { pub p: u8 }
impl RecvStream {
    pub uninterp spec fn trace(&self) -> Seq<Event>;
    // quinn RecvStream::read_to_end(limit): the whole content of the stream, Err when it is longer than `limit` or the read fails
    #[verifier::external_body]
    pub fn read_to_end(&mut self, size_limit: usize) -> (r: Result<Vec<u8>, ReadToEndError>)
        ensures
            r matches Ok(v) ==> v@.len() <= size_limit && final(self).trace() == old(self).trace().push(Event::Received(v@)),
            r is Err ==> final(self).trace() == old(self).trace(),
    { unimplemented!() }
}
pub struct AnyhowError { pub p: u8 }
impl AnyhowError {
    #[verifier::external_body]
    pub fn msg() -> (r: AnyhowError) { unimplemented!() }
}
// anyhow::Context::with_context(|| text): Ok stays Ok with the same value, Err becomes an anyhow error carrying the text
pub trait Context<T> { fn with_context<F: FnOnce() -> &'static str>(self, f: F) -> Result<T, AnyhowError>; }
impl<T, E> Context<T> for Result<T, E> {
    #[verifier::external_body]
    fn with_context<F: FnOnce() -> &'static str>(self, f: F) -> (r: Result<T, AnyhowError>)
        ensures
            self matches Ok(v) ==> r == Ok::<T, AnyhowError>(v),
            self is Err ==> r is Err,
    { unimplemented!() }
}
impl ByteSeq {
    // Bytes::copy_from_slice: a copy of the slice
    #[verifier::external_body]
    pub fn copy_from_slice(s: &[u8]) -> (r: ByteSeq) ensures r@ == s@ { unimplemented!() }
}
