// ---- lemmas: read_disk (C02) ----
// consequences of the reading invariant used by the proofs of the disk tier
pub proof fn lemma_rd_facts(s: &Segment)
    requires rd_wf(s),
    ensures
        idx_strict(rd_idx(s)),
        pos_injective(seg_disk(s)),
        forall|i: int, j: int| 0 <= i < j < seg_disk(s).len() ==> #[trigger] batch_last(seg_disk(s), i) < #[trigger] batch_last(seg_disk(s), j),
        forall|k: int| 0 <= k <= seg_disk(s).len() ==> #[trigger] pos(seg_disk(s), k) <= u32::MAX,
        pos(seg_disk(s), 0) == 0,
{
    let f = seg_disk(s);
    let ix = rd_idx(s);
    lemma_batch_lasts_increase(f, s.start_offset as int);
    lemma_pos_inj_all(f);
    assert forall|i: int, j: int| 0 <= i < j < ix.len() implies (#[trigger] ix[i]).offset < (#[trigger] ix[j]).offset by {
        assert(batch_last(f, i) < batch_last(f, j));
    }
    assert forall|k: int| 0 <= k <= f.len() implies #[trigger] pos(f, k) <= u32::MAX by { lemma_pos_mono(f, k, f.len() as int); }
}

// an index without a record at or above the relative start offset means: nothing on disk is in range. This is the case in
// which load_messages_from_disk answers with an empty result without reading the log ([C02.disk.empty]).
// label: C02.disk.empty.none-ge
pub proof fn lemma_none_ge_empty(s: &Segment, lo: int, hi: int)
    requires rd_wf(s),
    ensures none_ge(rd_idx(s), lo - s.start_offset) ==> slice_of(flat(seg_disk(s)), lo, hi) == Seq::<RetainedMessage>::empty(),
{
    let f = seg_disk(s);
    let ix = rd_idx(s);
    let n = f.len() as int;
    if none_ge(ix, lo - s.start_offset) {
        if n > 0 { assert(ix[n - 1].offset < lo - s.start_offset); }
        lemma_window_slice(f, s.start_offset as int, n, n, lo, hi);
        assert(f.subrange(n, n) =~= Seq::<BatchV>::empty());
    }
}
// an inverted range holds nothing
pub proof fn lemma_inverted_empty(log: Seq<RetainedMessage>, lo: int, hi: int)
    requires lo > hi,
    ensures slice_of(log, lo, hi) == Seq::<RetainedMessage>::empty(),
{
    lemma_keep_none(log, off_in(lo, hi));
}

// The part of the reading invariant that concerns offsets follows from the send path's invariant of an open segment
// (seg_wf, segview.rs; established by units offsets / recovery), given that index reader and index writer are handles on
// the same file (A-io). The position part (`position == pos(f, i)`) is what Segment::persist_messages does with
// `last_index_position` (unit offsets: store_offset_and_timestamp_index_for_batch `r.position == old(self).last_index_position`,
// advanced by the stored size of the batch) — it is not carried by seg_wf and stays an assumption of rd_wf.
// label: C02.disk.pre
pub proof fn lemma_rd_of_seg_wf(s: &Segment)
    requires
        seg_wf(s),
        s.index_reader is Some,
        s.index_reader->0.recs() == s.index_writer->0.idx(),
    ensures
        rd_idx(s).len() == seg_disk(s).len(),
        forall|i: int| 0 <= i < seg_disk(s).len() ==> batch_wf(#[trigger] seg_disk(s)[i]),
        contig(flat(seg_disk(s)), s.start_offset as int),
        forall|i: int| 0 <= i < seg_disk(s).len() ==> (#[trigger] rd_idx(s)[i]).offset == batch_last(seg_disk(s), i) - s.start_offset,
{
    let d = flat(seg_disk(s));
    assert forall|i: int| 0 <= i < d.len() implies (#[trigger] d[i]).offset == s.start_offset + i by {
        assert(d[i] == seg_msgs(s)[i]);
    }
}

// What [C02.disk]'s right-hand side means under rd_wf: the on-disk messages are contiguous from the segment's start offset,
// so the slice [lo, hi] is the index window [lo-start, hi+1-start) clamped to what is on disk — a contiguous run with no hole,
// no repeat, and every on-disk message of the range (same statement as [C02.tier.nohole] of unit read_segment).
// label: C02.disk.nohole
pub proof fn lemma_disk_slice_is_a_run(s: Seq<RetainedMessage>, first: int, lo: int, hi: int)
    requires contig(s, first),
    ensures ({
        let a = if lo - first <= 0 { 0 } else if lo - first <= s.len() { lo - first } else { s.len() as int };
        let b0 = if hi + 1 - first <= 0 { 0 } else if hi + 1 - first <= s.len() { hi + 1 - first } else { s.len() as int };
        let b = if b0 >= a { b0 } else { a };
        &&& slice_of(s, lo, hi) == s.subrange(a, b)
        &&& forall|i: int| 0 <= i < b - a ==> (#[trigger] slice_of(s, lo, hi)[i]).offset == first + a + i
    }),
{
    let a = if lo - first <= 0 { 0 } else if lo - first <= s.len() { lo - first } else { s.len() as int };
    let b0 = if hi + 1 - first <= 0 { 0 } else if hi + 1 - first <= s.len() { hi + 1 - first } else { s.len() as int };
    let b = if b0 >= a { b0 } else { a };
    assert forall|i: int| 0 <= i < s.len() implies (off_in(lo, hi)(#[trigger] s[i]) <==> a <= i < b) by {
        assert(s[i].offset == first + i);
    }
    lemma_keep_window(s, off_in(lo, hi), a, b);
}
// The answer is a function of the on-disk message sequence alone: two splits of the same messages into stored batches (and
// index caching on or off — [C02.disk] has one right-hand side for both branches) give the same result.
// label: C02.disk.split-independent
pub proof fn lemma_split_independent(f1: Seq<BatchV>, f2: Seq<BatchV>, lo: int, hi: int)
    requires flat(f1) == flat(f2),
    ensures slice_of(flat(f1), lo, hi) == slice_of(flat(f2), lo, hi),
{}

// ---- LINK harnesses: the contracts other units ASSUME for functions proved here, proved from the real ones ---------------------
// Each harness has the assuming unit's stub signature, its `requires` / `ensures` copied VERBATIM from that unit's prelude.rs, and a
// body that is ONE call of the real extracted function: Verus proves "real contract ==> assumed contract" on every run.
// A later edit of a stub has to be mirrored here (and vice versa).
impl Segment {
    // copied from units/read_segment/prelude.rs, stub `Segment::load_messages_from_disk` (seq_keep / off_in / slice_of here are
    // vx/prelude/slices.rs, verbatim copies of read_segment's prelude; flat / seg_disk are vx/prelude/segview.rs in both)
    // label: C02.link.read_segment.load_messages_from_disk
    pub fn link_read_segment_load_messages_from_disk(&self, start_offset: u64, end_offset: u64) -> (r: Result<Vec<RetainedMessage>, IggyError>)
        requires start_offset >= self.start_offset,
            disk_tier_wf(self),
            // the relative START offset fits the index's u32 (`(start_offset - self.start_offset) as u32` would truncate)
            start_offset - self.start_offset <= u32::MAX,
            // F12 (DESIGN §8): the capacity hint `(start_offset + end_offset + 1) as usize` of load_messages_from_segment_file
            start_offset + end_offset + 1 <= u64::MAX,
        ensures r is Ok ==> r->Ok_0@ == slice_of(flat(seg_disk(self)), start_offset as int, end_offset as int),
    {
        self.load_messages_from_disk(start_offset, end_offset)
    }
}
// The name under which units read_segment / read_partition carry this unit's reading invariant (uninterpreted there): it IS rd_wf.
pub open spec fn disk_tier_wf(s: &Segment) -> bool { rd_wf(s) }
