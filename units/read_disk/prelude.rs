// ---- unit prelude: read_disk (C02, the disk tier of a segment: index lookup -> batch range -> per-message filter) ----
use crate::IggyError::InvalidOffset;

// ---- std stand-ins (A-std) ------------------------------------------------------------------------------------------
// `#[derive(Default)]` of Index / IndexRange (index.rs): every field is its type's default, i.e. 0
impl Default for Index {
    fn default() -> (r: Index)
        ensures r == (Index { offset: 0, position: 0, timestamp: 0 }),
    { Index { offset: 0, position: 0, timestamp: 0 } }
}
impl Default for IndexRange {
    fn default() -> (r: IndexRange)
        ensures r.start == (Index { offset: 0, position: 0, timestamp: 0 }), r.end == (Index { offset: 0, position: 0, timestamp: 0 }),
    { IndexRange { start: Index::default(), end: Index::default() } }
}
pub open spec fn index_default() -> Index { Index { offset: 0, position: 0, timestamp: 0 } }
// `a == b` on Index is the hand-written `impl PartialEq for Index` of index.rs: the REAL `eq` is extracted (contracts.vspec,
// emitted as the inherent fn `eq_impl`) and proved to be field-wise equality; the operator delegates to it.
impl PartialEq for Index {
    fn eq(&self, other: &Self) -> (r: bool)
        ensures r == (*self == *other),
    { self.eq_impl(other) }
}
impl vstd::std_specs::cmp::PartialEqSpecImpl for Index {
    open spec fn obeys_eq_spec() -> bool { true }
    open spec fn eq_spec(&self, other: &Index) -> bool { *self == *other }
}
// std::io::Error / ErrorKind as far as `error.kind() == ErrorKind::UnexpectedEof` goes
#[derive(PartialEq, Eq, Structural)]
pub enum ErrorKind { UnexpectedEof, Other }
#[verifier::external_body]
pub struct IoError { x: u8 }
impl IoError {
    pub uninterp spec fn spec_kind(&self) -> ErrorKind;
    #[verifier::external_body]
    pub fn kind(&self) -> (r: ErrorKind) ensures r == self.spec_kind(), { unimplemented!() }
}

// `v.into_iter().map(Arc::new).collect()` with Arc<RetainedMessage> == RetainedMessage (R4): the same vector (verified)
pub trait ArcMapCollect { fn into_iter_map_arc_new_collect(self) -> Vec<RetainedMessage>; }
impl ArcMapCollect for Vec<RetainedMessage> {
    fn into_iter_map_arc_new_collect(self) -> (r: Vec<RetainedMessage>) ensures r@ == self@, { self }
}

// ---- R8 schema: BatchItemizer::to_messages_with_filter (batching/message_batch.rs) ------------------------------------
// `batches.iter().to_messages_with_filter(n, &P)` = fold over the batches in order, extending the result with
// `batch.into_messages_iter().filter(P)`: the messages of the given batches, in order, that satisfy P. (`n` is only the
// initial capacity of the result.) The iterator yields exactly the messages a batch encodes: unit codec_storage
// (RetainedMessageBatchIterator::next).
pub trait BatchItemizerSpec {
    spec fn bis_view(&self) -> Seq<RetainedMessageBatch>;
    fn to_messages_with_filter_spec(&self, messages_count: usize, p: Ghost<spec_fn(RetainedMessage) -> bool>) -> (r: Vec<RetainedMessage>)
        ensures r@ == seq_keep(flat(views(self.bis_view())), p@);
}
impl BatchItemizerSpec for Vec<RetainedMessageBatch> {
    open spec fn bis_view(&self) -> Seq<RetainedMessageBatch> { self@ }
    #[verifier::external_body]
    fn to_messages_with_filter_spec(&self, messages_count: usize, p: Ghost<spec_fn(RetainedMessage) -> bool>) -> (r: Vec<RetainedMessage>) { unimplemented!() }
}

// ---- the log file behind the reader ---------------------------------------------------------------------------------
impl SegmentLogReader {
    // the published size of the log file (`log_size_bytes`, an atomic shared with the writer)
    pub uninterp spec fn log_size(&self) -> nat;
    // the precondition `reader_ok` of unit read_log: the published size is the length of the file
    pub open spec fn reader_ok(&self) -> bool { self.log_size() == pos(self.file(), self.file().len() as int) }

    // SegmentLogReader::load_batches_by_range_impl (logs/log_reader.rs). ASSUMED here, PROVED in unit read_log: exactly the
    // requires and the clauses [C02.range.run], [C02.range.reach], [C02.range.min] of units/read_log/contracts.vspec —
    // every stored batch from the one starting at index_range.start.position through the first one starting at or after
    // index_range.end.position (or the end of the file), none skipped, none invented.
    // LINKED: units/read_log/lemmas.rs, harness [C02.link.read_disk.load_batches_by_range_impl], proves this contract from the real function (mirror edits there)
    #[verifier::external_body]
    pub fn load_batches_by_range_impl(&self, index_range: &IndexRange) -> (r: Result<Vec<RetainedMessageBatch>, IggyError>)
        requires
            self.reader_ok(),
            exists|ks: int| 0 <= ks <= self.file().len() && index_range.start.position == #[trigger] pos(self.file(), ks),
        ensures
            // [C02.range.run]
            r is Ok ==> forall|ks: int| 0 <= ks <= self.file().len() && index_range.start.position == #[trigger] pos(self.file(), ks)
                ==> ks + r->Ok_0@.len() <= self.file().len() && views(r->Ok_0@) == self.file().subrange(ks, ks + r->Ok_0@.len()),
            // [C02.range.reach]
            r is Ok ==> forall|ks: int| 0 <= ks < self.file().len() && index_range.start.position == #[trigger] pos(self.file(), ks)
                ==> r->Ok_0@.len() >= 1 && (ks + r->Ok_0@.len() == self.file().len()
                     || pos(self.file(), ks + r->Ok_0@.len() - 1) >= index_range.end.position),
            // [C02.range.min]
            r is Ok ==> forall|ks: int, j: int| 0 <= ks <= self.file().len() && index_range.start.position == #[trigger] pos(self.file(), ks)
                && ks <= j < ks + r->Ok_0@.len() - 1 ==> #[trigger] pos(self.file(), j) < index_range.end.position,
    { unimplemented!() }
}

// ---- the index file behind the reader -------------------------------------------------------------------------------
// The bytes `read_at` returns, as far as this unit looks at them: the complete 16-byte records they hold, in order.
// (`chunks_exact(16)` yields the complete 16-byte chunks in order and drops a shorter tail; `parse_index` decodes one chunk
// — the record layout and its round trip with SegmentIndexWriter::save_index are proved in unit codec_storage,
// [C13.storage.index.enc/rt].)
#[verifier::external_body]
pub struct IndexBuf { x: u8 }
#[verifier::external_body]
pub struct IndexChunk { x: u8 }
impl IndexChunk { pub uninterp spec fn rec(&self) -> Index; }
impl IndexBuf {
    pub uninterp spec fn recs(&self) -> Seq<Index>;
    // R8 iteration schema `buf.chunks_exact(n)`: the chunks in order
    #[verifier::external_body]
    pub fn chunks_exact(&self, n: usize) -> (r: Vec<IndexChunk>)
        requires n == 16,
        ensures r@.len() == self.recs().len(), forall|i: int| 0 <= i < r@.len() ==> (#[trigger] r@[i]).rec() == self.recs()[i],
    { unimplemented!() }
}
// parse_index(chunk) (index_reader.rs; under contract in unit codec_storage): Ok = the record the chunk encodes
#[verifier::external_body]
pub fn parse_index(chunk: IndexChunk) -> (r: Result<Index, IggyError>)
    ensures r is Ok ==> r->Ok_0 == chunk.rec(),
{ unimplemented!() }

impl SegmentIndexReader {
    // A-io: the index file as the sequence of records appended to it
    pub uninterp spec fn recs(&self) -> Seq<Index>;
    // SegmentIndexReader::read_at (spawn_blocking + File::read_exact_at): the bytes [offset, offset+len) of the file, or an
    // I/O error; `read_exact_at` reports UnexpectedEof only when the file is shorter than offset+len.
    #[verifier::external_body]
    pub fn read_at(&self, offset: u64, len: u64) -> (r: Result<IndexBuf, IoError>)
        ensures
            (r is Ok && offset == 0 && len == 16 * self.recs().len()) ==> r->Ok_0.recs() == self.recs(),
            (r is Err && offset + len <= 16 * self.recs().len()) ==> r->Err_0.spec_kind() != ErrorKind::UnexpectedEof,
    { unimplemented!() }
}

impl Segment {
    // Segment::load_highest_lower_bound_index (indexes/index.rs). ASSUMED here, PROVED in unit read_segment: exactly the
    // requires and the clauses [C02.idx.start], [C02.idx.end], [C02.idx.err] of units/read_segment/contracts.vspec.
    // LINKED: units/read_segment/lemmas.rs, harness [C02.link.read_disk.load_highest_lower_bound_index], proves this contract from the real function (mirror edits there)
    #[verifier::external_body]
    pub fn load_highest_lower_bound_index(&self, indices: &[Index], start_offset: u32, end_offset: u32) -> (r: Result<IndexRange, IggyError>)
        requires
            idx_strict(indices@),
            start_offset + self.start_offset <= u64::MAX,
        ensures
            // [C02.idx.start]
            r is Ok ==> exists|k: int| is_first_ge(indices@, k, start_offset as int) && r->Ok_0.start == indices@[k],
            // [C02.idx.end]
            r is Ok ==> (exists|k: int| is_first_ge(indices@, k, end_offset as int) && r->Ok_0.end == indices@[k])
                || (none_ge(indices@, end_offset as int) && r->Ok_0.end == indices@.last()),
            // [C02.idx.err]
            r is Err <==> none_ge(indices@, start_offset as int),
    { unimplemented!() }
}

// ---- the reading invariant of a segment -------------------------------------------------------------------------------
// What the send path leaves on disk (units offsets / recovery: Segment::persist_messages stores, per saved batch, one index
// record {last offset of the batch - start_offset, position of the batch in the log file, max timestamp} — in `indexes`
// (when cached) and in the index file — and appends the batch to the log file; seg_wf of segview.rs carries the offset part
// for the open segment, lemma_rd_wf_of_seg_wf below derives it). Holds for closed segments as well (nothing is written
// after closing).
pub open spec fn rd_disk(s: &Segment) -> Seq<BatchV> { seg_disk(s) }
pub open spec fn rd_idx(s: &Segment) -> Seq<Index> { s.index_reader->0.recs() }
pub open spec fn rd_wf(s: &Segment) -> bool {
    let f = seg_disk(s);
    let ix = s.index_reader->0.recs();
    &&& s.log_reader is Some && s.index_reader is Some
    // A-io: reader and writer are handles on the same log file; the published sizes are the file lengths
    &&& s.log_reader->0.file() == f
    &&& s.log_reader->0.reader_ok()
    &&& s.index_reader->0.index_size_bytes.v == 16 * ix.len()
    // the cached index, when enabled, is the index file
    &&& s.indexes is Some ==> s.indexes->0@ == ix
    // one record per stored batch: last relative offset, start position
    &&& ix.len() == f.len()
    &&& forall|i: int| 0 <= i < f.len() ==> batch_wf(#[trigger] f[i])
    &&& contig(flat(f), s.start_offset as int)
    &&& forall|i: int| 0 <= i < f.len() ==> (#[trigger] ix[i]).offset == batch_last(f, i) - s.start_offset
    &&& forall|i: int| 0 <= i < f.len() ==> (#[trigger] ix[i]).position == pos(f, i)
    // A-clock: a stored batch's max timestamp is a wall-clock time after 1970
    &&& forall|i: int| 0 <= i < f.len() ==> (#[trigger] ix[i]).timestamp > 0
    // A-size: positions are u32, the log file stays below 4 GiB (config validation caps segment.size at 1 GB)
    &&& pos(f, f.len() as int) <= u32::MAX
}

// a bracketing index range for the offsets [lo, hi]: `start` is the record of a batch ks such that every earlier batch ends
// below lo, `end` the record of a batch ke that ends at or above hi (or of the last batch)
pub open spec fn brackets(f: Seq<BatchV>, r: &IndexRange, lo: int, hi: int) -> bool {
    exists|ks: int, ke: int| 0 <= ks < f.len() && 0 <= ke < f.len()
        && r.start.position == #[trigger] pos(f, ks) && (ks == 0 || batch_last(f, ks - 1) < lo)
        && r.end.position == #[trigger] pos(f, ke) && (batch_last(f, ke) >= hi || ke == f.len() - 1)
}

// the `start` scan of load_index_range_impl after the first i records: still the sentinel (and no record so far reaches rs),
// or the first record that reaches rs
pub open spec fn start_scan(ix: Seq<Index>, start: Index, rs: int, i: int) -> bool {
    (start == index_default() && forall|j: int| 0 <= j < i && j < ix.len() ==> (#[trigger] ix[j]).offset < rs)
    || (exists|k: int| k < i && is_first_ge(ix, k, rs) && start == ix[k])
}
