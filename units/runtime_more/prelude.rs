// ---- unit prelude: runtime_more (C05) = prelude of unit catalogue_maps (copied unchanged) + the part below "runtime_more" ----------------------------------------------------------
// Stand-ins (R4) and spec vocabulary. Nothing here re-states a function body of /repo.

// --- names: opaque strings; only equality is observable (A-std: String::clone/to_owned/to_string copy the value) ---
#[verifier::external_body]
#[derive(Debug)]
pub struct Name { s: String }
impl Name {
    #[verifier::external_body]
    pub fn to_owned(&self) -> (r: Name) ensures r == *self { unimplemented!() }
    #[verifier::external_body]
    pub fn to_string(&self) -> (r: Name) ensures r == *self { unimplemented!() }
}
impl Clone for Name {
    #[verifier::external_body]
    fn clone(&self) -> (r: Name) ensures r == *self { unimplemented!() }
}

#[derive(Debug)]
pub enum IggyError {
    InvalidIdentifier,
    InvalidTopicSize,
    StaleClient,
    TooManyPartitions,
    Unauthenticated,
    Unauthorized,
    StreamIdNotFound(u32),
    StreamNameNotFound(Name),
    StreamNameAlreadyExists(Name),
    StreamIdAlreadyExists(u32),
    CannotDeleteStream(u32),
    ConsumerGroupIdNotFound(u32, u32),
    ConsumerGroupNameNotFound(Name, Name),
    ConsumerGroupNameAlreadyExists(Name, u32),
    ConsumerGroupIdAlreadyExists(u32, u32),
    TopicIdNotFound(u32, u32),
    TopicNameNotFound(Name, Name),
    TopicNameAlreadyExists(Name, u32),
    TopicIdAlreadyExists(u32, u32),
    CannotDeleteTopic(u32, u32),
    Io,
}

// --- opaque configuration / storage / shared counters (not part of the catalogue view) ---
#[verifier::external_body]
pub struct SystemConfig { x: u8 }
impl Clone for SystemConfig { #[verifier::external_body] fn clone(&self) -> (r: Self) { unimplemented!() } }
#[verifier::external_body]
pub struct PartitionStorage { x: u8 }
impl PartitionStorage {
    // removes the offset file; persistence returns Ok (fault scope of C06)
    #[verifier::external_body]
    pub fn delete_consumer_offset(&self, path: &Name) -> (r: Result<(), IggyError>) ensures r is Ok { unimplemented!() }
}
pub struct SystemStorage { pub partition: PartitionStorage }
impl Clone for SystemStorage { #[verifier::external_body] fn clone(&self) -> (r: Self) { unimplemented!() } }
#[verifier::external_body]
pub struct SharedCounter { x: u8 }
impl Clone for SharedCounter { #[verifier::external_body] fn clone(&self) -> (r: Self) { unimplemented!() } }
#[derive(Clone, Copy)]
pub struct IggyExpiry(pub u64);
#[derive(Clone, Copy)]
pub struct CompressionAlgorithm(pub u8);
#[derive(Clone, Copy)]
pub struct MaxTopicSize(pub u64);

// R6: AtomicU32 id allocators. Their value is not part of the catalogue view (C05 owns the allocation policy), and C06
// must hold whatever id they hand out: so they stay opaque cells read and written through `&self`, returning arbitrary ids.
#[verifier::external_body]
pub struct Counter32 { v: std::sync::atomic::AtomicU32 }
impl Counter32 {
    #[verifier::external_body]
    pub const fn new(v: u32) -> (r: Counter32) { Counter32 { v: std::sync::atomic::AtomicU32::new(v) } }
    #[verifier::external_body]
    pub fn fetch_add(&self, n: u32) -> (r: u32) { unimplemented!() }
    #[verifier::external_body]
    pub fn load(&self) -> (r: u32) { unimplemented!() }
    #[verifier::external_body]
    pub fn store(&self, n: u32) { unimplemented!() }
}
// the process-global stream id allocator of systems/streams.rs (`static CURRENT_STREAM_ID: AtomicU32`)
exec static CURRENT_STREAM_ID: Counter32 ensures true { Counter32::new(1) }

// DashMap: sharded concurrent map mutated through `&self`; consumer offsets are C07's state, not viewed here
#[verifier::external_body]
#[verifier::reject_recursive_types(K)]
#[verifier::accept_recursive_types(V)]
pub struct DashMap<K, V> { m: std::collections::HashMap<K, V> }
impl<K, V> DashMap<K, V> {
    #[verifier::external_body]
    pub fn remove(&self, k: &K) -> (r: Option<(K, V)>) { unimplemented!() }
}

// --- Identifier payload accessors (sdk): stubs with a small spec. The payload is abstracted to two
// uninterpreted projections; `kind`/`length` are the real (extracted) fields.
impl Identifier {
    pub uninterp spec fn num(&self) -> u32;
    pub uninterp spec fn text(&self) -> Name;
    #[verifier::external_body]
    pub fn get_u32_value(&self) -> (r: Result<u32, IggyError>)
        ensures r == (if self.kind == IdKind::Numeric && self.length == 4 { Ok::<u32, IggyError>(self.num()) } else { Err::<u32, IggyError>(IggyError::InvalidIdentifier) }),
    { unimplemented!() }
    #[verifier::external_body]
    pub fn get_cow_str_value(&self) -> (r: Result<Name, IggyError>)
        ensures r == (if self.kind == IdKind::Name { Ok::<Name, IggyError>(self.text()) } else { Err::<Name, IggyError>(IggyError::InvalidIdentifier) }),
    { unimplemented!() }
}

pub uninterp spec fn expiry_value(e: IggyExpiry, c: &SystemConfig) -> IggyExpiry;
pub uninterp spec fn limit_ok(m: MaxTopicSize, c: &SystemConfig) -> bool;
pub uninterp spec fn limit_value(m: MaxTopicSize, c: &SystemConfig) -> MaxTopicSize;
// --- Topic: construction, validation and persistence are other subsystems; persistence returns Ok (fault scope of C06) ---
impl Topic {
    // Topic::get_max_topic_size — ASSUMED here (verdict and value uninterpreted), PROVED in units topic_limit and wiring ([C15.valid.*])
    // LINKED (limit_ok / limit_value INTERPRETED as !limit_rejected / limit_resolved): units/wiring/lemmas.rs, harness [C15.link.catalogue_maps.get_max_topic_size] (mirror edits there)
    #[verifier::external_body]
    pub fn get_max_topic_size(max_topic_size: MaxTopicSize, config: &SystemConfig) -> (r: Result<MaxTopicSize, IggyError>)
        ensures r is Ok <==> limit_ok(max_topic_size, config), r matches Ok(v) ==> v == limit_value(max_topic_size, config),
    { unimplemented!() }
    // Topic::get_message_expiry — ASSUMED here (value uninterpreted), PROVED in units retention ([C14.open.resolve], [C14.shape.resolve])
    // and wiring ([C14.create.resolve]): the server default resolves to the configured expiry, anything else is kept
    // LINKED (expiry_value INTERPRETED as expiry_resolved): units/wiring/lemmas.rs, harness [C14.link.catalogue_maps.get_message_expiry] (mirror edits there)
    #[verifier::external_body]
    pub fn get_message_expiry(message_expiry: IggyExpiry, config: &SystemConfig) -> (r: IggyExpiry)
        ensures r == expiry_value(message_expiry, config),
    { unimplemented!() }
    #[verifier::external_body]
    pub fn create(stream_id: u32, topic_id: u32, name: &Name, partitions_count: u32, config: SystemConfig, storage: SystemStorage,
        size_of_parent_stream: SharedCounter, messages_count_of_parent_stream: SharedCounter, segments_count_of_parent_stream: SharedCounter,
        message_expiry: IggyExpiry, compression_algorithm: CompressionAlgorithm, max_topic_size: MaxTopicSize, replication_factor: u8) -> (r: Result<Topic, IggyError>)
        ensures r matches Ok(t) ==> t.stream_id == stream_id && t.topic_id == topic_id && t.name == *name
            && t.consumer_groups@ == Map::<u32, ConsumerGroup>::empty() && t.consumer_groups_ids@ == Map::<Name, u32>::empty(),
    { unimplemented!() }
    #[verifier::external_body]
    pub fn persist(&self) -> (r: Result<(), IggyError>) ensures r is Ok { unimplemented!() }
    // LINKED: units/catalogue_more/lemmas.rs, harness [C06.link.runtime_more.topic_delete] (mirror edits there)
    #[verifier::external_body]
    pub fn delete(&self) -> (r: Result<(), IggyError>) ensures r is Ok { unimplemented!() }
}

// --- System-level collaborators: authentication/authorisation read the session and the permission tables only;
// metrics are interior-mutable gauges; none of them is part of the catalogue view ---
#[verifier::external_body]
pub struct Session { x: u8 }
impl Session {
    #[verifier::external_body]
    pub fn get_user_id(&self) -> (r: u32) { unimplemented!() }
    #[verifier::external_body]
    pub fn is_active(&self) -> (r: bool) { unimplemented!() }
    #[verifier::external_body]
    pub fn is_authenticated(&self) -> (r: bool) { unimplemented!() }
}
#[verifier::external_body]
pub struct Permissioner { x: u8 }
impl Permissioner {
    #[verifier::external_body]
    pub fn create_stream(&self, user_id: u32) -> (r: Result<(), IggyError>) { unimplemented!() }
    #[verifier::external_body]
    pub fn update_stream(&self, user_id: u32, stream_id: u32) -> (r: Result<(), IggyError>) { unimplemented!() }
    #[verifier::external_body]
    pub fn delete_stream(&self, user_id: u32, stream_id: u32) -> (r: Result<(), IggyError>) { unimplemented!() }
}
#[verifier::external_body]
pub struct Metrics { x: u8 }
impl Metrics {
    #[verifier::external_body] pub fn increment_streams(&self, n: u32) { unimplemented!() }
    #[verifier::external_body] pub fn decrement_streams(&self, n: u32) { unimplemented!() }
    #[verifier::external_body] pub fn decrement_topics(&self, n: u32) { unimplemented!() }
    #[verifier::external_body] pub fn decrement_partitions(&self, n: u32) { unimplemented!() }
    #[verifier::external_body] pub fn decrement_messages(&self, n: u64) { unimplemented!() }
    #[verifier::external_body] pub fn decrement_segments(&self, n: u32) { unimplemented!() }
}
// the client manager is verified in unit client_memberships; here only the cascade call is observed, through a
// ghost record of the stream ids whose memberships were purged
#[verifier::external_body]
pub struct ClientManager { x: u8 }
impl ClientManager {
    pub uninterp spec fn purged_streams(&self) -> Set<u32>;
    // LINKED: units/client_memberships/lemmas.rs, harness [C06.link.runtime_more.delete_consumer_groups_for_stream] (mirror edits there). The link INTERPRETS
    // purged_streams() over the real client table: the stream ids in which NO client holds a membership; the clause is then [C06.cascade.stream].
    #[verifier::external_body]
    pub fn delete_consumer_groups_for_stream(&mut self, stream_id: u32)
        ensures final(self).purged_streams() == old(self).purged_streams().insert(stream_id),
    { unimplemented!() }
}

// ---- abstract view -------------------------------------------------------------------------------
// cat = id -> name, idx = name -> id; cat_wf: idx is exactly the inverse of cat (hence names are injective)
pub open spec fn cat_wf(cat: Map<u32, Name>, idx: Map<Name, u32>) -> bool {
    &&& forall|id: u32| #[trigger] cat.contains_key(id) ==> idx.contains_key(cat[id]) && idx[cat[id]] == id
    &&& forall|n: Name| #[trigger] idx.contains_key(n) ==> cat.contains_key(idx[n]) && cat[idx[n]] == n
}
// what an Identifier denotes in a catalogue (None: malformed identifier or unknown name)
pub open spec fn denotes(ident: &Identifier, idx: Map<Name, u32>) -> Option<u32> {
    if ident.kind == IdKind::Numeric {
        if ident.length == 4 { Some(ident.num()) } else { None }
    } else {
        if idx.contains_key(ident.text()) { Some(idx[ident.text()]) } else { None }
    }
}

// Stream: topics by id, topics_ids by name
pub open spec fn topic_cat(s: &Stream) -> Map<u32, Name> {
    Map::new(s.topics@.dom(), |id: u32| s.topics@[id].name)
}
pub open spec fn stream_wf(s: &Stream) -> bool {
    &&& forall|id: u32| #[trigger] s.topics@.contains_key(id) ==> s.topics@[id].topic_id == id
            && s.topics_ids@.contains_key(s.topics@[id].name) && s.topics_ids@[s.topics@[id].name] == id
    &&& forall|n: Name| #[trigger] s.topics_ids@.contains_key(n) ==> s.topics@.contains_key(s.topics_ids@[n]) && s.topics@[s.topics_ids@[n]].name == n
}
// the topic an identifier resolves to in stream s
pub open spec fn topic_of(s: &Stream, ident: &Identifier) -> Option<u32> {
    match denotes(ident, s.topics_ids@) {
        Some(id) => if s.topics@.contains_key(id) { Some(id) } else { None },
        None => None,
    }
}
// every field of the stream record except the two catalogue maps and the id allocator
pub open spec fn stream_rest_same(a: &Stream, b: &Stream) -> bool {
    a.stream_id == b.stream_id && a.name == b.name
}
// only the `topics` map of the stream record differs
pub open spec fn stream_only_topics(a: &Stream, b: &Stream) -> bool {
    *b == (Stream { topics: b.topics, ..*a })
}
// only the two catalogue maps of the stream record differ
pub open spec fn stream_only_catalogue(a: &Stream, b: &Stream) -> bool {
    *b == (Stream { topics: b.topics, topics_ids: b.topics_ids, ..*a })
}
// only the partitions of a topic record differ
pub open spec fn topic_only_partitions(a: Topic, b: Topic) -> bool {
    b == (Topic { partitions: b.partitions, ..a })
}
// a failed command changes nothing: both catalogue maps keep their contents, every other field is untouched
pub open spec fn stream_unchanged(a: &Stream, b: &Stream) -> bool {
    b.topics@ =~= a.topics@ && b.topics_ids@ =~= a.topics_ids@ && stream_only_catalogue(a, b)
}

// --- Stream: construction, persistence and the gauges read for the metrics are other subsystems ---
impl Stream {
    #[verifier::external_body]
    pub fn create(id: u32, name: &Name, config: SystemConfig, storage: SystemStorage) -> (r: Stream)
        ensures r.stream_id == id && r.name == *name
            && r.topics@ == Map::<u32, Topic>::empty() && r.topics_ids@ == Map::<Name, u32>::empty(),
    { unimplemented!() }
    #[verifier::external_body]
    pub fn persist(&self) -> (r: Result<(), IggyError>) ensures r is Ok { unimplemented!() }
    // LINKED: units/catalogue_more/lemmas.rs, harness [C06.link.runtime_more.stream_delete] (mirror edits there)
    #[verifier::external_body]
    pub fn delete(&self) -> (r: Result<(), IggyError>) ensures r is Ok { unimplemented!() }
    #[verifier::external_body]
    pub fn get_partitions_count(&self) -> (r: u32) { unimplemented!() }
    #[verifier::external_body]
    pub fn get_messages_count(&self) -> (r: u64) { unimplemented!() }
    #[verifier::external_body]
    pub fn get_segments_count(&self) -> (r: u32) { unimplemented!() }
}

// System: streams by id, streams_ids by name
pub open spec fn stream_cat(s: &System) -> Map<u32, Name> {
    Map::new(s.streams@.dom(), |id: u32| s.streams@[id].name)
}
pub open spec fn system_wf(s: &System) -> bool {
    &&& forall|id: u32| #[trigger] s.streams@.contains_key(id) ==> s.streams@[id].stream_id == id
            && s.streams_ids@.contains_key(s.streams@[id].name) && s.streams_ids@[s.streams@[id].name] == id
    &&& forall|n: Name| #[trigger] s.streams_ids@.contains_key(n) ==> s.streams@.contains_key(s.streams_ids@[n]) && s.streams@[s.streams_ids@[n]].name == n
}
pub open spec fn stream_of(s: &System, ident: &Identifier) -> Option<u32> {
    match denotes(ident, s.streams_ids@) {
        Some(id) => if s.streams@.contains_key(id) { Some(id) } else { None },
        None => None,
    }
}
pub open spec fn system_only_streams(a: &System, b: &System) -> bool {
    *b == (System { streams: b.streams, ..*a })
}
pub open spec fn system_only_catalogue(a: &System, b: &System) -> bool {
    *b == (System { streams: b.streams, streams_ids: b.streams_ids, ..*a })
}
pub open spec fn system_unchanged(a: &System, b: &System) -> bool {
    b.streams@ =~= a.streams@ && b.streams_ids@ =~= a.streams_ids@ && system_only_catalogue(a, b)
}

// Topic: consumer_groups by id, consumer_groups_ids by name
pub open spec fn group_cat(t: &Topic) -> Map<u32, Name> {
    Map::new(t.consumer_groups@.dom(), |id: u32| t.consumer_groups@[id].name)
}
pub open spec fn topic_wf(t: &Topic) -> bool {
    &&& forall|id: u32| #[trigger] t.consumer_groups@.contains_key(id) ==> t.consumer_groups@[id].group_id == id
            && t.consumer_groups_ids@.contains_key(t.consumer_groups@[id].name) && t.consumer_groups_ids@[t.consumer_groups@[id].name] == id
    &&& forall|n: Name| #[trigger] t.consumer_groups_ids@.contains_key(n) ==> t.consumer_groups@.contains_key(t.consumer_groups_ids@[n])
            && t.consumer_groups@[t.consumer_groups_ids@[n]].name == n
}
pub open spec fn group_of(t: &Topic, ident: &Identifier) -> Option<u32> {
    match denotes(ident, t.consumer_groups_ids@) {
        Some(id) => if t.consumer_groups@.contains_key(id) { Some(id) } else { None },
        None => None,
    }
}
pub open spec fn topic_only_catalogue(a: &Topic, b: &Topic) -> bool {
    *b == (Topic { consumer_groups: b.consumer_groups, consumer_groups_ids: b.consumer_groups_ids, ..*a })
}
pub open spec fn topic_unchanged(a: &Topic, b: &Topic) -> bool {
    b.consumer_groups@ =~= a.consumer_groups@ && b.consumer_groups_ids@ =~= a.consumer_groups_ids@ && topic_only_catalogue(a, b)
}
// identifiers are validated when decoded (sdk Identifier::from_bytes / validate): a numeric identifier is 4 bytes long
pub open spec fn ident_valid(ident: &Identifier) -> bool {
    ident.kind == IdKind::Numeric ==> ident.length == 4
}

// --- partitions: construction is another subsystem; the clock is arbitrary (A-clock) ---
pub struct IggyTimestamp(pub u64);
impl IggyTimestamp {
    #[verifier::external_body]
    pub fn now() -> (r: IggyTimestamp) { unimplemented!() }
}
impl Partition {
    #[verifier::external_body]
    pub fn create(stream_id: u32, topic_id: u32, partition_id: u32, with_segment: bool, config: SystemConfig, storage: SystemStorage,
        message_expiry: IggyExpiry, messages_count_of_parent_stream: SharedCounter, messages_count_of_parent_topic: SharedCounter,
        size_of_parent_stream: SharedCounter, size_of_parent_topic: SharedCounter, segments_count_of_parent_stream: SharedCounter,
        created_at: IggyTimestamp) -> (r: Partition)
    { unimplemented!() }
}
// partitions are numbered 1..=n without holes (added and removed at the high end)
pub open spec fn parts_wf(t: &Topic) -> bool {
    &&& t.partitions@.dom().finite()
    &&& t.partitions@.len() <= MAX_PARTITIONS_COUNT
    &&& forall|k: u32| #[trigger] t.partitions@.contains_key(k) <==> 1 <= k <= t.partitions@.len()
}

// ==== runtime_more ====================================================================================================
impl Permissioner {
    #[verifier::external_body]
    pub fn get_stream(&self, user_id: u32, stream_id: u32) -> (r: Result<(), IggyError>) { unimplemented!() }
    #[verifier::external_body]
    pub fn get_topic(&self, user_id: u32, stream_id: u32, topic_id: u32) -> (r: Result<(), IggyError>) { unimplemented!() }
    #[verifier::external_body]
    pub fn update_topic(&self, user_id: u32, stream_id: u32, topic_id: u32) -> (r: Result<(), IggyError>) { unimplemented!() }
}
impl Clone for Identifier { #[verifier::external_body] fn clone(&self) -> (r: Self) ensures r == *self { unimplemented!() } }
// `TryFrom<u32> for Identifier` (= Identifier::numeric): 0 is refused, any other value yields the 4-byte numeric identifier
pub trait TryIntoIdentifier { fn try_into_identifier(self) -> Result<Identifier, IggyError>; }
impl TryIntoIdentifier for u32 {
    #[verifier::external_body]
    fn try_into_identifier(self) -> (r: Result<Identifier, IggyError>)
        ensures self == 0 ==> r is Err,
            self != 0 ==> (r matches Ok(i) && i.kind == IdKind::Numeric && i.length == 4 && i.num() == self),
    { unimplemented!() }
}
// every stream of the system is well-formed ([C06.bij.*])
pub open spec fn system_deep_wf(s: &System) -> bool {
    &&& system_wf(s)
    &&& forall|sid: u32| #[trigger] s.streams@.contains_key(sid) ==> stream_wf(&s.streams@[sid])
}
// the catalogue a client observes: stream names, and per stream the topic names
pub open spec fn names_same(a: &System, b: &System) -> bool {
    &&& stream_cat(b) =~= stream_cat(a)
    &&& forall|sid: u32| #[trigger] a.streams@.contains_key(sid) ==> topic_cat(&b.streams@[sid]) =~= topic_cat(&a.streams@[sid])
}
// --- the journal: `Arc<StateKind>` (FileState). `apply` appends exactly one entry holding the command it is handed
// (the file side is unit journal's subject, C11). R6 receiver: the real `apply(&self)` mutates through atomics + file.
#[verifier::external_body]
pub struct StateKind { x: u8 }
impl StateKind {
    pub uninterp spec fn log(&self) -> Seq<EntryCommand>;
    // LINKED (relational reading, not verbatim): units/journal/lemmas.rs, harness [C05.link.alloc_runtime.apply] proves both clauses from the real
    // FileState::apply with `log()` read as "a ghost sequence the journal file DENOTES" (valid journal whose entries carry, in order, the
    // journal forms `cmd_bytes` of the logged commands): Ok => the new file denotes log.push(..); Err => it denotes log or log.push(..)
    // OR - a case this stub does not list - the write was torn and the file is no journal any more (the loader refuses it at the next
    // start). The real function's preconditions are NOT carried here: the journal invariant `jwf` (broken by a failed apply: F16),
    // `command.payload_fits()` (payload below 4 GiB) and unit journal's scope `encryptor is None`. The VALUE-level equation on `log()` as a
    // function needs `cmd_bytes` injective = the round trip of unit journal_cmd ([C13.journal.cmd.rt]): still stated, not linked.
    #[verifier::external_body]
    pub fn apply(&mut self, user_id: u32, command: EntryCommand) -> (r: Result<(), IggyError>)
        ensures r is Ok ==> final(self).log() == old(self).log().push(command),
            // WEAKENED by link pass 2 (was: `r is Err ==> final(self).log() == old(self).log()`): the real FileState::apply returns Err
            // also AFTER the entry reached the file (FileWithSyncPersister::append: write_all Ok, then sync_all fails -> CannotSyncFile,
            // server/src/streaming/persistence/persister.rs), so a failed apply may or may not have written the entry - the form units
            // journal_sinks / credentials already use
            r is Err ==> (final(self).log() == old(self).log() || final(self).log() == old(self).log().push(command)),
    { unimplemented!() }
}
pub open spec fn journalled_one(old_log: Seq<EntryCommand>, new_log: Seq<EntryCommand>) -> bool {
    new_log.len() == old_log.len() + 1 && new_log.drop_last() =~= old_log
}
#[verifier::external_body]
pub struct SenderKind { x: u8 }
impl SenderKind {
    #[verifier::external_body]
    pub fn send_empty_ok_response(&mut self) -> (r: Result<(), IggyError>) { unimplemented!() }
}
