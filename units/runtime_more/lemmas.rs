// ---- lemmas: catalogue_maps (C06) — spec level, re-proved on every run ----
// The function contracts state each command as a whole-map update of (cat, idx). These lemmas are the
// property-level consequences over that abstract view, once for all three levels (streams of a system, topics of a
// stream, consumer groups of a topic), plus the bridge from the per-level invariants to the generic cat_wf.

// label: C06.bij.lemma.names_injective
pub proof fn lemma_names_injective(cat: Map<u32, Name>, idx: Map<Name, u32>, a: u32, b: u32)
    requires cat_wf(cat, idx), cat.contains_key(a), cat.contains_key(b), a != b,
    ensures cat[a] != cat[b],
{
}

// label: C06.bij.lemma.create
pub proof fn lemma_create_preserves(cat: Map<u32, Name>, idx: Map<Name, u32>, id: u32, n: Name)
    requires cat_wf(cat, idx), !cat.contains_key(id), !idx.contains_key(n),
    ensures cat_wf(cat.insert(id, n), idx.insert(n, id)),
{
}

// label: C06.bij.lemma.delete
pub proof fn lemma_delete_preserves(cat: Map<u32, Name>, idx: Map<Name, u32>, id: u32)
    requires cat_wf(cat, idx), cat.contains_key(id),
    ensures cat_wf(cat.remove(id), idx.remove(cat[id])),
        // a sibling is never disturbed
        forall|k: u32| k != id && cat.contains_key(k) ==> #[trigger] cat.remove(id).contains_key(k) && cat.remove(id)[k] == cat[k],
{
}

// label: C06.bij.lemma.rename
// rename of id to n (n free, or n already the name of id): the index follows, the old name becomes free for reuse
pub proof fn lemma_rename_preserves(cat: Map<u32, Name>, idx: Map<Name, u32>, id: u32, n: Name)
    requires cat_wf(cat, idx), cat.contains_key(id), idx.contains_key(n) ==> idx[n] == id,
    ensures cat_wf(cat.insert(id, n), idx.remove(cat[id]).insert(n, id)),
        cat[id] != n ==> !idx.remove(cat[id]).insert(n, id).contains_key(cat[id]),
{
}

// label: C06.byname.lemma.agree
// lookup by name and by numeric id agree: in a well-formed catalogue the name of entity id denotes id
pub proof fn lemma_lookup_agrees(cat: Map<u32, Name>, idx: Map<Name, u32>, by_id: &Identifier, by_name: &Identifier)
    requires cat_wf(cat, idx),
        by_id.kind == IdKind::Numeric, by_id.length == 4, cat.contains_key(by_id.num()),
        by_name.kind == IdKind::Name, by_name.text() == cat[by_id.num()],
    ensures denotes(by_id, idx) == Some(by_id.num()), denotes(by_name, idx) == denotes(by_id, idx),
{
}

// bridges: the per-level invariants are exactly cat_wf of the level's view (plus "filed under its own id")
// label: C06.bij.lemma.stream_view
pub proof fn lemma_stream_view(s: &Stream)
    requires stream_wf(s),
    ensures cat_wf(topic_cat(s), s.topics_ids@),
{
    assert forall|id: u32| #[trigger] topic_cat(s).contains_key(id) implies
        s.topics_ids@.contains_key(topic_cat(s)[id]) && s.topics_ids@[topic_cat(s)[id]] == id by {
        assert(s.topics@.contains_key(id));
    }
    assert forall|n: Name| #[trigger] s.topics_ids@.contains_key(n) implies
        topic_cat(s).contains_key(s.topics_ids@[n]) && topic_cat(s)[s.topics_ids@[n]] == n by {
        assert(s.topics@.contains_key(s.topics_ids@[n]));
    }
}

// label: C06.bij.lemma.system_view
pub proof fn lemma_system_view(s: &System)
    requires system_wf(s),
    ensures cat_wf(stream_cat(s), s.streams_ids@),
{
    assert forall|id: u32| #[trigger] stream_cat(s).contains_key(id) implies
        s.streams_ids@.contains_key(stream_cat(s)[id]) && s.streams_ids@[stream_cat(s)[id]] == id by {
        assert(s.streams@.contains_key(id));
    }
    assert forall|n: Name| #[trigger] s.streams_ids@.contains_key(n) implies
        stream_cat(s).contains_key(s.streams_ids@[n]) && stream_cat(s)[s.streams_ids@[n]] == n by {
        assert(s.streams@.contains_key(s.streams_ids@[n]));
    }
}

// label: C06.bij.lemma.topic_view
pub proof fn lemma_topic_view(t: &Topic)
    requires topic_wf(t),
    ensures cat_wf(group_cat(t), t.consumer_groups_ids@),
{
    assert forall|id: u32| #[trigger] group_cat(t).contains_key(id) implies
        t.consumer_groups_ids@.contains_key(group_cat(t)[id]) && t.consumer_groups_ids@[group_cat(t)[id]] == id by {
        assert(t.consumer_groups@.contains_key(id));
    }
    assert forall|n: Name| #[trigger] t.consumer_groups_ids@.contains_key(n) implies
        group_cat(t).contains_key(t.consumer_groups_ids@[n]) && group_cat(t)[t.consumer_groups_ids@[n]] == n by {
        assert(t.consumer_groups@.contains_key(t.consumer_groups_ids@[n]));
    }
}

// label: C06.bij.lemma.empty
// the empty catalogue (a freshly created stream / topic) is well-formed: base case of "apply the commands to an empty catalogue"
pub proof fn lemma_empty_wf()
    ensures cat_wf(Map::<u32, Name>::empty(), Map::<Name, u32>::empty()),
{
}
