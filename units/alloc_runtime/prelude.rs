// ---- unit prelude: alloc_runtime (C05, runtime side) ---------------------------------------------------
// Stand-ins (R4) and spec vocabulary. Nothing here re-states a function body of /repo. The allocator policy itself
// (rt_alloc / rt_release / rt_user_alloc) lives in vx/prelude/c05_alloc.rs and is shared with unit alloc_replay.

// --- names: opaque strings; only equality is observable (A-std: String::clone/to_owned/to_string copy the value) ---
#[verifier::external_body]
#[derive(Debug)]
pub struct Name { s: String }
impl Name {
    #[verifier::external_body]
    pub fn to_owned(&self) -> (r: Name) ensures r == *self { unimplemented!() }
    #[verifier::external_body]
    pub fn to_string(&self) -> (r: Name) ensures r == *self { unimplemented!() }
}
impl Clone for Name {
    #[verifier::external_body]
    fn clone(&self) -> (r: Name) ensures r == *self { unimplemented!() }
}

#[derive(Debug)]
pub enum IggyError {
    InvalidIdentifier,
    InvalidTopicSize,
    StaleClient,
    Unauthenticated,
    Unauthorized,
    StreamIdNotFound(u32),
    StreamNameNotFound(Name),
    StreamNameAlreadyExists(Name),
    StreamIdAlreadyExists(u32),
    CannotDeleteStream(u32),
    ConsumerGroupIdNotFound(u32, u32),
    ConsumerGroupNameNotFound(Name, Name),
    ConsumerGroupNameAlreadyExists(Name, u32),
    ConsumerGroupIdAlreadyExists(u32, u32),
    TopicIdNotFound(u32, u32),
    TopicNameNotFound(Name, Name),
    TopicNameAlreadyExists(Name, u32),
    TopicIdAlreadyExists(u32, u32),
    CannotDeleteTopic(u32, u32),
    UserAlreadyExists,
    UsersLimitReached,
    CannotDeleteUser(u32),
    ResourceNotFound(Name),
    Io,
}

// --- opaque configuration / storage / shared counters (not part of the id view) ---
#[verifier::external_body]
pub struct SystemConfig { x: u8 }
impl Clone for SystemConfig { #[verifier::external_body] fn clone(&self) -> (r: Self) { unimplemented!() } }
#[verifier::external_body]
pub struct PartitionStorage { x: u8 }
impl PartitionStorage {
    // removes the offset file; persistence returns Ok (fault scope: C05 quantifies over commands, not I/O faults)
    #[verifier::external_body]
    pub fn delete_consumer_offset(&self, path: &Name) -> (r: Result<(), IggyError>) ensures r is Ok { unimplemented!() }
}
pub struct SystemStorage { pub partition: PartitionStorage }
impl Clone for SystemStorage { #[verifier::external_body] fn clone(&self) -> (r: Self) { unimplemented!() } }
#[verifier::external_body]
pub struct SharedCounter { x: u8 }
impl Clone for SharedCounter { #[verifier::external_body] fn clone(&self) -> (r: Self) { unimplemented!() } }
#[derive(Clone, Copy)]
pub struct IggyExpiry(pub u64);
#[derive(Clone, Copy)]
pub struct CompressionAlgorithm(pub u8);
#[derive(Clone, Copy)]
pub struct MaxTopicSize(pub u64);
#[derive(Clone, Copy)]
pub struct UserStatus(pub u8);
#[verifier::external_body]
pub struct Permissions { x: u8 }
impl Clone for Permissions { #[verifier::external_body] fn clone(&self) -> (r: Self) ensures r == *self { unimplemented!() } }

// DashMap: sharded concurrent map mutated through `&self`; consumer offsets are C07's state, not viewed here
#[verifier::external_body]
#[verifier::reject_recursive_types(K)]
#[verifier::accept_recursive_types(V)]
pub struct DashMap<K, V> { m: std::collections::HashMap<K, V> }
impl<K, V> DashMap<K, V> {
    #[verifier::external_body]
    pub fn remove(&self, k: &K) -> (r: Option<(K, V)>) { unimplemented!() }
}

// --- Identifier payload accessors (sdk): stubs with a small spec. The payload is abstracted to two
// uninterpreted projections; `kind`/`length` are the real (extracted) fields.
impl Identifier {
    pub uninterp spec fn num(&self) -> u32;
    pub uninterp spec fn text(&self) -> Name;
    #[verifier::external_body]
    pub fn get_u32_value(&self) -> (r: Result<u32, IggyError>)
        ensures r == (if self.kind == IdKind::Numeric && self.length == 4 { Ok::<u32, IggyError>(self.num()) } else { Err::<u32, IggyError>(IggyError::InvalidIdentifier) }),
    { unimplemented!() }
    #[verifier::external_body]
    pub fn get_cow_str_value(&self) -> (r: Result<Name, IggyError>)
        ensures r == (if self.kind == IdKind::Name { Ok::<Name, IggyError>(self.text()) } else { Err::<Name, IggyError>(IggyError::InvalidIdentifier) }),
    { unimplemented!() }
    #[verifier::external_body]
    pub fn to_string(&self) -> (r: Name) { unimplemented!() }
}
impl Clone for Identifier { #[verifier::external_body] fn clone(&self) -> (r: Self) ensures r == *self { unimplemented!() } }
// `TryFrom<u32> for Identifier` (= Identifier::numeric): 0 is refused, any other value yields the 4-byte numeric identifier
pub trait TryIntoIdentifier { fn try_into_identifier(self) -> Result<Identifier, IggyError>; }
impl TryIntoIdentifier for u32 {
    #[verifier::external_body]
    fn try_into_identifier(self) -> (r: Result<Identifier, IggyError>)
        ensures self == 0 ==> r is Err,
            self != 0 ==> (r matches Ok(i) && i.kind == IdKind::Numeric && i.length == 4 && i.num() == self),
    { unimplemented!() }
}
// identifiers are validated when decoded (sdk Identifier::from_bytes / validate): a numeric identifier is 4 bytes long
pub open spec fn ident_valid(ident: &Identifier) -> bool {
    ident.kind == IdKind::Numeric ==> ident.length == 4
}
// what an Identifier denotes in a catalogue (None: malformed identifier or unknown name)
pub open spec fn denotes(ident: &Identifier, idx: Map<Name, u32>) -> Option<u32> {
    if ident.kind == IdKind::Numeric {
        if ident.length == 4 { Some(ident.num()) } else { None }
    } else {
        if idx.contains_key(ident.text()) { Some(idx[ident.text()]) } else { None }
    }
}

// --- Topic: construction, validation and persistence are other subsystems; persistence returns Ok ---
impl Topic {
    #[verifier::external_body]
    pub fn get_max_topic_size(max_topic_size: MaxTopicSize, config: &SystemConfig) -> (r: Result<MaxTopicSize, IggyError>)
    { unimplemented!() }
    #[verifier::external_body]
    pub fn create(stream_id: u32, topic_id: u32, name: &Name, partitions_count: u32, config: SystemConfig, storage: SystemStorage,
        size_of_parent_stream: SharedCounter, messages_count_of_parent_stream: SharedCounter, segments_count_of_parent_stream: SharedCounter,
        message_expiry: IggyExpiry, compression_algorithm: CompressionAlgorithm, max_topic_size: MaxTopicSize, replication_factor: u8) -> (r: Result<Topic, IggyError>)
        ensures r matches Ok(t) ==> t.stream_id == stream_id && t.topic_id == topic_id && t.name == *name
            && t.consumer_groups@ == Map::<u32, ConsumerGroup>::empty() && t.consumer_groups_ids@ == Map::<Name, u32>::empty()
            && t.current_consumer_group_id.v == 1,      // topics/topic.rs: `current_consumer_group_id: AtomicU32::new(1)`
    { unimplemented!() }
    #[verifier::external_body]
    pub fn persist(&self) -> (r: Result<(), IggyError>) ensures r is Ok { unimplemented!() }
    // LINKED: units/catalogue_more/lemmas.rs, harness [C06.link.alloc_runtime.topic_delete] (mirror edits there)
    #[verifier::external_body]
    pub fn delete(&self) -> (r: Result<(), IggyError>) ensures r is Ok { unimplemented!() }
}

// --- System-level collaborators: authentication/authorisation read the session and the permission tables only;
// metrics are interior-mutable gauges; none of them is part of the id view ---
#[verifier::external_body]
pub struct Session { x: u8 }
impl Session {
    #[verifier::external_body]
    pub fn get_user_id(&self) -> (r: u32) { unimplemented!() }
    #[verifier::external_body]
    pub fn is_active(&self) -> (r: bool) { unimplemented!() }
    #[verifier::external_body]
    pub fn is_authenticated(&self) -> (r: bool) { unimplemented!() }
}
#[verifier::external_body]
pub struct Permissioner { x: u8 }
impl Permissioner {
    #[verifier::external_body]
    pub fn create_stream(&self, user_id: u32) -> (r: Result<(), IggyError>) { unimplemented!() }
    #[verifier::external_body]
    pub fn delete_stream(&self, user_id: u32, stream_id: u32) -> (r: Result<(), IggyError>) { unimplemented!() }
    #[verifier::external_body]
    pub fn create_user(&self, user_id: u32) -> (r: Result<(), IggyError>) { unimplemented!() }
    #[verifier::external_body]
    pub fn delete_user(&self, user_id: u32) -> (r: Result<(), IggyError>) { unimplemented!() }
    #[verifier::external_body]
    pub fn init_permissions_for_user(&mut self, user_id: u32, permissions: Option<Permissions>) { unimplemented!() }
    #[verifier::external_body]
    pub fn delete_permissions_for_user(&mut self, user_id: u32) { unimplemented!() }
}
#[verifier::external_body]
pub struct Metrics { x: u8 }
impl Metrics {
    #[verifier::external_body] pub fn increment_streams(&self, n: u32) { unimplemented!() }
    #[verifier::external_body] pub fn decrement_streams(&self, n: u32) { unimplemented!() }
    #[verifier::external_body] pub fn decrement_topics(&self, n: u32) { unimplemented!() }
    #[verifier::external_body] pub fn decrement_partitions(&self, n: u32) { unimplemented!() }
    #[verifier::external_body] pub fn decrement_messages(&self, n: u64) { unimplemented!() }
    #[verifier::external_body] pub fn decrement_segments(&self, n: u32) { unimplemented!() }
    #[verifier::external_body] pub fn increment_users(&self, n: u32) { unimplemented!() }
    #[verifier::external_body] pub fn decrement_users(&self, n: u32) { unimplemented!() }
}
impl System {
    // repair F70: disconnects the clients of the user (units client_disconnect / user_disconnect); writes the client manager only
    // LINKED: units/user_disconnect/lemmas.rs, harness [C06.link.alloc_runtime.system_delete_clients_for_user] (mirror edits there).
    // The `requires` was added by the link: the real function is proved (no panic, frame) only under the representation invariant of the
    // client table — the stub had no precondition.
    #[verifier::external_body]
    pub fn delete_clients_for_user(&mut self, user_id: u32)
        requires cm_inv(&old(self).client_manager),
        ensures *final(self) == (System { client_manager: final(self).client_manager, ..*old(self) }),
    { unimplemented!() }
}
// the client manager is verified in unit client_memberships; opaque here
#[verifier::external_body]
pub struct ClientManager { x: u8 }
// representation invariant of the client table, opaque here (added by link pass 2). The proving units interpret it as
// cm_keys_wf && members_wf && cm_ids_nonzero of vx/prelude/disconnect.rs: every client is filed under its own session's id, holds each
// membership at most once, and recorded membership ids are never 0 — the preconditions of the real System::delete_clients_for_user
// (unit user_disconnect) and ClientManager::delete_clients_for_user (unit client_memberships).
pub uninterp spec fn cm_inv(cm: &ClientManager) -> bool;
impl ClientManager {
    #[verifier::external_body]
    pub fn delete_consumer_groups_for_stream(&mut self, stream_id: u32) { unimplemented!() }
    // LINKED: units/client_memberships/lemmas.rs, harness [C06.link.alloc_runtime.delete_clients_for_user] (mirror edits there). The
    // `requires` was added by the link (the real function is proved under keys_wf). Called by System::delete_user only on a tree WITHOUT the repair F70.
    #[verifier::external_body]
    pub fn delete_clients_for_user(&mut self, user_id: u32) -> (r: Result<(), IggyError>) requires cm_inv(old(self)), ensures r is Ok { unimplemented!() }
}

// ---- abstract view: which ids are taken ---------------------------------------------------------------------
pub open spec fn stream_ids(s: &System) -> Set<u32> { s.streams@.dom() }
pub open spec fn topic_ids(s: &Stream) -> Set<u32> { s.topics@.dom() }
pub open spec fn group_ids(t: &Topic) -> Set<u32> { t.consumer_groups@.dom() }
pub open spec fn user_ids(s: &System) -> Set<u32> { s.users@.dom() }

// well-formedness of the three catalogues (maintained by the code: unit catalogue_maps, [C06.bij.*])
pub open spec fn stream_wf(s: &Stream) -> bool {
    &&& forall|id: u32| #[trigger] s.topics@.contains_key(id) ==> s.topics@[id].topic_id == id
            && s.topics_ids@.contains_key(s.topics@[id].name) && s.topics_ids@[s.topics@[id].name] == id
    &&& forall|n: Name| #[trigger] s.topics_ids@.contains_key(n) ==> s.topics@.contains_key(s.topics_ids@[n]) && s.topics@[s.topics_ids@[n]].name == n
}
pub open spec fn topic_of(s: &Stream, ident: &Identifier) -> Option<u32> {
    match denotes(ident, s.topics_ids@) {
        Some(id) => if s.topics@.contains_key(id) { Some(id) } else { None },
        None => None,
    }
}
pub open spec fn system_wf(s: &System) -> bool {
    &&& forall|id: u32| #[trigger] s.streams@.contains_key(id) ==> s.streams@[id].stream_id == id
            && s.streams_ids@.contains_key(s.streams@[id].name) && s.streams_ids@[s.streams@[id].name] == id
    &&& forall|n: Name| #[trigger] s.streams_ids@.contains_key(n) ==> s.streams@.contains_key(s.streams_ids@[n]) && s.streams@[s.streams_ids@[n]].name == n
}
pub open spec fn stream_of(s: &System, ident: &Identifier) -> Option<u32> {
    match denotes(ident, s.streams_ids@) {
        Some(id) => if s.streams@.contains_key(id) { Some(id) } else { None },
        None => None,
    }
}
pub open spec fn topic_wf(t: &Topic) -> bool {
    &&& forall|id: u32| #[trigger] t.consumer_groups@.contains_key(id) ==> t.consumer_groups@[id].group_id == id
            && t.consumer_groups_ids@.contains_key(t.consumer_groups@[id].name) && t.consumer_groups_ids@[t.consumer_groups@[id].name] == id
    &&& forall|n: Name| #[trigger] t.consumer_groups_ids@.contains_key(n) ==> t.consumer_groups@.contains_key(t.consumer_groups_ids@[n])
            && t.consumer_groups@[t.consumer_groups_ids@[n]].name == n
}
pub open spec fn group_of(t: &Topic, ident: &Identifier) -> Option<u32> {
    match denotes(ident, t.consumer_groups_ids@) {
        Some(id) => if t.consumer_groups@.contains_key(id) { Some(id) } else { None },
        None => None,
    }
}
pub open spec fn users_wf(s: &System) -> bool {
    forall|id: u32| #[trigger] s.users@.contains_key(id) ==> s.users@[id].id == id
}

// --- Stream: construction, persistence and the gauges read for the metrics are other subsystems ---
impl Stream {
    #[verifier::external_body]
    pub fn create(id: u32, name: &Name, config: SystemConfig, storage: SystemStorage) -> (r: Stream)
        ensures r.stream_id == id && r.name == *name
            && r.topics@ == Map::<u32, Topic>::empty() && r.topics_ids@ == Map::<Name, u32>::empty()
            && r.current_topic_id.v == 1,               // streams/stream.rs: `current_topic_id: AtomicU32::new(1)`
    { unimplemented!() }
    #[verifier::external_body]
    pub fn persist(&self) -> (r: Result<(), IggyError>) ensures r is Ok { unimplemented!() }
    // LINKED: units/catalogue_more/lemmas.rs, harness [C06.link.alloc_runtime.stream_delete] (mirror edits there)
    #[verifier::external_body]
    pub fn delete(&self) -> (r: Result<(), IggyError>) ensures r is Ok { unimplemented!() }
    #[verifier::external_body]
    pub fn get_topics_count(&self) -> (r: u32) { unimplemented!() }
    #[verifier::external_body]
    pub fn get_partitions_count(&self) -> (r: u32) { unimplemented!() }
    #[verifier::external_body]
    pub fn get_messages_count(&self) -> (r: u64) { unimplemented!() }
    #[verifier::external_body]
    pub fn get_segments_count(&self) -> (r: u32) { unimplemented!() }
}

// --- the journal: `Arc<StateKind>` (FileState). `apply` appends exactly one entry holding the command it is handed
// (the file side is unit journal's subject, C11). R6 receiver: the real `apply(&self)` mutates through atomics + file.
#[verifier::external_body]
pub struct StateKind { x: u8 }
impl StateKind {
    pub uninterp spec fn log(&self) -> Seq<EntryCommand>;
    // LINKED (relational reading, not verbatim): units/journal/lemmas.rs, harness [C05.link.alloc_runtime.apply] proves both clauses from the real
    // FileState::apply with `log()` read as "a ghost sequence the journal file DENOTES" (valid journal whose entries carry, in order, the
    // journal forms `cmd_bytes` of the logged commands): Ok => the new file denotes log.push(..); Err => it denotes log or log.push(..)
    // OR - a case this stub does not list - the write was torn and the file is no journal any more (the loader refuses it at the next
    // start). The real function's preconditions are NOT carried here: the journal invariant `jwf` (broken by a failed apply: F16),
    // `command.payload_fits()` (payload below 4 GiB) and unit journal's scope `encryptor is None`. The VALUE-level equation on `log()` as a
    // function needs `cmd_bytes` injective = the round trip of unit journal_cmd ([C13.journal.cmd.rt]): still stated, not linked.
    #[verifier::external_body]
    pub fn apply(&mut self, user_id: u32, command: EntryCommand) -> (r: Result<(), IggyError>)
        ensures r is Ok ==> final(self).log() == old(self).log().push(command),
            // WEAKENED by link pass 2 (was: `r is Err ==> final(self).log() == old(self).log()`): the real FileState::apply returns Err
            // also AFTER the entry reached the file (FileWithSyncPersister::append: write_all Ok, then sync_all fails -> CannotSyncFile,
            // server/src/streaming/persistence/persister.rs), so a failed apply may or may not have written the entry - the form units
            // journal_sinks / credentials already use
            r is Err ==> (final(self).log() == old(self).log() || final(self).log() == old(self).log().push(command)),
    { unimplemented!() }
}

// --- users: construction and lookup are other subsystems ---
impl User {
    // LINKED: units/credentials/lemmas.rs, harness [C10.link.alloc_runtime.User_new] (mirror edits there)
    #[verifier::external_body]
    pub fn new(id: u32, username: &Name, password: &Name, status: UserStatus, permissions: Option<Permissions>) -> (r: User)
        ensures r.id == id && r.username == *username,
    { unimplemented!() }
}
impl System {
    // System::get_user / try_get_user (systems/users.rs): numeric identifiers are looked up by key, names by a scan over the
    // usernames. Stub: the lookup is unit catalogue's matter; assumed to return an entry of the map (by key when numeric).
    // LINKED: units/credentials/lemmas.rs, harness [C10.link.alloc_runtime.get_user], proves this contract from the real function (mirror edits there)
    #[verifier::external_body]
    pub fn get_user(&self, user_id: &Identifier) -> (r: Result<&User, IggyError>)
        ensures
            r matches Ok(u) ==> exists|k: u32| #[trigger] self.users@.contains_key(k) && self.users@[k] == *u
                && (user_id.kind == IdKind::Numeric ==> user_id.length == 4 && k == user_id.num()),
            (user_id.kind == IdKind::Numeric && user_id.length == 4 && self.users@.contains_key(user_id.num())) ==> r is Ok,
    { unimplemented!() }
}
// R8 schema for `m.iter().any(|(k, v)| P)` (documented std semantics)
#[verifier::external_body]
pub fn std_iter_any<K, V>(m: &HashMap<K, V>, Ghost(f): Ghost<spec_fn((K, V)) -> bool>) -> (r: bool)
    ensures r == exists|k: K| #[trigger] m@.contains_key(k) && f((k, m@[k])),
{ unimplemented!() }
// R8 schema for `m.keys().max()` (documented std semantics): None iff the map is empty, else a largest key
impl<V> HashMap<u32, V> {
    #[verifier::external_body]
    pub fn keys_max(&self) -> (r: Option<&u32>)
        ensures match r { Some(m) => is_max_of(self@.dom(), *m), None => self@.dom() =~= Set::<u32>::empty() },
    { unimplemented!() }
}

// --- transport side of a handler: response mapping and the socket are not part of the catalogue ---
#[verifier::external_body]
pub struct ResponseBytes { x: u8 }
pub mod mapper {
    use super::*;
    #[verifier::external_body]
    pub fn map_stream(stream: &Stream) -> (r: ResponseBytes) { unimplemented!() }
    #[verifier::external_body]
    pub fn map_topic(topic: &Topic) -> (r: ResponseBytes) { unimplemented!() }
    #[verifier::external_body]
    pub fn map_consumer_group(consumer_group: &ConsumerGroup) -> (r: ResponseBytes) { unimplemented!() }
    #[verifier::external_body]
    pub fn map_user(user: &User) -> (r: ResponseBytes) { unimplemented!() }
}
pub mod crypto {
    use super::*;
    #[verifier::external_body]
    pub fn hash_password(password: &Name) -> (r: Name) { unimplemented!() }
}
#[verifier::external_body]
pub struct SenderKind { x: u8 }
impl SenderKind {
    #[verifier::external_body]
    pub fn send_ok_response(&mut self, payload: &ResponseBytes) -> (r: Result<(), IggyError>) { unimplemented!() }
}
// the entry appended by the last successful `apply`
pub open spec fn journalled_one(old_log: Seq<EntryCommand>, new_log: Seq<EntryCommand>) -> bool {
    new_log.len() == old_log.len() + 1 && new_log.drop_last() =~= old_log
}

// --- system-level wrappers: permission checks and gauges are not part of the id view ---
impl Permissioner {
    #[verifier::external_body]
    pub fn create_topic(&self, user_id: u32, stream_id: u32) -> (r: Result<(), IggyError>) { unimplemented!() }
    #[verifier::external_body]
    pub fn create_consumer_group(&self, user_id: u32, stream_id: u32, topic_id: u32) -> (r: Result<(), IggyError>) { unimplemented!() }
}
impl Metrics {
    #[verifier::external_body] pub fn increment_topics(&self, n: u32) { unimplemented!() }
    #[verifier::external_body] pub fn increment_partitions(&self, n: u32) { unimplemented!() }
    #[verifier::external_body] pub fn increment_segments(&self, n: u32) { unimplemented!() }
}
impl System {
    // System::find_topic (systems/topics.rs): a read-only lookup (`&self`) whose result feeds the permission check only
    #[verifier::external_body]
    pub fn find_topic(&self, session: &Session, stream_id: &Identifier, topic_id: &Identifier) -> (r: Result<&Topic, IggyError>) { unimplemented!() }
}
// every stream / topic of the system is well-formed
pub open spec fn system_deep_wf(s: &System) -> bool {
    &&& system_wf(s)
    &&& forall|sid: u32| #[trigger] s.streams@.contains_key(sid) ==> stream_wf(&s.streams@[sid])
    &&& forall|sid: u32, tid: u32| #[trigger] s.streams@.contains_key(sid) && #[trigger] s.streams@[sid].topics@.contains_key(tid) ==> topic_wf(&s.streams@[sid].topics@[tid])
}
// everything of the system record except the `streams` map
pub open spec fn system_only_streams(a: &System, b: &System) -> bool {
    *b == (System { streams: b.streams, ..*a })
}
pub open spec fn stream_only_topics(a: &Stream, b: &Stream) -> bool {
    *b == (Stream { topics: b.topics, ..*a })
}
