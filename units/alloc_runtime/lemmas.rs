// ---- lemmas: alloc_runtime (C05, runtime side) — consequences of the allocator the [C05.rt.*] clauses pin down ----

// label: C05.rt.lemma.scan
// the scan returns the first free id at or above the counter (or u32::MAX when it runs out)
pub proof fn lemma_rt_scan(c: u32, ids: Set<u32>)
    ensures c <= rt_scan(c, ids),
        forall|k: u32| c <= k < rt_scan(c, ids) ==> ids.contains(k),
        rt_scan(c, ids) != u32::MAX ==> !ids.contains(rt_scan(c, ids)),
    decreases u32::MAX - c,
{
    if c != u32::MAX && ids.contains(c) { lemma_rt_scan((c + 1) as u32, ids); }
}

// label: C05.rt.lemma.fresh
// an id the runtime hands out is never one that is taken (no entity is overwritten at run time)
pub proof fn lemma_rt_alloc_fresh(c: u32, ids: Set<u32>, req: Option<u32>)
    ensures rt_alloc(c, ids, req).0 matches Some(id) ==> !ids.contains(id),
{
}

// label: C05.rt.lemma.reuse
// "moves back on delete": after deleting an entity below the counter, the very next server-assigned id is the deleted one
pub proof fn lemma_rt_reuse(c: u32, ids: Set<u32>, id: u32)
    requires ids.contains(id), id < c,
    ensures rt_alloc(rt_release(c, id), ids.remove(id), None) == (Some(id), (id + 1) as u32),
{
}

// label: C05.rt.lemma.replay_blind
// replay's allocator never looks at the taken ids: a journalled create without id gets counter+1 even when that id is taken,
// whereas the runtime never returns a taken id — the two can only agree if the journal carries the id ([C05.journal.*])
pub proof fn lemma_replay_blind(c: u32, ids: Set<u32>)
    requires c < u32::MAX, ids.contains((c + 1) as u32),
    ensures rt_alloc((c + 1) as u32, ids, None).0 != Some(rp_alloc(c, None).0),
{
    lemma_rt_alloc_fresh((c + 1) as u32, ids, None);
}
