// ---- lemmas: alloc_runtime (C05, runtime side) — consequences of the allocator the [C05.rt.*] clauses pin down ----

// label: C05.rt.lemma.scan
// the scan returns the first free id at or above the counter (or u32::MAX when it runs out)
pub proof fn lemma_rt_scan(c: u32, ids: Set<u32>)
    ensures c <= rt_scan(c, ids),
        forall|k: u32| c <= k < rt_scan(c, ids) ==> ids.contains(k),
        rt_scan(c, ids) != u32::MAX ==> !ids.contains(rt_scan(c, ids)),
    decreases u32::MAX - c,
{
    if c != u32::MAX && ids.contains(c) { lemma_rt_scan((c + 1) as u32, ids); }
}

// label: C05.rt.lemma.fresh
// an id the runtime hands out is never one that is taken (no entity is overwritten at run time)
pub proof fn lemma_rt_alloc_fresh(c: u32, ids: Set<u32>, req: Option<u32>)
    ensures rt_alloc(c, ids, req).0 matches Some(id) ==> !ids.contains(id),
{
}

// label: C05.rt.lemma.reuse
// "moves back on delete": after deleting an entity below the counter, the very next server-assigned id is the deleted one
pub proof fn lemma_rt_reuse(c: u32, ids: Set<u32>, id: u32)
    requires ids.contains(id), id < c,
    ensures rt_alloc(rt_release(c, id), ids.remove(id), None) == (Some(id), (id + 1) as u32),
{
}

// label: C05.rt.lemma.replay_blind
// replay's allocator never looks at the taken ids: a journalled create without id gets counter+1 even when that id is taken,
// whereas the runtime never returns a taken id — the two can only agree if the journal carries the id ([C05.journal.*])
pub proof fn lemma_replay_blind(c: u32, ids: Set<u32>)
    requires c < u32::MAX, ids.contains((c + 1) as u32),
    ensures rt_alloc((c + 1) as u32, ids, None).0 != Some(rp_alloc(c, None).0),
{
    lemma_rt_alloc_fresh((c + 1) as u32, ids, None);
}

// ---- COMPOSITION harnesses (link pass 2): the RUNTIME half of the simulation's step function -------------------------------------
// The simulation lemmas [C05.sim.*] of units/alloc_replay/lemmas.rs are statements about the spec-level transition functions `step` /
// `ustep` on pairs (runtime allocator, replay allocator). That the runtime component of `step` IS what the real commands do was a
// hypothesis there ("built from the SAME spec functions the code contracts use", clauses cited by label). Each harness below calls ONE
// real extracted command and proves, from its [C05.rt.*] contract, that the pair (counter, taken ids) before / after the call is
//   * exactly `step((a, b), cmd, carried).0` (for every replay state b and both journal disciplines) when the command is acknowledged,
//   * and what a REFUSED command may leave behind — the model says "the state is left alone"; see the *.refused clauses for where the
//     real code does less than that.
// (vocabulary of units/alloc_replay/lemmas.rs used by the clauses, repeated word for word: Cmd, Alloc, acked, rt_assigned, journalled_id,
//  rp_create, step, UCmd, max_of, ustep)
pub enum Cmd {
    Create(Option<u32>),     // create with client-chosen id Some(w) or server-assigned id None
    Delete(u32),             // delete the entity the identifier resolves to
    Restart,                 // stop, replay the journal, start: the runtime catalogue IS the replayed one, counter back at 1
}
pub struct Alloc { pub c: u32, pub ids: Set<u32> }
pub open spec fn acked(a: Alloc, cmd: Cmd) -> bool {
    match cmd {
        Cmd::Create(req) => rt_alloc(a.c, a.ids, req).0 is Some,
        Cmd::Delete(id) => a.ids.contains(id),
        Cmd::Restart => true,
    }
}
pub open spec fn rt_assigned(a: Alloc, req: Option<u32>) -> u32 { rt_alloc(a.c, a.ids, req).0->0 }
pub open spec fn journalled_id(a: Alloc, req: Option<u32>, carried: bool) -> Option<u32> {
    if carried { Some(rt_assigned(a, req)) } else { req }
}
pub open spec fn rp_create(b: Alloc, j: Option<u32>) -> Alloc {
    Alloc { c: rp_alloc(b.c, j).1, ids: b.ids.insert(rp_alloc(b.c, j).0) }
}
pub open spec fn step(s: (Alloc, Alloc), cmd: Cmd, carried: bool) -> (Alloc, Alloc) {
    let (a, b) = s;
    if !acked(a, cmd) { s } else {
        match cmd {
            Cmd::Create(req) => (
                Alloc { c: rt_alloc(a.c, a.ids, req).1, ids: a.ids.insert(rt_assigned(a, req)) },
                rp_create(b, journalled_id(a, req, carried))),
            Cmd::Delete(id) => (Alloc { c: rt_release(a.c, id), ids: a.ids.remove(id) }, Alloc { c: b.c, ids: b.ids.remove(id) }),
            Cmd::Restart => (Alloc { c: 1, ids: b.ids }, b),
        }
    }
}
pub enum UCmd { Create, Delete(u32), Restart }
pub open spec fn max_of(ids: Set<u32>) -> u32 { choose|m: u32| is_max_of(ids, m) }
pub open spec fn ustep(s: (Alloc, Alloc), cmd: UCmd) -> (Alloc, Alloc) {
    let (a, b) = s;
    match cmd {
        UCmd::Create => (Alloc { c: rt_user_alloc(a.c).1, ids: a.ids.insert(rt_user_alloc(a.c).0) }, rp_create(b, None)),
        UCmd::Delete(id) => if a.ids.contains(id) && id != 1 { (Alloc { c: a.c, ids: a.ids.remove(id) }, Alloc { c: b.c, ids: b.ids.remove(id) }) } else { s },
        // start-up: users are the replayed ones, USER_ID := highest id + 1
        UCmd::Restart => (Alloc { c: (max_of(b.ids) + 1) as u32, ids: b.ids }, b),
    }
}
// (this unit's reading of an allocator scope as an `Alloc`; equality of two of them with the id sets compared extensionally)
pub open spec fn alloc_eq(x: Alloc, y: Alloc) -> bool { x.c == y.c && x.ids =~= y.ids }
pub open spec fn rt_streams(s: &System, c: &Counter32) -> Alloc { Alloc { c: c.v, ids: stream_ids(s) } }
pub open spec fn rt_topics(s: &Stream) -> Alloc { Alloc { c: s.current_topic_id.v, ids: topic_ids(s) } }
pub open spec fn rt_groups(t: &Topic) -> Alloc { Alloc { c: t.current_consumer_group_id.v, ids: group_ids(t) } }
pub open spec fn rt_users(s: &System, c: &Counter32) -> Alloc { Alloc { c: c.v, ids: user_ids(s) } }

impl System {
    // label: C05.link.alloc_replay.step.create_stream
    pub fn sim_create_stream(&mut self, session: &Session, stream_id: Option<u32>, name: &Name, CURRENT_STREAM_ID: &mut Counter32) -> (r: Result<&Stream, IggyError>)
        requires system_wf(old(self)),
        ensures
            r matches Ok(s) ==> acked(rt_streams(old(self), old(CURRENT_STREAM_ID)), Cmd::Create(stream_id))
                && s.stream_id == rt_assigned(rt_streams(old(self), old(CURRENT_STREAM_ID)), stream_id)
                && (forall|b: Alloc, carried: bool| alloc_eq((#[trigger] step((rt_streams(old(self), old(CURRENT_STREAM_ID)), b), Cmd::Create(stream_id), carried)).0,
                        rt_streams(final(self), final(CURRENT_STREAM_ID)))),
            // refused: the state is left alone — unless the scan ran out (every id from the counter up to u32::MAX is taken), where
            // the counter has wrapped although nothing was created
            r is Err ==> alloc_eq(rt_streams(final(self), final(CURRENT_STREAM_ID)), rt_streams(old(self), old(CURRENT_STREAM_ID)))
                || (stream_id is None && !acked(rt_streams(old(self), old(CURRENT_STREAM_ID)), Cmd::Create(stream_id)) && stream_ids(final(self)) =~= stream_ids(old(self))),
            system_wf(final(self)),
    { self.create_stream(session, stream_id, name, CURRENT_STREAM_ID) }

    // label: C05.link.alloc_replay.step.delete_stream
    pub fn sim_delete_stream(&mut self, session: &Session, id: &Identifier, CURRENT_STREAM_ID: &mut Counter32) -> (r: Result<u32, IggyError>)
        requires system_wf(old(self)),
        ensures
            r matches Ok(sid) ==> stream_of(old(self), id) == Some(sid) && acked(rt_streams(old(self), old(CURRENT_STREAM_ID)), Cmd::Delete(sid))
                && (forall|b: Alloc, carried: bool| alloc_eq((#[trigger] step((rt_streams(old(self), old(CURRENT_STREAM_ID)), b), Cmd::Delete(sid), carried)).0,
                        rt_streams(final(self), final(CURRENT_STREAM_ID)))),
            r is Err ==> alloc_eq(rt_streams(final(self), final(CURRENT_STREAM_ID)), rt_streams(old(self), old(CURRENT_STREAM_ID))),
            system_wf(final(self)),
    { self.delete_stream(session, id, CURRENT_STREAM_ID) }
}
impl Stream {
    // label: C05.link.alloc_replay.step.create_topic
    pub fn sim_create_topic(&mut self, topic_id: Option<u32>, name: &Name, partitions_count: u32, message_expiry: IggyExpiry,
        compression_algorithm: CompressionAlgorithm, max_topic_size: MaxTopicSize, replication_factor: u8) -> (r: Result<u32, IggyError>)
        requires stream_wf(old(self)),
        ensures
            r matches Ok(id) ==> acked(rt_topics(old(self)), Cmd::Create(topic_id)) && id == rt_assigned(rt_topics(old(self)), topic_id)
                && (forall|b: Alloc, carried: bool| alloc_eq((#[trigger] step((rt_topics(old(self)), b), Cmd::Create(topic_id), carried)).0, rt_topics(final(self)))),
            // refused: the taken ids are left alone; the COUNTER is not — a create_topic(None, ..) refused after the scan (Topic::create or
            // Topic::persist failing, streams/topics.rs:58-76) leaves it advanced ([C05.rt.topic.fail]). The model's "a refused command
            // leaves the runtime state alone" does NOT hold for topics; harmless once the journal carries the id: [C05.sim.carried.any_counter]
            r is Err ==> topic_ids(final(self)) =~= topic_ids(old(self))
                && (final(self).current_topic_id.v == old(self).current_topic_id.v
                    || (topic_id is None && final(self).current_topic_id.v == rt_alloc(old(self).current_topic_id.v, topic_ids(old(self)), topic_id).1)),
            stream_wf(final(self)),
    { self.create_topic(topic_id, name, partitions_count, message_expiry, compression_algorithm, max_topic_size, replication_factor) }

    // label: C05.link.alloc_replay.step.delete_topic
    pub fn sim_delete_topic(&mut self, id: &Identifier) -> (r: Result<Topic, IggyError>)
        requires stream_wf(old(self)),
        ensures
            r matches Ok(t) ==> topic_of(old(self), id) == Some(t.topic_id) && acked(rt_topics(old(self)), Cmd::Delete(t.topic_id))
                && (forall|b: Alloc, carried: bool| alloc_eq((#[trigger] step((rt_topics(old(self)), b), Cmd::Delete(t.topic_id), carried)).0, rt_topics(final(self)))),
            r is Err ==> alloc_eq(rt_topics(final(self)), rt_topics(old(self))),
            stream_wf(final(self)),
    { self.delete_topic(id) }
}
impl Topic {
    // label: C05.link.alloc_replay.step.create_consumer_group
    pub fn sim_create_consumer_group(&mut self, group_id: Option<u32>, name: &Name) -> (r: Result<&ConsumerGroup, IggyError>)
        requires topic_wf(old(self)),
        ensures
            r matches Ok(g) ==> acked(rt_groups(old(self)), Cmd::Create(group_id)) && g.group_id == rt_assigned(rt_groups(old(self)), group_id)
                && (forall|b: Alloc, carried: bool| alloc_eq((#[trigger] step((rt_groups(old(self)), b), Cmd::Create(group_id), carried)).0, rt_groups(final(self)))),
            // refused: as for streams (alone, unless the scan ran out)
            r is Err ==> alloc_eq(rt_groups(final(self)), rt_groups(old(self)))
                || (group_id is None && !acked(rt_groups(old(self)), Cmd::Create(group_id)) && group_ids(final(self)) =~= group_ids(old(self))),
            topic_wf(final(self)),
    { self.create_consumer_group(group_id, name) }

    // label: C05.link.alloc_replay.step.delete_consumer_group
    pub fn sim_delete_consumer_group(&mut self, id: &Identifier) -> (r: Result<ConsumerGroup, IggyError>)
        requires topic_wf(old(self)), ident_valid(id),
        ensures
            r matches Ok(g) ==> group_of(old(self), id) == Some(g.group_id) && acked(rt_groups(old(self)), Cmd::Delete(g.group_id))
                && (forall|b: Alloc, carried: bool| alloc_eq((#[trigger] step((rt_groups(old(self)), b), Cmd::Delete(g.group_id), carried)).0, rt_groups(final(self)))),
            r is Err ==> alloc_eq(rt_groups(final(self)), rt_groups(old(self))),
            topic_wf(final(self)),
    { self.delete_consumer_group(id) }
}
impl System {
    // users: `ustep` has no refused creates (USER_ID == 0, after 2^32 creations, is excluded: [C05.rt.user.fail])
    // label: C05.link.alloc_replay.ustep.create_user
    pub fn sim_create_user(&mut self, session: &Session, username: &Name, password: &Name, status: UserStatus, permissions: Option<Permissions>,
        USER_ID: &mut Counter32) -> (r: Result<&User, IggyError>)
        requires users_wf(old(self)),
        ensures
            r is Ok ==> (forall|b: Alloc| alloc_eq((#[trigger] ustep((rt_users(old(self), old(USER_ID)), b), UCmd::Create)).0, rt_users(final(self), final(USER_ID)))),
            (r is Err && old(USER_ID).v != 0) ==> alloc_eq(rt_users(final(self), final(USER_ID)), rt_users(old(self), old(USER_ID))),
            users_wf(final(self)),
    { self.create_user(session, username, password, status, permissions, USER_ID) }

    // delete_user has no access to USER_ID (it is not among its parameters): the counter component is the caller's unchanged cell `c`
    // label: C05.link.alloc_replay.ustep.delete_user
    pub fn sim_delete_user(&mut self, session: &Session, user_id: &Identifier, Ghost(c): Ghost<Counter32>) -> (r: Result<User, IggyError>)
        requires users_wf(old(self)), cm_inv(&old(self).client_manager),
        ensures
            r matches Ok(u) ==> (forall|b: Alloc| alloc_eq((#[trigger] ustep((rt_users(old(self), &c), b), UCmd::Delete(u.id))).0, rt_users(final(self), &c)))
                && user_ids(old(self)).contains(u.id) && u.id != 1,
            r is Err ==> alloc_eq(rt_users(final(self), &c), rt_users(old(self), &c)),
            users_wf(final(self)),
    { self.delete_user(session, user_id) }

    // start-up (`ustep` Restart, runtime component, given that the loaded users ARE the replayed ones: b.ids == user_ids): USER_ID := highest id + 1
    // label: C05.link.alloc_replay.ustep.restart
    pub fn sim_restart_users(&mut self, USER_ID: &mut Counter32)
        requires forall|k: u32| old(self).users@.contains_key(k) ==> k < u32::MAX,
            user_ids(old(self)).contains(1),      // the root user exists from the first boot on (u0)
        ensures
            forall|a: Alloc, b: Alloc| b.ids == user_ids(old(self)) ==> alloc_eq((#[trigger] ustep((a, b), UCmd::Restart)).0, rt_users(final(self), final(USER_ID))),
            *final(self) == *old(self),
    {
        self.load_users_reseed(USER_ID);
        proof {
            let ids = user_ids(old(self));
            let m = choose|m: u32| is_max_of(ids, m) && USER_ID.v == m + 1;
            assert(is_max_of(ids, max_of(ids)));
            assert(max_of(ids) == m);
        }
    }
}
