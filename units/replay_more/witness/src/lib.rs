//! Helpers for the C05 witnesses: an "incarnation" of the real server `System` over a data directory,
//! with the journal handle kept so that the test can journal exactly what the binary handlers journal
//! (the CLIENT's command, see server/src/binary/handlers/*/create_*_handler.rs).
use server::configs::server::{DataMaintenanceConfig, PersonalAccessTokenConfig};
use server::configs::system::SystemConfig;
use server::state::file::FileState;
use server::state::StateKind;
use server::streaming::persistence::persister::{FilePersister, PersisterKind};
use server::streaming::session::Session;
use server::streaming::storage::SystemStorage;
use server::streaming::systems::system::System;
use server::versioning::SemanticVersion;
use std::net::{Ipv4Addr, SocketAddr};
use std::sync::Arc;

pub fn config(dir: &std::path::Path) -> Arc<SystemConfig> {
    let mut c = SystemConfig::default();
    c.path = dir.to_str().unwrap().to_string();
    Arc::new(c)
}

/// one server incarnation: System::create + init() (journal replay, load_users, load_streams)
pub async fn boot(config: Arc<SystemConfig>) -> (System, Arc<StateKind>) {
    let version = SemanticVersion::current().unwrap();
    let persister = Arc::new(PersisterKind::File(FilePersister));
    let state = Arc::new(StateKind::File(FileState::new(
        &config.get_state_log_path(),
        &version,
        persister.clone(),
        None,
    )));
    let mut system = System::create(
        config.clone(),
        SystemStorage::new(config, persister),
        state.clone(),
        None,
        DataMaintenanceConfig::default(),
        PersonalAccessTokenConfig::default(),
    );
    system.init().await.unwrap();
    (system, state)
}

pub fn root_session() -> Session {
    Session::new(1, 1, SocketAddr::new(Ipv4Addr::LOCALHOST.into(), 1234))
}
