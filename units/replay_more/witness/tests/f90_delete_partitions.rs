// F90: DeletePartitions with a count larger than the topic's partition count + 1. The runtime clamps the count and
// acknowledges (Topic::delete_persisted_partitions); the journal carries the client's count; replay computes
// `last_partition_id - i` in u32 for i up to count-1.
use iggy::compression::compression_algorithm::CompressionAlgorithm;
use iggy::identifier::Identifier;
use iggy::partitions::delete_partitions::DeletePartitions;
use iggy::streams::create_stream::CreateStream;
use iggy::topics::create_topic::CreateTopic;
use iggy::utils::expiry::IggyExpiry;
use iggy::utils::topic_size::MaxTopicSize;
use rmwit::*;
use server::state::command::EntryCommand;

#[tokio::test]
async fn f90_delete_more_partitions_than_exist_then_restart() {
    let dir = tempfile::TempDir::new().unwrap();
    let cfg = config(dir.path());
    let session = root_session();
    let (mut system, state) = boot(cfg.clone()).await;
    system.create_stream(&session, Some(1), "s").await.unwrap();
    state.apply(1, EntryCommand::CreateStream(CreateStream { stream_id: Some(1), name: "s".into() })).await.unwrap();
    let sid = Identifier::numeric(1).unwrap();
    let t = system
        .create_topic(&session, &sid, Some(1), "t", 1, IggyExpiry::NeverExpire, CompressionAlgorithm::None, MaxTopicSize::Unlimited, None)
        .await
        .unwrap();
    let (exp, max) = (t.message_expiry, t.max_topic_size);
    state.apply(1, EntryCommand::CreateTopic(CreateTopic {
        stream_id: sid.clone(), topic_id: Some(1), partitions_count: 1, compression_algorithm: CompressionAlgorithm::None,
        message_expiry: exp, max_topic_size: max, replication_factor: None, name: "t".into(),
    })).await.unwrap();
    let tid = Identifier::numeric(1).unwrap();

    // a valid command (1 <= count <= 1000, DeletePartitions::validate): the topic has 1 partition, the client asks for 3
    let cmd = DeletePartitions { stream_id: sid.clone(), topic_id: tid.clone(), partitions_count: 3 };
    iggy::validatable::Validatable::validate(&cmd).unwrap();
    let r = system.delete_partitions(&session, &sid, &tid, cmd.partitions_count).await;
    eprintln!("runtime delete_partitions(count=3) on a 1-partition topic -> {r:?}");
    r.unwrap(); // acknowledged
    state.apply(1, EntryCommand::DeletePartitions(cmd)).await.unwrap();
    let before = system.get_stream(&sid).unwrap().get_topic(&tid).unwrap().get_partitions_count();
    eprintln!("partitions before restart: {before}");
    drop(system);

    // restart: SystemState::init replays the journal
    let (system2, _s2) = boot(cfg.clone()).await;
    let after = system2.get_stream(&sid).unwrap().get_topic(&tid).unwrap().get_partitions_count();
    eprintln!("partitions after restart: {after}");
    assert_eq!(before, after);
}
