// C10 restart equivalence of a personal access token's validity window. The journal carries the RELATIVE expiry; replay adds
// it to the entry's own timestamp (taken by FileState::apply), the runtime added it to the clock reading taken inside
// System::create_personal_access_token (earlier). This test measures the difference on the real code.
use iggy::personal_access_tokens::create_personal_access_token::CreatePersonalAccessToken;
use iggy::utils::duration::IggyDuration;
use iggy::utils::expiry::IggyExpiry;
use iggy::utils::timestamp::IggyTimestamp;
use rmwit::*;
use server::state::command::EntryCommand;
use server::state::models::CreatePersonalAccessTokenWithHash;
use server::streaming::personal_access_tokens::personal_access_token::PersonalAccessToken;

#[tokio::test]
async fn pat_expiry_before_and_after_restart() {
    let dir = tempfile::TempDir::new().unwrap();
    let cfg = config(dir.path());
    let session = root_session();
    let (mut system, state) = boot(cfg.clone()).await;
    let mut rt = Vec::new();
    for k in 0..5 {
        let name = format!("tok{k}");
        let expiry = IggyExpiry::ExpireDuration(IggyDuration::from(3_600_000_000u64)); // one hour, in micro-seconds
        // the statements of create_personal_access_token_handler::handle, in its order
        let token = system.create_personal_access_token(&session, &name, expiry).await.unwrap();
        let token_hash = PersonalAccessToken::hash_token(&token);
        state.apply(1, EntryCommand::CreatePersonalAccessToken(CreatePersonalAccessTokenWithHash {
            command: CreatePersonalAccessToken { name: name.clone(), expiry },
            hash: token_hash.clone(),
        })).await.unwrap();
        let e = system.get_personal_access_tokens(&session).await.unwrap().iter().find(|t| t.name == name).unwrap().expiry_at.unwrap().as_micros();
        rt.push((name, token_hash, e));
    }
    drop(system);
    let (system2, _s2) = boot(cfg.clone()).await;
    let toks = system2.get_personal_access_tokens(&session).await.unwrap();
    let mut max_delta = 0i128;
    for (name, hash, e_rt) in &rt {
        let t = toks.iter().find(|t| &t.name == name).expect("token restored");
        assert_eq!(&t.token, hash, "C10: digest changed across the restart");
        let e_rp = t.expiry_at.unwrap().as_micros();
        let probe = IggyTimestamp::from(*e_rt); // the first instant at which the RUNTIME token is expired
        let rt_token = PersonalAccessToken::raw(1, name, hash, Some(IggyTimestamp::from(*e_rt)));
        eprintln!("{name}: runtime expiry_at={e_rt}  after restart expiry_at={e_rp}  delta={}us  at T={e_rt}: runtime expired={} restarted expired={}",
                  e_rp as i128 - *e_rt as i128, rt_token.is_expired(probe), t.is_expired(probe));
        let delta = e_rp as i128 - *e_rt as i128;
        // [C10.restart.pat.no-early-death]: the restarted token never expires earlier than the runtime one did
        assert!(delta >= 0, "C10: a token valid at runtime would be expired after the restart");
        max_delta = max_delta.max(delta);
    }
    eprintln!("largest difference of the expiry instant across the restart: {max_delta} micro-seconds (a restart within that window would revive an expired token)");
    // the window in which the two verdicts differ must stay far below the duration of a restart
    assert!(max_delta < 100_000, "C10.restart.pat.window: expiry instants differ by {max_delta} us");
}
