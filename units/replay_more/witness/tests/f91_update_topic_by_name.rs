// F91: System::update_topic addressed by the topic's (old) NAME with a new name. Stream::update_topic renames the topic,
// then System::update_topic looks the topic up again with the SAME identifier (the old name), fails, and returns Err:
// the handler journals nothing and answers with an error, but the running catalogue has changed.
use iggy::compression::compression_algorithm::CompressionAlgorithm;
use iggy::identifier::Identifier;
use iggy::streams::create_stream::CreateStream;
use iggy::topics::create_topic::CreateTopic;
use iggy::topics::update_topic::UpdateTopic;
use iggy::utils::expiry::IggyExpiry;
use iggy::utils::topic_size::MaxTopicSize;
use rmwit::*;
use server::state::command::EntryCommand;
use server::streaming::systems::system::System;

fn topics_of(system: &System, sid: &Identifier) -> Vec<(u32, String)> {
    let mut v: Vec<(u32, String)> = system.get_stream(sid).unwrap().get_topics().iter().map(|t| (t.topic_id, t.name.clone())).collect();
    v.sort();
    v
}

#[tokio::test]
async fn f91_rename_topic_addressed_by_name_then_restart() {
    let dir = tempfile::TempDir::new().unwrap();
    let cfg = config(dir.path());
    let session = root_session();
    let (mut system, state) = boot(cfg.clone()).await;
    system.create_stream(&session, Some(1), "s").await.unwrap();
    state.apply(1, EntryCommand::CreateStream(CreateStream { stream_id: Some(1), name: "s".into() })).await.unwrap();
    let sid = Identifier::numeric(1).unwrap();
    let t = system
        .create_topic(&session, &sid, Some(1), "t1", 1, IggyExpiry::NeverExpire, CompressionAlgorithm::None, MaxTopicSize::Unlimited, None)
        .await
        .unwrap();
    let (exp, max) = (t.message_expiry, t.max_topic_size);
    state.apply(1, EntryCommand::CreateTopic(CreateTopic {
        stream_id: sid.clone(), topic_id: Some(1), partitions_count: 1, compression_algorithm: CompressionAlgorithm::None,
        message_expiry: exp, max_topic_size: max, replication_factor: None, name: "t1".into(),
    })).await.unwrap();
    let acknowledged = topics_of(&system, &sid);

    // exactly what update_topic_handler::handle does: journal only if System::update_topic returned Ok
    let by_name = Identifier::named("t1").unwrap();
    let mut command = UpdateTopic {
        stream_id: sid.clone(), topic_id: by_name.clone(), compression_algorithm: CompressionAlgorithm::None,
        message_expiry: IggyExpiry::NeverExpire, max_topic_size: MaxTopicSize::Unlimited, replication_factor: None, name: "t2".into(),
    };
    let r = system
        .update_topic(&session, &command.stream_id, &command.topic_id, &command.name, command.message_expiry,
                      command.compression_algorithm, command.max_topic_size, command.replication_factor)
        .await
        .map(|t| (t.message_expiry, t.max_topic_size));
    eprintln!("System::update_topic(named(\"t1\") -> \"t2\") returned {r:?}");
    let refused = r.is_err();
    if let Ok((e, m)) = r {
        command.message_expiry = e;
        command.max_topic_size = m;
        state.apply(1, EntryCommand::UpdateTopic(command)).await.unwrap();
    }
    let before = topics_of(&system, &sid);
    drop(system);
    let (system2, _s2) = boot(cfg.clone()).await;
    let after = topics_of(&system2, &sid);
    eprintln!("acknowledged catalogue:          {acknowledged:?}\nrunning catalogue before stop:   {before:?}\ncatalogue after restart:         {after:?}");
    if refused {
        assert_eq!(acknowledged, before, "C05/C06: a REFUSED update_topic changed the running catalogue");
    }
    assert_eq!(before, after, "C05: catalogue after restart differs from the one the server was running with");
}
