// ---- lemmas: C05 simulation for the remaining replay arms, C10 restart equivalence — spec level, re-proved on every run ----
// The STATEMENT's catalogue: what a client can observe (ids, names, settings, partition sets, users, permissions, tokens).
// `abs_*` reads it off the replayed state. The runtime side of every step is written over the same catalogue, and is what
// the cited clause (proved in another unit against the real runtime function) says the acknowledged command did.
// Replay side of every step: the arm's own postcondition (`rp_*_post`, the ONE text of prelude.rs proved in contracts.vspec).

pub struct CTopic {
    pub name: Name, pub compression: CompressionAlgorithm, pub expiry: IggyExpiry, pub max_size: MaxTopicSize, pub repl: Option<u8>,
    pub parts: Set<u32>, pub groups: Map<u32, Name>,
}
pub struct CStream { pub name: Name, pub topics: Map<u32, CTopic> }

pub open spec fn abs_topic(t: TopicState) -> CTopic {
    CTopic { name: t.name, compression: t.compression_algorithm, expiry: t.message_expiry, max_size: t.max_topic_size, repl: t.replication_factor,
             parts: t.partitions@.dom(), groups: Map::new(t.consumer_groups@.dom(), |g: u32| t.consumer_groups@[g].name) }
}
pub open spec fn abs_stream(s: StreamState) -> CStream {
    CStream { name: s.name, topics: Map::new(s.topics@.dom(), |t: u32| abs_topic(s.topics@[t])) }
}
pub open spec fn abs_streams(rp: Map<u32, StreamState>) -> Map<u32, CStream> {
    Map::new(rp.dom(), |k: u32| abs_stream(rp[k]))
}
// representation invariant of the replayed stream table: an entry sits under its own id (CreateStream/CreateTopic arms:
// [C05.rp.stream.entity], [C05.rp.topic] of unit alloc_replay; kept by every arm of this unit, see *_wf below)
pub open spec fn rp_streams_wf(rp: Map<u32, StreamState>) -> bool {
    &&& forall|k: u32| #[trigger] rp.contains_key(k) ==> rp[k].id == k
    &&& forall|k: u32, t: u32| #[trigger] rp.contains_key(k) && #[trigger] rp[k].topics@.contains_key(t) ==> rp[k].topics@[t].id == t
}
// C06: names identify streams / topics of a stream ([C06.unique.*], [C06.bij.*] of unit catalogue_maps)
pub open spec fn c_names_unique(c: Map<u32, CStream>) -> bool {
    &&& forall|a: u32, b: u32| #[trigger] c.contains_key(a) && #[trigger] c.contains_key(b) && c[a].name == c[b].name ==> a == b
    &&& forall|k: u32, a: u32, b: u32| c.contains_key(k) && #[trigger] c[k].topics.contains_key(a) && #[trigger] c[k].topics.contains_key(b)
            && c[k].topics[a].name == c[k].topics[b].name ==> a == b
}
// what an Identifier denotes at RUNTIME (stream_of / topic_of of units catalogue_maps, alloc_runtime: a number must exist, a
// name goes through the name index, which under [C06.bij.*] holds exactly the current names)
pub open spec fn c_stream_is(c: Map<u32, CStream>, ident: &Identifier, sid: u32) -> bool {
    c.contains_key(sid) && (if ident.kind == IdKind::Numeric { ident.length == 4 && sid == ident.num() } else { c[sid].name == ident.text() })
}
pub open spec fn c_topic_is(c: Map<u32, CStream>, sid: u32, ident: &Identifier, tid: u32) -> bool {
    c.contains_key(sid) && c[sid].topics.contains_key(tid)
        && (if ident.kind == IdKind::Numeric { ident.length == 4 && tid == ident.num() } else { c[sid].topics[tid].name == ident.text() })
}
// the id set {1, .., n}
pub open spec fn is_upto(s: Set<u32>, n: int) -> bool { forall|i: u32| s.contains(i) <==> 1 <= i <= n }

// label: C05.sim.lookup.stream
// Replay resolves a stream identifier to the SAME stream as the runtime did when it acknowledged the command: numbers denote
// themselves; a name is looked up among the CURRENT names on both sides (after a rename: the new name finds the stream, the
// old name does not — unless another stream has taken it, and then both sides find that one).
pub proof fn c05_sim_lookup_stream(rp: Map<u32, StreamState>, ident: &Identifier, sid: u32, r: u32)
    requires rp_streams_wf(rp), c_names_unique(abs_streams(rp)), c_stream_is(abs_streams(rp), ident, sid), rp_stream_denotes(rp, ident, r),
    ensures r == sid,
{
    if ident.kind != IdKind::Numeric {
        let k = choose|k: u32| #[trigger] rp.contains_key(k) && rp[k].name == ident.text() && rp[k].id == r;
        assert(abs_streams(rp).contains_key(k) && abs_streams(rp).contains_key(sid));
        assert(abs_streams(rp)[k].name == abs_streams(rp)[sid].name);
    }
}
// label: C05.sim.lookup.topic
pub proof fn c05_sim_lookup_topic(rp: Map<u32, StreamState>, sid: u32, ident: &Identifier, tid: u32, r: u32)
    requires rp_streams_wf(rp), c_names_unique(abs_streams(rp)), c_topic_is(abs_streams(rp), sid, ident, tid),
        rp.contains_key(sid), rp_topic_denotes(rp[sid].topics@, ident, r),
    ensures r == tid,
{
    if ident.kind != IdKind::Numeric {
        let k = choose|k: u32| #[trigger] rp[sid].topics@.contains_key(k) && rp[sid].topics@[k].name == ident.text() && rp[sid].topics@[k].id == r;
        let c = abs_streams(rp);
        assert(c.contains_key(sid) && c[sid].topics.contains_key(k) && c[sid].topics.contains_key(tid));
        assert(c[sid].topics[k].name == c[sid].topics[tid].name);
    }
}

// ---- streams ---------------------------------------------------------------------------------------------------------
// runtime: [C06.update.stream] stream_cat(final) == stream_cat(old).insert(sid, name), [C06.update.stream.maps] the record is
// `Stream { name, ..old }` and every other stream is untouched (System::update_stream, unit catalogue_maps)
// LINKED: units/catalogue_maps/lemmas.rs, composition harness [C05.link.replay_more.rt_update_stream] proves that the real System::update_stream
// does exactly this to the catalogue read off the running system (mirror edits of CTopic / CStream / rt_update_stream there)
pub open spec fn rt_update_stream(c: Map<u32, CStream>, sid: u32, name: Name) -> Map<u32, CStream> {
    c.insert(sid, CStream { name: name, ..c[sid] })
}
// label: C05.sim.update_stream
pub proof fn c05_sim_update_stream(rp0: Map<u32, StreamState>, rp1: Map<u32, StreamState>, ident: &Identifier, name: Name, sid: u32)
    requires rp_streams_wf(rp0), c_names_unique(abs_streams(rp0)), c_stream_is(abs_streams(rp0), ident, sid),
        rp_update_stream_post(rp0, ident, name, rp1),
    ensures abs_streams(rp1) =~= rt_update_stream(abs_streams(rp0), sid, name), rp_streams_wf(rp1),
{
    let r = choose|r: u32| rp_stream_denotes(rp0, ident, r) && rp0.contains_key(r) && rp1 =~= rp0.insert(r, StreamState { name: name, ..rp0[r] });
    c05_sim_lookup_stream(rp0, ident, sid, r);
    assert(abs_stream(rp1[sid]).topics =~= abs_stream(rp0[sid]).topics);
    assert forall|k: u32| abs_streams(rp1).contains_key(k) implies #[trigger] abs_streams(rp1)[k] == rt_update_stream(abs_streams(rp0), sid, name)[k] by {}
}
// label: C05.sim.rename_then_address
// the hint of the property: UpdateStream(old -> new), then a command addressing the stream by name. Under the NEW name both
// sides find the renamed stream; under the OLD name the runtime finds it no more (and refuses: nothing is journalled) —
// replay, had it such an entry, would not find it either.
pub proof fn c05_sim_rename_then_address(rp0: Map<u32, StreamState>, rp1: Map<u32, StreamState>, ident: &Identifier, new: Name, sid: u32, later: &Identifier, r: u32)
    requires rp_streams_wf(rp0), c_names_unique(abs_streams(rp0)), c_stream_is(abs_streams(rp0), ident, sid),
        rp_update_stream_post(rp0, ident, new, rp1), c_names_unique(abs_streams(rp1)),
        later.kind != IdKind::Numeric, rp_stream_denotes(rp1, later, r),
    ensures
        later.text() == new ==> r == sid,
        (later.text() == abs_streams(rp0)[sid].name && new != abs_streams(rp0)[sid].name) ==> r != sid,
{
    c05_sim_update_stream(rp0, rp1, ident, new, sid);
    let k = choose|k: u32| #[trigger] rp1.contains_key(k) && rp1[k].name == later.text() && rp1[k].id == r;
    assert(abs_streams(rp1).contains_key(k) && abs_streams(rp1).contains_key(sid));
    assert(abs_streams(rp1)[sid].name == new);
    if later.text() == new { assert(abs_streams(rp1)[k].name == abs_streams(rp1)[sid].name); }
}
// label: C05.sim.purge
// PurgeStream / PurgeTopic: the catalogue does not change at runtime (System::purge_stream / purge_topic touch segments only)
// and replay leaves the state alone ([C05.rp.purge_stream], [C05.rp.purge_topic])
pub proof fn c05_sim_purge(rp0: Map<u32, StreamState>, rp1: Map<u32, StreamState>)
    requires rp1 =~= rp0,
    ensures abs_streams(rp1) =~= abs_streams(rp0),
{
}

// ---- topics ----------------------------------------------------------------------------------------------------------
// runtime: [C06.update.topic(.maps)] (Stream::update_topic, unit catalogue_maps): name, message_expiry, compression_algorithm,
// max_topic_size, replication_factor of topic tid are set, consumer groups / partitions / other topics untouched;
// [C05.journal.update_topic] (unit runtime_more): the journalled command carries the name and the settings as the runtime
// stored them (expiry and size limit resolved against the configuration)
// (link pass 2: compression_algorithm, replication_factor and the partition key set were cited but stated by no clause; now
//  [C06.shape.update_topic.settings] (catalogue_maps), [C05.shape.rt.update_topic.settings] / [C05.journal.update_topic.settings] (runtime_more).
//  NOT linked by a harness: the runtime record keeps `replication_factor: u8` (`None` is stored as 1, systems/topics.rs:197) while `repl` here is
//  the journalled Option<u8> — the catalogue cannot be read off the running system without changing CTopic.repl to `unwrap_or(1)`.)
pub open spec fn rt_update_topic(c: Map<u32, CStream>, sid: u32, tid: u32, j: UpdateTopic) -> Map<u32, CStream> {
    c.insert(sid, CStream { topics: c[sid].topics.insert(tid, CTopic { name: j.name, compression: j.compression_algorithm, expiry: j.message_expiry,
        max_size: j.max_topic_size, repl: j.replication_factor, ..c[sid].topics[tid] }), ..c[sid] })
}
// label: C05.sim.update_topic
pub proof fn c05_sim_update_topic(rp0: Map<u32, StreamState>, rp1: Map<u32, StreamState>, j: UpdateTopic, sid: u32, tid: u32)
    requires rp_streams_wf(rp0), c_names_unique(abs_streams(rp0)), c_stream_is(abs_streams(rp0), &j.stream_id, sid),
        c_topic_is(abs_streams(rp0), sid, &j.topic_id, tid), rp_update_topic_post(rp0, j, rp1),
    ensures abs_streams(rp1) =~= rt_update_topic(abs_streams(rp0), sid, tid, j), rp_streams_wf(rp1),
{
    let (s, t) = choose|s: u32, t: u32| rp_topic_at(rp0, &j.stream_id, &j.topic_id, s, t)
        && only_topic_changed(rp0, rp1, s, t, TopicState { name: j.name, compression_algorithm: j.compression_algorithm,
              message_expiry: j.message_expiry, max_topic_size: j.max_topic_size, replication_factor: j.replication_factor, ..rp0[s].topics@[t] });
    c05_sim_lookup_stream(rp0, &j.stream_id, sid, s);
    c05_sim_lookup_topic(rp0, sid, &j.topic_id, tid, t);
    let c0 = abs_streams(rp0);
    let want = rt_update_topic(c0, sid, tid, j);
    assert(abs_topic(rp1[sid].topics@[tid]).groups =~= abs_topic(rp0[sid].topics@[tid]).groups);
    assert(abs_stream(rp1[sid]).topics =~= want[sid].topics) by {
        assert forall|x: u32| abs_stream(rp1[sid]).topics.contains_key(x) implies #[trigger] abs_stream(rp1[sid]).topics[x] == want[sid].topics[x] by {}
    }
    assert forall|k: u32| abs_streams(rp1).contains_key(k) implies #[trigger] abs_streams(rp1)[k] == want[k] by {}
}

// ---- partitions ------------------------------------------------------------------------------------------------------
// runtime create: [C06.partitions.add] (Topic::add_partitions, unit catalogue_maps): ids old.len()+1 ..= old.len()+count are
// added, the table stays 1..=n; delete: [C06.partitions.delete] (Topic::delete_persisted_partitions, unit catalogue_more, being built by another author):
// count is clamped to n, ids n-count+1 ..= n are removed
// the partition id set of topic tid becomes {1..=n}; nothing else in the catalogue moves
pub open spec fn rt_set_parts(c0: Map<u32, CStream>, c1: Map<u32, CStream>, sid: u32, tid: u32, n: int) -> bool {
    c1 =~= c0.insert(sid, CStream { topics: c0[sid].topics.insert(tid, CTopic { parts: c1[sid].topics[tid].parts, ..c0[sid].topics[tid] }), ..c0[sid] })
        && is_upto(c1[sid].topics[tid].parts, n)
}
pub proof fn lemma_upto_inj(s: Set<u32>, a: int, b: int)
    requires 0 <= a <= u32::MAX, 0 <= b <= u32::MAX, is_upto(s, a), is_upto(s, b),
    ensures a == b,
{
    if a < b { assert(s.contains(b as u32)); }
    if b < a { assert(s.contains(a as u32)); }
}
pub proof fn lemma_set_parts(rp0: Map<u32, StreamState>, rp1: Map<u32, StreamState>, sid: u32, tid: u32, m: int)
    requires rp_streams_wf(rp0), rp0.contains_key(sid), rp0[sid].topics@.contains_key(tid),
        only_topic_changed(rp0, rp1, sid, tid, TopicState { partitions: rp1[sid].topics@[tid].partitions, ..rp0[sid].topics@[tid] }),
        parts_dense(rp1[sid].topics@[tid].partitions@, m),
    ensures rt_set_parts(abs_streams(rp0), abs_streams(rp1), sid, tid, m), rp_streams_wf(rp1),
{
    let c0 = abs_streams(rp0); let c1 = abs_streams(rp1);
    let want = c0.insert(sid, CStream { topics: c0[sid].topics.insert(tid, CTopic { parts: c1[sid].topics[tid].parts, ..c0[sid].topics[tid] }), ..c0[sid] });
    assert(abs_topic(rp1[sid].topics@[tid]).groups =~= abs_topic(rp0[sid].topics@[tid]).groups);
    assert(abs_stream(rp1[sid]).topics =~= want[sid].topics) by {
        assert forall|x: u32| abs_stream(rp1[sid]).topics.contains_key(x) implies #[trigger] abs_stream(rp1[sid]).topics[x] == want[sid].topics[x] by {}
    }
    assert forall|k: u32| c1.contains_key(k) implies #[trigger] c1[k] == want[k] by {}
}
// label: C05.sim.create_partitions
pub proof fn c05_sim_create_partitions(rp0: Map<u32, StreamState>, rp1: Map<u32, StreamState>, sident: &Identifier, tident: &Identifier, k: u32, sid: u32, tid: u32, n: int)
    requires rp_streams_wf(rp0), c_names_unique(abs_streams(rp0)), c_stream_is(abs_streams(rp0), sident, sid), c_topic_is(abs_streams(rp0), sid, tident, tid),
        0 <= n <= u32::MAX, is_upto(abs_streams(rp0)[sid].topics[tid].parts, n),          // the runtime table is 1..=n (parts_wf, [C06.partitions.add])
        rp_create_partitions_post(rp0, sident, tident, k, rp1),
    ensures rt_set_parts(abs_streams(rp0), abs_streams(rp1), sid, tid, n + k), rp_streams_wf(rp1),
{
    let (s, t, m) = choose|s: u32, t: u32, m: int| rp_topic_at(rp0, sident, tident, s, t) && parts_dense(rp0[s].topics@[t].partitions@, m)
        && only_topic_changed(rp0, rp1, s, t, TopicState { partitions: rp1[s].topics@[t].partitions, ..rp0[s].topics@[t] })
        && parts_dense(rp1[s].topics@[t].partitions@, m + k)
        && (forall|i: u32| #[trigger] rp0[s].topics@[t].partitions@.contains_key(i) ==> rp1[s].topics@[t].partitions@[i] == rp0[s].topics@[t].partitions@[i]);
    c05_sim_lookup_stream(rp0, sident, sid, s);
    c05_sim_lookup_topic(rp0, sid, tident, tid, t);
    lemma_upto_inj(rp0[sid].topics@[tid].partitions@.dom(), m, n);
    lemma_set_parts(rp0, rp1, sid, tid, m + k);
}
// label: C05.sim.delete_partitions
pub proof fn c05_sim_delete_partitions(rp0: Map<u32, StreamState>, rp1: Map<u32, StreamState>, sident: &Identifier, tident: &Identifier, k: u32, sid: u32, tid: u32, n: int)
    requires rp_streams_wf(rp0), c_names_unique(abs_streams(rp0)), c_stream_is(abs_streams(rp0), sident, sid), c_topic_is(abs_streams(rp0), sid, tident, tid),
        0 <= n <= u32::MAX, is_upto(abs_streams(rp0)[sid].topics[tid].parts, n),
        rp_delete_partitions_post(rp0, sident, tident, k, rp1),
    // the runtime removed min(k, n) partitions from the high end ([C06.partitions.delete], unit catalogue_more)
    ensures rt_set_parts(abs_streams(rp0), abs_streams(rp1), sid, tid, n - (if k <= n { k as int } else { n })), rp_streams_wf(rp1),
{
    let (s, t, m) = choose|s: u32, t: u32, m: int| rp_topic_at(rp0, sident, tident, s, t) && parts_dense(rp0[s].topics@[t].partitions@, m)
        && only_topic_changed(rp0, rp1, s, t, TopicState { partitions: rp1[s].topics@[t].partitions, ..rp0[s].topics@[t] })
        && parts_dense(rp1[s].topics@[t].partitions@, m - (if k <= m { k as int } else { m }))
        && (forall|i: u32| #[trigger] rp1[s].topics@[t].partitions@.contains_key(i) ==> rp1[s].topics@[t].partitions@[i] == rp0[s].topics@[t].partitions@[i]);
    c05_sim_lookup_stream(rp0, sident, sid, s);
    c05_sim_lookup_topic(rp0, sid, tident, tid, t);
    lemma_upto_inj(rp0[sid].topics@[tid].partitions@.dom(), m, n);
    lemma_set_parts(rp0, rp1, sid, tid, m - (if k <= m { k as int } else { m }));
}

// ---- users (C05 "users, permissions and tokens"; C10 "the same credentials behave identically after a restart") ---------------
pub struct CTok { pub digest: Name, pub expiry_at: Option<IggyTimestamp> }
pub struct CUser { pub username: Name, pub password: Name, pub status: UserStatus, pub permissions: Option<Permissions>, pub tokens: Map<Name, CTok> }
pub open spec fn abs_user(u: UserState) -> CUser {
    CUser { username: u.username, password: u.password_hash, status: u.status, permissions: u.permissions,
            tokens: Map::new(u.personal_access_tokens@.dom(),
                             |n: Name| CTok { digest: u.personal_access_tokens@[n].token_hash, expiry_at: u.personal_access_tokens@[n].expiry_at }) }
}
pub open spec fn abs_users(rp: Map<u32, UserState>) -> Map<u32, CUser> {
    Map::new(rp.dom(), |k: u32| abs_user(rp[k]))
}
pub open spec fn rp_users_wf(rp: Map<u32, UserState>) -> bool { forall|k: u32| #[trigger] rp.contains_key(k) ==> rp[k].id == k }
pub open spec fn c_usernames_unique(c: Map<u32, CUser>) -> bool {
    forall|a: u32, b: u32| #[trigger] c.contains_key(a) && #[trigger] c.contains_key(b) && c[a].username == c[b].username ==> a == b
}
// `resolves` of unit credentials / `user_of` of unit catalogue_more: a number must exist, a name is looked up among the usernames
pub open spec fn c_user_is(c: Map<u32, CUser>, ident: &Identifier, uid: u32) -> bool {
    c.contains_key(uid) && (if ident.kind == IdKind::Numeric { ident.length == 4 && uid == ident.num() } else { c[uid].username == ident.text() })
}
// the token table as a credential check sees it: is there a record with digest h that is not expired at instant t?
pub open spec fn tok_valid(toks: Map<Name, CTok>, h: Name, t: IggyTimestamp) -> bool {
    exists|n: Name| #[trigger] toks.contains_key(n) && toks[n].digest == h && !expired_at(toks[n].expiry_at, t)
}
// "the journalled token set minus the expired ones" at replay clock `now`: every journalled token that is still good is
// restored with its digest and expiry; whatever else the restored table holds is expired (and so refused by every login)
pub open spec fn toks_restored(j: Map<Name, CTok>, r: Map<Name, CTok>, now: IggyTimestamp) -> bool {
    &&& forall|n: Name| #[trigger] r.contains_key(n) ==> (j.contains_key(n) && r[n] == j[n]) || expired_at(r[n].expiry_at, now)
    &&& forall|n: Name| #[trigger] j.contains_key(n) && !expired_at(j[n].expiry_at, now) ==> r.contains_key(n) && r[n] == j[n]
}
// the relation a restart must establish between the acknowledged users `a` (runtime view; token tables = what was journalled
// and not deleted) and the replayed ones `r`: same ids, names, status, permissions; the stored hash verifies the same
// password (the journalled hash is a re-salted hash of the same password, [C10.journal.create_user/change_password] +
// lemma C10.journal.same-credential of unit credentials); tokens = journalled minus expired, same digests and expiry
pub open spec fn users_rel(a: Map<u32, CUser>, r: Map<u32, CUser>, now: IggyTimestamp) -> bool {
    &&& forall|k: u32| a.contains_key(k) <==> #[trigger] r.contains_key(k)
    &&& forall|k: u32| #[trigger] a.contains_key(k) ==> a[k].username == r[k].username && a[k].status == r[k].status && a[k].permissions == r[k].permissions
            && pw_of(a[k].password) == pw_of(r[k].password) && toks_restored(a[k].tokens, r[k].tokens, now)
}
pub proof fn c05_sim_lookup_user(rp: Map<u32, UserState>, a: Map<u32, CUser>, now: IggyTimestamp, ident: &Identifier, uid: u32, r: u32)
    requires rp_users_wf(rp), users_rel(a, abs_users(rp), now), c_usernames_unique(a), c_user_is(a, ident, uid), rp_user_denotes(rp, ident, r),
    ensures r == uid,
{
    if ident.kind != IdKind::Numeric {
        let k = choose|k: u32| #[trigger] rp.contains_key(k) && rp[k].username == ident.text() && rp[k].id == r;
        assert(abs_users(rp).contains_key(k) && abs_users(rp).contains_key(uid));
        assert(a.contains_key(k));
        assert(a[k].username == a[uid].username);
    }
}
// runtime: [C06.users.update] (System::update_user, unit catalogue_more) `updated_user(old, username, status)`; also
// [C10.shape.update_user.credentials] (unit credentials): id, password and tokens untouched
// LINKED: units/catalogue_more/lemmas.rs, composition harness [C06.link.replay_more.rt_update_user] proves that the real System::update_user
// does exactly this to the user catalogue read off the running system (mirror edits of CTok / CUser / rt_update_user there)
pub open spec fn rt_update_user(a: Map<u32, CUser>, uid: u32, username: Option<Name>, status: Option<UserStatus>) -> Map<u32, CUser> {
    a.insert(uid, CUser { username: (if username is Some { username->0 } else { a[uid].username }), status: (if status is Some { status->0 } else { a[uid].status }), ..a[uid] })
}
// label: C05.sim.update_user
pub proof fn c05_sim_update_user(rp0: Map<u32, UserState>, rp1: Map<u32, UserState>, a: Map<u32, CUser>, now: IggyTimestamp, ident: &Identifier,
        username: Option<Name>, status: Option<UserStatus>, uid: u32)
    requires rp_users_wf(rp0), users_rel(a, abs_users(rp0), now), c_usernames_unique(a), c_user_is(a, ident, uid),
        rp_update_user_post(rp0, ident, username, status, rp1),
    ensures users_rel(rt_update_user(a, uid, username, status), abs_users(rp1), now), rp_users_wf(rp1),
{
    let r = choose|r: u32| rp_user_denotes(rp0, ident, r) && rp0.contains_key(r) && rp1 =~= rp0.insert(r, UserState {
              username: (if username is Some { username->0 } else { rp0[r].username }), status: (if status is Some { status->0 } else { rp0[r].status }), ..rp0[r] });
    c05_sim_lookup_user(rp0, a, now, ident, uid, r);
    let a1 = rt_update_user(a, uid, username, status);
    assert(abs_user(rp1[uid]).tokens =~= abs_user(rp0[uid]).tokens);
    assert forall|k: u32| #[trigger] a1.contains_key(k) implies a1[k].username == abs_users(rp1)[k].username && a1[k].status == abs_users(rp1)[k].status
        && a1[k].permissions == abs_users(rp1)[k].permissions && pw_of(a1[k].password) == pw_of(abs_users(rp1)[k].password)
        && toks_restored(a1[k].tokens, abs_users(rp1)[k].tokens, now) by {
        assert(abs_users(rp0).contains_key(k));
        if k != uid { assert(abs_users(rp1)[k] == abs_users(rp0)[k]); }
    }
}
// runtime: [C05.rt.update_permissions] (System::update_permissions, unit users_restart): the user's permissions are the commanded ones
pub open spec fn rt_update_permissions(a: Map<u32, CUser>, uid: u32, p: Option<Permissions>) -> Map<u32, CUser> {
    a.insert(uid, CUser { permissions: p, ..a[uid] })
}
// label: C05.sim.update_permissions
pub proof fn c05_sim_update_permissions(rp0: Map<u32, UserState>, rp1: Map<u32, UserState>, a: Map<u32, CUser>, now: IggyTimestamp, ident: &Identifier,
        p: Option<Permissions>, uid: u32)
    requires rp_users_wf(rp0), users_rel(a, abs_users(rp0), now), c_usernames_unique(a), c_user_is(a, ident, uid),
        rp_update_permissions_post(rp0, ident, p, rp1),
    ensures users_rel(rt_update_permissions(a, uid, p), abs_users(rp1), now), rp_users_wf(rp1),
{
    let r = choose|r: u32| rp_user_denotes(rp0, ident, r) && rp0.contains_key(r) && rp1 =~= rp0.insert(r, UserState { permissions: p, ..rp0[r] });
    c05_sim_lookup_user(rp0, a, now, ident, uid, r);
    let a1 = rt_update_permissions(a, uid, p);
    assert(abs_user(rp1[uid]).tokens =~= abs_user(rp0[uid]).tokens);
    assert forall|k: u32| #[trigger] a1.contains_key(k) implies a1[k].username == abs_users(rp1)[k].username && a1[k].status == abs_users(rp1)[k].status
        && a1[k].permissions == abs_users(rp1)[k].permissions && pw_of(a1[k].password) == pw_of(abs_users(rp1)[k].password)
        && toks_restored(a1[k].tokens, abs_users(rp1)[k].tokens, now) by {
        assert(abs_users(rp0).contains_key(k));
        if k != uid { assert(abs_users(rp1)[k] == abs_users(rp0)[k]); }
    }
}
// runtime: [C10.chpw.new] (System::change_password, unit credentials): the stored hash h_rt has pw_of(h_rt) == Some(new);
// journal: [C10.journal.change_password]: the entry carries h_j with pw_of(h_j) == Some(new) (another salt)
pub open spec fn rt_change_password(a: Map<u32, CUser>, uid: u32, h_rt: Name) -> Map<u32, CUser> {
    a.insert(uid, CUser { password: h_rt, ..a[uid] })
}
// label: C10.restart.hash
pub proof fn c10_restart_hash(rp0: Map<u32, UserState>, rp1: Map<u32, UserState>, a: Map<u32, CUser>, now: IggyTimestamp, ident: &Identifier,
        new: Name, h_rt: Name, h_j: Name, uid: u32)
    requires rp_users_wf(rp0), users_rel(a, abs_users(rp0), now), c_usernames_unique(a), c_user_is(a, ident, uid),
        pw_of(h_rt) == Some(new), pw_of(h_j) == Some(new),
        rp_change_password_post(rp0, ident, h_j, rp1),
    ensures users_rel(rt_change_password(a, uid, h_rt), abs_users(rp1), now), rp_users_wf(rp1),
        // the same candidate passwords verify before and after the restart
        forall|cand: Name| (pw_of(rt_change_password(a, uid, h_rt)[uid].password) == Some(cand)) <==> (pw_of(#[trigger] abs_users(rp1)[uid].password) == Some(cand)),
{
    let r = choose|r: u32| rp_user_denotes(rp0, ident, r) && rp0.contains_key(r) && rp1 =~= rp0.insert(r, UserState { password_hash: h_j, ..rp0[r] });
    c05_sim_lookup_user(rp0, a, now, ident, uid, r);
    let a1 = rt_change_password(a, uid, h_rt);
    assert(abs_user(rp1[uid]).tokens =~= abs_user(rp0[uid]).tokens);
    assert forall|k: u32| #[trigger] a1.contains_key(k) implies a1[k].username == abs_users(rp1)[k].username && a1[k].status == abs_users(rp1)[k].status
        && a1[k].permissions == abs_users(rp1)[k].permissions && pw_of(a1[k].password) == pw_of(abs_users(rp1)[k].password)
        && toks_restored(a1[k].tokens, abs_users(rp1)[k].tokens, now) by {
        assert(abs_users(rp0).contains_key(k));
        if k != uid { assert(abs_users(rp1)[k] == abs_users(rp0)[k]); }
    }
}

// ---- tokens ------------------------------------------------------------------------------------------------------------
// runtime create: [C10.pat.create] (System::create_personal_access_token, unit credentials): a record with digest H(raw), the
// session user as owner and expiry_at == expiry_of(t_create, expiry), names unique per user; journal: [C10.journal.create_pat]:
// the entry carries name, the RELATIVE expiry and the digest of a stored record; the entry's timestamp t_apply is read by
// FileState::apply AFTER t_create (same task, no await in between): t_apply = t_create + delta, delta >= 0.
pub open spec fn rt_create_pat(a: Map<u32, CUser>, uid: u32, name: Name, h: Name, e: Option<IggyTimestamp>) -> Map<u32, CUser> {
    a.insert(uid, CUser { tokens: a[uid].tokens.insert(name, CTok { digest: h, expiry_at: e }), ..a[uid] })
}
pub open spec fn rt_delete_pat(a: Map<u32, CUser>, uid: u32, name: Name) -> Map<u32, CUser> {
    a.insert(uid, CUser { tokens: a[uid].tokens.remove(name), ..a[uid] })
}
// label: C10.restart.pat
// [H-delta0] hypothesis t_apply == t_create (the entry timestamp IS the instant the runtime computed the expiry from): then
// the restored table is the journalled one minus the tokens expired at replay time, same digests, same expiry.
pub proof fn c10_restart_pat_create(rp0: Map<u32, UserState>, rp1: Map<u32, UserState>, a: Map<u32, CUser>, now0: IggyTimestamp, now1: IggyTimestamp,
        uid: u32, name: Name, h: Name, expiry: IggyExpiry, t_create: IggyTimestamp, t_apply: IggyTimestamp)
    requires rp_users_wf(rp0), users_rel(a, abs_users(rp0), now0), a.contains_key(uid), now0.0 <= now1.0,
        t_apply == t_create,
        // the runtime accepts a token name only if no stored token has it (PersonalAccessTokenAlreadyExists otherwise); a
        // journalled token of that name that is not stored any more was removed by the cleaner, as expired
        a[uid].tokens.contains_key(name) ==> expired_at(a[uid].tokens[name].expiry_at, now0),
        rp_create_pat_post(rp0, uid, name, h, expiry, t_apply, now1, rp1),
    ensures users_rel(rt_create_pat(a, uid, name, h, expiry_of(t_create, expiry)), abs_users(rp1), now1), rp_users_wf(rp1),
{
    let a1 = rt_create_pat(a, uid, name, h, expiry_of(t_create, expiry));
    let e = expiry_of(t_apply, expiry);
    assert forall|k: u32| #[trigger] a1.contains_key(k) implies a1[k].username == abs_users(rp1)[k].username && a1[k].status == abs_users(rp1)[k].status
        && a1[k].permissions == abs_users(rp1)[k].permissions && pw_of(a1[k].password) == pw_of(abs_users(rp1)[k].password)
        && toks_restored(a1[k].tokens, abs_users(rp1)[k].tokens, now1) by {
        assert(abs_users(rp0).contains_key(k));
        lemma_toks_later(a[k].tokens, abs_users(rp0)[k].tokens, now0, now1);
        if k != uid { assert(abs_users(rp1)[k] == abs_users(rp0)[k]); }
        else {
            let t0 = abs_users(rp0)[k].tokens; let t1 = abs_users(rp1)[k].tokens;
            if expired_at(e, now1) { assert(t1 =~= t0); }
            else { assert(t1 =~= t0.insert(name, CTok { digest: h, expiry_at: e })); }
        }
    }
}
pub proof fn lemma_toks_later(j: Map<Name, CTok>, r: Map<Name, CTok>, now0: IggyTimestamp, now1: IggyTimestamp)
    requires toks_restored(j, r, now0), now0.0 <= now1.0,
    ensures toks_restored(j, r, now1),
{
}
// label: C10.restart.pat.delete
pub proof fn c10_restart_pat_delete(rp0: Map<u32, UserState>, rp1: Map<u32, UserState>, a: Map<u32, CUser>, now: IggyTimestamp, uid: u32, name: Name)
    requires rp_users_wf(rp0), users_rel(a, abs_users(rp0), now), a.contains_key(uid),
        rp_delete_pat_post(rp0, uid, name, rp1),
    ensures users_rel(rt_delete_pat(a, uid, name), abs_users(rp1), now), rp_users_wf(rp1),
{
    let a1 = rt_delete_pat(a, uid, name);
    assert forall|k: u32| #[trigger] a1.contains_key(k) implies a1[k].username == abs_users(rp1)[k].username && a1[k].status == abs_users(rp1)[k].status
        && a1[k].permissions == abs_users(rp1)[k].permissions && pw_of(a1[k].password) == pw_of(abs_users(rp1)[k].password)
        && toks_restored(a1[k].tokens, abs_users(rp1)[k].tokens, now) by {
        assert(abs_users(rp0).contains_key(k));
        if k != uid { assert(abs_users(rp1)[k] == abs_users(rp0)[k]); }
        else { assert(abs_users(rp1)[k].tokens =~= abs_users(rp0)[k].tokens.remove(name)); }
    }
}
// label: C10.restart.pat.valid
// what users_rel means for a login: from the restart on (t >= replay clock), a digest is accepted by the restarted server
// exactly if the journalled table holds an unexpired record for it — expired tokens that were not restored make no difference
pub proof fn c10_restart_pat_valid(j: Map<Name, CTok>, r: Map<Name, CTok>, now: IggyTimestamp, h: Name, t: IggyTimestamp)
    requires toks_restored(j, r, now), now.0 <= t.0,
    ensures tok_valid(j, h, t) <==> tok_valid(r, h, t),
{
    if tok_valid(j, h, t) {
        let n = choose|n: Name| #[trigger] j.contains_key(n) && j[n].digest == h && !expired_at(j[n].expiry_at, t);
        assert(!expired_at(j[n].expiry_at, now));
        assert(r.contains_key(n));
    }
    if tok_valid(r, h, t) {
        let n = choose|n: Name| #[trigger] r.contains_key(n) && r[n].digest == h && !expired_at(r[n].expiry_at, t);
        assert(!expired_at(r[n].expiry_at, now));
        assert(j.contains_key(n) && j[n] == r[n]);
    }
}
// ---- the expiry instant across a restart, WITHOUT [H-delta0] -----------------------------------------------------------------
// runtime: e_rt = t_create + d; replay: e_rp = t_apply + d with t_apply = t_create + delta (measured on the real server:
// delta = 9..45 micro-seconds, see report). The two verdicts differ exactly on the instants [e_rt, e_rt + delta).
// label: C10.restart.pat.window
pub proof fn c10_restart_pat_window(t_create: IggyTimestamp, t_apply: IggyTimestamp, d: IggyDuration, t: IggyTimestamp)
    requires t_create.0 <= t_apply.0, t_apply.0 + d.0 <= u64::MAX,
    ensures ({ let e_rt = expiry_of(t_create, IggyExpiry::ExpireDuration(d)); let e_rp = expiry_of(t_apply, IggyExpiry::ExpireDuration(d));
        // after the restart the token never expires EARLIER than it did before
        &&& (expired_at(e_rp, t) ==> expired_at(e_rt, t))
        &&& (expired_at(e_rt, t) && !expired_at(e_rp, t)) <==> (t_create.0 + d.0 <= t.0 < t_apply.0 + d.0) }),
{
}
// label: C10.restart.pat.no-resurrection
// A token the running server has refused as expired at instant t1 is refused by the restarted server at every instant
// t2 >= t1 + delta: an observable flip needs a complete restart within delta of the runtime expiry instant.
pub proof fn c10_restart_pat_no_resurrection(t_create: IggyTimestamp, t_apply: IggyTimestamp, d: IggyDuration, t1: IggyTimestamp, t2: IggyTimestamp)
    requires t_create.0 <= t_apply.0, t_apply.0 + d.0 <= u64::MAX,
        expired_at(expiry_of(t_create, IggyExpiry::ExpireDuration(d)), t1), t2.0 >= t1.0 + (t_apply.0 - t_create.0),
    ensures expired_at(expiry_of(t_apply, IggyExpiry::ExpireDuration(d)), t2),
{
}
// label: C10.restart.pat.no-early-death
// conversely: a token the running server accepts at t is accepted by the restarted server at the same instant
pub proof fn c10_restart_pat_no_early_death(t_create: IggyTimestamp, t_apply: IggyTimestamp, d: IggyDuration, t: IggyTimestamp)
    requires t_create.0 <= t_apply.0, t_apply.0 + d.0 <= u64::MAX,
        !expired_at(expiry_of(t_create, IggyExpiry::ExpireDuration(d)), t),
    ensures !expired_at(expiry_of(t_apply, IggyExpiry::ExpireDuration(d)), t),
{
}
// label: C10.restart.pat.window.witness
// the window is not empty when delta > 0: numbers from the witness run on the real server (tok0: delta = 45 us)
pub proof fn c10_restart_pat_window_witness()
    ensures ({ let d = IggyDuration(3_600_000_000); let t_create = IggyTimestamp(1790391033600917); let t_apply = IggyTimestamp(1790391033600962);
        let t = IggyTimestamp(1790394633600917);
        expired_at(expiry_of(t_create, IggyExpiry::ExpireDuration(d)), t) && !expired_at(expiry_of(t_apply, IggyExpiry::ExpireDuration(d)), t) }),
{
}
// ---- vacuity: the hypotheses of the user-side lemmas are satisfiable (the relation is reflexive on any replayed state) ----------
// label: C05.sim.shape.hyp_sat
pub proof fn c05_sim_hyp_sat(rp: Map<u32, UserState>, now: IggyTimestamp)
    ensures users_rel(abs_users(rp), abs_users(rp), now),
{
}
