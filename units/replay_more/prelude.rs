// ---- unit prelude: replay_more (C05 replay side, remaining arms; C10 restart, journal -> UserState) -----------------
// Stand-ins (R4) and spec vocabulary for the match arms of SystemState::init. Nothing here re-states a body of /repo.

#[verifier::external_body]
#[derive(Debug)]
pub struct Name { s: String }
impl Clone for Name {
    #[verifier::external_body]
    fn clone(&self) -> (r: Name) ensures r == *self { unimplemented!() }
}
impl Name {
    // A-std: `Clone::clone_from(&mut self, source)` overwrites self with a copy of source
    #[verifier::external_body]
    pub fn clone_from(&mut self, source: &Name) ensures *final(self) == *source { unimplemented!() }
}
#[derive(Debug)]
pub enum IggyError { InvalidIdentifier }

// --- clock (A-clock) and durations: micro-second counts ---
#[derive(Clone, Copy, Debug)]
pub struct IggyTimestamp(pub u64);
pub uninterp spec fn the_now() -> IggyTimestamp;
impl IggyTimestamp {
    #[verifier::external_body]
    pub fn now() -> (r: IggyTimestamp) ensures r == the_now() { unimplemented!() }
    pub fn as_micros(&self) -> (r: u64) ensures r == self.0 { self.0 }
}
impl From<u64> for IggyTimestamp {
    fn from(timestamp: u64) -> (r: Self) { IggyTimestamp(timestamp) }
}
impl vstd::std_specs::convert::FromSpecImpl<u64> for IggyTimestamp {
    open spec fn obeys_from_spec() -> bool { true }
    open spec fn from_spec(v: u64) -> Self { IggyTimestamp(v) }
}
#[derive(Clone, Copy, Debug)]
pub struct IggyDuration(pub u64);
impl IggyDuration {
    pub fn as_micros(&self) -> (r: u64) ensures r == self.0 { self.0 }
}
#[derive(Clone, Copy)]
pub struct CompressionAlgorithm(pub u8);
#[derive(Clone, Copy)]
pub struct MaxTopicSize(pub u64);
#[verifier::external_body]
pub struct Permissions { x: u8 }

// --- Identifier payload accessors (sdk): stubs with a small spec (same as units catalogue_maps / alloc_replay)
impl Identifier {
    pub uninterp spec fn num(&self) -> u32;
    pub uninterp spec fn text(&self) -> Name;
    #[verifier::external_body]
    pub fn get_u32_value(&self) -> (r: Result<u32, IggyError>)
        ensures r == (if self.kind == IdKind::Numeric && self.length == 4 { Ok::<u32, IggyError>(self.num()) } else { Err::<u32, IggyError>(IggyError::InvalidIdentifier) }),
    { unimplemented!() }
    #[verifier::external_body]
    pub fn get_cow_str_value(&self) -> (r: Result<Name, IggyError>)
        ensures r == (if self.kind == IdKind::Name { Ok::<Name, IggyError>(self.text()) } else { Err::<Name, IggyError>(IggyError::InvalidIdentifier) }),
    { unimplemented!() }
}
// `TryFrom<u32> for Identifier` (= Identifier::numeric): 0 is refused, any other value yields the 4-byte numeric identifier
pub trait TryIntoIdentifier { fn try_into_identifier(self) -> Result<Identifier, IggyError>; }
impl TryIntoIdentifier for u32 {
    #[verifier::external_body]
    fn try_into_identifier(self) -> (r: Result<Identifier, IggyError>)
        ensures self == 0 ==> r is Err,
            self != 0 ==> (r matches Ok(i) && i.kind == IdKind::Numeric && i.length == 4 && i.num() == self),
    { unimplemented!() }
}

// R9 panic-as-divergence: the value if there is one; otherwise the call does not return (partial correctness)
pub trait UnwrapOrDiverge<T> { fn unwrap_or_diverge(self) -> T; }
impl<T> UnwrapOrDiverge<T> for Option<T> {
    #[verifier::external_body]
    fn unwrap_or_diverge(self) -> (r: T) ensures self == Some(r) { unimplemented!() }
}
impl<T, E> UnwrapOrDiverge<T> for Result<T, E> {
    #[verifier::external_body]
    fn unwrap_or_diverge(self) -> (r: T) ensures self matches Ok(v) && v == r { unimplemented!() }
}
#[verifier::external_body]
pub fn diverge<T>() -> (r: T) ensures false { unimplemented!() }
// R8 schema for `m.values().find(|v| P)` (documented std semantics; iteration order unspecified)
#[verifier::external_body]
pub fn std_values_find<K, V>(m: &HashMap<K, V>, Ghost(f): Ghost<spec_fn(V) -> bool>) -> (r: Option<&V>)
    ensures match r {
        Some(v) => exists|k: K| #[trigger] m@.contains_key(k) && m@[k] == *v && f(*v),
        None => forall|k: K| #[trigger] m@.contains_key(k) ==> !f(m@[k]),
    },
{ unimplemented!() }
// R8 schema for `m.values().map(F).max()` (documented std semantics): None iff the map is empty, else the largest F-value
#[verifier::external_body]
pub fn std_values_map_max<K, V>(m: &HashMap<K, V>, Ghost(f): Ghost<spec_fn(V) -> u32>) -> (r: Option<u32>)
    ensures match r {
        Some(x) => (exists|k: K| #[trigger] m@.contains_key(k) && f(m@[k]) == x) && (forall|k: K| #[trigger] m@.contains_key(k) ==> f(m@[k]) <= x),
        None => m@ =~= Map::<K, V>::empty(),
    },
{ unimplemented!() }

// ---- abstract view of the replayed state ---------------------------------------------------------------------------
// what an Identifier denotes during replay: a number denotes itself (no existence check), a name denotes the `id` FIELD of
// some entry carrying that name NOW (the current name: a renamed entity is found under its new name only)
pub open spec fn rp_stream_denotes(streams: Map<u32, StreamState>, ident: &Identifier, r: u32) -> bool {
    if ident.kind == IdKind::Numeric { ident.length == 4 && r == ident.num() }
    else { exists|k: u32| #[trigger] streams.contains_key(k) && streams[k].name == ident.text() && streams[k].id == r }
}
pub open spec fn rp_topic_denotes(topics: Map<u32, TopicState>, ident: &Identifier, r: u32) -> bool {
    if ident.kind == IdKind::Numeric { ident.length == 4 && r == ident.num() }
    else { exists|k: u32| #[trigger] topics.contains_key(k) && topics[k].name == ident.text() && topics[k].id == r }
}
pub open spec fn rp_user_denotes(users: Map<u32, UserState>, ident: &Identifier, r: u32) -> bool {
    if ident.kind == IdKind::Numeric { ident.length == 4 && r == ident.num() }
    else { exists|k: u32| #[trigger] users.contains_key(k) && users[k].username == ident.text() && users[k].id == r }
}
// the stream `sid` / its topic `tid` the two identifiers of a topic-level command denote, both present in the state
pub open spec fn rp_topic_at(streams: Map<u32, StreamState>, stream_id: &Identifier, topic_id: &Identifier, sid: u32, tid: u32) -> bool {
    rp_stream_denotes(streams, stream_id, sid) && streams.contains_key(sid)
        && rp_topic_denotes(streams[sid].topics@, topic_id, tid) && streams[sid].topics@.contains_key(tid)
}
// every stream but `sid` is untouched; every topic of a stream but `tid` is untouched
pub open spec fn streams_frame(a: Map<u32, StreamState>, b: Map<u32, StreamState>, sid: u32) -> bool {
    &&& forall|k: u32| a.contains_key(k) <==> #[trigger] b.contains_key(k)
    &&& forall|k: u32| k != sid && #[trigger] a.contains_key(k) ==> b[k] == a[k]
}
pub open spec fn topics_frame(a: Map<u32, TopicState>, b: Map<u32, TopicState>, tid: u32) -> bool {
    &&& forall|k: u32| a.contains_key(k) <==> #[trigger] b.contains_key(k)
    &&& forall|k: u32| k != tid && #[trigger] a.contains_key(k) ==> b[k] == a[k]
}
// only topic `tid` of stream `sid` changed, and of it only what `t1` says (everything of the stream record itself is kept)
pub open spec fn only_topic_changed(a: Map<u32, StreamState>, b: Map<u32, StreamState>, sid: u32, tid: u32, t1: TopicState) -> bool {
    b =~= a.insert(sid, StreamState { topics: b[sid].topics, ..a[sid] })
        && b[sid].topics@ =~= a[sid].topics@.insert(tid, t1)
}
// partition sets: the replayed partition table is keyed by the partition id and numbered 1..=n
pub open spec fn parts_dense(p: Map<u32, PartitionState>, n: int) -> bool {
    &&& 0 <= n <= u32::MAX
    &&& forall|k: u32| #[trigger] p.contains_key(k) <==> 1 <= k <= n
    &&& forall|k: u32| #[trigger] p.contains_key(k) ==> p[k].id == k
}
// token expiry over mathematical integers (same definitions as unit credentials)
pub open spec fn expiry_of(now: IggyTimestamp, expiry: IggyExpiry) -> Option<IggyTimestamp> {
    match expiry {
        IggyExpiry::ExpireDuration(d) => Some(IggyTimestamp((now.0 + d.0) as u64)),
        _ => None,
    }
}
pub open spec fn expired_at(e: Option<IggyTimestamp>, now: IggyTimestamp) -> bool {
    e matches Some(x) && x.0 <= now.0
}
// typed wrapper (a freshly created local map has no inferable view type inside a loop invariant)
pub open spec fn parts_dense_of(m: &HashMap<u32, PartitionState>, n: int) -> bool { parts_dense(m@, n) }

// A-dep(bcrypt), as in unit credentials: `pw_of(h)` is the password the stored string h is a (salted) bcrypt hash of
pub uninterp spec fn pw_of(h: Name) -> Option<Name>;

// ---- what each replayed entry does to the state: ONE text, used as the arm's postcondition ([C05.rp.*] / [C10.restart.*] in
// contracts.vspec) and as the replay side of the simulation lemmas ([C05.sim.*] in lemmas.rs) -------------------------------
// rename: same id, topics, allocator position and creation time; no other stream moves
pub open spec fn rp_update_stream_post(s0: Map<u32, StreamState>, ident: &Identifier, name: Name, s1: Map<u32, StreamState>) -> bool {
    exists|sid: u32| rp_stream_denotes(s0, ident, sid) && s0.contains_key(sid) && s1 =~= s0.insert(sid, StreamState { name: name, ..s0[sid] })
}
// name and the four settings are the journalled ones; id, partitions, consumer groups, group allocator, creation time kept
pub open spec fn rp_update_topic_post(s0: Map<u32, StreamState>, c: UpdateTopic, s1: Map<u32, StreamState>) -> bool {
    exists|sid: u32, tid: u32| rp_topic_at(s0, &c.stream_id, &c.topic_id, sid, tid)
        && only_topic_changed(s0, s1, sid, tid, TopicState { name: c.name, compression_algorithm: c.compression_algorithm,
              message_expiry: c.message_expiry, max_topic_size: c.max_topic_size, replication_factor: c.replication_factor,
              ..s0[sid].topics@[tid] })
}
// partitions n+1..=n+k appended (n = how many the topic has); existing partition records and the rest of the topic kept
pub open spec fn rp_create_partitions_post(s0: Map<u32, StreamState>, sident: &Identifier, tident: &Identifier, k: u32, s1: Map<u32, StreamState>) -> bool {
    exists|sid: u32, tid: u32, n: int| rp_topic_at(s0, sident, tident, sid, tid)
        && parts_dense(s0[sid].topics@[tid].partitions@, n)
        && only_topic_changed(s0, s1, sid, tid, TopicState { partitions: s1[sid].topics@[tid].partitions, ..s0[sid].topics@[tid] })
        && parts_dense(s1[sid].topics@[tid].partitions@, n + k)
        && (forall|i: u32| #[trigger] s0[sid].topics@[tid].partitions@.contains_key(i) ==> s1[sid].topics@[tid].partitions@[i] == s0[sid].topics@[tid].partitions@[i])
}
// the min(k, n) highest-numbered partitions removed; the remaining records and the rest of the topic kept
pub open spec fn rp_delete_partitions_post(s0: Map<u32, StreamState>, sident: &Identifier, tident: &Identifier, k: u32, s1: Map<u32, StreamState>) -> bool {
    exists|sid: u32, tid: u32, n: int| rp_topic_at(s0, sident, tident, sid, tid)
        && parts_dense(s0[sid].topics@[tid].partitions@, n)
        && only_topic_changed(s0, s1, sid, tid, TopicState { partitions: s1[sid].topics@[tid].partitions, ..s0[sid].topics@[tid] })
        && parts_dense(s1[sid].topics@[tid].partitions@, n - (if k <= n { k as int } else { n }))
        && (forall|i: u32| #[trigger] s1[sid].topics@[tid].partitions@.contains_key(i) ==> s1[sid].topics@[tid].partitions@[i] == s0[sid].topics@[tid].partitions@[i])
}
// only the fields the command carries change; id, password hash, permissions and tokens are kept
pub open spec fn rp_update_user_post(u0: Map<u32, UserState>, ident: &Identifier, username: Option<Name>, status: Option<UserStatus>, u1: Map<u32, UserState>) -> bool {
    exists|uid: u32| rp_user_denotes(u0, ident, uid) && u0.contains_key(uid)
        && u1 =~= u0.insert(uid, UserState {
              username: (if username is Some { username->0 } else { u0[uid].username }),
              status: (if status is Some { status->0 } else { u0[uid].status }),
              ..u0[uid] })
}
pub open spec fn rp_change_password_post(u0: Map<u32, UserState>, ident: &Identifier, hash: Name, u1: Map<u32, UserState>) -> bool {
    exists|uid: u32| rp_user_denotes(u0, ident, uid) && u0.contains_key(uid)
        && u1 =~= u0.insert(uid, UserState { password_hash: hash, ..u0[uid] })
}
pub open spec fn rp_update_permissions_post(u0: Map<u32, UserState>, ident: &Identifier, permissions: Option<Permissions>, u1: Map<u32, UserState>) -> bool {
    exists|uid: u32| rp_user_denotes(u0, ident, uid) && u0.contains_key(uid)
        && u1 =~= u0.insert(uid, UserState { permissions: permissions, ..u0[uid] })
}
// the owner (the user the entry was journalled for) gets the token under its name, with the journalled digest and the expiry
// `entry timestamp + journalled duration`, unless that instant has passed at replay time `now`; nothing else moves
pub open spec fn rp_create_pat_post(u0: Map<u32, UserState>, uid: u32, name: Name, hash: Name, expiry: IggyExpiry, ts: IggyTimestamp, now: IggyTimestamp, u1: Map<u32, UserState>) -> bool {
    let e = expiry_of(ts, expiry);
    uid != 0 && u0.contains_key(uid)
        && u1 =~= u0.insert(uid, UserState { personal_access_tokens: u1[uid].personal_access_tokens, ..u0[uid] })
        && u1[uid].personal_access_tokens@ =~= (if expired_at(e, now) { u0[uid].personal_access_tokens@ }
            else { u0[uid].personal_access_tokens@.insert(name, PersonalAccessTokenState { name: name, token_hash: hash, expiry_at: e }) })
}
pub open spec fn rp_delete_pat_post(u0: Map<u32, UserState>, uid: u32, name: Name, u1: Map<u32, UserState>) -> bool {
    uid != 0 && u0.contains_key(uid)
        && u1 =~= u0.insert(uid, UserState { personal_access_tokens: u1[uid].personal_access_tokens, ..u0[uid] })
        && u1[uid].personal_access_tokens@ =~= u0[uid].personal_access_tokens@.remove(name)
}
