//! Unit payload_sinks (C19): "when server-side encryption is enabled, no message payload and no journalled command content appears
//! in clear text in any file the server writes". The server's log files live under the data directory (`system.logging.path =
//! "logs"`); server/src/log/logger.rs writes every tracing event at or above the configured level (default `info`; `debug`/`trace`
//! are documented options) to them. These tests run the REAL server with ENCRYPTION ENABLED (`System` + the in-process TCP server +
//! the real binary handlers) against the REAL SDK client, capture every tracing event the process emits (level, target, formatted
//! text: what the file layer would write) and look for the protected content in the captured text.
//!   clean_*  : positive result (passes on the unrepaired tree as well): the message path - send, poll, restart, poll - leaves
//!              neither the clear payload nor the header value nor the encryption key in ANY event, up to TRACE level; the
//!              segment files hold no clear payload
//!   f210_*   : the journal WRITER (FileState::apply) logs the command it is about to encrypt, in clear, at DEBUG level
//!   f211_*   : the journal READER side (SystemState::init) dumps the state replayed from the decrypted journal at DEBUG level
use bytes::Bytes;
use iggy::client::{Client, MessageClient, StreamClient, TopicClient, UserClient};
use iggy::compression::compression_algorithm::CompressionAlgorithm;
use iggy::consumer::Consumer;
use iggy::identifier::Identifier;
use iggy::messages::poll_messages::PollingStrategy;
use iggy::messages::send_messages::{Message, Partitioning};
use iggy::models::header::{HeaderKey, HeaderValue};
use iggy::tcp::client::TcpClient;
use iggy::tcp::config::TcpClientConfig;
use iggy::utils::expiry::IggyExpiry;
use iggy::utils::topic_size::MaxTopicSize;
use server::configs::server::{DataMaintenanceConfig, PersonalAccessTokenConfig};
use server::configs::system::{EncryptionConfig, SystemConfig};
use server::configs::tcp::TcpConfig;
use server::streaming::systems::system::{SharedSystem, System};
use server::tcp::tcp_server;
use std::collections::HashMap;
use std::fmt::Write as _;
use std::net::SocketAddr;
use std::str::FromStr;
use std::sync::{Arc, Mutex, OnceLock};
use tracing::field::{Field, Visit};
use tracing::{Event, Level, Subscriber};
use tracing_subscriber::layer::{Context, SubscriberExt};
use tracing_subscriber::Layer;

#[derive(Clone, Debug)]
struct Captured {
    level: Level,
    target: String,
    text: String,
}
static EVENTS: OnceLock<Arc<Mutex<Vec<Captured>>>> = OnceLock::new();

struct Capture(Arc<Mutex<Vec<Captured>>>);
struct TextVisitor(String);
impl Visit for TextVisitor {
    fn record_debug(&mut self, field: &Field, value: &dyn std::fmt::Debug) {
        // `message` is the formatted text of the event; every other field is rendered as the fmt layer renders it
        if field.name() == "message" {
            let _ = write!(self.0, "{value:?} ");
        } else {
            let _ = write!(self.0, "{}={value:?} ", field.name());
        }
    }
}
impl<S: Subscriber> Layer<S> for Capture {
    fn on_event(&self, event: &Event<'_>, _ctx: Context<'_, S>) {
        let mut v = TextVisitor(String::new());
        event.record(&mut v);
        self.0.lock().unwrap().push(Captured { level: *event.metadata().level(), target: event.metadata().target().to_string(), text: v.0 });
    }
}

/// one process-wide subscriber that lets EVERY level through (TRACE included)
fn events() -> Arc<Mutex<Vec<Captured>>> {
    EVENTS
        .get_or_init(|| {
            let buf = Arc::new(Mutex::new(Vec::new()));
            let subscriber = tracing_subscriber::registry().with(Capture(buf.clone()));
            tracing::subscriber::set_global_default(subscriber).expect("global subscriber");
            buf
        })
        .clone()
}

/// events a server configured with `level` would write: tracing levels order ERROR < WARN < INFO < DEBUG < TRACE.
/// Events of the SDK *client* (same process here, another process in production) are not the server's.
fn server_events_at(level: Level, from: usize) -> Vec<Captured> {
    events().lock().unwrap()[from..].iter().filter(|e| e.level <= level).filter(|e| !e.target.starts_with("iggy::")).cloned().collect()
}
fn mark() -> usize {
    events().lock().unwrap().len()
}
fn leaks(level: Level, from: usize, target_prefix: &str, secret: &str) -> Vec<String> {
    server_events_at(level, from)
        .into_iter()
        .filter(|e| e.target.starts_with(target_prefix))
        .filter(|e| e.text.contains(secret))
        .map(|e| format!("[{} {}] {}", e.level, e.target, e.text.replace(secret, "<<CLEAR CONTENT>>")))
        .collect()
}

// base64 of the 32 bytes "0123456789abcdef0123456789abcdef"
const KEY: &str = "MDEyMzQ1Njc4OWFiY2RlZjAxMjM0NTY3ODlhYmNkZWY=";
const PAYLOAD: &str = "PAYLOAD-zq81-the-patient-has-condition-X-7731";
const LONG_PAYLOAD_HEAD: &str = "LONGHEAD-4471-";
const LONG_PAYLOAD_TAIL: &str = "-LONGTAIL-9920";
const HEADER_VALUE: &str = "HDRVAL-k2-tenant-acme-secret-0042";
const STREAM_NAME: &str = "stream-qx55-project-manhattan";
const TOPIC_NAME: &str = "topic-qx55-payroll";

async fn start_server(path: &str) -> (SharedSystem, SocketAddr) {
    let config = Arc::new(SystemConfig {
        path: path.to_string(),
        encryption: EncryptionConfig { enabled: true, key: KEY.to_string() },
        ..Default::default()
    });
    let mut system = System::new(config, DataMaintenanceConfig::default(), PersonalAccessTokenConfig::default());
    system.init().await.unwrap();
    let system = SharedSystem::new(system);
    let tcp_config = TcpConfig { address: "127.0.0.1:0".to_string(), ..Default::default() };
    let addr = tcp_server::start(tcp_config, system.clone()).await;
    (system, addr)
}
async fn connect(addr: SocketAddr) -> TcpClient {
    let client = TcpClient::create(Arc::new(TcpClientConfig { server_address: addr.to_string(), ..Default::default() })).unwrap();
    client.connect().await.unwrap();
    client.login_user("iggy", "iggy").await.unwrap();
    client
}
fn long_payload() -> String {
    format!("{LONG_PAYLOAD_HEAD}{}{LONG_PAYLOAD_TAIL}", "x".repeat(200))
}
fn messages() -> Vec<Message> {
    let mut headers = HashMap::new();
    headers.insert(HeaderKey::new("tenant").unwrap(), HeaderValue::from_str(HEADER_VALUE).unwrap());
    vec![
        Message::new(Some(1), Bytes::from(PAYLOAD), Some(headers.clone())),
        Message::new(Some(2), Bytes::from(long_payload()), Some(headers)),
    ]
}
async fn create_stream_and_topic(client: &TcpClient) -> (Identifier, Identifier) {
    client.create_stream(STREAM_NAME, Some(1)).await.unwrap();
    let stream = Identifier::numeric(1).unwrap();
    client
        .create_topic(&stream, TOPIC_NAME, 1, CompressionAlgorithm::None, None, Some(1), IggyExpiry::NeverExpire, MaxTopicSize::ServerDefault)
        .await
        .unwrap();
    (stream, Identifier::numeric(1).unwrap())
}
async fn poll_and_check(client: &TcpClient, stream: &Identifier, topic: &Identifier) {
    let polled = client.poll_messages(stream, topic, Some(1), &Consumer::default(), &PollingStrategy::offset(0), 10, false).await.unwrap();
    assert_eq!(polled.messages.len(), 2);
    assert_eq!(polled.messages[0].payload, Bytes::from(PAYLOAD), "the poll returns the payload that was sent");
    assert_eq!(polled.messages[1].payload, Bytes::from(long_payload()));
    let header = polled.messages[0].headers.as_ref().unwrap().get(&HeaderKey::new("tenant").unwrap()).unwrap();
    assert_eq!(header.as_str().unwrap(), HEADER_VALUE);
}
fn files_containing(dir: &std::path::Path, needle: &[u8], out: &mut Vec<String>) {
    for entry in std::fs::read_dir(dir).unwrap() {
        let path = entry.unwrap().path();
        if path.is_dir() {
            files_containing(&path, needle, out);
        } else if let Ok(bytes) = std::fs::read(&path) {
            if bytes.windows(needle.len()).any(|w| w == needle) {
                out.push(path.display().to_string());
            }
        }
    }
}

/// Positive result: send (payload + header), poll, shut down, restart on the same directory with the same key, poll again - no
/// server event of ANY level holds the clear payload, a part of it, the header value or the key; no file holds the clear payload.
#[tokio::test(flavor = "multi_thread")]
async fn clean_message_path_send_poll_restart_poll() {
    let _ = events();
    let dir = tempfile::TempDir::new().unwrap();
    let from = mark();
    let (system, addr) = start_server(dir.path().to_str().unwrap()).await;
    let client = connect(addr).await;
    let (stream, topic) = create_stream_and_topic(&client).await;
    let mut batch = messages();
    client.send_messages(&stream, &topic, &Partitioning::partition_id(1), &mut batch).await.unwrap();
    poll_and_check(&client, &stream, &topic).await;
    // also through a messages key (the partitioning value is traced by the topic) and over a wrong topic (error contexts)
    let mut batch2 = messages();
    client.send_messages(&stream, &topic, &Partitioning::messages_key_str("order-17").unwrap(), &mut batch2).await.unwrap();
    let mut batch3 = messages();
    assert!(client.send_messages(&stream, &Identifier::numeric(77).unwrap(), &Partitioning::partition_id(1), &mut batch3).await.is_err());
    let mut batch4 = messages();
    assert!(client.send_messages(&stream, &topic, &Partitioning::partition_id(9), &mut batch4).await.is_err());
    system.write().await.shutdown().await.unwrap();
    drop(client);

    // restart: a second System over the same directory, same key
    let (_system2, addr2) = start_server(dir.path().to_str().unwrap()).await;
    let client2 = connect(addr2).await;
    let polled = client2.poll_messages(&stream, &topic, Some(1), &Consumer::default(), &PollingStrategy::offset(0), 10, false).await.unwrap();
    assert!(polled.messages.len() >= 2);
    assert_eq!(polled.messages[0].payload, Bytes::from(PAYLOAD), "after the restart the poll still returns the payload that was sent");
    tokio::time::sleep(std::time::Duration::from_millis(100)).await;

    let total = server_events_at(Level::TRACE, from).len();
    assert!(total > 50, "the capture layer must have seen the server's events (saw {total})");
    let mut found = Vec::new();
    for needle in [PAYLOAD, LONG_PAYLOAD_HEAD, LONG_PAYLOAD_TAIL, HEADER_VALUE, KEY] {
        found.extend(leaks(Level::TRACE, from, "", needle));
    }
    assert!(found.is_empty(), "C19: with encryption enabled the server's log events (TRACE and above) hold clear content {} time(s):\n{}", found.len(), found.join("\n"));
    let mut files = Vec::new();
    files_containing(dir.path(), PAYLOAD.as_bytes(), &mut files);
    files_containing(dir.path(), LONG_PAYLOAD_TAIL.as_bytes(), &mut files);
    assert!(files.is_empty(), "C19: files under the data directory hold the clear payload: {files:?}");
}

/// F210: encryption enabled, log level `debug`: FileState::apply logs the command it is about to ENCRYPT, in clear
/// (`debug!("Applying state entry with command: {command}, ..")`, server/src/state/file.rs:295).
#[tokio::test(flavor = "multi_thread")]
async fn f210_journal_writer_logs_the_command_it_encrypts() {
    let _ = events();
    let dir = tempfile::TempDir::new().unwrap();
    let (_system, addr) = start_server(dir.path().to_str().unwrap()).await;
    let client = connect(addr).await;
    let from = mark();
    create_stream_and_topic(&client).await;
    tokio::time::sleep(std::time::Duration::from_millis(100)).await;
    // the journal itself holds neither name
    let mut files = Vec::new();
    files_containing(&dir.path().join("state"), STREAM_NAME.as_bytes(), &mut files);
    files_containing(&dir.path().join("state"), TOPIC_NAME.as_bytes(), &mut files);
    assert!(files.is_empty(), "the encrypted journal must not hold the names: {files:?}");
    let mut found = leaks(Level::DEBUG, from, "server::state::file", STREAM_NAME);
    found.extend(leaks(Level::DEBUG, from, "server::state::file", TOPIC_NAME));
    assert!(found.is_empty(), "F210: the journal writer logged the content of the command it stored encrypted {} time(s):\n{}", found.len(), found.join("\n"));
}

/// F211: encryption enabled, log level `debug`: at every start SystemState::init dumps the state replayed from the DECRYPTED
/// journal (`debug!("{state}")`, server/src/state/system.rs:381): stream, topic, consumer-group and user names, permissions.
#[tokio::test(flavor = "multi_thread")]
async fn f211_restart_dumps_the_decrypted_journal() {
    let _ = events();
    let dir = tempfile::TempDir::new().unwrap();
    let (system, addr) = start_server(dir.path().to_str().unwrap()).await;
    let client = connect(addr).await;
    create_stream_and_topic(&client).await;
    system.write().await.shutdown().await.unwrap();
    drop(client);
    let from = mark();
    let (_system2, _addr2) = start_server(dir.path().to_str().unwrap()).await;
    tokio::time::sleep(std::time::Duration::from_millis(100)).await;
    let mut found = leaks(Level::DEBUG, from, "server::state", STREAM_NAME);
    found.extend(leaks(Level::DEBUG, from, "server::state", TOPIC_NAME));
    assert!(found.is_empty(), "F211: the restart logged the content of the decrypted journal {} time(s):\n{}", found.len(), found.join("\n"));
}
