#!/usr/bin/env bash
# usage: ./run.sh [tree] [test filter / libtest args]     tree = /repo (default) or a repaired worktree
# Exit status is cargo's: 0 = every selected test passed, 101 = at least one failed (on the unrepaired tree the f210*/f211*
# witnesses are EXPECTED to fail, the `clean_*` test passes on both trees), other = build problem.
set -u
cd "$(dirname "$(readlink -f "$0")")" || exit 2
TREE="${1:-/repo}"; shift || true
sed "s|@TREE@|$TREE|g" Cargo.toml.in > Cargo.toml || exit 2
cp "$TREE/Cargo.lock" ./Cargo.lock || exit 2
export CARGO_NET_OFFLINE=true
export CARGO_INCREMENTAL=0
export CARGO_TARGET_DIR="${CARGO_TARGET_DIR:-/var/tmp/payload_sinks_target}"
export RUST_BACKTRACE=0
cargo test --offline --test witnesses -- --test-threads 1 "$@"
exit $?
