// ---- unit prelude: payload_sinks (C19, clause "when server-side encryption is enabled, no message payload and no journalled command
// content appears in clear text in any file the server writes", for the LOG FILES under the data directory) ----------------------------
// Rules R2-log-sink / R3-errctx-sink / R10-fmt-sink (vx/README.md) turn every log event, error context and `write!` of the extracted
// functions into calls of the stubs below, one per VALUE the text is built from. The precondition of `log_arg` is the property clause;
// it is a named obligation at every call site. Nothing here re-states a function body of /repo.
global size_of usize == 8;   // 64-bit target

// std: `impl<T: Display + ?Sized> Display for &mut T` (and Debug) delegate to T (`{self}` inside a `&mut self` function)
impl<T: Loggable + ?Sized> Loggable for &mut T {
    open spec fn carries_secret(&self) -> bool { (**self).carries_secret() }
    open spec fn dbg_carries_secret(&self) -> bool { (**self).dbg_carries_secret() }
}

// --- byte buffers (`Bytes` / `BytesMut`): opaque. The only observable: does the buffer hold CLEAR content that the property protects
// (a message payload before encryption / after decryption, a header value, the clear form of a journalled command)?
#[verifier::external_body]
#[derive(Debug)]
pub struct Blob { b: Vec<u8> }
pub uninterp spec fn clear(b: Blob) -> bool;
// `{:?}` of a buffer prints its bytes; `Bytes` has no Display (a `{}` of one does not compile: the instance is never used)
impl Loggable for Blob {
    open spec fn carries_secret(&self) -> bool { clear(*self) }
    open spec fn dbg_carries_secret(&self) -> bool { clear(*self) }
}
// what the AEAD wrapper hands back (`Vec<u8>`): a ciphertext or a decrypted text
#[verifier::external_body]
#[derive(Debug)]
pub struct RawBytes { b: Vec<u8> }
pub uninterp spec fn raw_clear(b: RawBytes) -> bool;
impl Loggable for RawBytes {
    open spec fn carries_secret(&self) -> bool { raw_clear(*self) }
    open spec fn dbg_carries_secret(&self) -> bool { raw_clear(*self) }
}
impl RawBytes {
    // std: a Vec never holds more than isize::MAX bytes
    #[verifier::external_body] pub fn len(&self) -> (r: usize) ensures r <= 0x7fff_ffff_ffff_ffff { unimplemented!() }
}
pub trait HoldsBytes { spec fn holds_clear(&self) -> bool; }
impl HoldsBytes for Blob { open spec fn holds_clear(&self) -> bool { clear(*self) } }
impl HoldsBytes for RawBytes { open spec fn holds_clear(&self) -> bool { raw_clear(*self) } }
impl Clone for Blob { #[verifier::external_body] fn clone(&self) -> (r: Blob) ensures r == *self { unimplemented!() } }
impl From<RawBytes> for Blob { #[verifier::external_body] fn from(v: RawBytes) -> (r: Blob) ensures clear(r) == raw_clear(v) { unimplemented!() } }
impl vstd::std_specs::convert::FromSpecImpl<RawBytes> for Blob {
    open spec fn obeys_from_spec() -> bool { false }
    open spec fn from_spec(v: RawBytes) -> Blob { arbitrary() }
}
impl Blob {
    // the empty buffer / a fresh buffer
    #[verifier::external_body] pub fn new() -> (r: Blob) ensures !clear(r) { unimplemented!() }
    #[verifier::external_body] pub fn with_capacity(n: usize) -> (r: Blob) ensures !clear(r) { unimplemented!() }
    #[verifier::external_body] pub fn len(&self) -> (r: usize) ensures r <= 0x7fff_ffff_ffff_ffff { unimplemented!() }
    #[verifier::external_body] pub fn is_empty(&self) -> (r: bool) { unimplemented!() }
    // a part of clear content is clear content (taint is inherited by every sub-range)
    #[verifier::external_body] pub fn slice<R>(&self, range: R) -> (r: Blob) ensures clear(r) == clear(*self) { unimplemented!() }
    // a number read from the buffer (code / length words of the journal framing) is not content
    #[verifier::external_body] pub fn get_u32_le(&mut self) -> (r: u32) { unimplemented!() }
    #[verifier::external_body] pub fn put_u32_le(&mut self, v: u32) ensures clear(*final(self)) == clear(*old(self)) { unimplemented!() }
    // `BytesMut::extend(bytes)`: the buffer then holds what it held plus the appended bytes
    #[verifier::external_body] pub fn extend<B: HoldsBytes>(&mut self, v: B) ensures clear(*final(self)) == (clear(*old(self)) || v.holds_clear()) { unimplemented!() }
    #[verifier::external_body] pub fn freeze(self) -> (r: Blob) ensures r == self { unimplemented!() }
}
// `&self.payload[..20]`, `&self.payload[len - 20..]`, `&self.payload` handed to `String::from_utf8_lossy`: a part of the buffer
impl core::ops::Index<core::ops::RangeTo<usize>> for Blob {
    type Output = Blob;
    #[verifier::external_body] fn index(&self, i: core::ops::RangeTo<usize>) -> (r: &Blob) ensures clear(*r) == clear(*self) { unimplemented!() }
}
impl vstd::std_specs::core::IndexSpecImpl<core::ops::RangeTo<usize>> for Blob {
    open spec fn index_req(&self, i: &core::ops::RangeTo<usize>) -> bool { true }
}
impl core::ops::Index<core::ops::RangeFrom<usize>> for Blob {
    type Output = Blob;
    #[verifier::external_body] fn index(&self, i: core::ops::RangeFrom<usize>) -> (r: &Blob) ensures clear(*r) == clear(*self) { unimplemented!() }
}
impl vstd::std_specs::core::IndexSpecImpl<core::ops::RangeFrom<usize>> for Blob {
    open spec fn index_req(&self, i: &core::ops::RangeFrom<usize>) -> bool { true }
}

// --- strings: opaque; the only observable is whether the text contains protected content (clear payload / header value / the key) --
#[verifier::external_body]
#[derive(Debug)]
pub struct Name { s: String }
pub uninterp spec fn secret(n: Name) -> bool;
impl Loggable for Name {
    open spec fn carries_secret(&self) -> bool { secret(*self) }
    open spec fn dbg_carries_secret(&self) -> bool { secret(*self) }
}
impl Name {
    #[verifier::external_body] pub fn new() -> (r: Name) ensures !secret(r) { unimplemented!() }
    #[verifier::external_body] pub fn to_owned(&self) -> (r: Name) ensures r == *self { unimplemented!() }
    #[verifier::external_body] pub fn to_string(&self) -> (r: Name) ensures r == *self { unimplemented!() }
    // std `String::from_utf8_lossy(&[u8])`: the text of the bytes (invalid sequences replaced): clear bytes give a clear text
    #[verifier::external_body] pub fn from_utf8_lossy(v: &Blob) -> (r: Name) ensures secret(r) == clear(*v) { unimplemented!() }
}
impl Clone for Name { #[verifier::external_body] fn clone(&self) -> (r: Name) ensures r == *self { unimplemented!() } }
// R10-fmt-sink: the string a `format!` builds carries a secret iff a part does (A-fmt)
#[verifier::external_body]
pub fn fmt_string(f: Formatter) -> (r: Name) ensures secret(r) == f.tainted() { unimplemented!() }

// --- THE SINK. `log_arg(level, &v)`: the Display text of v becomes part of an event of that level; `log_arg_dbg`: the Debug text.
// The level is carried for the record only: it is configuration, the clause says "no ... in any file".
#[verifier::external_body]
pub fn log_arg<T: Loggable + ?Sized>(level: u8, x: &T)
    requires
        !x.carries_secret(), //@requires [C19.log.nosecret]
{ }
#[verifier::external_body]
pub fn log_arg_dbg<T: Loggable + ?Sized>(level: u8, x: &T)
    requires
        !x.dbg_carries_secret(), //@requires [C19.log.nosecret.dbg]
{ }

// --- errors (sdk/src/error.rs, thiserror): Display prints exactly the fields the `#[error("..")]` attribute names. No variant holds a
// byte buffer. The variants the extracted text names are listed; `Other` stands for every other variant (code + its String, if any)
#[derive(Debug)]
pub enum IggyError {
    InvalidIdentifier,
    InvalidCommand,
    InvalidMessagesCount,
    CannotEncryptData,
    CannotDecryptData,
    NoPartitions(u32, u32),
    TopicFull(u32, u32),
    PartitionNotFound(u32, u32, u32),
    SegmentNotFound,
    InvalidNumberEncoding,
    InvalidStateEntryChecksum(u32, u32, u64),
    ClientNotFound(u32),
    Other(u32, Name),
}
pub open spec fn err_secret(e: IggyError) -> bool {
    match e {
        IggyError::Other(_, n) => secret(n),
        _ => false,
    }
}
impl Loggable for IggyError {
    open spec fn carries_secret(&self) -> bool { err_secret(*self) }
    open spec fn dbg_carries_secret(&self) -> bool { err_secret(*self) }
}
// HTTP: `#[error(transparent)] Error(#[from] IggyError)` (thiserror derives this From; Display delegates)
#[derive(Debug)]
pub enum CustomError { Error(IggyError), ResourceNotFound }
impl From<IggyError> for CustomError {
    fn from(e: IggyError) -> (r: CustomError) ensures r == CustomError::Error(e) { CustomError::Error(e) }
}
impl vstd::std_specs::convert::FromSpecImpl<IggyError> for CustomError {
    open spec fn obeys_from_spec() -> bool { true }
    open spec fn from_spec(v: IggyError) -> CustomError { CustomError::Error(v) }
}
pub open spec fn cerr_secret(e: CustomError) -> bool { e matches CustomError::Error(x) && err_secret(x) }
// TCP: `ConnectionError::SdkError(#[from] IggyError)`
#[derive(Debug)]
pub enum ConnectionError { IoError, SdkError(IggyError) }
impl From<IggyError> for ConnectionError {
    fn from(e: IggyError) -> (r: ConnectionError) ensures r == ConnectionError::SdkError(e) { ConnectionError::SdkError(e) }
}
impl vstd::std_specs::convert::FromSpecImpl<IggyError> for ConnectionError {
    open spec fn obeys_from_spec() -> bool { true }
    open spec fn from_spec(v: IggyError) -> ConnectionError { ConnectionError::SdkError(v) }
}
pub enum LoopStep { Continue, EndOfBody }
// A-std(`?`): the `?` operator converts the error with the `From` impl of the function's error type (as in unit log_sinks)
pub mod fromlem {
    use vstd::prelude::*;
    use super::*;
    #[verifier::external_body]
    pub broadcast proof fn axiom_from_custom(e: IggyError, c: CustomError)
        requires #[trigger] vstd::std_specs::control_flow::spec_from(e, c)
        ensures c == CustomError::Error(e) {}
    #[verifier::external_body]
    pub broadcast proof fn axiom_from_connection(e: IggyError, c: ConnectionError)
        requires #[trigger] vstd::std_specs::control_flow::spec_from(e, c)
        ensures c == ConnectionError::SdkError(e) {}
}
broadcast use fromlem::axiom_from_custom, fromlem::axiom_from_connection;

// --- values that are printed but are no message content -----------------------------------------------------------------------------
macro_rules! plain_values { ($($t:ident),*) => { verus! { $(
    #[derive(Clone, Copy, Debug)] pub struct $t(pub u64);
    impl Loggable for $t { open spec fn carries_secret(&self) -> bool { false } open spec fn dbg_carries_secret(&self) -> bool { false } }
)* } } }
// addresses, sizes, timestamps, the message state, the kind of a header value, the polling strategy (kind|value), the polling consumer
// (kind|id|partition), the confirmation level
plain_values!(SocketAddr, ByteSize, IggyTimestamp, MessageState, HeaderKind, Confirmation, ConsumerKind);
impl IggyTimestamp {
    #[verifier::external_body] pub fn now() -> (r: IggyTimestamp) { unimplemented!() }
    pub fn as_micros(&self) -> (r: u64) ensures r == self.0 { self.0 }
}
impl ByteSize {
    #[verifier::external_body] pub fn default() -> (r: ByteSize) { unimplemented!() }
    #[verifier::external_body] pub fn from(v: u64) -> (r: ByteSize) { unimplemented!() }
}
impl core::ops::AddAssign for ByteSize { #[verifier::external_body] fn add_assign(&mut self, rhs: ByteSize) { unimplemented!() } }
impl vstd::std_specs::ops::AddAssignSpecImpl for ByteSize {
    open spec fn obeys_add_assign_spec() -> bool { false }
    open spec fn add_assign_req(&self, rhs: ByteSize) -> bool { true }
    open spec fn add_assign_spec(&self, rhs: ByteSize) -> &ByteSize { self }
}
// R8 schema: a sum of message sizes is a size
#[verifier::external_body]
pub fn std_iter_sum_size_bytes(v: &Vec<Message>) -> (r: ByteSize) { unimplemented!() }
impl Message { #[verifier::external_body] pub fn get_size_bytes(&self) -> (r: ByteSize) { unimplemented!() } }

// Identifier (sdk): a number or a name of a stream / topic / consumer; Consumer: kind|id; Partitioning: kind|partition id or the
// partitioning key. None of them is message content (see `assumes`)
macro_rules! opaque_plain { ($($t:ident),*) => { verus! { $(
    #[verifier::external_body] #[derive(Debug)] pub struct $t { x: u8 }
    impl Loggable for $t { open spec fn carries_secret(&self) -> bool { false } open spec fn dbg_carries_secret(&self) -> bool { false } }
)* } } }
opaque_plain!(Identifier);
// Consumer (sdk/src/consumer.rs, extracted): its Display prints `{kind}|{id}`
impl Loggable for Consumer { open spec fn carries_secret(&self) -> bool { false } open spec fn dbg_carries_secret(&self) -> bool { false } }
// Session: client id, user id, address; its Display is proved payload-free in unit log_sinks ([C10.log.display.Session])
#[derive(Debug)]
pub struct Session { pub client_id: u32, pub uid: u32 }
impl Loggable for Session { open spec fn carries_secret(&self) -> bool { false } open spec fn dbg_carries_secret(&self) -> bool { false } }
impl Clone for Identifier { #[verifier::external_body] fn clone(&self) -> (r: Identifier) ensures r == *self { unimplemented!() } }
impl Identifier {
    #[verifier::external_body]
    pub fn from_str_value(value: &Name) -> (r: Result<Identifier, IggyError>) ensures r matches Err(e) ==> e == IggyError::InvalidIdentifier { unimplemented!() }
}
impl Consumer { #[verifier::external_body] pub fn new(id: Identifier) -> (r: Consumer) { unimplemented!() } }
impl Session {
    #[verifier::external_body] pub fn get_user_id(&self) -> (r: u32) { unimplemented!() }
    #[verifier::external_body] pub fn stateless(user_id: u32, ip_address: SocketAddr) -> (r: Session) { unimplemented!() }
}

// --- the header map of a message (`HashMap<HeaderKey, HeaderValue>`): opaque; `hdrs_clear(h)`: some VALUE in it is protected content.
// HashMap has no Display; its Debug prints every key and value
#[verifier::external_body]
#[derive(Debug)]
pub struct Headers { x: u8 }
pub uninterp spec fn hdrs_clear(h: Headers) -> bool;
impl Loggable for Headers {
    open spec fn carries_secret(&self) -> bool { hdrs_clear(*self) }
    open spec fn dbg_carries_secret(&self) -> bool { hdrs_clear(*self) }
}
impl Clone for Headers { #[verifier::external_body] fn clone(&self) -> (r: Headers) ensures r == *self { unimplemented!() } }

// --- INPUT MARKING: the premise of C19. `on`: the server has an encryptor --------------------------------------------------------------
pub open spec fn msg_marked(on: bool, m: Message) -> bool {
    &&& clear(m.payload) == on
    &&& m.headers matches Some(h) ==> hdrs_clear(h) == on
}
pub open spec fn msgs_marked(on: bool, s: Seq<Message>) -> bool { forall|i: int| 0 <= i < s.len() ==> msg_marked(on, #[trigger] s[i]) }
// a message in its STORED form: the payload is whatever the storage layer holds (a ciphertext when encryption is on: unit encryption
// [C19.sink-msg]); the header values are stored as sent
pub open spec fn msg_stored(m: Message) -> bool { !clear(m.payload) }
pub open spec fn msgs_stored(s: Seq<Message>) -> bool { forall|i: int| 0 <= i < s.len() ==> msg_stored(#[trigger] s[i]) }
pub open spec fn polled_stored(pm: PolledMessages) -> bool { forall|i: int| 0 <= i < pm.messages@.len() ==> !clear((#[trigger] pm.messages@[i]).payload) }

// what `{message}` / `{message:?}` print. Display: the REAL `impl Display for Message` is under contract here
// ([C19.log.display.Message]: the id and the payload text - nothing else, in particular no header value); derive(Debug) prints every field
impl Loggable for Message {
    open spec fn carries_secret(&self) -> bool { clear(self.payload) }
    open spec fn dbg_carries_secret(&self) -> bool { clear(self.payload) || (self.headers matches Some(h) && hdrs_clear(h)) }
}
// PolledMessage / PolledMessages have no Display; derive(Debug) prints every field
impl Loggable for PolledMessage {
    open spec fn carries_secret(&self) -> bool { clear(self.payload) || (self.headers matches Some(h) && hdrs_clear(h)) }
    open spec fn dbg_carries_secret(&self) -> bool { clear(self.payload) || (self.headers matches Some(h) && hdrs_clear(h)) }
}
pub open spec fn polled_any_clear(pm: PolledMessages) -> bool {
    exists|i: int| 0 <= i < pm.messages@.len() && (#[trigger] pm.messages@[i]).dbg_carries_secret()
}
impl Loggable for PolledMessages {
    open spec fn carries_secret(&self) -> bool { polled_any_clear(*self) }
    open spec fn dbg_carries_secret(&self) -> bool { polled_any_clear(*self) }
}
// `pub struct HeaderKey(String);` (sdk/src/models/header.rs:15; a tuple struct, which R12 does not copy): the same shape over the string stand-in
#[derive(Debug)]
pub struct HeaderKey(pub Name);
// HeaderKey: the name of a header (not a value). HeaderValue: `{}` is under contract here ([C19.log.display.HeaderValue]); Debug prints the bytes
impl Loggable for HeaderKey {
    open spec fn carries_secret(&self) -> bool { false }
    open spec fn dbg_carries_secret(&self) -> bool { false }
}
impl Loggable for HeaderValue {
    open spec fn carries_secret(&self) -> bool { clear(self.value) }
    open spec fn dbg_carries_secret(&self) -> bool { clear(self.value) }
}
impl HeaderValue {
    // sdk/src/models/header.rs:530: the text of the value according to its kind (`format!("{}", String::from_utf8_lossy(&self.value))`, ...)
    #[verifier::external_body] pub fn value_only_to_string(&self) -> (r: Name) ensures secret(r) == clear(self.value) { unimplemented!() }
}
// `{command}` of the two message commands: relies on [C19.log.display.SendMessages] / [C19.log.display.PollMessages] (the real Display
// impls, under contract here: ids, partitioning, counts, sizes). derive(Debug) prints every field, hence every message
pub open spec fn send_any_clear(c: SendMessages) -> bool {
    exists|i: int| 0 <= i < c.messages@.len() && (#[trigger] c.messages@[i]).dbg_carries_secret()
}
impl Loggable for SendMessages {
    open spec fn carries_secret(&self) -> bool { false }
    open spec fn dbg_carries_secret(&self) -> bool { send_any_clear(*self) }
}
impl Loggable for PollMessages {
    open spec fn carries_secret(&self) -> bool { false }
    open spec fn dbg_carries_secret(&self) -> bool { false }
}
pub open spec fn send_marked(on: bool, c: SendMessages) -> bool { msgs_marked(on, c.messages@) }

// --- the AEAD wrapper (sdk/src/utils/crypto.rs; unit encryption has it under contract relative to A-dep(AES-GCM)) -----------------------
#[verifier::external_body]
pub struct Aes256GcmEncryptor { x: u8 }
pub enum EncryptorKind { Aes256Gcm(Aes256GcmEncryptor) }
impl Aes256GcmEncryptor {
    // base64 text -> 32 key bytes -> cipher object; errors: InvalidFormat / InvalidEncryptionKey (field-less). The encryptor's Debug
    // prints the word "Encryptor" only (sdk/src/utils/crypto.rs:36)
    #[verifier::external_body] pub fn from_base64_key(key: &Name) -> (r: Result<Aes256GcmEncryptor, IggyError>) ensures r matches Err(e) ==> !err_secret(e) { unimplemented!() }
}
impl EncryptorKind {
    // A-dep(one-way): a ciphertext is not clear content. Errors: CannotEncryptData
    #[verifier::external_body]
    pub fn encrypt(&self, data: &Blob) -> (r: Result<RawBytes, IggyError>)
        ensures match r { Ok(c) => !raw_clear(c), Err(e) => !err_secret(e) },
    { unimplemented!() }
    // what decryption returns IS the clear content. Errors: CannotDecryptData
    #[verifier::external_body]
    pub fn decrypt(&self, data: &Blob) -> (r: Result<RawBytes, IggyError>)
        ensures match r { Ok(p) => raw_clear(p), Err(e) => !err_secret(e) },
    { unimplemented!() }
}

// --- collaborators of the System functions (never see a message, or see it in stored form) ---------------------------------------------
pub const COMPONENT: &'static str = "COMPONENT";
#[verifier::external_body]
pub struct Permissioner { x: u8 }
impl Permissioner {
    #[verifier::external_body] pub fn poll_messages(&self, user_id: u32, stream_id: u32, topic_id: u32) -> (r: Result<(), IggyError>) ensures r matches Err(e) ==> !err_secret(e) { unimplemented!() }
    #[verifier::external_body] pub fn append_messages(&self, user_id: u32, stream_id: u32, topic_id: u32) -> (r: Result<(), IggyError>) ensures r matches Err(e) ==> !err_secret(e) { unimplemented!() }
}
#[verifier::external_body]
pub struct Metrics { x: u8 }
impl Metrics { #[verifier::external_body] pub fn increment_messages(&self, n: u64) { unimplemented!() } }
#[verifier::external_body]
pub struct CacheMemoryTracker { x: u8 }
impl CacheMemoryTracker {
    #[verifier::external_body] pub fn get_instance() -> (r: Option<CacheMemoryTracker>) { unimplemented!() }
    #[verifier::external_body] pub fn will_fit_into_cache(&self, requested_size: ByteSize) -> (r: bool) { unimplemented!() }
}
// the storage layer below System (C01/C02's subject; its own log sites: see the Topic / Partition blocks of contracts.vspec)
impl Topic {
    #[verifier::external_body]
    pub fn resolve_consumer_with_partition_id(&self, consumer: &Consumer, client_id: u32, partition_id: Option<u32>, calculate_partition_id: bool)
        -> (r: Result<Option<(PollingConsumer, u32)>, IggyError>) ensures r matches Err(e) ==> !err_secret(e) { unimplemented!() }
    #[verifier::external_body]
    pub fn store_consumer_offset_internal(&self, consumer: PollingConsumer, offset: u64, partition_id: u32) -> (r: Result<(), IggyError>) ensures r matches Err(e) ==> !err_secret(e) { unimplemented!() }
}
impl System {
    #[verifier::external_body] pub fn ensure_authenticated(&self, session: &Session) -> (r: Result<(), IggyError>) ensures r matches Err(e) ==> !err_secret(e) { unimplemented!() }
    #[verifier::external_body] pub fn find_topic(&self, session: &Session, stream_id: &Identifier, topic_id: &Identifier) -> (r: Result<&Topic, IggyError>) ensures match r { Ok(t) => topic_ok(t), Err(e) => !err_secret(e) } { unimplemented!() }
    #[verifier::external_body] pub fn clean_cache(&self, size_to_clean: ByteSize) { unimplemented!() }
}
impl Clone for System { #[verifier::external_body] fn clone(&self) -> (r: System) ensures r == *self { unimplemented!() } }
// R8 schema: `v.iter_mut()`: one exclusive reference per element, in order; the vector after the borrows end holds, at each index, the
// final value of that index's borrow (same stub as unit encryption)
#[verifier::external_body]
pub fn std_vec_iter_mut<'a, T>(v: &'a mut Vec<T>) -> (r: Vec<&'a mut T>)
    ensures
        final(v)@.len() == old(v)@.len(),
        r@.len() == old(v)@.len(),
        forall|i: int| 0 <= i < r@.len() ==> *#[trigger] r@[i] == old(v)@[i],
        forall|i: int| #![trigger r@[i]] #![trigger final(v)@[i]] 0 <= i < r@.len() ==> *final(r@[i]) == final(v)@[i],
{ unimplemented!() }

// --- the other 43 request types hold no message (sdk/src/**): opaque (unit log_sinks has the credential-carrying ones under contract) ---
macro_rules! opaque_cmds { ($($t:ident),*) => { verus! { $(
    #[verifier::external_body] #[derive(Debug)] pub struct $t { x: u8 }
    impl Loggable for $t { open spec fn carries_secret(&self) -> bool { false } open spec fn dbg_carries_secret(&self) -> bool { false } }
)* } } }
opaque_cmds!(Ping, GetStats, GetMe, GetClient, GetClients, GetUser, GetUsers, CreateUser, DeleteUser, UpdateUser, UpdatePermissions, ChangePassword,
    LoginUser, LogoutUser, GetPersonalAccessTokens, CreatePersonalAccessToken, DeletePersonalAccessToken, LoginWithPersonalAccessToken,
    FlushUnsavedBuffer, GetConsumerOffset, StoreConsumerOffset, DeleteConsumerOffset, GetStream, GetStreams, CreateStream,
    DeleteStream, UpdateStream, PurgeStream, GetTopic, GetTopics, CreateTopic, DeleteTopic, UpdateTopic, PurgeTopic, CreatePartitions, DeletePartitions,
    GetConsumerGroup, GetConsumerGroups, CreateConsumerGroup, DeleteConsumerGroup, JoinConsumerGroup, LeaveConsumerGroup, GetSnapshot);
// the command names (sdk/src/command.rs `pub const PING: &str = "ping"` ..): program constants
macro_rules! cmd_names { ($($c:ident),*) => { verus! { $( pub const $c: &'static str = "cmd"; )* } } }
cmd_names!(CHANGE_PASSWORD, CREATE_CONSUMER_GROUP, CREATE_PARTITIONS, CREATE_PERSONAL_ACCESS_TOKEN, CREATE_STREAM, CREATE_TOPIC, CREATE_USER,
    DELETE_CONSUMER_GROUP, DELETE_CONSUMER_OFFSET, DELETE_PARTITIONS, DELETE_PERSONAL_ACCESS_TOKEN, DELETE_STREAM, DELETE_TOPIC, DELETE_USER,
    FLUSH_UNSAVED_BUFFER, GET_CLIENTS, GET_CLIENT, GET_CONSUMER_GROUPS, GET_CONSUMER_GROUP, GET_CONSUMER_OFFSET, GET_ME, GET_PERSONAL_ACCESS_TOKENS,
    GET_SNAPSHOT_FILE, GET_STATS, GET_STREAMS, GET_STREAM, GET_TOPICS, GET_TOPIC, GET_USERS, GET_USER, JOIN_CONSUMER_GROUP, LEAVE_CONSUMER_GROUP,
    LOGIN_USER, LOGIN_WITH_PERSONAL_ACCESS_TOKEN, LOGOUT_USER, PING, POLL_MESSAGES, PURGE_STREAM, PURGE_TOPIC, SEND_MESSAGES, STORE_CONSUMER_OFFSET,
    UPDATE_PERMISSIONS, UPDATE_STREAM, UPDATE_TOPIC, UPDATE_USER);
// a ServerCommand is marked when the messages of a SendMessages are
pub open spec fn command_marked(on: bool, c: ServerCommand) -> bool {
    c matches ServerCommand::SendMessages(p) ==> send_marked(on, p)
}
// `{command}` of a ServerCommand: relies on [C19.log.display.ServerCommand] (the real `impl Display for ServerCommand` delegates to the payload)
impl Loggable for ServerCommand {
    open spec fn carries_secret(&self) -> bool { false }
    open spec fn dbg_carries_secret(&self) -> bool { *self matches ServerCommand::SendMessages(p) && send_any_clear(p) }
}

// --- the configuration: the key is the secret; every other sub-configuration is opaque and key-free ------------------------------------
macro_rules! opaque_cfgs { ($($t:ident),*) => { verus! { $(
    #[verifier::external_body] #[derive(Debug)] pub struct $t { x: u8 }
    impl Loggable for $t { open spec fn carries_secret(&self) -> bool { false } open spec fn dbg_carries_secret(&self) -> bool { false } }
)* } } }
opaque_cfgs!(StateConfig, LoggingConfig, CacheConfig, StreamConfig, SegmentConfig, DataMaintenanceConfig,
    MessageSaverConfig, PersonalAccessTokenConfig, HeartbeatConfig, QuicConfig, TcpConfig, HttpConfig, TelemetryConfig);
// TopicConfig is extracted (Topic::append_messages reads `delete_oldest_segments`); its Display prints its own fields
impl Loggable for PartitionConfig { open spec fn carries_secret(&self) -> bool { false } open spec fn dbg_carries_secret(&self) -> bool { false } }
impl Loggable for TopicConfig { open spec fn carries_secret(&self) -> bool { false } open spec fn dbg_carries_secret(&self) -> bool { false } }
// `{config}`: rely on [C19.log.display.EncryptionConfig] / .SystemConfig / .ServerConfig (the real Display impls, under contract here);
// derive(Debug) prints every field, hence the key
impl Loggable for EncryptionConfig {
    open spec fn carries_secret(&self) -> bool { false }
    open spec fn dbg_carries_secret(&self) -> bool { secret(self.key) }
}
impl Loggable for SystemConfig {
    open spec fn carries_secret(&self) -> bool { false }
    open spec fn dbg_carries_secret(&self) -> bool { secret(self.encryption.key) }
}
impl Loggable for ServerConfig {
    open spec fn carries_secret(&self) -> bool { false }
    open spec fn dbg_carries_secret(&self) -> bool { secret(self.system.encryption.key) }
}

// --- the journal (server/src/state/file.rs). R6: atomics are plain cells; the persister is the I/O boundary -----------------------------
#[verifier::external_body] pub struct AtomicU64 { v: u64 }
#[verifier::external_body] pub struct AtomicU32 { v: u32 }
impl AtomicU64 {
    #[verifier::external_body] pub fn load(&self) -> (r: u64) { unimplemented!() }
    // std: fetch_add wraps; `fetch_add(1) + 1` in FileState::apply overflows only after 2^64 - 1 entries (A-size)
    #[verifier::external_body] pub fn fetch_add(&self, n: u64) -> (r: u64) ensures r < u64::MAX { unimplemented!() }
}
impl AtomicU32 { #[verifier::external_body] pub fn load(&self) -> (r: u32) { unimplemented!() } }
#[verifier::external_body]
pub struct PersisterKind { x: u8 }
impl PersisterKind {
    // I/O errors (CannotAppendToFile ..): no content
    #[verifier::external_body] pub fn append(&self, path: &Name, bytes: &Blob) -> (r: Result<(), IggyError>) ensures r matches Err(e) ==> !err_secret(e) { unimplemented!() }
}
// EntryCommand (server/src/state/command.rs): one of 19 catalogue / user commands. `cmd_clear(c)`: the CONTENT of the command (names,
// ids, permissions, hashes: what the journal stores encrypted) is protected - i.e. the journal has an encryptor.
// Its real Display (`CreateStream({command})` ..) delegates to the sdk Display of the payload, which prints that content
// (sdk/src/streams/create_stream.rs: `{stream_id}|{name}` ..): Display and Debug both carry the content
#[verifier::external_body]
#[derive(Debug)]
pub struct EntryCommand { x: u8 }
pub uninterp spec fn cmd_clear(c: EntryCommand) -> bool;
impl Loggable for EntryCommand {
    open spec fn carries_secret(&self) -> bool { cmd_clear(*self) }
    open spec fn dbg_carries_secret(&self) -> bool { cmd_clear(*self) }
}
impl EntryCommand {
    // the clear serialised form: code(4) ++ len(4) ++ payload
    #[verifier::external_body] pub fn to_bytes(&self) -> (r: Blob) ensures clear(r) == cmd_clear(*self) { unimplemented!() }
}
impl StateEntry {
    // a checksum is a number
    #[verifier::external_body]
    pub fn calculate_checksum(index: u64, term: u64, leader_id: u32, version: u32, flags: u64, timestamp: IggyTimestamp, user_id: u32,
                              context: &Blob, command: &Blob) -> (r: u32) { unimplemented!() }
    // the serialised entry holds the command bytes as they are in the entry
    #[verifier::external_body] pub fn to_bytes(&self) -> (r: Blob) ensures clear(r) == (clear(self.context) || clear(self.command)) { unimplemented!() }
}
// `{entry}`: relies on [C19.log.display.StateEntry] (numbers only); derive(Debug) prints the two buffers
impl Loggable for StateEntry {
    open spec fn carries_secret(&self) -> bool { false }
    open spec fn dbg_carries_secret(&self) -> bool { clear(self.context) || clear(self.command) }
}
#[verifier::external_body]
pub struct JwtManager { x: u8 }

// --- transport side: the socket is not a file of the server; its errors are I/O errors ---------------------------------------------------
#[verifier::external_body]
pub struct SenderKind { x: u8 }
impl SenderKind {
    #[verifier::external_body] pub fn send_ok_response(&mut self, payload: &Blob) -> (r: Result<(), IggyError>) ensures r matches Err(e) ==> !err_secret(e) { unimplemented!() }
    #[verifier::external_body] pub fn send_empty_ok_response(&mut self) -> (r: Result<(), IggyError>) ensures r matches Err(e) ==> !err_secret(e) { unimplemented!() }
    #[verifier::external_body] pub fn send_error_response(&mut self, error: IggyError) -> (r: Result<(), IggyError>) ensures r matches Err(e) ==> !err_secret(e) { unimplemented!() }
}
pub mod mapper {            // crate::binary::mapper: the response bytes of a poll hold the (decrypted) payloads - they go to the socket
    use super::*;
    #[verifier::external_body] pub fn map_polled_messages(polled_messages: &PolledMessages) -> (r: Blob) { unimplemented!() }
}
pub struct StatusCode(pub u16);
impl StatusCode {
    pub const CREATED: StatusCode = StatusCode(201);
}
pub struct Json<T>(pub T);
pub struct Query<T>(pub T);
// request validation (sdk Validatable): refuses with field-less errors (InvalidMessagesCount, TooBigMessagePayload, InvalidKeyValueLength ..)
impl ServerCommand { #[verifier::external_body] pub fn validate(&self) -> (r: Result<(), IggyError>) ensures r matches Err(e) ==> !err_secret(e) { unimplemented!() } }
// binary::command::try_handle dispatches to the 45 handlers. The two message handlers are under contract here
// ([C19.log.err.bin.*]: the error they return carries no content); the other 43 never see a message
#[verifier::external_body]
pub fn try_handle(command: ServerCommand, sender: &mut SenderKind, session: &Session, system: &System) -> (r: Result<(), IggyError>)
    ensures r matches Err(e) ==> !err_secret(e),
{ unimplemented!() }
// `command::handle(..)` in the connection loop IS the extracted binary::command::handle of this unit (no stub in between)
pub mod command { pub use super::command_handle as handle; }

// ================================ the storage layer: Topic ==================================================================================
// a message as the partition keeps it (server/src/streaming/models/messages.rs, extracted): payload in STORED form, headers serialised
pub open spec fn retained_stored(s: Seq<RetainedMessage>) -> bool { forall|i: int| 0 <= i < s.len() ==> !clear((#[trigger] s[i]).payload) }
// derive(Debug) prints every field
impl Loggable for RetainedMessage {
    open spec fn carries_secret(&self) -> bool { clear(self.payload) || (self.headers matches Some(h) && clear(h)) }
    open spec fn dbg_carries_secret(&self) -> bool { clear(self.payload) || (self.headers matches Some(h) && clear(h)) }
}
// R8 schema: `v.into_iter().map(|msg| msg.to_polled_message()).collect::<Result<Vec<_>, IggyError>>()`: the payload of each result is
// the payload of the retained message (RetainedMessage::to_polled_message: `payload: self.payload.clone()`); the only error is a header
// map that does not parse (field-less: InvalidHeaderKey / InvalidHeaderValue / InvalidNumberEncoding / InvalidCommand)
#[verifier::external_body]
pub fn std_into_iter_map_to_polled_collect(v: Vec<RetainedMessage>) -> (r: Result<Vec<PolledMessage>, IggyError>)
    ensures match r {
        Ok(o) => o@.len() == v@.len() && forall|i: int| 0 <= i < o@.len() ==> (#[trigger] o@[i]).payload == v@[i].payload,
        Err(e) => !err_secret(e),
    },
{ unimplemented!() }
// R4 + R5: `IggySharedMut<Partition>` -> PartitionLock: the lock together with the partition behind it; `.read()` / `.write()` are the
// identity (R5) and the partition's functions are reached through it. Their ASSUMED contracts here are the ones this unit proves of the
// real Partition functions ([C19.log.err.Partition.*], [C19.log.shape.Partition.*.stored])
pub struct PartitionLock { pub current_offset: u64, pub partition_id: u32 }
impl PartitionLock {
    #[verifier::external_body]
    pub fn get_messages_by_offset(&self, start_offset: u64, count: u32) -> (r: Result<Vec<RetainedMessage>, IggyError>)
        ensures match r { Ok(v) => retained_stored(v@), Err(e) => !err_secret(e) } { unimplemented!() }
    #[verifier::external_body]
    pub fn get_messages_by_timestamp(&self, timestamp: IggyTimestamp, count: u32) -> (r: Result<Vec<RetainedMessage>, IggyError>)
        ensures match r { Ok(v) => retained_stored(v@), Err(e) => !err_secret(e) } { unimplemented!() }
    #[verifier::external_body]
    pub fn get_first_messages(&self, count: u32) -> (r: Result<Vec<RetainedMessage>, IggyError>)
        ensures match r { Ok(v) => retained_stored(v@), Err(e) => !err_secret(e) } { unimplemented!() }
    #[verifier::external_body]
    pub fn get_last_messages(&self, count: u32) -> (r: Result<Vec<RetainedMessage>, IggyError>)
        ensures match r { Ok(v) => retained_stored(v@), Err(e) => !err_secret(e) } { unimplemented!() }
    #[verifier::external_body]
    pub fn get_next_messages(&self, consumer: PollingConsumer, count: u32) -> (r: Result<Vec<RetainedMessage>, IggyError>)
        ensures match r { Ok(v) => retained_stored(v@), Err(e) => !err_secret(e) } { unimplemented!() }
    #[verifier::external_body]
    pub fn append_messages(&self, appendable_batch_info: AppendableBatchInfo, messages: Vec<Message>, confirmation: Option<Confirmation>) -> (r: Result<(), IggyError>)
        requires
            msgs_stored(messages@), //@requires [C19.log.stored.partition]
        ensures r matches Err(e) ==> !err_secret(e) { unimplemented!() }
}
impl From<u64> for IggyTimestamp { fn from(v: u64) -> (r: IggyTimestamp) ensures r == IggyTimestamp(v) { IggyTimestamp(v) } }
impl vstd::std_specs::convert::FromSpecImpl<u64> for IggyTimestamp {
    open spec fn obeys_from_spec() -> bool { true }
    open spec fn from_spec(v: u64) -> IggyTimestamp { IggyTimestamp(v) }
}
// the polling strategy / partitioning of a request (sdk, extracted): kind and a number / the partitioning key - no message content
impl Loggable for PollingStrategy { open spec fn carries_secret(&self) -> bool { false } open spec fn dbg_carries_secret(&self) -> bool { false } }
impl Loggable for PollingKind { open spec fn carries_secret(&self) -> bool { false } open spec fn dbg_carries_secret(&self) -> bool { false } }
impl Loggable for Partitioning { open spec fn carries_secret(&self) -> bool { false } open spec fn dbg_carries_secret(&self) -> bool { false } }
impl Loggable for PartitioningKind { open spec fn carries_secret(&self) -> bool { false } open spec fn dbg_carries_secret(&self) -> bool { false } }
impl Clone for Partitioning { #[verifier::external_body] fn clone(&self) -> (r: Partitioning) ensures r == *self { unimplemented!() } }
// the only raw byte slices in this unit's text are partitioning keys (`messages_key`; payloads and header values are the opaque Blob)
impl Loggable for [u8] { open spec fn carries_secret(&self) -> bool { false } open spec fn dbg_carries_secret(&self) -> bool { false } }
// valid input: the declared length of the partitioning value lies inside the value (SendMessages::from_bytes / the HTTP handler set
// `length = value.len()`; unit partitioning, C17)
pub open spec fn part_ok(p: Partitioning) -> bool { p.length <= p.value@.len() }
// a topic has at most MAX_PARTITIONS_COUNT partitions (unit partitioning: pwf)
pub open spec fn topic_ok(t: &Topic) -> bool { t.partitions@.dom().finite() && t.partitions@.len() <= 100_000 }
// R6: atomics as plain cells
impl AtomicU32 {
    #[verifier::external_body] pub fn fetch_add(&self, n: u32) -> (r: u32) { unimplemented!() }
    #[verifier::external_body] pub fn swap(&self, n: u32) -> (r: u32) { unimplemented!() }
}
impl Topic {
    // size limit reached (topics/topic.rs:133; unit topic_limit, C15)
    #[verifier::external_body] pub fn is_full(&self) -> (r: bool) { unimplemented!() }
}
pub mod hash {
    use vstd::prelude::*;
    #[verifier::external_body] pub fn calculate_32(data: &[u8]) -> (r: u32) { unimplemented!() }
}
// A-std (as in unit partitioning): `<[u8; 4]>::try_from(&[u8])` + `Result::map_err(|_| E)` (R8 schema, E lifted verbatim), `u32::from_le_bytes`
#[verifier::external_body]
pub fn std_slice_try_into_array4_map_err(s: &[u8], e: IggyError) -> (r: Result<[u8; 4], IggyError>)
    ensures r matches Err(x) ==> x == e,
{ unimplemented!() }
#[verifier::external_body]
pub fn std_u32_from_le_bytes(a: [u8; 4]) -> (r: u32) { unimplemented!() }
impl AppendableBatchInfo { }

// ================================ the storage layer: Partition ==============================================================================
// `{consumer}` of a PollingConsumer (server/src/streaming/polling_consumer.rs:28): ids
impl Loggable for PollingConsumer { open spec fn carries_secret(&self) -> bool { false } open spec fn dbg_carries_secret(&self) -> bool { false } }
// `{self}` / `{segment}`: rely on [C19.log.display.Partition] / [C19.log.display.Segment] (the real Display impls, under contract here:
// ids, offsets, sizes and the partition's path); neither type has a derived Debug
impl Loggable for Partition { open spec fn carries_secret(&self) -> bool { false } open spec fn dbg_carries_secret(&self) -> bool { false } }
impl Loggable for Segment { open spec fn carries_secret(&self) -> bool { false } open spec fn dbg_carries_secret(&self) -> bool { false } }
// the paths of a partition are built from the configured system path and numeric ids (Partition::create)
pub open spec fn part_ok_paths(p: &Partition) -> bool { !secret(p.partition_path) }
// the segment tier (units read_segment / offsets / log_writer own it): what it returns is what was stored; its errors are I/O and
// format errors (numbers, paths)
impl Segment {
    #[verifier::external_body]
    pub fn get_messages_by_offset(&self, offset: u64, count: u32) -> (r: Result<Vec<RetainedMessage>, IggyError>)
        ensures match r { Ok(v) => retained_stored(v@) && v@.len() <= count, Err(e) => !err_secret(e) } { unimplemented!() }
    #[verifier::external_body]
    pub fn get_messages_by_timestamp(&self, start_timestamp: u64, count: usize) -> (r: Result<Vec<RetainedMessage>, IggyError>)
        ensures match r { Ok(v) => retained_stored(v@) && v@.len() <= count, Err(e) => !err_secret(e) } { unimplemented!() }
    #[verifier::external_body]
    pub fn append_batch(&mut self, batch_size: ByteSize, messages_count: u32, batch: &Vec<RetainedMessage>) -> (r: Result<(), IggyError>)
        ensures r matches Err(e) ==> !err_secret(e) { unimplemented!() }
    #[verifier::external_body] pub fn is_full(&self) -> (r: bool) { unimplemented!() }
    #[verifier::external_body]
    pub fn persist_messages(&mut self, confirmation: Option<Confirmation>) -> (r: Result<usize, IggyError>)
        ensures r matches Err(e) ==> !err_secret(e) { unimplemented!() }
}
// R9 (listed site, as in unit offsets): a failed save inside append_messages panics the task - divergence, nothing is logged by the unwrap
#[verifier::external_body]
pub fn unwrap_or_diverge<T>(r: Result<T, IggyError>) -> (v: T) ensures r == Ok::<T, IggyError>(v) { unimplemented!() }
#[verifier::external_body]
pub struct MsgCache { x: u8 }
impl MsgCache {
    #[verifier::external_body] pub fn extend(&mut self, v: Vec<RetainedMessage>) { unimplemented!() }
    #[verifier::external_body] pub fn is_empty(&self) -> (r: bool) { unimplemented!() }
    // `cache[i]` (impl Index<usize> for SmartCache): a cached message is a stored message
    #[verifier::external_body] pub fn index(&self, i: usize) -> (r: &RetainedMessage) ensures !clear(r.payload) { unimplemented!() }
    #[verifier::external_body] pub fn record_hit(&self) { unimplemented!() }
    #[verifier::external_body] pub fn record_miss(&self) { unimplemented!() }
}
#[verifier::external_body]
pub struct MessageDeduplicator { x: u8 }
impl MessageDeduplicator { #[verifier::external_body] pub fn try_insert(&self, id: &u128) -> (r: bool) { unimplemented!() } }
pub fn arc_new<T>(x: T) -> (r: T) ensures r == x, { x }
#[verifier::external_body] pub fn now_micros() -> (r: u64) { unimplemented!() }
impl RetainedMessage {
    // server/src/streaming/models/messages.rs:54: `payload: message.payload`, `headers: message.headers.map(|h| h.to_bytes())`
    #[verifier::external_body]
    pub fn new(offset: u64, timestamp: u64, message: Message) -> (r: RetainedMessage)
        ensures r.payload == message.payload, r.id == message.id, r.offset == offset { unimplemented!() }
}
impl Clone for RetainedMessage { #[verifier::external_body] fn clone(&self) -> (r: RetainedMessage) ensures r == *self { unimplemented!() } }
impl From<u64> for ByteSize { #[verifier::external_body] fn from(v: u64) -> (r: ByteSize) { unimplemented!() } }
impl vstd::std_specs::convert::FromSpecImpl<u64> for ByteSize {
    open spec fn obeys_from_spec() -> bool { false }
    open spec fn from_spec(v: u64) -> ByteSize { arbitrary() }
}
impl core::ops::Add for ByteSize { type Output = ByteSize; #[verifier::external_body] fn add(self, rhs: ByteSize) -> (r: ByteSize) { unimplemented!() } }
impl vstd::std_specs::ops::AddSpecImpl<ByteSize> for ByteSize {
    open spec fn obeys_add_spec() -> bool { false }
    open spec fn add_req(self, rhs: ByteSize) -> bool { true }
    open spec fn add_spec(self, rhs: ByteSize) -> ByteSize { arbitrary() }
}
impl core::ops::SubAssign for ByteSize { #[verifier::external_body] fn sub_assign(&mut self, rhs: ByteSize) { unimplemented!() } }
impl vstd::std_specs::ops::SubAssignSpecImpl for ByteSize {
    open spec fn obeys_sub_assign_spec() -> bool { false }
    open spec fn sub_assign_req(&self, rhs: ByteSize) -> bool { true }
    open spec fn sub_assign_spec(&self, rhs: ByteSize) -> &ByteSize { self }
}
impl Partition {
    // partitions/segments.rs: creates and persists a new segment file; I/O errors
    #[verifier::external_body]
    pub fn add_persisted_segment(&mut self, start_offset: u64) -> (r: Result<(), IggyError>)
        ensures r matches Err(e) ==> !err_secret(e),
            final(self).partition_path == old(self).partition_path, final(self).current_offset == old(self).current_offset,
            final(self).should_increment_offset == old(self).should_increment_offset, final(self).unsaved_messages_count == old(self).unsaved_messages_count,
            final(self).segments@.len() > 0,
    { unimplemented!() }
    // unit read_partition owns the segment filter and the end offset (C02)
    #[verifier::external_body] pub fn get_end_offset(&self, offset: u64, count: u32) -> (r: u64) { unimplemented!() }
    #[verifier::external_body] pub fn filter_segments_by_offsets(&self, start_offset: u64, end_offset: u64) -> (r: Vec<&Segment>) { unimplemented!() }
    // reads the cache: stored messages; its three log sites print counts and offsets (partitions/messages.rs:300-350; read, not extracted)
    #[verifier::external_body]
    pub fn load_messages_from_cache(&self, start_offset: u64, end_offset: u64) -> (r: Vec<RetainedMessage>) ensures retained_stored(r@) { unimplemented!() }
}
// R8: Vec::extend(Vec): appends the elements in order
#[verifier::external_body]
pub fn vec_extend_vec<T>(v: &mut Vec<T>, items: Vec<T>) ensures final(v)@ == old(v)@ + items@ { unimplemented!() }

// ================================ the journal reader, the replayed state, start-up ==========================================================
pub enum LoadStep { Entry(StateEntry), Break }
impl IggyError { }
impl EntryCommand {
    // decoding errors are field-less (InvalidCommand, InvalidNumberEncoding, InvalidUtf8 ..)
    #[verifier::external_body] pub fn from_bytes(bytes: Blob) -> (r: Result<EntryCommand, IggyError>) ensures r matches Err(e) ==> !err_secret(e) { unimplemented!() }
}
// SystemState (server/src/state/system.rs, extracted): the catalogue and the users REPLAYED from the journal entries. Its real Display
// (system.rs:462) prints every stream, topic, consumer group and user with their names, its derived Debug every field (password hashes
// included): `replayed_clear(streams, users)` - the maps hold the clear content of journalled commands
#[verifier::external_body] #[derive(Debug)] pub struct StreamState { x: u8 }
#[verifier::external_body] #[derive(Debug)] pub struct UserState { x: u8 }
pub uninterp spec fn replayed_clear(streams: HashMap<u32, StreamState>, users: HashMap<u32, UserState>) -> bool;
impl Loggable for SystemState {
    open spec fn carries_secret(&self) -> bool { replayed_clear(self.streams, self.users) }
    open spec fn dbg_carries_secret(&self) -> bool { replayed_clear(self.streams, self.users) }
}
// server/src/lib.rs:31: "enabled" / "disabled"
#[verifier::external_body] pub fn map_toggle_str(enabled: bool) -> (r: &'static str) { unimplemented!() }
// R9 panic-as-divergence (as in unit encryption): with an unusable key the server refuses to start; the panic message of `unwrap()` is the
// error's Debug text (InvalidEncryptionKey / InvalidFormat: field-less), on stderr
pub trait UnwrapOrDiverge<T> { fn unwrap_or_diverge(self) -> T; }
impl<T, E> UnwrapOrDiverge<T> for Result<T, E> {
    #[verifier::external_body]
    fn unwrap_or_diverge(self) -> (v: T) ensures self == Ok::<T, E>(v) { unimplemented!() }
}

pub fn max_u64(a: u64, b: u64) -> (r: u64) ensures r == (if a >= b { a } else { b }), { if a >= b { a } else { b } }

// ---- HTTP id assignment (C18) ----
// R8 for-each schema: `v.iter_mut().for_each(|x| body)` is `for x in vec_iter_mut(&mut v) { body }`: one exclusive reference per element,
// in order; the vector afterwards has the same length and, at each index, the final value of that index's borrow (std semantics of
// `slice::iter_mut` + `Iterator::for_each`)
#[verifier::external_body]
pub fn vec_iter_mut<T>(v: &mut Vec<T>) -> (r: Vec<&mut T>)
    ensures
        r@.len() == old(v)@.len(),
        final(v)@.len() == old(v)@.len(),
        forall|i: int| 0 <= i < r@.len() ==> *#[trigger] r@[i] == old(v)@[i],
        forall|i: int| 0 <= i < r@.len() ==> *final(#[trigger] r@[i]) == final(v)@[i],
        // the same two facts, stated so that they are found from the vector's side (trigger terms)
        forall|i: int| 0 <= i < r@.len() ==> #[trigger] old(v)@[i] == *r@[i],
        forall|i: int| 0 <= i < r@.len() ==> #[trigger] final(v)@[i] == *final(r@[i]),
{ unimplemented!() }
pub mod random_id {
    // server/src/streaming/utils/random_id.rs (uuid crate): a fresh id; nothing is assumed about its value
    #[verifier::external_body]
    pub fn get_uuid() -> (r: u128) { unimplemented!() }
}
