// ---- unit prelude: wiring (C16: every shared counter handle is passed on in the position of the same role) ----
use std::sync::Arc;
#[derive(Clone, Copy)]
pub enum IggyExpiry { ServerDefault, ExpireDuration(u64), NeverExpire }
#[derive(Clone, Copy)]
pub struct IggyDuration { pub micros: u64 }
impl IggyDuration {
    #[verifier::external_body] pub fn is_zero(&self) -> (r: bool) ensures r == (self.micros == 0), { unimplemented!() }
    #[verifier::external_body] pub fn default() -> (r: IggyDuration) { unimplemented!() }
}
#[verifier::external_body] pub struct SegmentLogWriter { x: u8 }
#[verifier::external_body] pub struct SegmentLogReader { x: u8 }
#[verifier::external_body] pub struct SegmentIndexWriter { x: u8 }
#[verifier::external_body] pub struct SegmentIndexReader { x: u8 }
#[verifier::external_body] pub struct BatchAccumulator { x: u8 }
#[verifier::external_body] pub struct SystemStorage { x: u8 }
#[verifier::external_body] pub struct CacheMemoryTracker { x: u8 }
#[verifier::external_body] pub struct SmartCache { x: u8 }
#[verifier::external_body] pub struct MessageDeduplicator { x: u8 }
#[verifier::external_body] pub struct ConsumerGroup { x: u8 }
pub struct ConsumerOffset { pub consumer_id: u32, pub offset: u64 }

impl Counter {
    // Arc::new(AtomicU64::new(0)): a fresh cell
    #[verifier::external_body]
    pub fn new(v: u64) -> (r: Counter) ensures r.v == v, { unimplemented!() }
}
// bare AtomicU32 id allocators of Topic (not shared, not counters)
#[verifier::external_body] pub struct IdCell { x: u8 }
impl IdCell {
    #[verifier::external_body] pub fn new(v: u32) -> (r: IdCell) { unimplemented!() }
}
impl SmartCache {
    #[verifier::external_body] pub fn new() -> (r: SmartCache) { unimplemented!() }
}
impl CacheMemoryTracker {
    #[verifier::external_body]
    pub fn initialize(config: &CacheConfig) -> (r: Option<std::sync::Arc<CacheMemoryTracker>>) { unimplemented!() }
}
impl MessageDeduplicator {
    // what the id cache was built with (moka: max_capacity / time_to_live; A-dep(moka): a TTL of zero expires an id at
    // insertion, a capacity of zero admits none — either would make an ENABLED deduplication drop nothing)
    pub uninterp spec fn cap(&self) -> Option<u64>;
    pub uninterp spec fn ttl(&self) -> Option<IggyDuration>;
    #[verifier::external_body]
    pub fn new(max_entries: Option<u64>, ttl: Option<IggyDuration>) -> (r: MessageDeduplicator)
        ensures r.cap() == max_entries, r.ttl() == ttl,
    { unimplemented!() }
}
impl SystemConfig {
    #[verifier::external_body] pub fn get_segment_path(&self, stream_id: u32, topic_id: u32, partition_id: u32, start_offset: u64) -> (r: String) { unimplemented!() }
    #[verifier::external_body] pub fn get_partition_path(&self, stream_id: u32, topic_id: u32, partition_id: u32) -> (r: String) { unimplemented!() }
    #[verifier::external_body] pub fn get_offsets_path(&self, stream_id: u32, topic_id: u32, partition_id: u32) -> (r: String) { unimplemented!() }
    #[verifier::external_body] pub fn get_consumer_offsets_path(&self, stream_id: u32, topic_id: u32, partition_id: u32) -> (r: String) { unimplemented!() }
    #[verifier::external_body] pub fn get_consumer_group_offsets_path(&self, stream_id: u32, topic_id: u32, partition_id: u32) -> (r: String) { unimplemented!() }
    #[verifier::external_body] pub fn get_topic_path(&self, stream_id: u32, topic_id: u32) -> (r: String) { unimplemented!() }
    #[verifier::external_body] pub fn get_partitions_path(&self, stream_id: u32, topic_id: u32) -> (r: String) { unimplemented!() }
}
impl Segment {
    #[verifier::external_body] pub fn get_log_path(path: &str) -> (r: String) { unimplemented!() }
    #[verifier::external_body] pub fn get_index_path(path: &str) -> (r: String) { unimplemented!() }
}
pub open spec fn wadd32(a: u32, b: int) -> int { (a + b) % 0x1_0000_0000 }

// ---- the wiring vocabulary (from the property: a partition's figures are the sums over its segments, a topic's the sums
// over its partitions, a stream's the sums over its topics — so every child must hold ITS parents' cells, each in its role)
// a segment of partition p: stream/topic cells are the partition's, the "parent partition" cells are the partition's own
pub open spec fn seg_wired(s: &Segment, p: &Partition) -> bool {
    &&& s.size_of_parent_stream.cid == p.size_of_parent_stream.cid
    &&& s.size_of_parent_topic.cid == p.size_of_parent_topic.cid
    &&& s.size_of_parent_partition.cid == p.size_bytes.cid
    &&& s.messages_count_of_parent_stream.cid == p.messages_count_of_parent_stream.cid
    &&& s.messages_count_of_parent_topic.cid == p.messages_count_of_parent_topic.cid
    &&& s.messages_count_of_parent_partition.cid == p.messages_count.cid
}
pub open spec fn segs_wired(p: &Partition) -> bool {
    forall|i: int| 0 <= i < p.segments@.len() ==> seg_wired(#[trigger] &p.segments@[i], p)
}

// C14: the expiry a topic / partition / segment is created with: the server default stands for the configured expiry
pub open spec fn expiry_resolved(e: IggyExpiry, c: &SystemConfig) -> IggyExpiry {
    if e is ServerDefault { c.segment.message_expiry } else { e }
}
pub open spec fn part_expiry_is(p: &Partition, e: IggyExpiry, c: &SystemConfig) -> bool {
    &&& p.message_expiry == e
    &&& forall|i: int| 0 <= i < p.segments@.len() ==> (#[trigger] p.segments@[i]).message_expiry == expiry_resolved(e, c)
}
// C15: what Topic::get_max_topic_size must resolve a requested limit to (from the property statement: the server default
// stands for the configured limit; a limit smaller than one segment is rejected; anything else is kept as requested)
pub open spec fn limit_bytes(m: MaxTopicSize) -> u64 {
    match m { MaxTopicSize::Custom(b) => b, MaxTopicSize::Unlimited => u64::MAX, MaxTopicSize::ServerDefault => 0 }
}
pub open spec fn limit_rejected(m: MaxTopicSize, c: &SystemConfig) -> bool {
    m is Custom && limit_bytes(m) < c.segment.size
}
pub open spec fn limit_resolved(m: MaxTopicSize, c: &SystemConfig) -> MaxTopicSize {
    if m is ServerDefault { c.topic.max_size } else { m }
}
impl Default for CompressionAlgorithm {
    #[verifier::external_body] fn default() -> (r: Self) { unimplemented!() }
}
impl Segment {
    // Segment::persist: initialize_writing + initialize_reading — opens/creates the two files (A-io); only the four handles
    // (and the file-size cells they publish) change
    #[verifier::external_body]
    pub fn persist(&mut self) -> (r: Result<(), IggyErr>)
        ensures *final(self) == (Segment { log_writer: final(self).log_writer, log_reader: final(self).log_reader,
                    index_writer: final(self).index_writer, index_reader: final(self).index_reader,
                    log_size_bytes: final(self).log_size_bytes, index_size_bytes: final(self).index_size_bytes, ..*old(self) }),
    { unimplemented!() }
}
impl Partition {
    // Partition::persist -> storage.partition.save: creates the directories and persists every segment (Segment::persist)
    #[verifier::external_body]
    pub fn persist(&mut self) -> (r: Result<(), IggyErr>)
        ensures
            final(self).segments@.len() == old(self).segments@.len(),
            forall|i: int| 0 <= i < old(self).segments@.len() ==> #[trigger] final(self).segments@[i] == (Segment {
                    log_writer: final(self).segments@[i].log_writer, log_reader: final(self).segments@[i].log_reader,
                    index_writer: final(self).segments@[i].index_writer, index_reader: final(self).segments@[i].index_reader,
                    log_size_bytes: final(self).segments@[i].log_size_bytes, index_size_bytes: final(self).segments@[i].index_size_bytes,
                    ..old(self).segments@[i] }),
            *final(self) == (Partition { segments: final(self).segments, ..*old(self) }),
    { unimplemented!() }
}
impl Topic {
    // Topic::persist -> storage.topic.save: directories + Partition::persist through the partition locks; `&self`
    #[verifier::external_body]
    pub fn persist(&self) -> (r: Result<(), IggyErr>) { unimplemented!() }
}

// R8 schema: `v.sort_by(|a, b| a.K.cmp(&b.K))` — stable ascending sort by key K: a sorted permutation of the input
pub open spec fn sorted_by_key<T>(s: Seq<T>, key: spec_fn(T) -> u64) -> bool {
    forall|i: int, j: int| 0 <= i <= j < s.len() ==> key(#[trigger] s[i]) <= key(#[trigger] s[j])
}
pub trait VecSchemas<T> {
    spec fn sv(&self) -> Seq<T>;
    fn sort_by_key_spec(&mut self, key: Ghost<spec_fn(T) -> u64>)
        ensures
            final(self).sv().len() == old(self).sv().len(),
            sorted_by_key(final(self).sv(), key@),
            final(self).sv().to_multiset() == old(self).sv().to_multiset(),
            sorted_by_key(old(self).sv(), key@) ==> final(self).sv() == old(self).sv();
}
impl<T> VecSchemas<T> for Vec<T> {
    open spec fn sv(&self) -> Seq<T> { self@ }
    #[verifier::external_body]
    fn sort_by_key_spec(&mut self, key: Ghost<spec_fn(T) -> u64>) { unimplemented!() }
}

// a partition of topic t: "parent stream" cells are the topic's parent-stream cells, "parent topic" cells are the topic's own
pub open spec fn part_wired(p: &Partition, t: &Topic) -> bool {
    &&& p.messages_count_of_parent_stream.cid == t.messages_count_of_parent_stream.cid
    &&& p.messages_count_of_parent_topic.cid == t.messages_count.cid
    &&& p.size_of_parent_stream.cid == t.size_of_parent_stream.cid
    &&& p.size_of_parent_topic.cid == t.size_bytes.cid
    &&& p.segments_count_of_parent_stream.cid == t.segments_count_of_parent_stream.cid
}
pub open spec fn parts_wired(t: &Topic) -> bool {
    forall|k: u32| #[trigger] t.partitions@.contains_key(k) ==> part_wired(&t.partitions@[k], t) && segs_wired(&t.partitions@[k])
}
// a topic of stream s: its "parent stream" cells are the stream's own
pub open spec fn topic_wired(t: &Topic, s: &Stream) -> bool {
    &&& t.size_of_parent_stream.cid == s.size_bytes.cid
    &&& t.messages_count_of_parent_stream.cid == s.messages_count.cid
    &&& t.segments_count_of_parent_stream.cid == s.segments_count.cid
}
