// ---- lemmas: wiring — LINK harnesses: the contracts other units ASSUME for functions proved here, proved from the real ones ----
// Harness = the assuming unit's stub signature, its `ensures` copied VERBATIM from that unit's prelude.rs, body = ONE call of the real
// extracted function: Verus proves "real contract ==> assumed contract" on every run. Mirror any edit of the stub here.
impl Partition {
    // copied from units/consumer_offsets/prelude.rs, stub `Partition::add_persisted_segment` — every clause EXCEPT its first, `r is Ok`:
    // that one is the declared fault scope of that unit (DESIGN §6 C06/C07: persistence calls are assumed to succeed), not a fact about
    // the function (Segment::persist can fail, [C16.addseg.err]). This unit keeps the whole Partition, so the frame is the real one.
    // label: C16.link.consumer_offsets.add_persisted_segment
    pub fn link_consumer_offsets_add_persisted_segment(&mut self, start_offset: u64) -> (r: Result<(), IggyErr>)
        ensures
            final(self).consumer_offsets == old(self).consumer_offsets,
            final(self).consumer_group_offsets == old(self).consumer_group_offsets,
            final(self).storage == old(self).storage,
            final(self).consumer_offsets_path == old(self).consumer_offsets_path,
            final(self).consumer_group_offsets_path == old(self).consumer_group_offsets_path,
            final(self).current_offset == old(self).current_offset,
            final(self).should_increment_offset == old(self).should_increment_offset,
            final(self).unsaved_messages_count == old(self).unsaved_messages_count,
    {
        self.add_persisted_segment(start_offset)
    }
}
