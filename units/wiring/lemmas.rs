// ---- lemmas: wiring — LINK harnesses: the contracts other units ASSUME for functions proved here, proved from the real ones ----
// Harness = the assuming unit's stub signature, its `ensures` copied VERBATIM from that unit's prelude.rs, body = ONE call of the real
// extracted function: Verus proves "real contract ==> assumed contract" on every run. Mirror any edit of the stub here.
impl Partition {
    // copied from units/consumer_offsets/prelude.rs, stub `Partition::add_persisted_segment` — every clause EXCEPT its first, `r is Ok`:
    // that one is the declared fault scope of that unit (DESIGN §6 C06/C07: persistence calls are assumed to succeed), not a fact about
    // the function (Segment::persist can fail, [C16.addseg.err]). This unit keeps the whole Partition, so the frame is the real one.
    // label: C16.link.consumer_offsets.add_persisted_segment
    pub fn link_consumer_offsets_add_persisted_segment(&mut self, start_offset: u64) -> (r: Result<(), IggyErr>)
        ensures
            final(self).consumer_offsets == old(self).consumer_offsets,
            final(self).consumer_group_offsets == old(self).consumer_group_offsets,
            final(self).storage == old(self).storage,
            final(self).consumer_offsets_path == old(self).consumer_offsets_path,
            final(self).consumer_group_offsets_path == old(self).consumer_group_offsets_path,
            final(self).current_offset == old(self).current_offset,
            final(self).should_increment_offset == old(self).should_increment_offset,
            final(self).unsaved_messages_count == old(self).unsaved_messages_count,
    {
        self.add_persisted_segment(start_offset)
    }
}

// ---- link pass 2 (agent l2D): Topic::get_max_topic_size / Topic::get_message_expiry as units catalogue_maps and runtime_more assume them.
// There the verdict and the values are UNINTERPRETED functions of (request, config) over an opaque SystemConfig (`limit_ok`, `limit_value`,
// `expiry_value`); the link gives them their INTERPRETATION: what this unit proves of the real functions ([C15.valid.*], [C14.create.resolve]).
pub open spec fn limit_ok(m: MaxTopicSize, c: &SystemConfig) -> bool { !limit_rejected(m, c) }
pub open spec fn limit_value(m: MaxTopicSize, c: &SystemConfig) -> MaxTopicSize { limit_resolved(m, c) }
pub open spec fn expiry_value(e: IggyExpiry, c: &SystemConfig) -> IggyExpiry { expiry_resolved(e, c) }
impl Topic {
    // copied from units/catalogue_maps/prelude.rs, stub `Topic::get_max_topic_size` (units/runtime_more/prelude.rs holds the same text)
    // label: C15.link.catalogue_maps.get_max_topic_size
    pub fn link_catalogue_maps_get_max_topic_size(max_topic_size: MaxTopicSize, config: &SystemConfig) -> (r: Result<MaxTopicSize, IggyErr>)
        ensures r is Ok <==> limit_ok(max_topic_size, config), r matches Ok(v) ==> v == limit_value(max_topic_size, config),
    { Topic::get_max_topic_size(max_topic_size, config) }
    // copied from units/catalogue_maps/prelude.rs, stub `Topic::get_message_expiry` (units/runtime_more/prelude.rs holds the same text)
    // label: C14.link.catalogue_maps.get_message_expiry
    pub fn link_catalogue_maps_get_message_expiry(message_expiry: IggyExpiry, config: &SystemConfig) -> (r: IggyExpiry)
        ensures r == expiry_value(message_expiry, config),
    { Topic::get_message_expiry(message_expiry, config) }
}
impl Partition {
    // copied from units/catalogue_more/prelude.rs, stub `Partition::create` (there the shared cells are plain Counter64 / Counter32 stand-ins and
    // config / storage are opaque: the signature below is this unit's, the `ensures` is verbatim)
    // label: C16.link.catalogue_more.partition_create
    pub fn link_catalogue_more_partition_create(stream_id: u32, topic_id: u32, partition_id: u32, with_segment: bool, config: Arc<SystemConfig>, storage: Arc<SystemStorage>,
        message_expiry: IggyExpiry, messages_count_of_parent_stream: Counter, messages_count_of_parent_topic: Counter,
        size_of_parent_stream: Counter, size_of_parent_topic: Counter, segments_count_of_parent_stream: Counter32,
        created_at: IggyTimestamp) -> (r: Partition)
        ensures r.stream_id == stream_id && r.topic_id == topic_id && r.partition_id == partition_id,
    {
        Partition::create(stream_id, topic_id, partition_id, with_segment, config, storage, message_expiry, messages_count_of_parent_stream,
            messages_count_of_parent_topic, size_of_parent_stream, size_of_parent_topic, segments_count_of_parent_stream, created_at)
    }
}
