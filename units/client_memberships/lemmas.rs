// ---- lemmas: client_memberships (C06) — spec level, re-proved on every run ----
// They connect the whole-list postcondition `final == old.filter(keep)` of the cascade contracts to the three
// things the property says about a delete: nothing nested is left, no sibling is disturbed, and the
// "each membership at most once" invariant that join/leave rely on survives.

// label: C06.cascade.lemma.none_left
pub proof fn lemma_cascade_none_left(gs: Seq<ConsumerGroup>, keep: spec_fn(ConsumerGroup) -> bool)
    ensures forall|i: int| 0 <= i < gs.filter(keep).len() ==> keep(#[trigger] gs.filter(keep)[i]),
{
    gs.filter_lemma(keep);
}

// label: C06.cascade.lemma.siblings_kept
pub proof fn lemma_cascade_siblings_kept(gs: Seq<ConsumerGroup>, keep: spec_fn(ConsumerGroup) -> bool)
    ensures forall|i: int| 0 <= i < gs.len() && keep(gs[i]) ==> gs.filter(keep).contains(#[trigger] gs[i]),
{
    gs.filter_lemma(keep);
}

pub proof fn lemma_filter_subset(gs: Seq<ConsumerGroup>, keep: spec_fn(ConsumerGroup) -> bool)
    ensures forall|i: int| 0 <= i < gs.filter(keep).len() ==> gs.contains(#[trigger] gs.filter(keep)[i]),
    decreases gs.len(),
{
    reveal_with_fuel(Seq::filter, 2);
    if gs.len() > 0 {
        lemma_filter_subset(gs.drop_last(), keep);
        let f = gs.filter(keep);
        assert forall|i: int| 0 <= i < f.len() implies gs.contains(#[trigger] f[i]) by {
            if keep(gs.last()) && i == f.len() - 1 {
                assert(gs[gs.len() - 1] == f[i]);
            } else {
                let x = gs.drop_last().filter(keep)[i];
                assert(gs.drop_last().contains(x));
                let j = choose|j: int| 0 <= j < gs.drop_last().len() && gs.drop_last()[j] == x;
                assert(gs[j] == x);
            }
        }
    }
}

// label: C06.cascade.lemma.unique_preserved
pub proof fn lemma_cascade_unique_preserved(gs: Seq<ConsumerGroup>, keep: spec_fn(ConsumerGroup) -> bool)
    requires no_dup_memberships(gs),
    ensures no_dup_memberships(gs.filter(keep)),
    decreases gs.len(),
{
    reveal_with_fuel(Seq::filter, 2);
    if gs.len() > 0 {
        let dl = gs.drop_last();
        assert(no_dup_memberships(dl)) by {
            assert forall|i: int, j: int| 0 <= i < j < dl.len() implies dl[i] != dl[j] by {
                assert(gs[i] != gs[j]);
            }
        }
        lemma_cascade_unique_preserved(dl, keep);
        lemma_filter_subset(dl, keep);
        let f = gs.filter(keep);
        if keep(gs.last()) {
            assert forall|i: int, j: int| 0 <= i < j < f.len() implies f[i] != f[j] by {
                if j == f.len() - 1 {
                    let x = dl.filter(keep)[i];
                    assert(dl.contains(x));
                    let m = choose|m: int| 0 <= m < dl.len() && dl[m] == x;
                    assert(gs[m] != gs[gs.len() - 1]);
                }
            }
        }
    }
}

// label: C06.cascade.lemma.other_streams_untouched
// deleting stream s leaves a client that holds no membership in s exactly as it was
pub proof fn lemma_cascade_other_streams_untouched(gs: Seq<ConsumerGroup>, s: u32)
    requires forall|i: int| 0 <= i < gs.len() ==> (#[trigger] gs[i]).stream_id != s,
    ensures gs.filter(|g: ConsumerGroup| g.stream_id != s) == gs,
{
    seqlem::lemma_filter_all(gs, |g: ConsumerGroup| g.stream_id != s);
}

// ---- LINK harnesses: the contracts other units ASSUME for functions proved here, proved from the real ones ---------------------
// Each harness has the assuming unit's stub signature, its `requires` / `ensures` copied VERBATIM from that unit's prelude, and a
// body that is ONE call of the real extracted function (plus proof blocks calling proved lemmas): Verus proves
// "real contract ==> assumed contract" on every run. A later edit of a stub has to be mirrored here (and vice versa).
// The assuming units' `IggyError` stand-ins have more variants than this unit's: the stubs speak about `r is Ok` / `r is Err` only.
impl ClientManager {
    // copied from vx/prelude/disconnect.rs (shared prelude of units client_disconnect / user_disconnect), stub `ClientManager::delete_client`
    // label: C06.link.disconnect.delete_client
    pub fn link_disconnect_delete_client(&mut self, client_id: u32) -> (r: Option<Client>)
        ensures
            final(self).clients@ == old(self).clients@.remove(client_id),
            match r { Some(c) => old(self).clients@.contains_key(client_id) && c == old(self).clients@[client_id], None => !old(self).clients@.contains_key(client_id) },
    {
        self.delete_client(client_id)
    }

    // copied from vx/prelude/disconnect.rs, stub `ClientManager::join_consumer_group` (members_wf / is_member / same_membership there are
    // word-for-word this unit's prelude; `with_membership` is repeated below)
    // label: C06.link.disconnect.join_consumer_group
    pub fn link_disconnect_join_consumer_group(&mut self, client_id: u32, stream_id: u32, topic_id: u32, group_id: u32) -> (r: Result<(), IggyError>)
        requires members_wf(old(self)),
        ensures
            r is Err ==> final(self).clients@ == old(self).clients@,
            r is Ok <==> old(self).clients@.contains_key(client_id),
            map_frame_except(old(self).clients@, final(self).clients@, client_id),
            r is Ok ==> final(self).clients@[client_id].user_id == old(self).clients@[client_id].user_id && final(self).clients@[client_id].session == old(self).clients@[client_id].session
                && final(self).clients@[client_id].consumer_groups@ == with_membership(old(self).clients@[client_id].consumer_groups@, stream_id, topic_id, group_id),
            members_wf(final(self)),
    {
        self.join_consumer_group(client_id, stream_id, topic_id, group_id)
    }

    // copied from vx/prelude/disconnect.rs, stub `ClientManager::leave_consumer_group` (`without_membership` is repeated below)
    // label: C06.link.disconnect.leave_consumer_group
    pub fn link_disconnect_leave_consumer_group(&mut self, client_id: u32, stream_id: u32, topic_id: u32, consumer_group_id: u32) -> (r: Result<(), IggyError>)
        requires members_wf(old(self)),
        ensures
            r is Err ==> final(self).clients@ == old(self).clients@,
            r is Ok <==> old(self).clients@.contains_key(client_id),
            map_frame_except(old(self).clients@, final(self).clients@, client_id),
            r is Ok ==> final(self).clients@[client_id].user_id == old(self).clients@[client_id].user_id && final(self).clients@[client_id].session == old(self).clients@[client_id].session
                && final(self).clients@[client_id].consumer_groups@ == without_membership(old(self).clients@[client_id].consumer_groups@, stream_id, topic_id, consumer_group_id),
            members_wf(final(self)),
    {
        self.leave_consumer_group(client_id, stream_id, topic_id, consumer_group_id)
    }

    // copied from units/catalogue_more/prelude.rs, stub `ClientManager::delete_clients_for_user` (`cm_keys_wf` there is this unit's `keys_wf`,
    // repeated below under its name there)
    // label: C06.link.catalogue_more.delete_clients_for_user
    pub fn link_catalogue_more_delete_clients_for_user(&mut self, user_id: u32) -> (r: Result<(), IggyError>)
        requires cm_keys_wf(old(self)),
        ensures
            r is Ok,
            forall|k: u32| #[trigger] final(self).clients@.contains_key(k)
                <==> (old(self).clients@.contains_key(k) && old(self).clients@[k].user_id != Some(user_id)),
            forall|k: u32| #[trigger] final(self).clients@.contains_key(k) ==> final(self).clients@[k] == old(self).clients@[k],
    {
        self.delete_clients_for_user(user_id)
    }

    // copied from units/catalogue_more/prelude.rs, stub `ClientManager::delete_consumer_groups_for_topic` (`without_topic` repeated below)
    // label: C06.link.catalogue_more.delete_consumer_groups_for_topic
    pub fn link_catalogue_more_delete_consumer_groups_for_topic(&mut self, stream_id: u32, topic_id: u32)
        ensures
            final(self).clients@.dom() == old(self).clients@.dom(),
            forall|k: u32| #[trigger] final(self).clients@.contains_key(k) ==>
                final(self).clients@[k].user_id == old(self).clients@[k].user_id && final(self).clients@[k].session == old(self).clients@[k].session
                && final(self).clients@[k].consumer_groups@ == without_topic(old(self).clients@[k].consumer_groups@, stream_id, topic_id),
    {
        self.delete_consumer_groups_for_topic(stream_id, topic_id)
    }

    // copied from units/catalogue_more/prelude.rs, stub `ClientManager::delete_consumer_groups_for_stream` (`without_stream` repeated below)
    // label: C06.link.catalogue_more.delete_consumer_groups_for_stream
    pub fn link_catalogue_more_delete_consumer_groups_for_stream(&mut self, stream_id: u32)
        ensures
            final(self).clients@.dom() == old(self).clients@.dom(),
            forall|k: u32| #[trigger] final(self).clients@.contains_key(k) ==>
                final(self).clients@[k].user_id == old(self).clients@[k].user_id && final(self).clients@[k].session == old(self).clients@[k].session
                && final(self).clients@[k].consumer_groups@ == without_stream(old(self).clients@[k].consumer_groups@, stream_id),
    {
        self.delete_consumer_groups_for_stream(stream_id)
    }
}
// (vocabulary of vx/prelude/disconnect.rs used by the copied clauses, repeated word for word)
pub open spec fn with_membership(gs: Seq<ConsumerGroup>, sid: u32, tid: u32, gid: u32) -> Seq<ConsumerGroup> {
    if is_member(gs, sid, tid, gid) { gs } else { gs.push(ConsumerGroup { stream_id: sid, topic_id: tid, group_id: gid }) }
}
pub open spec fn without_membership(gs: Seq<ConsumerGroup>, sid: u32, tid: u32, gid: u32) -> Seq<ConsumerGroup> {
    gs.filter(|g: ConsumerGroup| !same_membership(g, sid, tid, gid))
}
// (vocabulary of units/catalogue_more/prelude.rs used by the copied clauses, repeated word for word)
pub open spec fn cm_keys_wf(cm: &ClientManager) -> bool {
    forall|k: u32| #[trigger] cm.clients@.contains_key(k) ==> cm.clients@[k].session.client_id == k
}
pub open spec fn without_topic(gs: Seq<ConsumerGroup>, sid: u32, tid: u32) -> Seq<ConsumerGroup> {
    gs.filter(|g: ConsumerGroup| !(g.stream_id == sid && g.topic_id == tid))
}
pub open spec fn without_stream(gs: Seq<ConsumerGroup>, sid: u32) -> Seq<ConsumerGroup> {
    gs.filter(|g: ConsumerGroup| g.stream_id != sid)
}

// ---- units catalogue_maps / runtime_more: `purged_streams()` ---------------------------------------------------------------------
// In those units the client manager is an opaque stand-in and `purged_streams()` an UNINTERPRETED ghost record ("the stream ids whose
// memberships were purged"); their stub of delete_consumer_groups_for_stream only says that the call adds `stream_id` to it. The link
// gives the record an INTERPRETATION over the real client table (a projection): a stream id is purged when NO client holds a membership
// nested in that stream. Under it the stub's clause is a fact about the state, proved from [C06.cascade.stream]: afterwards no
// membership in `stream_id` is left (<=), and for every other stream "some client is a member" is unchanged (=>).
pub open spec fn no_membership_in(cm: &ClientManager, s: u32) -> bool {
    forall|k: u32, i: int| #![trigger cm.clients@[k].consumer_groups@[i]] cm.clients@.contains_key(k) && 0 <= i < cm.clients@[k].consumer_groups@.len()
        ==> cm.clients@[k].consumer_groups@[i].stream_id != s
}
impl ClientManager {
    pub open spec fn purged_streams(&self) -> Set<u32> {
        Set::<u32>::from_finite_type(|s: u32| no_membership_in(self, s))
    }

    // copied from units/catalogue_maps/prelude.rs, stub `ClientManager::delete_consumer_groups_for_stream`
    // label: C06.link.catalogue_maps.delete_consumer_groups_for_stream
    pub fn link_catalogue_maps_delete_consumer_groups_for_stream(&mut self, stream_id: u32)
        ensures final(self).purged_streams() == old(self).purged_streams().insert(stream_id),
    {
        self.delete_consumer_groups_for_stream(stream_id);
        proof { lemma_purged_after_cascade(old(self), self, stream_id); }
    }

    // copied from units/runtime_more/prelude.rs, stub `ClientManager::delete_consumer_groups_for_stream` (the same text as in catalogue_maps; no
    // clause of runtime_more (C05) reads the record, the label carries this unit's property so that the registered check counts it)
    // label: C06.link.runtime_more.delete_consumer_groups_for_stream
    pub fn link_runtime_more_delete_consumer_groups_for_stream(&mut self, stream_id: u32)
        ensures final(self).purged_streams() == old(self).purged_streams().insert(stream_id),
    {
        self.delete_consumer_groups_for_stream(stream_id);
        proof { lemma_purged_after_cascade(old(self), self, stream_id); }
    }
}
// [C06.cascade.stream.clients] + [C06.cascade.stream]  ==>  the purged record grows by exactly `sid`
pub proof fn lemma_purged_after_cascade(a: &ClientManager, b: &ClientManager, sid: u32)
    requires
        b.clients@.dom() == a.clients@.dom(),
        forall|k: u32| #[trigger] b.clients@.contains_key(k) ==>
            b.clients@[k].consumer_groups@ == a.clients@[k].consumer_groups@.filter(|g: ConsumerGroup| g.stream_id != sid),
    ensures b.purged_streams() == a.purged_streams().insert(sid),
{
    let keep = |g: ConsumerGroup| g.stream_id != sid;
    assert forall|s: u32| no_membership_in(b, s) <==> (s == sid || no_membership_in(a, s)) by {
        if s == sid || no_membership_in(a, s) {
            assert forall|k: u32, i: int| #![trigger b.clients@[k].consumer_groups@[i]] b.clients@.contains_key(k) && 0 <= i < b.clients@[k].consumer_groups@.len()
                implies b.clients@[k].consumer_groups@[i].stream_id != s by {
                let ga = a.clients@[k].consumer_groups@;
                assert(a.clients@.dom().contains(k));
                assert(b.clients@[k].consumer_groups@ == ga.filter(keep));
                lemma_cascade_none_left(ga, keep);
                lemma_filter_subset(ga, keep);
                let x = ga.filter(keep)[i];
                assert(keep(x));
                assert(ga.contains(x));
                let j = choose|j: int| 0 <= j < ga.len() && ga[j] == x;
                assert(a.clients@[k].consumer_groups@[j] == x);
            }
        }
        if no_membership_in(b, s) && s != sid {
            assert forall|k: u32, i: int| #![trigger a.clients@[k].consumer_groups@[i]] a.clients@.contains_key(k) && 0 <= i < a.clients@[k].consumer_groups@.len()
                implies a.clients@[k].consumer_groups@[i].stream_id != s by {
                let ga = a.clients@[k].consumer_groups@;
                assert(b.clients@.dom().contains(k));
                assert(b.clients@.contains_key(k));
                assert(b.clients@[k].consumer_groups@ == ga.filter(keep));
                if ga[i].stream_id == s {
                    assert(keep(ga[i]));
                    lemma_cascade_siblings_kept(ga, keep);
                    assert(ga.filter(keep).contains(ga[i]));
                    let j = choose|j: int| 0 <= j < ga.filter(keep).len() && ga.filter(keep)[j] == ga[i];
                    assert(b.clients@[k].consumer_groups@[j].stream_id == s);
                }
            }
        }
    }
    assert(b.purged_streams() =~= a.purged_streams().insert(sid));
}

// ---- unit alloc_runtime: opaque client manager, `cm_inv` -----------------------------------------------------------------------------
// (interpretation of units/alloc_runtime/prelude.rs `cm_inv`, UNINTERPRETED there over an opaque stand-in; the same conjunction as in
// units/user_disconnect/lemmas.rs; `cm_ids_nonzero` is vx/prelude/disconnect.rs word for word)
pub open spec fn cm_ids_nonzero(cm: &ClientManager) -> bool {
    forall|k: u32, i: int| #![trigger cm.clients@[k].consumer_groups@[i]] cm.clients@.contains_key(k) && 0 <= i < cm.clients@[k].consumer_groups@.len()
        ==> cm.clients@[k].consumer_groups@[i].stream_id != 0 && cm.clients@[k].consumer_groups@[i].topic_id != 0 && cm.clients@[k].consumer_groups@[i].group_id != 0
}
pub open spec fn cm_inv(cm: &ClientManager) -> bool {
    cm_keys_wf(cm) && members_wf(cm) && cm_ids_nonzero(cm)
}
impl ClientManager {
    // copied from units/alloc_runtime/prelude.rs, stub `ClientManager::delete_clients_for_user`. The `requires` was added to the stub by this
    // link: it had none, the real function is proved under keys_wf.
    // label: C06.link.alloc_runtime.delete_clients_for_user
    pub fn link_alloc_runtime_delete_clients_for_user(&mut self, user_id: u32) -> (r: Result<(), IggyError>)
        requires cm_inv(old(self)),
        ensures r is Ok
    {
        self.delete_clients_for_user(user_id)
    }
}
