// ---- lemmas: client_memberships (C06) — spec level, re-proved on every run ----
// They connect the whole-list postcondition `final == old.filter(keep)` of the cascade contracts to the three
// things the property says about a delete: nothing nested is left, no sibling is disturbed, and the
// "each membership at most once" invariant that join/leave rely on survives.

// label: C06.cascade.lemma.none_left
pub proof fn lemma_cascade_none_left(gs: Seq<ConsumerGroup>, keep: spec_fn(ConsumerGroup) -> bool)
    ensures forall|i: int| 0 <= i < gs.filter(keep).len() ==> keep(#[trigger] gs.filter(keep)[i]),
{
    gs.filter_lemma(keep);
}

// label: C06.cascade.lemma.siblings_kept
pub proof fn lemma_cascade_siblings_kept(gs: Seq<ConsumerGroup>, keep: spec_fn(ConsumerGroup) -> bool)
    ensures forall|i: int| 0 <= i < gs.len() && keep(gs[i]) ==> gs.filter(keep).contains(#[trigger] gs[i]),
{
    gs.filter_lemma(keep);
}

pub proof fn lemma_filter_subset(gs: Seq<ConsumerGroup>, keep: spec_fn(ConsumerGroup) -> bool)
    ensures forall|i: int| 0 <= i < gs.filter(keep).len() ==> gs.contains(#[trigger] gs.filter(keep)[i]),
    decreases gs.len(),
{
    reveal_with_fuel(Seq::filter, 2);
    if gs.len() > 0 {
        lemma_filter_subset(gs.drop_last(), keep);
        let f = gs.filter(keep);
        assert forall|i: int| 0 <= i < f.len() implies gs.contains(#[trigger] f[i]) by {
            if keep(gs.last()) && i == f.len() - 1 {
                assert(gs[gs.len() - 1] == f[i]);
            } else {
                let x = gs.drop_last().filter(keep)[i];
                assert(gs.drop_last().contains(x));
                let j = choose|j: int| 0 <= j < gs.drop_last().len() && gs.drop_last()[j] == x;
                assert(gs[j] == x);
            }
        }
    }
}

// label: C06.cascade.lemma.unique_preserved
pub proof fn lemma_cascade_unique_preserved(gs: Seq<ConsumerGroup>, keep: spec_fn(ConsumerGroup) -> bool)
    requires no_dup_memberships(gs),
    ensures no_dup_memberships(gs.filter(keep)),
    decreases gs.len(),
{
    reveal_with_fuel(Seq::filter, 2);
    if gs.len() > 0 {
        let dl = gs.drop_last();
        assert(no_dup_memberships(dl)) by {
            assert forall|i: int, j: int| 0 <= i < j < dl.len() implies dl[i] != dl[j] by {
                assert(gs[i] != gs[j]);
            }
        }
        lemma_cascade_unique_preserved(dl, keep);
        lemma_filter_subset(dl, keep);
        let f = gs.filter(keep);
        if keep(gs.last()) {
            assert forall|i: int, j: int| 0 <= i < j < f.len() implies f[i] != f[j] by {
                if j == f.len() - 1 {
                    let x = dl.filter(keep)[i];
                    assert(dl.contains(x));
                    let m = choose|m: int| 0 <= m < dl.len() && dl[m] == x;
                    assert(gs[m] != gs[gs.len() - 1]);
                }
            }
        }
    }
}

// label: C06.cascade.lemma.other_streams_untouched
// deleting stream s leaves a client that holds no membership in s exactly as it was
pub proof fn lemma_cascade_other_streams_untouched(gs: Seq<ConsumerGroup>, s: u32)
    requires forall|i: int| 0 <= i < gs.len() ==> (#[trigger] gs[i]).stream_id != s,
    ensures gs.filter(|g: ConsumerGroup| g.stream_id != s) == gs,
{
    seqlem::lemma_filter_all(gs, |g: ConsumerGroup| g.stream_id != s);
}
