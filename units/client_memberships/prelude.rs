// ---- unit prelude: client_memberships (C06) ------------------------------------------------------
// Stand-ins and spec vocabulary. Nothing here re-states a function body of /repo.
pub enum IggyError { ClientNotFound(u32) }

// Session: extracted struct (R12, kept field: client_id); its user-id cell is an atomic that is not part
// of the catalogue view. `clear_user_id` only stores into that (dropped) atomic.
impl Session {
    #[verifier::external_body]
    pub fn clear_user_id(&self) { unimplemented!() }
}

// ---- R8 closure schemas used by this unit (documented std semantics) ----
// v.iter().any(|x| P(x))
#[verifier::external_body]
pub fn std_iter_any<T>(v: &Vec<T>, Ghost(f): Ghost<spec_fn(T) -> bool>) -> (r: bool)
    ensures r == (exists|i: int| 0 <= i < v@.len() && f(#[trigger] v@[i])),
{ unimplemented!() }

// v.retain(|x| P(x)): keeps exactly the elements satisfying P, in their original order
pub trait VecRetainSpec<T>: View<V = Seq<T>> {
    fn retain_spec(&mut self, f: Ghost<spec_fn(T) -> bool>)
        ensures final(self)@ == old(self)@.filter(f@);
}
impl<T> VecRetainSpec<T> for Vec<T> {
    #[verifier::external_body]
    fn retain_spec(&mut self, f: Ghost<spec_fn(T) -> bool>) { unimplemented!() }
}

// v.iter().enumerate().filter_map(|(i, x)| F(i, x)).collect::<Vec<_>>()
pub open spec fn enum_filter_map<T, U>(s: Seq<T>, f: spec_fn(usize, T) -> Option<U>) -> Seq<U>
    decreases s.len(),
{
    if s.len() == 0 { Seq::<U>::empty() } else {
        let r = enum_filter_map(s.drop_last(), f);
        match f((s.len() - 1) as usize, s.last()) { Some(u) => r.push(u), None => r }
    }
}
#[verifier::external_body]
pub fn std_enumerate_filter_map_collect<T, U>(v: &Vec<T>, Ghost(f): Ghost<spec_fn(usize, T) -> Option<U>>) -> (r: Vec<U>)
    ensures r@ == enum_filter_map(v@, f),
{ unimplemented!() }

// R8 iteration schema: `v.iter().enumerate()` visits (0, &v[0]), (1, &v[1]), ... in this order
#[verifier::external_body]
pub fn std_iter_enumerate<T>(v: &Vec<T>) -> (r: Vec<(usize, &T)>)
    ensures r@.len() == v@.len(),
        forall|i: int| 0 <= i < r@.len() ==> (#[trigger] r@[i]).0 == i && *r@[i].1 == v@[i],
{ unimplemented!() }

// proved (not assumed) facts about vstd's Seq::filter, broadcast so that no proof hint has to be anchored in
// the extracted text: (1) filter depends on the predicate's extension only, (2) filtering by a predicate every
// element satisfies is the identity, (3) if exactly the element at i fails the predicate, filter == remove(i)
pub mod seqlem {
    use vstd::prelude::*;
    pub broadcast proof fn lemma_filter_ext<A>(s: Seq<A>, f: spec_fn(A) -> bool, g: spec_fn(A) -> bool)
        requires forall|x: A| #[trigger] f(x) == g(x),
        ensures #![trigger s.filter(f), s.filter(g)] s.filter(f) == s.filter(g),
        decreases s.len(),
    {
        reveal_with_fuel(Seq::filter, 2);
        if s.len() > 0 {
            lemma_filter_ext(s.drop_last(), f, g);
        }
    }
    pub broadcast proof fn lemma_filter_all<A>(s: Seq<A>, f: spec_fn(A) -> bool)
        requires forall|i: int| 0 <= i < s.len() ==> f(#[trigger] s[i]),
        ensures #[trigger] s.filter(f) == s,
        decreases s.len(),
    {
        reveal_with_fuel(Seq::filter, 2);
        if s.len() > 0 {
            lemma_filter_all(s.drop_last(), f);
            assert(s.drop_last().push(s.last()) =~= s);
        }
    }
    pub broadcast proof fn lemma_filter_remove_one<A>(s: Seq<A>, i: int, f: spec_fn(A) -> bool)
        requires 0 <= i < s.len(), !f(s[i]), forall|j: int| 0 <= j < s.len() && j != i ==> f(#[trigger] s[j]),
        ensures #![trigger s.filter(f), s.remove(i)] s.filter(f) == s.remove(i),
        decreases s.len(),
    {
        reveal_with_fuel(Seq::filter, 2);
        if i == s.len() - 1 {
            lemma_filter_all(s.drop_last(), f);
            assert(s.remove(i) =~= s.drop_last());
        } else {
            lemma_filter_remove_one(s.drop_last(), i, f);
            assert(s.remove(i) =~= s.drop_last().remove(i).push(s.last()));
        }
    }
    pub broadcast proof fn lemma_push_contains<A>(s: Seq<A>, a: A, v: A)
        ensures #[trigger] s.push(a).contains(v) <==> (s.contains(v) || a == v),
    {
        if s.contains(v) {
            let i = choose|i: int| 0 <= i < s.len() && s[i] == v;
            assert(s.push(a)[i] == v);
        }
        if a == v {
            assert(s.push(a)[s.len() as int] == v);
        }
        if s.push(a).contains(v) {
            let i = choose|i: int| 0 <= i < s.push(a).len() && s.push(a)[i] == v;
            if i < s.len() { assert(s[i] == v); }
        }
    }
}
broadcast use {seqlem::lemma_filter_ext, seqlem::lemma_filter_all, seqlem::lemma_filter_remove_one, seqlem::lemma_push_contains};

// ---- abstract view: client id -> (user, session, list of memberships) ----
pub open spec fn same_membership(g: ConsumerGroup, stream_id: u32, topic_id: u32, group_id: u32) -> bool {
    g.stream_id == stream_id && g.topic_id == topic_id && g.group_id == group_id
}
pub open spec fn is_member(gs: Seq<ConsumerGroup>, stream_id: u32, topic_id: u32, group_id: u32) -> bool {
    exists|i: int| 0 <= i < gs.len() && same_membership(#[trigger] gs[i], stream_id, topic_id, group_id)
}
// a client holds each membership at most once
pub open spec fn no_dup_memberships(gs: Seq<ConsumerGroup>) -> bool {
    forall|i: int, j: int| 0 <= i < j < gs.len() ==> gs[i] != gs[j]
}
pub open spec fn members_wf(cm: &ClientManager) -> bool {
    forall|k: u32| #[trigger] cm.clients@.contains_key(k) ==> no_dup_memberships(cm.clients@[k].consumer_groups@)
}
// a client is filed under its own session's client id (established by add_client)
pub open spec fn keys_wf(cm: &ClientManager) -> bool {
    forall|k: u32| #[trigger] cm.clients@.contains_key(k) ==> cm.clients@[k].session.client_id == k
}
// everything but the membership list of a client record
pub open spec fn same_identity(a: Client, b: Client) -> bool {
    a.user_id == b.user_id && a.session == b.session
}
