// ---- unit prelude: catalogue_maps (C06) ----------------------------------------------------------
// Stand-ins (R4) and spec vocabulary. Nothing here re-states a function body of /repo.

// --- names: opaque strings; only equality is observable (A-std: String::clone/to_owned/to_string copy the value) ---
#[verifier::external_body]
pub struct Name { s: String }
impl Name {
    #[verifier::external_body]
    pub fn to_owned(&self) -> (r: Name) ensures r == *self { unimplemented!() }
    #[verifier::external_body]
    pub fn to_string(&self) -> (r: Name) ensures r == *self { unimplemented!() }
}
impl Clone for Name {
    #[verifier::external_body]
    fn clone(&self) -> (r: Name) ensures r == *self { unimplemented!() }
}

pub enum IggyError {
    InvalidIdentifier,
    InvalidTopicSize,
    TopicIdNotFound(u32, u32),
    TopicNameNotFound(Name, Name),
    TopicNameAlreadyExists(Name, u32),
    TopicIdAlreadyExists(u32, u32),
    CannotDeleteTopic(u32, u32),
    Io,
}

// --- opaque configuration / storage / shared counters (not part of the catalogue view) ---
#[verifier::external_body]
pub struct SystemConfig { x: u8 }
impl Clone for SystemConfig { #[verifier::external_body] fn clone(&self) -> (r: Self) { unimplemented!() } }
#[verifier::external_body]
pub struct SystemStorage { x: u8 }
impl Clone for SystemStorage { #[verifier::external_body] fn clone(&self) -> (r: Self) { unimplemented!() } }
#[verifier::external_body]
pub struct SharedCounter { x: u8 }
impl Clone for SharedCounter { #[verifier::external_body] fn clone(&self) -> (r: Self) { unimplemented!() } }
#[derive(Clone, Copy)]
pub struct IggyExpiry(pub u64);
#[derive(Clone, Copy)]
pub struct CompressionAlgorithm(pub u8);
#[derive(Clone, Copy)]
pub struct MaxTopicSize(pub u64);

// R6: AtomicU32 id allocators as plain integers; their value is not part of the catalogue view (C05 owns them)
pub struct Counter32 { pub v: u32 }
impl Counter32 {
    #[verifier::external_body]
    pub fn fetch_add(&mut self, n: u32) -> (r: u32)
        ensures r == old(self).v, final(self).v == (if old(self).v as int + n as int > u32::MAX { (old(self).v as int + n as int - 0x1_0000_0000) as u32 } else { (old(self).v + n) as u32 }),
    { unimplemented!() }
    #[verifier::external_body]
    pub fn load(&self) -> (r: u32) ensures r == self.v { unimplemented!() }
    #[verifier::external_body]
    pub fn store(&mut self, n: u32) ensures final(self).v == n { unimplemented!() }
}

// DashMap: sharded concurrent map mutated through `&self`; consumer offsets are C07's state, not viewed here
#[verifier::external_body]
#[verifier::reject_recursive_types(K)]
#[verifier::accept_recursive_types(V)]
pub struct DashMap<K, V> { m: std::collections::HashMap<K, V> }
impl<K, V> DashMap<K, V> {
    #[verifier::external_body]
    pub fn remove(&self, k: &K) -> (r: Option<(K, V)>) { unimplemented!() }
}

// --- Identifier payload accessors (sdk): stubs with a small spec. The payload is abstracted to two
// uninterpreted projections; `kind`/`length` are the real (extracted) fields.
impl Identifier {
    pub uninterp spec fn num(&self) -> u32;
    pub uninterp spec fn text(&self) -> Name;
    #[verifier::external_body]
    pub fn get_u32_value(&self) -> (r: Result<u32, IggyError>)
        ensures r == (if self.kind == IdKind::Numeric && self.length == 4 { Ok::<u32, IggyError>(self.num()) } else { Err::<u32, IggyError>(IggyError::InvalidIdentifier) }),
    { unimplemented!() }
    #[verifier::external_body]
    pub fn get_cow_str_value(&self) -> (r: Result<Name, IggyError>)
        ensures r == (if self.kind == IdKind::Name { Ok::<Name, IggyError>(self.text()) } else { Err::<Name, IggyError>(IggyError::InvalidIdentifier) }),
    { unimplemented!() }
}

// --- Topic: construction, validation and persistence are other subsystems; persistence returns Ok (fault scope of C06) ---
impl Topic {
    #[verifier::external_body]
    pub fn get_max_topic_size(max_topic_size: MaxTopicSize, config: &SystemConfig) -> (r: Result<MaxTopicSize, IggyError>)
    { unimplemented!() }
    #[verifier::external_body]
    pub fn get_message_expiry(message_expiry: IggyExpiry, config: &SystemConfig) -> (r: IggyExpiry)
    { unimplemented!() }
    #[verifier::external_body]
    pub fn create(stream_id: u32, topic_id: u32, name: &Name, partitions_count: u32, config: SystemConfig, storage: SystemStorage,
        size_of_parent_stream: SharedCounter, messages_count_of_parent_stream: SharedCounter, segments_count_of_parent_stream: SharedCounter,
        message_expiry: IggyExpiry, compression_algorithm: CompressionAlgorithm, max_topic_size: MaxTopicSize, replication_factor: u8) -> (r: Result<Topic, IggyError>)
        ensures r matches Ok(t) ==> t.stream_id == stream_id && t.topic_id == topic_id && t.name == *name
            && t.consumer_groups@ == Map::<u32, ConsumerGroup>::empty() && t.consumer_groups_ids@ == Map::<Name, u32>::empty(),
    { unimplemented!() }
    #[verifier::external_body]
    pub fn persist(&self) -> (r: Result<(), IggyError>) ensures r is Ok { unimplemented!() }
    #[verifier::external_body]
    pub fn delete(&self) -> (r: Result<(), IggyError>) ensures r is Ok { unimplemented!() }
}

// --- System-level collaborators: authentication/authorisation read the session and the permission tables only;
// metrics are interior-mutable gauges; none of them is part of the catalogue view ---
#[verifier::external_body]
pub struct Session { x: u8 }
impl Session {
    #[verifier::external_body]
    pub fn get_user_id(&self) -> (r: u32) { unimplemented!() }
}
#[verifier::external_body]
pub struct Permissioner { x: u8 }
impl Permissioner {
    #[verifier::external_body]
    pub fn create_stream(&self, user_id: u32) -> (r: Result<(), IggyError>) { unimplemented!() }
    #[verifier::external_body]
    pub fn update_stream(&self, user_id: u32, stream_id: u32) -> (r: Result<(), IggyError>) { unimplemented!() }
    #[verifier::external_body]
    pub fn delete_stream(&self, user_id: u32, stream_id: u32) -> (r: Result<(), IggyError>) { unimplemented!() }
}
#[verifier::external_body]
pub struct Metrics { x: u8 }
impl Metrics {
    #[verifier::external_body] pub fn increment_streams(&self, n: u32) { unimplemented!() }
    #[verifier::external_body] pub fn decrement_streams(&self, n: u32) { unimplemented!() }
    #[verifier::external_body] pub fn decrement_topics(&self, n: u32) { unimplemented!() }
    #[verifier::external_body] pub fn decrement_partitions(&self, n: u32) { unimplemented!() }
    #[verifier::external_body] pub fn decrement_messages(&self, n: u64) { unimplemented!() }
    #[verifier::external_body] pub fn decrement_segments(&self, n: u32) { unimplemented!() }
}
// the client manager is verified in unit client_memberships; here only the cascade call is observed, through a
// ghost record of the stream ids whose memberships were purged
#[verifier::external_body]
pub struct ClientManager { x: u8 }
impl ClientManager {
    pub uninterp spec fn purged_streams(&self) -> Set<u32>;
    #[verifier::external_body]
    pub fn delete_consumer_groups_for_stream(&mut self, stream_id: u32)
        ensures final(self).purged_streams() == old(self).purged_streams().insert(stream_id),
    { unimplemented!() }
}

// ---- abstract view -------------------------------------------------------------------------------
// cat = id -> name, idx = name -> id; cat_wf: idx is exactly the inverse of cat (hence names are injective)
pub open spec fn cat_wf(cat: Map<u32, Name>, idx: Map<Name, u32>) -> bool {
    &&& forall|id: u32| #[trigger] cat.contains_key(id) ==> idx.contains_key(cat[id]) && idx[cat[id]] == id
    &&& forall|n: Name| #[trigger] idx.contains_key(n) ==> cat.contains_key(idx[n]) && cat[idx[n]] == n
}
// what an Identifier denotes in a catalogue (None: malformed identifier or unknown name)
pub open spec fn denotes(ident: &Identifier, idx: Map<Name, u32>) -> Option<u32> {
    if ident.kind == IdKind::Numeric {
        if ident.length == 4 { Some(ident.num()) } else { None }
    } else {
        if idx.contains_key(ident.text()) { Some(idx[ident.text()]) } else { None }
    }
}

// Stream: topics by id, topics_ids by name
pub open spec fn topic_cat(s: &Stream) -> Map<u32, Name> {
    Map::new(|id: u32| s.topics@.contains_key(id), |id: u32| s.topics@[id].name)
}
pub open spec fn stream_wf(s: &Stream) -> bool {
    &&& forall|id: u32| #[trigger] s.topics@.contains_key(id) ==> s.topics@[id].topic_id == id
            && s.topics_ids@.contains_key(s.topics@[id].name) && s.topics_ids@[s.topics@[id].name] == id
    &&& forall|n: Name| #[trigger] s.topics_ids@.contains_key(n) ==> s.topics@.contains_key(s.topics_ids@[n]) && s.topics@[s.topics_ids@[n]].name == n
}
// the topic an identifier resolves to in stream s
pub open spec fn topic_of(s: &Stream, ident: &Identifier) -> Option<u32> {
    match denotes(ident, s.topics_ids@) {
        Some(id) => if s.topics@.contains_key(id) { Some(id) } else { None },
        None => None,
    }
}
// every field of the stream record except the two catalogue maps and the id allocator
pub open spec fn stream_rest_same(a: &Stream, b: &Stream) -> bool {
    a.stream_id == b.stream_id && a.name == b.name
}
