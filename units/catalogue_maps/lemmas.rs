// ---- lemmas: catalogue_maps (C06) — spec level, re-proved on every run ----
// The function contracts state each command as a whole-map update of (cat, idx). These lemmas are the
// property-level consequences over that abstract view, once for all three levels (streams of a system, topics of a
// stream, consumer groups of a topic), plus the bridge from the per-level invariants to the generic cat_wf.

// label: C06.bij.lemma.names_injective
pub proof fn lemma_names_injective(cat: Map<u32, Name>, idx: Map<Name, u32>, a: u32, b: u32)
    requires cat_wf(cat, idx), cat.contains_key(a), cat.contains_key(b), a != b,
    ensures cat[a] != cat[b],
{
}

// label: C06.bij.lemma.create
pub proof fn lemma_create_preserves(cat: Map<u32, Name>, idx: Map<Name, u32>, id: u32, n: Name)
    requires cat_wf(cat, idx), !cat.contains_key(id), !idx.contains_key(n),
    ensures cat_wf(cat.insert(id, n), idx.insert(n, id)),
{
}

// label: C06.bij.lemma.delete
pub proof fn lemma_delete_preserves(cat: Map<u32, Name>, idx: Map<Name, u32>, id: u32)
    requires cat_wf(cat, idx), cat.contains_key(id),
    ensures cat_wf(cat.remove(id), idx.remove(cat[id])),
        // a sibling is never disturbed
        forall|k: u32| k != id && cat.contains_key(k) ==> #[trigger] cat.remove(id).contains_key(k) && cat.remove(id)[k] == cat[k],
{
}

// label: C06.bij.lemma.rename
// rename of id to n (n free, or n already the name of id): the index follows, the old name becomes free for reuse
pub proof fn lemma_rename_preserves(cat: Map<u32, Name>, idx: Map<Name, u32>, id: u32, n: Name)
    requires cat_wf(cat, idx), cat.contains_key(id), idx.contains_key(n) ==> idx[n] == id,
    ensures cat_wf(cat.insert(id, n), idx.remove(cat[id]).insert(n, id)),
        cat[id] != n ==> !idx.remove(cat[id]).insert(n, id).contains_key(cat[id]),
{
}

// label: C06.byname.lemma.agree
// lookup by name and by numeric id agree: in a well-formed catalogue the name of entity id denotes id
pub proof fn lemma_lookup_agrees(cat: Map<u32, Name>, idx: Map<Name, u32>, by_id: &Identifier, by_name: &Identifier)
    requires cat_wf(cat, idx),
        by_id.kind == IdKind::Numeric, by_id.length == 4, cat.contains_key(by_id.num()),
        by_name.kind == IdKind::Name, by_name.text() == cat[by_id.num()],
    ensures denotes(by_id, idx) == Some(by_id.num()), denotes(by_name, idx) == denotes(by_id, idx),
{
}

// bridges: the per-level invariants are exactly cat_wf of the level's view (plus "filed under its own id")
// label: C06.bij.lemma.stream_view
pub proof fn lemma_stream_view(s: &Stream)
    requires stream_wf(s),
    ensures cat_wf(topic_cat(s), s.topics_ids@),
{
    assert forall|id: u32| #[trigger] topic_cat(s).contains_key(id) implies
        s.topics_ids@.contains_key(topic_cat(s)[id]) && s.topics_ids@[topic_cat(s)[id]] == id by {
        assert(s.topics@.contains_key(id));
    }
    assert forall|n: Name| #[trigger] s.topics_ids@.contains_key(n) implies
        topic_cat(s).contains_key(s.topics_ids@[n]) && topic_cat(s)[s.topics_ids@[n]] == n by {
        assert(s.topics@.contains_key(s.topics_ids@[n]));
    }
}

// label: C06.bij.lemma.system_view
pub proof fn lemma_system_view(s: &System)
    requires system_wf(s),
    ensures cat_wf(stream_cat(s), s.streams_ids@),
{
    assert forall|id: u32| #[trigger] stream_cat(s).contains_key(id) implies
        s.streams_ids@.contains_key(stream_cat(s)[id]) && s.streams_ids@[stream_cat(s)[id]] == id by {
        assert(s.streams@.contains_key(id));
    }
    assert forall|n: Name| #[trigger] s.streams_ids@.contains_key(n) implies
        stream_cat(s).contains_key(s.streams_ids@[n]) && stream_cat(s)[s.streams_ids@[n]] == n by {
        assert(s.streams@.contains_key(s.streams_ids@[n]));
    }
}

// label: C06.bij.lemma.topic_view
pub proof fn lemma_topic_view(t: &Topic)
    requires topic_wf(t),
    ensures cat_wf(group_cat(t), t.consumer_groups_ids@),
{
    assert forall|id: u32| #[trigger] group_cat(t).contains_key(id) implies
        t.consumer_groups_ids@.contains_key(group_cat(t)[id]) && t.consumer_groups_ids@[group_cat(t)[id]] == id by {
        assert(t.consumer_groups@.contains_key(id));
    }
    assert forall|n: Name| #[trigger] t.consumer_groups_ids@.contains_key(n) implies
        group_cat(t).contains_key(t.consumer_groups_ids@[n]) && group_cat(t)[t.consumer_groups_ids@[n]] == n by {
        assert(t.consumer_groups@.contains_key(t.consumer_groups_ids@[n]));
    }
}

// label: C06.bij.lemma.empty
// the empty catalogue (a freshly created stream / topic) is well-formed: base case of "apply the commands to an empty catalogue"
pub proof fn lemma_empty_wf()
    ensures cat_wf(Map::<u32, Name>::empty(), Map::<Name, u32>::empty()),
{
}

// ---- LINK harnesses (link pass 2): the contracts other units ASSUME for functions proved here, proved from the real ones -------
// Each harness has the assuming unit's stub signature, its `requires` / `ensures` copied VERBATIM from that unit's prelude.rs, and a
// body that is ONE call of the real extracted function: Verus proves "real contract ==> assumed contract" on every run of this
// unit. A later edit of a stub has to be mirrored here (and vice versa). The assuming units keep fewer fields of System / Stream /
// Topic than this unit: their record equalities are the projections of the ones proved here.

// ---- units/catalogue_more/prelude.rs (same vocabulary: denotes / stream_of / topic_of / stream_wf / stream_only_catalogue / ..) ----
impl System {
    // copied from units/catalogue_more/prelude.rs, stub `System::get_stream`
    // label: C06.link.catalogue_more.get_stream
    pub fn link_catalogue_more_get_stream(&self, identifier: &Identifier) -> (r: Result<&Stream, IggyError>)
        ensures match r {
            Ok(s) => stream_of(self, identifier) is Some && *s == self.streams@[stream_of(self, identifier)->0],
            Err(_) => stream_of(self, identifier) is None },
    { self.get_stream(identifier) }
    // copied from units/catalogue_more/prelude.rs, stub `System::get_stream_mut`
    // label: C06.link.catalogue_more.get_stream_mut
    pub fn link_catalogue_more_get_stream_mut(&mut self, identifier: &Identifier) -> (r: Result<&mut Stream, IggyError>)
        ensures match r {
            Ok(s) => stream_of(old(self), identifier) is Some && *s == old(self).streams@[stream_of(old(self), identifier)->0]
                && final(self).streams@ == old(self).streams@.insert(stream_of(old(self), identifier)->0, *final(s)) && system_only_streams(old(self), final(self)),
            Err(_) => stream_of(old(self), identifier) is None && system_unchanged(old(self), final(self)) },
    { self.get_stream_mut(identifier) }
}
impl Stream {
    // copied from units/catalogue_more/prelude.rs, stub `Stream::get_topic`
    // label: C06.link.catalogue_more.get_topic
    pub fn link_catalogue_more_get_topic(&self, identifier: &Identifier) -> (r: Result<&Topic, IggyError>)
        ensures match r {
            Ok(t) => topic_of(self, identifier) is Some && *t == self.topics@[topic_of(self, identifier)->0],
            Err(_) => topic_of(self, identifier) is None },
    { self.get_topic(identifier) }
    // copied from units/catalogue_more/prelude.rs, stub `Stream::remove_topic`
    // label: C06.link.catalogue_more.remove_topic
    pub fn link_catalogue_more_remove_topic(&mut self, identifier: &Identifier) -> (r: Result<Topic, IggyError>)
        requires stream_wf(old(self)),
        ensures
            r matches Ok(t) ==> topic_of(old(self), identifier) == Some(t.topic_id) && t == old(self).topics@[t.topic_id]
                && final(self).topics@ == old(self).topics@.remove(t.topic_id) && final(self).topics_ids@ == old(self).topics_ids@.remove(t.name)
                && stream_only_catalogue(old(self), final(self)),
            r is Err ==> topic_of(old(self), identifier) is None && stream_unchanged(old(self), final(self)),
    { self.remove_topic(identifier) }
}

// ---- units/journal_sinks/prelude.rs (same vocabulary; its get_stream_mut stub cites unit alloc_runtime's shape, whose Err arm keeps
// the `streams_ids` OBJECT, not only its view: proved here by [C06.shape.stream.get_mut.frame]) ----
impl System {
    // copied from units/journal_sinks/prelude.rs, stub `System::get_stream`
    // label: C05.link.journal_sinks.get_stream
    pub fn link_journal_sinks_get_stream(&self, identifier: &Identifier) -> (r: Result<&Stream, IggyError>)
        ensures match r {
            Ok(s) => stream_of(self, identifier) is Some && *s == self.streams@[stream_of(self, identifier)->0],
            Err(_) => stream_of(self, identifier) is None },
    { self.get_stream(identifier) }
    // copied from units/journal_sinks/prelude.rs, stub `System::get_stream_mut`
    // label: C05.link.journal_sinks.get_stream_mut
    pub fn link_journal_sinks_get_stream_mut(&mut self, identifier: &Identifier) -> (r: Result<&mut Stream, IggyError>)
        ensures match r {
            Ok(s) => stream_of(old(self), identifier) is Some && *s == old(self).streams@[stream_of(old(self), identifier)->0]
                && final(self).streams@ == old(self).streams@.insert(stream_of(old(self), identifier)->0, *final(s)) && system_only_streams(old(self), final(self)),
            Err(_) => stream_of(old(self), identifier) is None && final(self).streams@ =~= old(self).streams@ && system_only_streams(old(self), final(self)) },
    { self.get_stream_mut(identifier) }
}
impl Stream {
    // copied from units/journal_sinks/prelude.rs, stub `Stream::get_topic`
    // label: C05.link.journal_sinks.get_topic
    pub fn link_journal_sinks_get_topic(&self, identifier: &Identifier) -> (r: Result<&Topic, IggyError>)
        ensures match r {
            Ok(t) => topic_of(self, identifier) is Some && *t == self.topics@[topic_of(self, identifier)->0],
            Err(_) => topic_of(self, identifier) is None },
    { self.get_topic(identifier) }
    // copied from units/journal_sinks/prelude.rs, stub `Stream::update_topic`
    // label: C05.link.journal_sinks.update_topic
    pub fn link_journal_sinks_update_topic(&mut self, id: &Identifier, name: &Name, message_expiry: IggyExpiry, compression_algorithm: CompressionAlgorithm,
        max_topic_size: MaxTopicSize, replication_factor: u8) -> (r: Result<(), IggyError>)
        requires stream_wf(old(self)),
        ensures
            r is Err ==> final(self).topics@ =~= old(self).topics@ && final(self).topics_ids@ =~= old(self).topics_ids@ && stream_only_catalogue(old(self), final(self)),
            r is Ok ==> (topic_of(old(self), id) matches Some(tid)
                && final(self).topics_ids@ =~= old(self).topics_ids@.remove(old(self).topics@[tid].name).insert(*name, tid)
                && map_frame_except(old(self).topics@, final(self).topics@, tid)
                && final(self).topics@[tid].name == *name && final(self).topics@[tid].topic_id == tid
                && stream_only_catalogue(old(self), final(self))),
            stream_wf(final(self)),
    { self.update_topic(id, name, message_expiry, compression_algorithm, max_topic_size, replication_factor) }
}

// ---- units/consumer_group/prelude.rs: there `Identifier` and `Stream` are OPAQUE stand-ins and `group_of(t: Topic, id: Identifier)`,
// `stream_of(s: System, id: Identifier)`, `stream_topic(st: Stream, id: Identifier)` are UNINTERPRETED ("resolution by id / by name is
// C06's subject"). The link gives them their INTERPRETATION over the real records (a projection): the three functions below, named
// cg_* because this unit's own group_of / stream_of take references; the copied clauses are verbatim up to that renaming.
pub open spec fn cg_group_of(t: Topic, id: Identifier) -> Option<u32> { group_of(&t, &id) }
pub open spec fn cg_stream_of(s: System, id: Identifier) -> Option<u32> { stream_of(&s, &id) }
pub open spec fn cg_stream_topic(st: Stream, id: Identifier) -> Topic { st.topics@[topic_of(&st, &id)->0] }
impl Topic {
    // copied from units/consumer_group/prelude.rs, stub `Topic::get_consumer_group`: its READ half (the clauses over old(self)). The stub
    // hands the group out as `&mut` from `&mut self` (R6 promotion of the `&RwLock<ConsumerGroup>` access path); the write-back half
    // (`final(self).consumer_groups@ == old(self).consumer_groups@.insert(.., *final(g))`, nothing else of the topic changes) is the
    // HashMap::get_mut schema of that promotion and cannot be stated on the real `&self` function: still assumed there.
    // `requires ident_valid(identifier)`: ADDED by the link (the real function `unwrap()`s `get_u32_value()`): mirrored in the stub.
    // label: C06.link.consumer_group.get_consumer_group
    pub fn link_consumer_group_get_consumer_group(&self, identifier: &Identifier) -> (r: Result<&ConsumerGroup, IggyError>)
        requires ident_valid(identifier),
        ensures
            match r {
                Ok(g) => {
                    &&& cg_group_of(*self, *identifier) is Some
                    &&& self.consumer_groups@.contains_key(cg_group_of(*self, *identifier)->0)
                    &&& *g == self.consumer_groups@[cg_group_of(*self, *identifier)->0]
                },
                Err(_) => cg_group_of(*self, *identifier) is None,
            },
    { self.get_consumer_group(identifier) }
}
impl Stream {
    // copied from units/consumer_group/prelude.rs, stub `Stream::get_topic_mut`
    // label: C06.link.consumer_group.get_topic_mut
    pub fn link_consumer_group_get_topic_mut<'a>(&'a mut self, identifier: &Identifier) -> (r: Result<&'a mut Topic, IggyError>)
        ensures
            match r {
                Ok(t) => *t == cg_stream_topic(*old(self), *identifier) && cg_stream_topic(*final(self), *identifier) == *final(t),
                Err(_) => *final(self) == *old(self),
            },
    { self.get_topic_mut(identifier) }
}
impl System {
    // copied from units/consumer_group/prelude.rs, stub `System::get_stream_mut` (its System keeps permissioner / streams / metrics)
    // label: C06.link.consumer_group.get_stream_mut
    pub fn link_consumer_group_get_stream_mut<'a>(&'a mut self, identifier: &Identifier) -> (r: Result<&'a mut Stream, IggyError>)
        ensures
            final(self).permissioner == old(self).permissioner && final(self).metrics == old(self).metrics,
            forall|id: Identifier| cg_stream_of(*final(self), id) == cg_stream_of(*old(self), id),
            match r {
                Ok(st) => {
                    &&& cg_stream_of(*old(self), *identifier) is Some
                    &&& old(self).streams@.contains_key(cg_stream_of(*old(self), *identifier)->0)
                    &&& *st == old(self).streams@[cg_stream_of(*old(self), *identifier)->0]
                    &&& final(self).streams@ == old(self).streams@.insert(cg_stream_of(*old(self), *identifier)->0, *final(st))
                },
                Err(_) => final(self).streams@ == old(self).streams@,
            },
    { self.get_stream_mut(identifier) }
}

// ---- units/consumer_offsets/prelude.rs: `topic_group(t, id)` is UNINTERPRETED there ("lookup of a group by numeric id or by name — a
// function of the topic"); the link gives it its INTERPRETATION: the group record that the identifier denotes in the topic's catalogue
pub open spec fn topic_group(t: &Topic, id: Identifier) -> Option<ConsumerGroup> {
    match group_of(t, &id) { Some(k) => Some(t.consumer_groups@[k]), None => None }
}
impl Topic {
    // copied from units/consumer_offsets/prelude.rs, stub `Topic::get_consumer_group`
    // `requires`: ADDED by the link (the real function `unwrap()`s `get_u32_value()`): mirrored in the stub (there written out:
    // consumer_offsets has no `ident_valid`)
    // label: C06.link.consumer_offsets.get_consumer_group
    pub fn link_consumer_offsets_get_consumer_group(&self, identifier: &Identifier) -> (r: Result<&ConsumerGroup, IggyError>)
        requires identifier.kind == IdKind::Numeric ==> identifier.length == 4,
        ensures match r { Ok(g) => topic_group(self, *identifier) == Some(*g), Err(_) => topic_group(self, *identifier) is None },
    { self.get_consumer_group(identifier) }
}

// ---- units/authn_gate/prelude.rs (same denotes / stream_of; `stream_at` repeated word for word) ----
// (vocabulary of units/authn_gate/prelude.rs used by the copied clauses)
pub open spec fn stream_at(s: &System, sid: &Identifier) -> Option<Stream> {
    match stream_of(s, sid) { Some(k) => Some(s.streams@[k]), None => None }
}
impl System {
    // copied from units/authn_gate/prelude.rs, stub `System::get_stream_mut`
    // label: C06.link.authn_gate.get_stream_mut
    pub fn link_authn_gate_get_stream_mut(&mut self, identifier: &Identifier) -> (r: Result<&mut Stream, IggyError>)
        ensures r matches Ok(s) ==> stream_at(old(self), identifier) == Some(*s),
    { self.get_stream_mut(identifier) }
}

// ---- COMPOSITION harness (link pass 2): the runtime half of [C05.sim.update_stream] of units/replay_more/lemmas.rs -----------------
// That lemma takes the runtime effect of an acknowledged UpdateStream as the spec function `rt_update_stream` over the statement's
// catalogue (id -> CStream), "what [C06.update.stream(.maps)] says", cited by label. The harness calls the real System::update_stream
// and proves exactly that, for the catalogue read off the RUNNING system: a stream's name is its `name` field, its topics component
// is ANY function of its `topics` map (uninterpreted: the harness holds for every reading, in particular the one replay_more's
// `abs_topic` fields describe — update_stream keeps the whole `topics` map object).
// (vocabulary of units/replay_more/lemmas.rs, repeated word for word: CTopic, CStream, rt_update_stream)
pub struct CTopic {
    pub name: Name, pub compression: CompressionAlgorithm, pub expiry: IggyExpiry, pub max_size: MaxTopicSize, pub repl: Option<u8>,
    pub parts: Set<u32>, pub groups: Map<u32, Name>,
}
pub struct CStream { pub name: Name, pub topics: Map<u32, CTopic> }
pub open spec fn rt_update_stream(c: Map<u32, CStream>, sid: u32, name: Name) -> Map<u32, CStream> {
    c.insert(sid, CStream { name: name, ..c[sid] })
}
pub uninterp spec fn rt_topics_view(topics: Map<u32, Topic>) -> Map<u32, CTopic>;
pub open spec fn rt_abs_stream(s: Stream) -> CStream { CStream { name: s.name, topics: rt_topics_view(s.topics@) } }
pub open spec fn rt_abs_streams(m: Map<u32, Stream>) -> Map<u32, CStream> { Map::new(m.dom(), |k: u32| rt_abs_stream(m[k])) }
impl System {
    // label: C05.link.replay_more.rt_update_stream
    pub fn sim_update_stream(&mut self, session: &Session, id: &Identifier, name: &Name) -> (r: Result<(), IggyError>)
        requires system_wf(old(self)),
        ensures
            r is Ok ==> (stream_of(old(self), id) matches Some(sid)
                && rt_abs_streams(final(self).streams@) =~= rt_update_stream(rt_abs_streams(old(self).streams@), sid, *name)),
            // a refused command is not journalled and leaves the catalogue alone
            r is Err ==> rt_abs_streams(final(self).streams@) =~= rt_abs_streams(old(self).streams@),
    { self.update_stream(session, id, name) }
}
