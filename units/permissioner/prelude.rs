// ---- unit prelude: permissioner (C09) ----------------------------------------------------------
pub enum IggyError { Unauthorized }
