// ---- unit prelude: permissioner (C09) ----------------------------------------------------------
// Spec vocabulary for the permission band of DESIGN.md §6/C09. Nothing here is executable.
pub enum IggyError { Unauthorized }

// --- flags as seen through the denormalised tables (absent record = flag not set) ---
pub open spec fn g_has(p: &Permissioner, u: u32) -> bool { p.users_permissions@.contains_key(u) }
pub open spec fn g_of(p: &Permissioner, u: u32) -> GlobalPermissions { p.users_permissions@[u] }
pub open spec fn s_has(p: &Permissioner, u: u32, s: u32) -> bool { p.users_streams_permissions@.contains_key((u, s)) }
pub open spec fn s_of(p: &Permissioner, u: u32, s: u32) -> StreamPermissions { p.users_streams_permissions@[(u, s)] }
pub open spec fn t_has(p: &Permissioner, u: u32, s: u32, t: u32) -> bool {
    s_has(p, u, s) && s_of(p, u, s).topics is Some && s_of(p, u, s).topics->0@.contains_key(t)
}
pub open spec fn t_of(p: &Permissioner, u: u32, s: u32, t: u32) -> TopicPermissions { s_of(p, u, s).topics->0@[t] }

// --- the documented hierarchy: the MOST each operation class can be justified by (allowed_max) ---
// A flag counts only at a scope that covers the target: global covers everything, the record of stream s
// covers s and its topics, the record of topic t in s covers (s,t) only.
pub open spec fn server_set(p: &Permissioner, u: u32) -> bool {
    g_has(p, u) && (g_of(p, u).manage_servers || g_of(p, u).read_servers)
}
pub open spec fn user_read_set(p: &Permissioner, u: u32) -> bool {
    g_has(p, u) && (g_of(p, u).manage_users || g_of(p, u).read_users)
}
pub open spec fn user_write_set(p: &Permissioner, u: u32) -> bool {
    g_has(p, u) && g_of(p, u).manage_users
}
pub open spec fn streams_list_set(p: &Permissioner, u: u32) -> bool {
    g_has(p, u) && (g_of(p, u).manage_streams || g_of(p, u).read_streams)
}
pub open spec fn stream_create_set(p: &Permissioner, u: u32) -> bool {
    g_has(p, u) && g_of(p, u).manage_streams
}
pub open spec fn stream_read_set(p: &Permissioner, u: u32, s: u32) -> bool {
    streams_list_set(p, u) || (s_has(p, u, s) && (s_of(p, u, s).manage_stream || s_of(p, u, s).read_stream))
}
pub open spec fn stream_write_set(p: &Permissioner, u: u32, s: u32) -> bool {
    stream_create_set(p, u) || (s_has(p, u, s) && s_of(p, u, s).manage_stream)
}
// reading "all topics of s" (listing) — only scopes covering the whole stream
pub open spec fn topics_read_scope(p: &Permissioner, u: u32, s: u32) -> bool {
    stream_read_set(p, u, s)
    || (g_has(p, u) && (g_of(p, u).manage_topics || g_of(p, u).read_topics))
    || (s_has(p, u, s) && (s_of(p, u, s).manage_topics || s_of(p, u, s).read_topics))
}
pub open spec fn topic_read_set(p: &Permissioner, u: u32, s: u32, t: u32) -> bool {
    topics_read_scope(p, u, s) || (t_has(p, u, s, t) && (t_of(p, u, s, t).manage_topic || t_of(p, u, s, t).read_topic))
}
pub open spec fn topics_write_scope(p: &Permissioner, u: u32, s: u32) -> bool {
    stream_write_set(p, u, s)
    || (g_has(p, u) && g_of(p, u).manage_topics)
    || (s_has(p, u, s) && s_of(p, u, s).manage_topics)
}
pub open spec fn topic_write_set(p: &Permissioner, u: u32, s: u32, t: u32) -> bool {
    topics_write_scope(p, u, s) || (t_has(p, u, s, t) && t_of(p, u, s, t).manage_topic)
}
pub open spec fn poll_set(p: &Permissioner, u: u32, s: u32, t: u32) -> bool {
    topic_read_set(p, u, s, t)
    || (g_has(p, u) && g_of(p, u).poll_messages)
    || (s_has(p, u, s) && s_of(p, u, s).poll_messages)
    || (t_has(p, u, s, t) && t_of(p, u, s, t).poll_messages)
}
pub open spec fn send_set(p: &Permissioner, u: u32, s: u32, t: u32) -> bool {
    topic_write_set(p, u, s, t)
    || (g_has(p, u) && g_of(p, u).send_messages)
    || (s_has(p, u, s) && s_of(p, u, s).send_messages)
    || (t_has(p, u, s, t) && t_of(p, u, s, t).send_messages)
}

// --- denormalisation invariant of the four membership sets (what the message rules rely on) ---
// (quantifiers are triggered on the raw map/set membership terms so that they survive updates of
//  *other* tables of the same struct)
pub open spec fn perm_wf(p: &Permissioner) -> bool {
    &&& forall|u: u32| #[trigger] p.users_that_can_poll_messages_from_all_streams@.contains(u)
            <==> (p.users_permissions@.contains_key(u) && p.users_permissions@[u].poll_messages)
    &&& forall|u: u32| #[trigger] p.users_that_can_send_messages_to_all_streams@.contains(u)
            <==> (p.users_permissions@.contains_key(u) && p.users_permissions@[u].send_messages)
    &&& forall|u: u32, s: u32| #[trigger] p.users_that_can_poll_messages_from_specific_streams@.contains((u, s))
            <==> (p.users_streams_permissions@.contains_key((u, s)) && p.users_streams_permissions@[(u, s)].poll_messages)
    &&& forall|u: u32, s: u32| #[trigger] p.users_that_can_send_messages_to_specific_streams@.contains((u, s))
            <==> (p.users_streams_permissions@.contains_key((u, s)) && p.users_streams_permissions@[(u, s)].send_messages)
}

// user u has no row in any table
pub open spec fn no_rows(p: &Permissioner, u: u32) -> bool {
    &&& !p.users_permissions@.contains_key(u)
    &&& forall|s: u32| !#[trigger] p.users_streams_permissions@.contains_key((u, s))
    &&& !p.users_that_can_poll_messages_from_all_streams@.contains(u)
    &&& !p.users_that_can_send_messages_to_all_streams@.contains(u)
    &&& forall|s: u32| !#[trigger] p.users_that_can_poll_messages_from_specific_streams@.contains((u, s))
    &&& forall|s: u32| !#[trigger] p.users_that_can_send_messages_to_specific_streams@.contains((u, s))
}

// rows of every user other than u are identical in a and b
pub open spec fn others_same(a: &Permissioner, b: &Permissioner, u: u32) -> bool {
    &&& forall|v: u32| v != u ==> (a.users_permissions@.contains_key(v) == #[trigger] b.users_permissions@.contains_key(v))
    &&& forall|v: u32| v != u && a.users_permissions@.contains_key(v) ==> a.users_permissions@[v] == #[trigger] b.users_permissions@[v]
    &&& forall|v: u32, s: u32| v != u ==> (a.users_streams_permissions@.contains_key((v, s)) == #[trigger] b.users_streams_permissions@.contains_key((v, s)))
    &&& forall|v: u32, s: u32| v != u && a.users_streams_permissions@.contains_key((v, s)) ==> a.users_streams_permissions@[(v, s)] == #[trigger] b.users_streams_permissions@[(v, s)]
    &&& forall|v: u32| v != u ==> a.users_that_can_poll_messages_from_all_streams@.contains(v) == #[trigger] b.users_that_can_poll_messages_from_all_streams@.contains(v)
    &&& forall|v: u32| v != u ==> a.users_that_can_send_messages_to_all_streams@.contains(v) == #[trigger] b.users_that_can_send_messages_to_all_streams@.contains(v)
    &&& forall|v: u32, s: u32| v != u ==> a.users_that_can_poll_messages_from_specific_streams@.contains((v, s)) == #[trigger] b.users_that_can_poll_messages_from_specific_streams@.contains((v, s))
    &&& forall|v: u32, s: u32| v != u ==> a.users_that_can_send_messages_to_specific_streams@.contains((v, s)) == #[trigger] b.users_that_can_send_messages_to_specific_streams@.contains((v, s))
}

// the rows of user u are exactly the denormalisation of `perms`
pub open spec fn rows_are(p: &Permissioner, u: u32, perms: Option<Permissions>) -> bool {
    match perms {
        None => no_rows(p, u),
        Some(pm) => {
            &&& p.users_permissions@.contains_key(u) && p.users_permissions@[u] == pm.global
            &&& match pm.streams {
                    None => forall|s: u32| !#[trigger] p.users_streams_permissions@.contains_key((u, s)),
                    Some(m) => {
                        &&& forall|s: u32| (#[trigger] p.users_streams_permissions@.contains_key((u, s))) == m@.contains_key(s)
                        &&& forall|s: u32| m@.contains_key(s) ==> #[trigger] p.users_streams_permissions@[(u, s)] == m@[s]
                    },
                }
        },
    }
}

// --- exact transcripts of the rules (helper; carry monotonicity) ---
pub open spec fn dec_server(p: &Permissioner, u: u32) -> bool { server_set(p, u) }
pub open spec fn dec_user_read(p: &Permissioner, u: u32) -> bool { user_read_set(p, u) }
pub open spec fn dec_user_write(p: &Permissioner, u: u32) -> bool { user_write_set(p, u) }
pub open spec fn dec_get_streams(p: &Permissioner, u: u32) -> bool { streams_list_set(p, u) }
pub open spec fn dec_create_stream(p: &Permissioner, u: u32) -> bool { stream_create_set(p, u) }
pub open spec fn dec_get_stream(p: &Permissioner, u: u32, s: u32) -> bool { stream_read_set(p, u, s) }
pub open spec fn dec_manage_stream(p: &Permissioner, u: u32, s: u32) -> bool { stream_write_set(p, u, s) }
pub open spec fn dec_topics_global_read(p: &Permissioner, u: u32) -> bool {
    g_has(p, u) && (g_of(p, u).read_streams || g_of(p, u).manage_streams || g_of(p, u).manage_topics || g_of(p, u).read_topics)
}
pub open spec fn dec_get_topics(p: &Permissioner, u: u32, s: u32) -> bool {
    dec_topics_global_read(p, u) || (s_has(p, u, s) && (s_of(p, u, s).manage_topics || s_of(p, u, s).read_topics))
}
pub open spec fn dec_get_topic(p: &Permissioner, u: u32, s: u32, t: u32) -> bool {
    dec_get_topics(p, u, s) || (t_has(p, u, s, t) && (t_of(p, u, s, t).manage_topic || t_of(p, u, s, t).read_topic))
}
pub open spec fn dec_create_topic(p: &Permissioner, u: u32, s: u32) -> bool {
    (g_has(p, u) && (g_of(p, u).manage_streams || g_of(p, u).manage_topics)) || (s_has(p, u, s) && s_of(p, u, s).manage_topics)
}
pub open spec fn dec_manage_topic(p: &Permissioner, u: u32, s: u32, t: u32) -> bool {
    dec_create_topic(p, u, s) || (t_has(p, u, s, t) && t_of(p, u, s, t).manage_topic)
}
pub open spec fn dec_poll(p: &Permissioner, u: u32, s: u32, t: u32) -> bool {
    (g_has(p, u) && g_of(p, u).poll_messages)
    || (s_has(p, u, s) && (s_of(p, u, s).poll_messages || s_of(p, u, s).read_stream || s_of(p, u, s).manage_topics || s_of(p, u, s).read_topics))
    || (t_has(p, u, s, t) && (t_of(p, u, s, t).poll_messages || t_of(p, u, s, t).read_topic || t_of(p, u, s, t).manage_topic))
}
pub open spec fn dec_send(p: &Permissioner, u: u32, s: u32, t: u32) -> bool {
    (g_has(p, u) && g_of(p, u).send_messages)
    || (s_has(p, u, s) && (s_of(p, u, s).send_messages || s_of(p, u, s).manage_stream || s_of(p, u, s).manage_topics))
    || (t_has(p, u, s, t) && (t_of(p, u, s, t).send_messages || t_of(p, u, s, t).manage_topic))
}

// --- "granting more": p ⊑ q for user u (every flag set in p is set in q, records only added) ---
pub open spec fn g_leq(a: GlobalPermissions, b: GlobalPermissions) -> bool {
    (a.manage_servers ==> b.manage_servers) && (a.read_servers ==> b.read_servers)
    && (a.manage_users ==> b.manage_users) && (a.read_users ==> b.read_users)
    && (a.manage_streams ==> b.manage_streams) && (a.read_streams ==> b.read_streams)
    && (a.manage_topics ==> b.manage_topics) && (a.read_topics ==> b.read_topics)
    && (a.poll_messages ==> b.poll_messages) && (a.send_messages ==> b.send_messages)
}
pub open spec fn t_leq(a: TopicPermissions, b: TopicPermissions) -> bool {
    (a.manage_topic ==> b.manage_topic) && (a.read_topic ==> b.read_topic)
    && (a.poll_messages ==> b.poll_messages) && (a.send_messages ==> b.send_messages)
}
pub open spec fn s_leq(a: StreamPermissions, b: StreamPermissions) -> bool {
    (a.manage_stream ==> b.manage_stream) && (a.read_stream ==> b.read_stream)
    && (a.manage_topics ==> b.manage_topics) && (a.read_topics ==> b.read_topics)
    && (a.poll_messages ==> b.poll_messages) && (a.send_messages ==> b.send_messages)
    && (a.topics is Some ==> b.topics is Some
        && forall|t: u32| #[trigger] a.topics->0@.contains_key(t) ==> b.topics->0@.contains_key(t) && t_leq(a.topics->0@[t], b.topics->0@[t]))
}
pub open spec fn p_leq(p: &Permissioner, q: &Permissioner, u: u32) -> bool {
    &&& g_has(p, u) ==> g_has(q, u) && g_leq(g_of(p, u), g_of(q, u))
    &&& forall|s: u32| #[trigger] s_has(p, u, s) ==> s_has(q, u, s) && s_leq(s_of(p, u, s), s_of(q, u, s))
}

pub open spec fn is_root_global(g: GlobalPermissions) -> bool {
    g.manage_servers && g.read_servers && g.manage_users && g.read_users && g.manage_streams && g.read_streams
    && g.manage_topics && g.read_topics && g.poll_messages && g.send_messages
}
