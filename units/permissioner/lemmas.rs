// ---- lemmas: permissioner (C09) — proved on every run, spec level only ----

// Monotonicity: granting more (p ⊑ q for user u) never turns Ok into Err. Proved over the exact transcripts
// dec_* which the [C09.shape.*] clauses tie to the real rule functions.

// label: C09.monotone.server
pub proof fn lemma_monotone_server(p: &Permissioner, q: &Permissioner, u: u32)
    requires p_leq(p, q, u), dec_server(p, u),
    ensures dec_server(q, u),
{
}

// label: C09.monotone.user_read
pub proof fn lemma_monotone_user_read(p: &Permissioner, q: &Permissioner, u: u32)
    requires p_leq(p, q, u), dec_user_read(p, u),
    ensures dec_user_read(q, u),
{
}

// label: C09.monotone.user_write
pub proof fn lemma_monotone_user_write(p: &Permissioner, q: &Permissioner, u: u32)
    requires p_leq(p, q, u), dec_user_write(p, u),
    ensures dec_user_write(q, u),
{
}

// label: C09.monotone.get_streams
pub proof fn lemma_monotone_get_streams(p: &Permissioner, q: &Permissioner, u: u32)
    requires p_leq(p, q, u), dec_get_streams(p, u),
    ensures dec_get_streams(q, u),
{
}

// label: C09.monotone.create_stream
pub proof fn lemma_monotone_create_stream(p: &Permissioner, q: &Permissioner, u: u32)
    requires p_leq(p, q, u), dec_create_stream(p, u),
    ensures dec_create_stream(q, u),
{
}

// label: C09.monotone.get_stream
pub proof fn lemma_monotone_get_stream(p: &Permissioner, q: &Permissioner, u: u32, s: u32)
    requires p_leq(p, q, u), dec_get_stream(p, u, s),
    ensures dec_get_stream(q, u, s),
{
}

// label: C09.monotone.manage_stream
pub proof fn lemma_monotone_manage_stream(p: &Permissioner, q: &Permissioner, u: u32, s: u32)
    requires p_leq(p, q, u), dec_manage_stream(p, u, s),
    ensures dec_manage_stream(q, u, s),
{
}

// label: C09.monotone.get_topics
pub proof fn lemma_monotone_get_topics(p: &Permissioner, q: &Permissioner, u: u32, s: u32)
    requires p_leq(p, q, u), dec_get_topics(p, u, s),
    ensures dec_get_topics(q, u, s),
{
}

// label: C09.monotone.get_topic
pub proof fn lemma_monotone_get_topic(p: &Permissioner, q: &Permissioner, u: u32, s: u32, t: u32)
    requires p_leq(p, q, u), dec_get_topic(p, u, s, t),
    ensures dec_get_topic(q, u, s, t),
{
    if t_has(p, u, s, t) { assert(s_of(p, u, s).topics->0@.contains_key(t)); }
}

// label: C09.monotone.create_topic
pub proof fn lemma_monotone_create_topic(p: &Permissioner, q: &Permissioner, u: u32, s: u32)
    requires p_leq(p, q, u), dec_create_topic(p, u, s),
    ensures dec_create_topic(q, u, s),
{
}

// label: C09.monotone.manage_topic
pub proof fn lemma_monotone_manage_topic(p: &Permissioner, q: &Permissioner, u: u32, s: u32, t: u32)
    requires p_leq(p, q, u), dec_manage_topic(p, u, s, t),
    ensures dec_manage_topic(q, u, s, t),
{
    if t_has(p, u, s, t) { assert(s_of(p, u, s).topics->0@.contains_key(t)); }
}

// label: C09.monotone.poll
pub proof fn lemma_monotone_poll(p: &Permissioner, q: &Permissioner, u: u32, s: u32, t: u32)
    requires p_leq(p, q, u), dec_poll(p, u, s, t),
    ensures dec_poll(q, u, s, t),
{
    if t_has(p, u, s, t) { assert(s_of(p, u, s).topics->0@.contains_key(t)); }
}

// label: C09.monotone.send
pub proof fn lemma_monotone_send(p: &Permissioner, q: &Permissioner, u: u32, s: u32, t: u32)
    requires p_leq(p, q, u), dec_send(p, u, s, t),
    ensures dec_send(q, u, s, t),
{
    if t_has(p, u, s, t) { assert(s_of(p, u, s).topics->0@.contains_key(t)); }
}

// Scope isolation of the band itself: rows of stream s (and its topics) are irrelevant to any request on s2 != s,
// and rows of topic t in s are irrelevant to any other topic of s.
// label: C09.isolation.stream
pub proof fn lemma_isolation_stream(p: &Permissioner, q: &Permissioner, u: u32, s: u32, s2: u32, t: u32)
    requires s2 != s, p.users_permissions@ == q.users_permissions@,
        forall|x: u32| x != s ==> (#[trigger] p.users_streams_permissions@.contains_key((u, x))) == q.users_streams_permissions@.contains_key((u, x)),
        forall|x: u32| x != s ==> (#[trigger] p.users_streams_permissions@[(u, x)]) == q.users_streams_permissions@[(u, x)],
    ensures stream_read_set(p, u, s2) == stream_read_set(q, u, s2), stream_write_set(p, u, s2) == stream_write_set(q, u, s2),
        topics_read_scope(p, u, s2) == topics_read_scope(q, u, s2), topics_write_scope(p, u, s2) == topics_write_scope(q, u, s2),
        topic_read_set(p, u, s2, t) == topic_read_set(q, u, s2, t), topic_write_set(p, u, s2, t) == topic_write_set(q, u, s2, t),
        poll_set(p, u, s2, t) == poll_set(q, u, s2, t), send_set(p, u, s2, t) == send_set(q, u, s2, t),
{
    assert(p.users_streams_permissions@.contains_key((u, s2)) == q.users_streams_permissions@.contains_key((u, s2)));
    assert(p.users_streams_permissions@[(u, s2)] == q.users_streams_permissions@[(u, s2)]);
}

// label: C09.isolation.topic
pub proof fn lemma_isolation_topic(p: &Permissioner, u: u32, s: u32, t: u32, t2: u32, a: TopicPermissions, b: TopicPermissions)
    requires t2 != t, s_has(p, u, s), s_of(p, u, s).topics is Some,
    ensures ({
        let m = s_of(p, u, s).topics->0@;
        // whatever record topic t carries (a or b), topic t2 sees the same entry
        m.insert(t, a).contains_key(t2) == m.insert(t, b).contains_key(t2) && (m.contains_key(t2) ==> m.insert(t, a)[t2] == m.insert(t, b)[t2])
    }),
{}

// Root floor: the root permission set has every global flag, hence passes every [C09.floor.*] clause.
// label: C09.root.floor
pub proof fn lemma_root_floor(g: GlobalPermissions)
    requires is_root_global(g),
    ensures g.read_servers && g.read_users && g.manage_users && g.read_streams && g.manage_streams && g.read_topics && g.manage_topics && g.poll_messages && g.send_messages,
{}
