// ---- lemmas: permissioner (C09) — proved on every run, spec level only ----

// Monotonicity: granting more (p ⊑ q for user u) never turns Ok into Err. Proved over the exact transcripts
// dec_* which the [C09.shape.*] clauses tie to the real rule functions.

// label: C09.monotone.server
pub proof fn lemma_monotone_server(p: &Permissioner, q: &Permissioner, u: u32)
    requires p_leq(p, q, u), dec_server(p, u),
    ensures dec_server(q, u),
{
}

// label: C09.monotone.user_read
pub proof fn lemma_monotone_user_read(p: &Permissioner, q: &Permissioner, u: u32)
    requires p_leq(p, q, u), dec_user_read(p, u),
    ensures dec_user_read(q, u),
{
}

// label: C09.monotone.user_write
pub proof fn lemma_monotone_user_write(p: &Permissioner, q: &Permissioner, u: u32)
    requires p_leq(p, q, u), dec_user_write(p, u),
    ensures dec_user_write(q, u),
{
}

// label: C09.monotone.get_streams
pub proof fn lemma_monotone_get_streams(p: &Permissioner, q: &Permissioner, u: u32)
    requires p_leq(p, q, u), dec_get_streams(p, u),
    ensures dec_get_streams(q, u),
{
}

// label: C09.monotone.create_stream
pub proof fn lemma_monotone_create_stream(p: &Permissioner, q: &Permissioner, u: u32)
    requires p_leq(p, q, u), dec_create_stream(p, u),
    ensures dec_create_stream(q, u),
{
}

// label: C09.monotone.get_stream
pub proof fn lemma_monotone_get_stream(p: &Permissioner, q: &Permissioner, u: u32, s: u32)
    requires p_leq(p, q, u), dec_get_stream(p, u, s),
    ensures dec_get_stream(q, u, s),
{
}

// label: C09.monotone.manage_stream
pub proof fn lemma_monotone_manage_stream(p: &Permissioner, q: &Permissioner, u: u32, s: u32)
    requires p_leq(p, q, u), dec_manage_stream(p, u, s),
    ensures dec_manage_stream(q, u, s),
{
}

// label: C09.monotone.get_topics
pub proof fn lemma_monotone_get_topics(p: &Permissioner, q: &Permissioner, u: u32, s: u32)
    requires p_leq(p, q, u), dec_get_topics(p, u, s),
    ensures dec_get_topics(q, u, s),
{
}

// label: C09.monotone.get_topic
pub proof fn lemma_monotone_get_topic(p: &Permissioner, q: &Permissioner, u: u32, s: u32, t: u32)
    requires p_leq(p, q, u), dec_get_topic(p, u, s, t),
    ensures dec_get_topic(q, u, s, t),
{
    if t_has(p, u, s, t) { assert(s_of(p, u, s).topics->0@.contains_key(t)); }
}

// label: C09.monotone.create_topic
pub proof fn lemma_monotone_create_topic(p: &Permissioner, q: &Permissioner, u: u32, s: u32)
    requires p_leq(p, q, u), dec_create_topic(p, u, s),
    ensures dec_create_topic(q, u, s),
{
}

// label: C09.monotone.manage_topic
pub proof fn lemma_monotone_manage_topic(p: &Permissioner, q: &Permissioner, u: u32, s: u32, t: u32)
    requires p_leq(p, q, u), dec_manage_topic(p, u, s, t),
    ensures dec_manage_topic(q, u, s, t),
{
    if t_has(p, u, s, t) { assert(s_of(p, u, s).topics->0@.contains_key(t)); }
}

// label: C09.monotone.poll
pub proof fn lemma_monotone_poll(p: &Permissioner, q: &Permissioner, u: u32, s: u32, t: u32)
    requires p_leq(p, q, u), dec_poll(p, u, s, t),
    ensures dec_poll(q, u, s, t),
{
    if t_has(p, u, s, t) { assert(s_of(p, u, s).topics->0@.contains_key(t)); }
}

// label: C09.monotone.send
pub proof fn lemma_monotone_send(p: &Permissioner, q: &Permissioner, u: u32, s: u32, t: u32)
    requires p_leq(p, q, u), dec_send(p, u, s, t),
    ensures dec_send(q, u, s, t),
{
    if t_has(p, u, s, t) { assert(s_of(p, u, s).topics->0@.contains_key(t)); }
}

// Scope isolation of the band itself: rows of stream s (and its topics) are irrelevant to any request on s2 != s,
// and rows of topic t in s are irrelevant to any other topic of s.
// label: C09.isolation.stream
pub proof fn lemma_isolation_stream(p: &Permissioner, q: &Permissioner, u: u32, s: u32, s2: u32, t: u32)
    requires s2 != s, p.users_permissions@ == q.users_permissions@,
        forall|x: u32| x != s ==> (#[trigger] p.users_streams_permissions@.contains_key((u, x))) == q.users_streams_permissions@.contains_key((u, x)),
        forall|x: u32| x != s ==> (#[trigger] p.users_streams_permissions@[(u, x)]) == q.users_streams_permissions@[(u, x)],
    ensures stream_read_set(p, u, s2) == stream_read_set(q, u, s2), stream_write_set(p, u, s2) == stream_write_set(q, u, s2),
        topics_read_scope(p, u, s2) == topics_read_scope(q, u, s2), topics_write_scope(p, u, s2) == topics_write_scope(q, u, s2),
        topic_read_set(p, u, s2, t) == topic_read_set(q, u, s2, t), topic_write_set(p, u, s2, t) == topic_write_set(q, u, s2, t),
        poll_set(p, u, s2, t) == poll_set(q, u, s2, t), send_set(p, u, s2, t) == send_set(q, u, s2, t),
{
    assert(p.users_streams_permissions@.contains_key((u, s2)) == q.users_streams_permissions@.contains_key((u, s2)));
    assert(p.users_streams_permissions@[(u, s2)] == q.users_streams_permissions@[(u, s2)]);
}

// label: C09.isolation.topic
pub proof fn lemma_isolation_topic(p: &Permissioner, u: u32, s: u32, t: u32, t2: u32, a: TopicPermissions, b: TopicPermissions)
    requires t2 != t, s_has(p, u, s), s_of(p, u, s).topics is Some,
    ensures ({
        let m = s_of(p, u, s).topics->0@;
        // whatever record topic t carries (a or b), topic t2 sees the same entry
        m.insert(t, a).contains_key(t2) == m.insert(t, b).contains_key(t2) && (m.contains_key(t2) ==> m.insert(t, a)[t2] == m.insert(t, b)[t2])
    }),
{}

// Root floor: the root permission set has every global flag, hence passes every [C09.floor.*] clause.
// label: C09.root.floor
pub proof fn lemma_root_floor(g: GlobalPermissions)
    requires is_root_global(g),
    ensures g.read_servers && g.read_users && g.manage_users && g.read_streams && g.manage_streams && g.read_topics && g.manage_topics && g.poll_messages && g.send_messages,
{}

// ---- LINK harnesses: the contracts other units ASSUME for functions proved here, proved from the real ones ---------------------
// Each harness has the assuming unit's stub signature, its `requires` / `ensures` copied VERBATIM from that unit's prelude.rs, and a
// body that is ONE call of the real extracted function: Verus proves "real contract ==> assumed contract" on every run.
// A later edit of a stub has to be mirrored here (and vice versa).
//
// Unit authn_gate (units/authn_gate/prelude.rs, `impl Permissioner`) sees the Permissioner as an OPAQUE object and states its stubs over
// four UNINTERPRETED spec functions: `allows(rule, user, stream, topic)`, `no_anon()`, `wf()`, `rows(user)`. The link gives them their
// INTERPRETATION over the real tables (a projection of this unit's vocabulary):
//   allows(rule, ..)  = the exact transcript `dec_*` of the rule method that serves the class ([C09.shape.*]); ids a rule does not take are 0
//   no_anon()         = no_rows(self, 0)
//   wf()              = perm_wf(self)                     (the denormalisation invariant the five message rules rely on)
//   rows(u)           = the slice of the six tables that belongs to user u (`UserRows`: faithful, two tables agree on rows(u) iff every
//                       entry keyed by u is the same)
// (vocabulary of units/authn_gate/prelude.rs used by the copied clauses: `Rule`, `rule_result` are verbatim copies)
pub enum Rule {
    GetStats, GetClients, GetClient, GetUser, GetUsers, CreateUser, DeleteUser, UpdateUser, UpdatePermissions, ChangePassword, GetStreams, CreateStream,
    GetStream, UpdateStream, DeleteStream, PurgeStream, GetTopics, CreateTopic,
    GetTopic, UpdateTopic, DeleteTopic, PurgeTopic, CreatePartitions, DeletePartitions, PollMessages, AppendMessages, CreateConsumerGroup,
    DeleteConsumerGroup, GetConsumerGroup, GetConsumerGroups, JoinConsumerGroup, LeaveConsumerGroup, GetConsumerOffset, StoreConsumerOffset, DeleteConsumerOffset,
}
pub ghost struct UserRows {
    pub g: Option<GlobalPermissions>,
    pub s: spec_fn(u32) -> Option<StreamPermissions>,
    pub poll_all: bool,
    pub send_all: bool,
    pub poll_s: spec_fn(u32) -> bool,
    pub send_s: spec_fn(u32) -> bool,
}
pub open spec fn rule_result(p: &Permissioner, r: Result<(), IggyError>, rule: Rule, u: u32, s: u32, t: u32) -> bool {
    &&& r is Ok <==> p.allows(rule, u, s, t)
    &&& (p.no_anon() && u == 0) ==> r is Err
}
impl Permissioner {
    pub open spec fn allows(&self, rule: Rule, user_id: u32, stream_id: u32, topic_id: u32) -> bool {
        match rule {
            Rule::GetStats | Rule::GetClients | Rule::GetClient => dec_server(self, user_id),
            Rule::GetUser | Rule::GetUsers => dec_user_read(self, user_id),
            Rule::CreateUser | Rule::DeleteUser | Rule::UpdateUser | Rule::UpdatePermissions | Rule::ChangePassword => dec_user_write(self, user_id),
            Rule::GetStreams => dec_get_streams(self, user_id),
            Rule::CreateStream => dec_create_stream(self, user_id),
            Rule::GetStream => dec_get_stream(self, user_id, stream_id),
            Rule::UpdateStream | Rule::DeleteStream | Rule::PurgeStream => dec_manage_stream(self, user_id, stream_id),
            Rule::GetTopics => dec_get_topics(self, user_id, stream_id),
            Rule::CreateTopic => dec_create_topic(self, user_id, stream_id),
            Rule::GetTopic | Rule::CreateConsumerGroup | Rule::DeleteConsumerGroup | Rule::GetConsumerGroup | Rule::GetConsumerGroups
                | Rule::JoinConsumerGroup | Rule::LeaveConsumerGroup => dec_get_topic(self, user_id, stream_id, topic_id),
            Rule::UpdateTopic | Rule::DeleteTopic | Rule::PurgeTopic | Rule::CreatePartitions | Rule::DeletePartitions
                => dec_manage_topic(self, user_id, stream_id, topic_id),
            Rule::PollMessages | Rule::GetConsumerOffset | Rule::StoreConsumerOffset | Rule::DeleteConsumerOffset
                => dec_poll(self, user_id, stream_id, topic_id),
            Rule::AppendMessages => dec_send(self, user_id, stream_id, topic_id),
        }
    }
    pub open spec fn no_anon(&self) -> bool { no_rows(self, 0) }
    pub open spec fn wf(&self) -> bool { perm_wf(self) }
    pub open spec fn rows(&self, user_id: u32) -> UserRows {
        UserRows {
            g: if self.users_permissions@.contains_key(user_id) { Some(self.users_permissions@[user_id]) } else { None },
            s: |s: u32| if self.users_streams_permissions@.contains_key((user_id, s)) { Some(self.users_streams_permissions@[(user_id, s)]) } else { None },
            poll_all: self.users_that_can_poll_messages_from_all_streams@.contains(user_id),
            send_all: self.users_that_can_send_messages_to_all_streams@.contains(user_id),
            poll_s: |s: u32| self.users_that_can_poll_messages_from_specific_streams@.contains((user_id, s)),
            send_s: |s: u32| self.users_that_can_send_messages_to_specific_streams@.contains((user_id, s)),
        }
    }
}
// the frame clause [C09.tables.*.others] in authn_gate's vocabulary: the rows of every other user, and (for a user other than 0) the
// absence of rows of user 0, are untouched
pub proof fn lemma_rows_frame(a: &Permissioner, b: &Permissioner, u: u32)
    requires others_same(a, b, u),
    ensures
        forall|v: u32| v != u ==> #[trigger] b.rows(v) == a.rows(v),
        u != 0 ==> b.no_anon() == a.no_anon(),
{
    assert forall|v: u32| v != u implies #[trigger] b.rows(v) == a.rows(v) by {
        assert(b.rows(v).s =~= a.rows(v).s);
        assert(b.rows(v).poll_s =~= a.rows(v).poll_s);
        assert(b.rows(v).send_s =~= a.rows(v).send_s);
    }
    if u != 0 {
        // others_same is triggered on b's terms: instantiate it for a's
        assert forall|s: u32| a.users_streams_permissions@.contains_key((0u32, s)) == b.users_streams_permissions@.contains_key((0u32, s)) by {}
        assert forall|s: u32| a.users_that_can_poll_messages_from_specific_streams@.contains((0u32, s)) == b.users_that_can_poll_messages_from_specific_streams@.contains((0u32, s)) by {}
        assert forall|s: u32| a.users_that_can_send_messages_to_specific_streams@.contains((0u32, s)) == b.users_that_can_send_messages_to_specific_streams@.contains((0u32, s)) by {}
        assert(a.users_permissions@.contains_key(0u32) == b.users_permissions@.contains_key(0u32));
        assert(a.users_that_can_poll_messages_from_all_streams@.contains(0u32) == b.users_that_can_poll_messages_from_all_streams@.contains(0u32));
        assert(a.users_that_can_send_messages_to_all_streams@.contains(0u32) == b.users_that_can_send_messages_to_all_streams@.contains(0u32));
        assert(no_rows(a, 0) == no_rows(b, 0));
    }
}
impl Permissioner {
    // --- the 35 rule methods: copied from units/authn_gate/prelude.rs, `impl Permissioner` (stubs get_stats .. delete_consumer_offset).
    // The five message rules carry `requires self.wf()`: ADDED to the stubs by this link (the real functions require perm_wf(self); the
    // stubs had silently dropped it).
    // label: C09.link.authn_gate.get_stats
    pub fn link_authn_gate_get_stats(&self, user_id: u32) -> (r: Result<(), IggyError>)
        ensures rule_result(self, r, Rule::GetStats, user_id, 0, 0),
    { self.get_stats(user_id) }
    // label: C09.link.authn_gate.get_clients
    pub fn link_authn_gate_get_clients(&self, user_id: u32) -> (r: Result<(), IggyError>)
        ensures rule_result(self, r, Rule::GetClients, user_id, 0, 0),
    { self.get_clients(user_id) }
    // label: C09.link.authn_gate.get_client
    pub fn link_authn_gate_get_client(&self, user_id: u32) -> (r: Result<(), IggyError>)
        ensures rule_result(self, r, Rule::GetClient, user_id, 0, 0),
    { self.get_client(user_id) }
    // label: C09.link.authn_gate.get_user
    pub fn link_authn_gate_get_user(&self, user_id: u32) -> (r: Result<(), IggyError>)
        ensures rule_result(self, r, Rule::GetUser, user_id, 0, 0),
    { self.get_user(user_id) }
    // label: C09.link.authn_gate.get_users
    pub fn link_authn_gate_get_users(&self, user_id: u32) -> (r: Result<(), IggyError>)
        ensures rule_result(self, r, Rule::GetUsers, user_id, 0, 0),
    { self.get_users(user_id) }
    // label: C09.link.authn_gate.create_user
    pub fn link_authn_gate_create_user(&self, user_id: u32) -> (r: Result<(), IggyError>)
        ensures rule_result(self, r, Rule::CreateUser, user_id, 0, 0),
    { self.create_user(user_id) }
    // label: C09.link.authn_gate.delete_user
    pub fn link_authn_gate_delete_user(&self, user_id: u32) -> (r: Result<(), IggyError>)
        ensures rule_result(self, r, Rule::DeleteUser, user_id, 0, 0),
    { self.delete_user(user_id) }
    // label: C09.link.authn_gate.update_user
    pub fn link_authn_gate_update_user(&self, user_id: u32) -> (r: Result<(), IggyError>)
        ensures rule_result(self, r, Rule::UpdateUser, user_id, 0, 0),
    { self.update_user(user_id) }
    // label: C09.link.authn_gate.update_permissions
    pub fn link_authn_gate_update_permissions(&self, user_id: u32) -> (r: Result<(), IggyError>)
        ensures rule_result(self, r, Rule::UpdatePermissions, user_id, 0, 0),
    { self.update_permissions(user_id) }
    // label: C09.link.authn_gate.change_password
    pub fn link_authn_gate_change_password(&self, user_id: u32) -> (r: Result<(), IggyError>)
        ensures rule_result(self, r, Rule::ChangePassword, user_id, 0, 0),
    { self.change_password(user_id) }
    // label: C09.link.authn_gate.get_streams
    pub fn link_authn_gate_get_streams(&self, user_id: u32) -> (r: Result<(), IggyError>)
        ensures rule_result(self, r, Rule::GetStreams, user_id, 0, 0),
    { self.get_streams(user_id) }
    // label: C09.link.authn_gate.create_stream
    pub fn link_authn_gate_create_stream(&self, user_id: u32) -> (r: Result<(), IggyError>)
        ensures rule_result(self, r, Rule::CreateStream, user_id, 0, 0),
    { self.create_stream(user_id) }
    // label: C09.link.authn_gate.get_stream
    pub fn link_authn_gate_get_stream(&self, user_id: u32, stream_id: u32) -> (r: Result<(), IggyError>)
        ensures rule_result(self, r, Rule::GetStream, user_id, stream_id, 0),
    { self.get_stream(user_id, stream_id) }
    // label: C09.link.authn_gate.update_stream
    pub fn link_authn_gate_update_stream(&self, user_id: u32, stream_id: u32) -> (r: Result<(), IggyError>)
        ensures rule_result(self, r, Rule::UpdateStream, user_id, stream_id, 0),
    { self.update_stream(user_id, stream_id) }
    // label: C09.link.authn_gate.delete_stream
    pub fn link_authn_gate_delete_stream(&self, user_id: u32, stream_id: u32) -> (r: Result<(), IggyError>)
        ensures rule_result(self, r, Rule::DeleteStream, user_id, stream_id, 0),
    { self.delete_stream(user_id, stream_id) }
    // label: C09.link.authn_gate.purge_stream
    pub fn link_authn_gate_purge_stream(&self, user_id: u32, stream_id: u32) -> (r: Result<(), IggyError>)
        ensures rule_result(self, r, Rule::PurgeStream, user_id, stream_id, 0),
    { self.purge_stream(user_id, stream_id) }
    // label: C09.link.authn_gate.get_topics
    pub fn link_authn_gate_get_topics(&self, user_id: u32, stream_id: u32) -> (r: Result<(), IggyError>)
        ensures rule_result(self, r, Rule::GetTopics, user_id, stream_id, 0),
    { self.get_topics(user_id, stream_id) }
    // label: C09.link.authn_gate.create_topic
    pub fn link_authn_gate_create_topic(&self, user_id: u32, stream_id: u32) -> (r: Result<(), IggyError>)
        ensures rule_result(self, r, Rule::CreateTopic, user_id, stream_id, 0),
    { self.create_topic(user_id, stream_id) }
    // label: C09.link.authn_gate.get_topic
    pub fn link_authn_gate_get_topic(&self, user_id: u32, stream_id: u32, topic_id: u32) -> (r: Result<(), IggyError>)
        ensures rule_result(self, r, Rule::GetTopic, user_id, stream_id, topic_id),
    { self.get_topic(user_id, stream_id, topic_id) }
    // label: C09.link.authn_gate.update_topic
    pub fn link_authn_gate_update_topic(&self, user_id: u32, stream_id: u32, topic_id: u32) -> (r: Result<(), IggyError>)
        ensures rule_result(self, r, Rule::UpdateTopic, user_id, stream_id, topic_id),
    { self.update_topic(user_id, stream_id, topic_id) }
    // label: C09.link.authn_gate.delete_topic
    pub fn link_authn_gate_delete_topic(&self, user_id: u32, stream_id: u32, topic_id: u32) -> (r: Result<(), IggyError>)
        ensures rule_result(self, r, Rule::DeleteTopic, user_id, stream_id, topic_id),
    { self.delete_topic(user_id, stream_id, topic_id) }
    // label: C09.link.authn_gate.purge_topic
    pub fn link_authn_gate_purge_topic(&self, user_id: u32, stream_id: u32, topic_id: u32) -> (r: Result<(), IggyError>)
        ensures rule_result(self, r, Rule::PurgeTopic, user_id, stream_id, topic_id),
    { self.purge_topic(user_id, stream_id, topic_id) }
    // label: C09.link.authn_gate.create_partitions
    pub fn link_authn_gate_create_partitions(&self, user_id: u32, stream_id: u32, topic_id: u32) -> (r: Result<(), IggyError>)
        ensures rule_result(self, r, Rule::CreatePartitions, user_id, stream_id, topic_id),
    { self.create_partitions(user_id, stream_id, topic_id) }
    // label: C09.link.authn_gate.delete_partitions
    pub fn link_authn_gate_delete_partitions(&self, user_id: u32, stream_id: u32, topic_id: u32) -> (r: Result<(), IggyError>)
        ensures rule_result(self, r, Rule::DeletePartitions, user_id, stream_id, topic_id),
    { self.delete_partitions(user_id, stream_id, topic_id) }
    // label: C09.link.authn_gate.poll_messages
    pub fn link_authn_gate_poll_messages(&self, user_id: u32, stream_id: u32, topic_id: u32) -> (r: Result<(), IggyError>)
        requires self.wf(),
        ensures rule_result(self, r, Rule::PollMessages, user_id, stream_id, topic_id),
    { self.poll_messages(user_id, stream_id, topic_id) }
    // label: C09.link.authn_gate.append_messages
    pub fn link_authn_gate_append_messages(&self, user_id: u32, stream_id: u32, topic_id: u32) -> (r: Result<(), IggyError>)
        requires self.wf(),
        ensures rule_result(self, r, Rule::AppendMessages, user_id, stream_id, topic_id),
    { self.append_messages(user_id, stream_id, topic_id) }
    // label: C09.link.authn_gate.create_consumer_group
    pub fn link_authn_gate_create_consumer_group(&self, user_id: u32, stream_id: u32, topic_id: u32) -> (r: Result<(), IggyError>)
        ensures rule_result(self, r, Rule::CreateConsumerGroup, user_id, stream_id, topic_id),
    { self.create_consumer_group(user_id, stream_id, topic_id) }
    // label: C09.link.authn_gate.delete_consumer_group
    pub fn link_authn_gate_delete_consumer_group(&self, user_id: u32, stream_id: u32, topic_id: u32) -> (r: Result<(), IggyError>)
        ensures rule_result(self, r, Rule::DeleteConsumerGroup, user_id, stream_id, topic_id),
    { self.delete_consumer_group(user_id, stream_id, topic_id) }
    // label: C09.link.authn_gate.get_consumer_group
    pub fn link_authn_gate_get_consumer_group(&self, user_id: u32, stream_id: u32, topic_id: u32) -> (r: Result<(), IggyError>)
        ensures rule_result(self, r, Rule::GetConsumerGroup, user_id, stream_id, topic_id),
    { self.get_consumer_group(user_id, stream_id, topic_id) }
    // label: C09.link.authn_gate.get_consumer_groups
    pub fn link_authn_gate_get_consumer_groups(&self, user_id: u32, stream_id: u32, topic_id: u32) -> (r: Result<(), IggyError>)
        ensures rule_result(self, r, Rule::GetConsumerGroups, user_id, stream_id, topic_id),
    { self.get_consumer_groups(user_id, stream_id, topic_id) }
    // label: C09.link.authn_gate.join_consumer_group
    pub fn link_authn_gate_join_consumer_group(&self, user_id: u32, stream_id: u32, topic_id: u32) -> (r: Result<(), IggyError>)
        ensures rule_result(self, r, Rule::JoinConsumerGroup, user_id, stream_id, topic_id),
    { self.join_consumer_group(user_id, stream_id, topic_id) }
    // label: C09.link.authn_gate.leave_consumer_group
    pub fn link_authn_gate_leave_consumer_group(&self, user_id: u32, stream_id: u32, topic_id: u32) -> (r: Result<(), IggyError>)
        ensures rule_result(self, r, Rule::LeaveConsumerGroup, user_id, stream_id, topic_id),
    { self.leave_consumer_group(user_id, stream_id, topic_id) }
    // label: C09.link.authn_gate.get_consumer_offset
    pub fn link_authn_gate_get_consumer_offset(&self, user_id: u32, stream_id: u32, topic_id: u32) -> (r: Result<(), IggyError>)
        requires self.wf(),
        ensures rule_result(self, r, Rule::GetConsumerOffset, user_id, stream_id, topic_id),
    { self.get_consumer_offset(user_id, stream_id, topic_id) }
    // label: C09.link.authn_gate.store_consumer_offset
    pub fn link_authn_gate_store_consumer_offset(&self, user_id: u32, stream_id: u32, topic_id: u32) -> (r: Result<(), IggyError>)
        requires self.wf(),
        ensures rule_result(self, r, Rule::StoreConsumerOffset, user_id, stream_id, topic_id),
    { self.store_consumer_offset(user_id, stream_id, topic_id) }
    // label: C09.link.authn_gate.delete_consumer_offset
    pub fn link_authn_gate_delete_consumer_offset(&self, user_id: u32, stream_id: u32, topic_id: u32) -> (r: Result<(), IggyError>)
        requires self.wf(),
        ensures rule_result(self, r, Rule::DeleteConsumerOffset, user_id, stream_id, topic_id),
    { self.delete_consumer_offset(user_id, stream_id, topic_id) }
    // --- the three table mutators: copied from units/authn_gate/prelude.rs AFTER this link weakened them. The stubs used to open with
    // `final(self).rows(user_id) == Some(permissions)` (init, update) / `final(self).rows(user_id) is None` (delete) over
    // `rows(user) -> Option<Option<Permissions>>`: "the tables determine the registered record". That is more than [C09.tables.*.rows] proves
    // (rows_are is a relation: the denormalisation is not injective, e.g. `streams: None` and `streams: Some(empty)` leave the same rows), for
    // init it also needs `no_rows(old(self), user_id)`, and nothing in authn_gate used it. What authn_gate uses — the FRAME — is proved here
    // without any precondition.
    // label: C09.link.authn_gate.init_permissions_for_user
    pub fn link_authn_gate_init_permissions_for_user(&mut self, user_id: u32, permissions: Option<Permissions>)
        ensures
            forall|v: u32| v != user_id ==> #[trigger] final(self).rows(v) == old(self).rows(v),
            user_id != 0 ==> final(self).no_anon() == old(self).no_anon(),
    {
        self.init_permissions_for_user(user_id, permissions);
        proof { lemma_rows_frame(old(self), self, user_id); }
    }
    // label: C09.link.authn_gate.update_permissions_for_user
    pub fn link_authn_gate_update_permissions_for_user(&mut self, user_id: u32, permissions: Option<Permissions>)
        ensures
            forall|v: u32| v != user_id ==> #[trigger] final(self).rows(v) == old(self).rows(v),
            user_id != 0 ==> final(self).no_anon() == old(self).no_anon(),
    {
        self.update_permissions_for_user(user_id, permissions);
        proof { lemma_rows_frame(old(self), self, user_id); }
    }
    // label: C09.link.authn_gate.delete_permissions_for_user
    pub fn link_authn_gate_delete_permissions_for_user(&mut self, user_id: u32)
        ensures
            forall|v: u32| v != user_id ==> #[trigger] final(self).rows(v) == old(self).rows(v),
            user_id != 0 ==> final(self).no_anon() == old(self).no_anon(),
    {
        self.delete_permissions_for_user(user_id);
        proof { lemma_rows_frame(old(self), self, user_id); }
    }
}

// ---- units users_restart / catalogue_more: the abstract view `rows() -> Map<u32, Option<Permissions>>` ("user id -> the permissions registered
// for it") of an opaque Permissioner. It is NOT a function of the real tables (the denormalisation is not injective), so it cannot be given an
// interpretation like `rows(u)` above; it is GHOST BOOKKEEPING. The link is therefore a SIMULATION: a ghost map `reg`, coupled to the real
// tables by `coupled` (every registered user's rows are the denormalisation of its record, every other user has no rows, the tables are
// well-formed), stays coupled when it is updated exactly as the stubs say — `reg.insert(user_id, permissions)` / `reg.remove(user_id)` —
// while the REAL function runs on the tables. The stubs' ensures are the `reg2 == ..` lines, copied verbatim with `rows()` read as `reg`.
// The simulation needs `!reg.contains_key(user_id)` for init (the real function only ADDS rows: on a user that has rows the old stream rows
// and membership-set entries survive): that precondition had been dropped by both stubs and was added to them by this link.
pub open spec fn coupled(p: &Permissioner, reg: Map<u32, Option<Permissions>>) -> bool {
    &&& perm_wf(p)
    &&& forall|u: u32| #[trigger] reg.contains_key(u) ==> rows_are(p, u, reg[u])
    &&& forall|u: u32| !#[trigger] reg.contains_key(u) ==> no_rows(p, u)
}
// the rows of another user, and their absence, survive a change confined to user u
pub proof fn lemma_rows_are_frame(a: &Permissioner, b: &Permissioner, u: u32, v: u32, x: Option<Permissions>)
    requires others_same(a, b, u), v != u,
    ensures rows_are(a, v, x) ==> rows_are(b, v, x), no_rows(a, v) ==> no_rows(b, v),
{
}
impl Permissioner {
    // stub `Permissioner::init_permissions_for_user` of units/users_restart/prelude.rs and units/catalogue_more/prelude.rs:
    //     requires !old(self).rows().contains_key(user_id)                                   (ADDED by the link)
    //     ensures final(self).rows() == old(self).rows().insert(user_id, permissions)
    // label: C09.link.users_restart.init_permissions_for_user
    pub fn link_rows_view_init_permissions_for_user(&mut self, Ghost(reg): Ghost<Map<u32, Option<Permissions>>>, user_id: u32, permissions: Option<Permissions>)
        -> (reg2: Ghost<Map<u32, Option<Permissions>>>)
        requires coupled(old(self), reg), !reg.contains_key(user_id),
        ensures coupled(final(self), reg2@), reg2@ == reg.insert(user_id, permissions),
    {
        self.init_permissions_for_user(user_id, permissions);
        proof {
            assert forall|u: u32| #[trigger] reg.insert(user_id, permissions).contains_key(u) implies rows_are(self, u, reg.insert(user_id, permissions)[u]) by {
                if u != user_id { lemma_rows_are_frame(old(self), self, user_id, u, reg[u]); }
            }
            assert forall|u: u32| !#[trigger] reg.insert(user_id, permissions).contains_key(u) implies no_rows(self, u) by {
                lemma_rows_are_frame(old(self), self, user_id, u, None);
            }
        }
        Ghost(reg.insert(user_id, permissions))
    }
    // stub `Permissioner::update_permissions_for_user` of units/users_restart/prelude.rs:
    //     ensures final(self).rows() == old(self).rows().insert(user_id, permissions)
    // label: C09.link.users_restart.update_permissions_for_user
    pub fn link_rows_view_update_permissions_for_user(&mut self, Ghost(reg): Ghost<Map<u32, Option<Permissions>>>, user_id: u32, permissions: Option<Permissions>)
        -> (reg2: Ghost<Map<u32, Option<Permissions>>>)
        requires coupled(old(self), reg),
        ensures coupled(final(self), reg2@), reg2@ == reg.insert(user_id, permissions),
    {
        self.update_permissions_for_user(user_id, permissions);
        proof {
            assert forall|u: u32| #[trigger] reg.insert(user_id, permissions).contains_key(u) implies rows_are(self, u, reg.insert(user_id, permissions)[u]) by {
                if u != user_id { lemma_rows_are_frame(old(self), self, user_id, u, reg[u]); }
            }
            assert forall|u: u32| !#[trigger] reg.insert(user_id, permissions).contains_key(u) implies no_rows(self, u) by {
                lemma_rows_are_frame(old(self), self, user_id, u, None);
            }
        }
        Ghost(reg.insert(user_id, permissions))
    }
    // stub `Permissioner::delete_permissions_for_user` of units/catalogue_more/prelude.rs:
    //     ensures final(self).rows() == old(self).rows().remove(user_id)
    // label: C09.link.catalogue_more.delete_permissions_for_user
    pub fn link_rows_view_delete_permissions_for_user(&mut self, Ghost(reg): Ghost<Map<u32, Option<Permissions>>>, user_id: u32)
        -> (reg2: Ghost<Map<u32, Option<Permissions>>>)
        requires coupled(old(self), reg),
        ensures coupled(final(self), reg2@), reg2@ == reg.remove(user_id),
    {
        self.delete_permissions_for_user(user_id);
        proof {
            assert forall|u: u32| #[trigger] reg.remove(user_id).contains_key(u) implies rows_are(self, u, reg.remove(user_id)[u]) by {
                lemma_rows_are_frame(old(self), self, user_id, u, reg[u]);
            }
            assert forall|u: u32| !#[trigger] reg.remove(user_id).contains_key(u) implies no_rows(self, u) by {
                if u != user_id { lemma_rows_are_frame(old(self), self, user_id, u, None); }
            }
        }
        Ghost(reg.remove(user_id))
    }
}
