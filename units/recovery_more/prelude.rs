// ---- unit prelude: recovery_more (C03 / C16: the parts of FilePartitionStorage::load that unit `recovery` leaves out) ----
#[verifier::external_body]
pub struct SegmentIndexReader { x: u8 }

// ---- R8 schemas (documented std semantics; closure bodies lifted verbatim into the ghost function) ----------------------
pub open spec fn sorted_by_key<T>(s: Seq<T>, key: spec_fn(T) -> u64) -> bool {
    forall|i: int, j: int| 0 <= i <= j < s.len() ==> key(#[trigger] s[i]) <= key(#[trigger] s[j])
}
pub trait VecSchemas<T> {
    spec fn sv(&self) -> Seq<T>;
    // `v.sort_by(|a, b| a.K.cmp(&b.K))`: stable ascending sort by key K — a sorted permutation of the input;
    // an input that is already sorted is left as it is (stability)
    fn sort_by_key_spec(&mut self, key: Ghost<spec_fn(T) -> u64>)
        ensures
            final(self).sv().len() == old(self).sv().len(),
            sorted_by_key(final(self).sv(), key@),
            final(self).sv().to_multiset() == old(self).sv().to_multiset(),
            sorted_by_key(old(self).sv(), key@) ==> final(self).sv() == old(self).sv();
    // `v.sort_by(|a, b| b.K.cmp(&a.K))`: stable DESCENDING sort by key K
    fn sort_by_key_desc_spec(&mut self, key: Ghost<spec_fn(T) -> u64>)
        ensures
            final(self).sv().len() == old(self).sv().len(),
            forall|i: int, j: int| 0 <= i <= j < final(self).sv().len() ==> key@(#[trigger] final(self).sv()[i]) >= key@(#[trigger] final(self).sv()[j]),
            final(self).sv().to_multiset() == old(self).sv().to_multiset();
}
impl<T> VecSchemas<T> for Vec<T> {
    open spec fn sv(&self) -> Seq<T> { self@ }
    #[verifier::external_body]
    fn sort_by_key_spec(&mut self, key: Ghost<spec_fn(T) -> u64>) { unimplemented!() }
    #[verifier::external_body]
    fn sort_by_key_desc_spec(&mut self, key: Ghost<spec_fn(T) -> u64>) { unimplemented!() }
}

// `v.iter().skip(n).map(|x| F(x)).collect::<Vec<u64>>()`: F over the elements from index n on, in order. F is evaluated in
// machine arithmetic: a value outside u64 is an overflow/underflow panic (debug) — the precondition.
#[verifier::external_body]
pub fn std_iter_skip_map_collect_u64<T>(v: &Vec<T>, n: usize, Ghost(f): Ghost<spec_fn(T) -> int>) -> (r: Vec<u64>)
    requires forall|i: int| n <= i < v@.len() ==> 0 <= #[trigger] f(v@[i]) <= u64::MAX,
    ensures
        r@.len() == (if v@.len() >= n { v@.len() - n } else { 0 }),
        forall|i: int| 0 <= i < r@.len() ==> #[trigger] r@[i] == f(v@[i + n]),
{ unimplemented!() }

// `v.iter_mut().enumerate()` (collected): the pairs (i, &mut v[i]) in order; the vector after the borrows end holds, at
// each index, the final value of that index's borrow
#[verifier::external_body]
pub fn std_iter_mut_enumerate<'a, T>(v: &'a mut Vec<T>) -> (r: Vec<(usize, &'a mut T)>)
    ensures
        r@.len() == old(v)@.len(),
        final(v)@.len() == old(v)@.len(),
        forall|i: int| 0 <= i < r@.len() ==> (#[trigger] r@[i]).0 == i && *r@[i].1 == old(v)@[i] && *final(r@[i].1) == final(v)@[i],
{ unimplemented!() }

pub open spec fn by_start() -> spec_fn(Segment) -> u64 { |s: Segment| s.start_offset }
// segments strictly ascending by start offset
pub open spec fn strictly_sorted(s: Seq<Segment>) -> bool {
    forall|i: int, j: int| 0 <= i < j < s.len() ==> (#[trigger] s[i]).start_offset < (#[trigger] s[j]).start_offset
}
pub open spec fn distinct_starts(s: Seq<Segment>) -> bool {
    forall|i: int, j: int| 0 <= i < j < s.len() ==> (#[trigger] s[i]).start_offset != (#[trigger] s[j]).start_offset
}
// the stream-wide segment counter is an AtomicU32 updated with wrapping arithmetic
pub open spec fn wadd32(a: u32, b: int) -> int { (a + b) % 0x1_0000_0000 }
