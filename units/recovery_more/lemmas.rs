// ---- lemmas: recovery_more ----
// Sorting by start offset ([C03.sorted], [C03.sorted.perm]) a list of segments with pairwise different start offsets
// (file names of one directory: A-io) yields a STRICTLY ascending list — the precondition of the back-fill slice.
// label: C03.sorted.strict
pub proof fn lemma_sorted_strict(before: Seq<Segment>, after: Seq<Segment>)
    requires
        distinct_starts(before),
        sorted_by_key(after, by_start()),
        after.to_multiset() == before.to_multiset(),
    ensures
        strictly_sorted(after),
{
    before.to_multiset_ensures();
    after.to_multiset_ensures();
    // `before` has no duplicate elements (different keys), so every element occurs at most once in the multiset
    assert(before.no_duplicates()) by {
        assert forall|i: int, j: int| 0 <= i < before.len() && 0 <= j < before.len() && i != j implies before[i] != before[j] by {
            if i < j { assert(before[i].start_offset != before[j].start_offset); } else { assert(before[j].start_offset != before[i].start_offset); }
        }
    }
    before.lemma_multiset_has_no_duplicates();
    after.lemma_multiset_has_no_duplicates_conv();
    assert(after.no_duplicates());
    assert forall|i: int, j: int| 0 <= i < j < after.len() implies (#[trigger] after[i]).start_offset < (#[trigger] after[j]).start_offset by {
        assert(by_start()(after[i]) <= by_start()(after[j]));
        if after[i].start_offset == after[j].start_offset {
            assert(after.contains(after[i]) && after.contains(after[j]));
            assert(before.to_multiset().count(after[i]) > 0 && before.to_multiset().count(after[j]) > 0);
            assert(before.contains(after[i]) && before.contains(after[j]));
            let p = choose|p: int| 0 <= p < before.len() && before[p] == after[i];
            let q = choose|q: int| 0 <= q < before.len() && before[q] == after[j];
            assert(after[i] != after[j]);
            assert(p != q);
            if p < q { assert(before[p].start_offset != before[q].start_offset); } else { assert(before[q].start_offset != before[p].start_offset); }
        }
    }
}

// n executions of the per-segment step ([C16.load.segcount]: counter' == wadd32(counter, 1), one segment pushed) grow the
// stream-wide segment counter by exactly n, the number of loaded segments (in the counter's wrapping u32 arithmetic).
pub open spec fn segcount_after(c0: u32, n: nat) -> int
    decreases n,
{
    if n == 0 { c0 as int } else { wadd32(segcount_after(c0, (n - 1) as nat) as u32, 1) }
}
// label: C16.load.segcount.sum
pub proof fn lemma_segcount_sum(c0: u32, n: nat)
    ensures
        segcount_after(c0, n) == (c0 + n) % 0x1_0000_0000,
        0 <= segcount_after(c0, n) < 0x1_0000_0000,
    decreases n,
{
    if n == 0 {
        vstd::arithmetic::div_mod::lemma_small_mod(c0 as nat, 0x1_0000_0000);
    } else {
        lemma_segcount_sum(c0, (n - 1) as nat);
        let prev = segcount_after(c0, (n - 1) as nat);
        assert(prev == (c0 + n - 1) % 0x1_0000_0000);
        vstd::arithmetic::div_mod::lemma_add_mod_noop((c0 + n - 1) as int, 1, 0x1_0000_0000);
        vstd::arithmetic::div_mod::lemma_small_mod(1, 0x1_0000_0000);
        vstd::arithmetic::div_mod::lemma_mod_bound((c0 + n) as int, 0x1_0000_0000);
    }
}

// The tail of `load` (unit recovery, `load_tail`) leaves the non-last segments and the last segment's start offset as they
// are, so the adjacency established by the back-fill ([C03.end]) still holds when `load` returns; with [C03.closedend]
// (closed last segment: end_offset == current_offset) every closed segment has its end offset back.
pub open spec fn ends_adjacent(s: Seq<Segment>) -> bool {
    forall|i: int| 0 <= i < s.len() - 1 ==> (#[trigger] s[i]).end_offset + 1 == s[i + 1].start_offset
}
// label: C03.end.compose
pub proof fn lemma_end_survives_tail(after_backfill: Seq<Segment>, after_tail: Seq<Segment>)
    requires
        ends_adjacent(after_backfill),
        after_tail.len() == after_backfill.len(),
        forall|i: int| 0 <= i < after_backfill.len() - 1 ==> after_tail[i] == after_backfill[i],
        after_backfill.len() > 0 ==> after_tail[after_tail.len() - 1].start_offset == after_backfill[after_backfill.len() - 1].start_offset,
    ensures
        ends_adjacent(after_tail),
{
    assert forall|i: int| 0 <= i < after_tail.len() - 1 implies (#[trigger] after_tail[i]).end_offset + 1 == after_tail[i + 1].start_offset by {
        assert(after_backfill[i].end_offset + 1 == after_backfill[i + 1].start_offset);
    }
}
