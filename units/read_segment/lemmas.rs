// ---- lemmas: read_segment (C02) ----
// What [C02.tier]'s right-hand side means on a well-formed segment: the messages of a segment are contiguous from its start
// offset, so the slice [lo, hi] is the index window [lo-start, hi+1-start) clamped to the segment — a contiguous run with
// no hole, no repeat, and every available message of the range.
// label: C02.tier.nohole
pub proof fn lemma_slice_of_contig(s: Seq<RetainedMessage>, first: int, lo: int, hi: int)
    requires contig(s, first),
    ensures ({
        let a = if lo - first <= 0 { 0 } else if lo - first <= s.len() { lo - first } else { s.len() as int };
        let b0 = if hi + 1 - first <= 0 { 0 } else if hi + 1 - first <= s.len() { hi + 1 - first } else { s.len() as int };
        let b = if b0 >= a { b0 } else { a };
        &&& slice_of(s, lo, hi) == s.subrange(a, b)
        &&& forall|i: int| 0 <= i < b - a ==> (#[trigger] slice_of(s, lo, hi)[i]).offset == first + a + i
    }),
{
    let a = if lo - first <= 0 { 0 } else if lo - first <= s.len() { lo - first } else { s.len() as int };
    let b0 = if hi + 1 - first <= 0 { 0 } else if hi + 1 - first <= s.len() { hi + 1 - first } else { s.len() as int };
    let b = if b0 >= a { b0 } else { a };
    assert forall|i: int| 0 <= i < s.len() implies (off_in(lo, hi)(#[trigger] s[i]) <==> a <= i < b) by {
        assert(s[i].offset == first + i);
    }
    lemma_keep_window(s, off_in(lo, hi), a, b);
}

// Tier independence: the answer of [C02.tier] is a function of the segment's message view alone — two segments holding the
// same messages split differently between disk batches and buffer give the same result for the same poll.
// label: C02.tier.independent
pub proof fn lemma_tier_independence(s1: &Segment, s2: &Segment, lo: int, hi: int)
    requires seg_msgs(s1) == seg_msgs(s2),
    ensures slice_of(flat(seg_disk(s1)) + seg_buf(s1), lo, hi) == slice_of(flat(seg_disk(s2)) + seg_buf(s2), lo, hi),
{}

// The precondition of [C02.idx] follows from the send path's segment invariant: the index records a well-formed segment has
// written carry the last relative offset of their batch, and batches are non-empty and contiguous, so the offsets are
// strictly increasing.
pub open spec fn batch_last(f: Seq<BatchV>, i: int) -> int { f[i].base + f[i].delta }
pub proof fn lemma_batch_lasts_increase(f: Seq<BatchV>, first: int)
    requires
        forall|i: int| 0 <= i < f.len() ==> batch_wf(#[trigger] f[i]),
        contig(flat(f), first),
    ensures
        forall|i: int, j: int| 0 <= i < j < f.len() ==> #[trigger] batch_last(f, i) < #[trigger] batch_last(f, j),
        forall|i: int| 0 <= i < f.len() ==> #[trigger] batch_last(f, i) <= first + flat(f).len() - 1,
        f.len() > 0 ==> batch_last(f, f.len() - 1) == first + flat(f).len() - 1,
    decreases f.len(),
{
    if f.len() > 0 {
        let t = f.drop_last();
        let b = f.last();
        assert(flat(f) == flat(t) + b.msgs);
        assert(forall|i: int| 0 <= i < t.len() ==> t[i] == f[i]);
        assert forall|i: int| 0 <= i < flat(t).len() implies (#[trigger] flat(t)[i]).offset == first + i by {
            assert(flat(t)[i] == flat(f)[i]);
        }
        lemma_batch_lasts_increase(t, first);
        assert(batch_wf(f[f.len() - 1]));
        let n = b.msgs.len() as int;
        assert(b.msgs[n - 1] == flat(f)[flat(t).len() + n - 1]);
        assert(batch_last(f, f.len() - 1) == first + flat(f).len() - 1);
        assert forall|i: int, j: int| 0 <= i < j < f.len() implies #[trigger] batch_last(f, i) < #[trigger] batch_last(f, j) by {
            if j < t.len() {
                assert(batch_last(t, i) < batch_last(t, j));
            } else {
                assert(batch_last(t, i) <= first + flat(t).len() - 1);
            }
        }
        assert forall|i: int| 0 <= i < f.len() implies #[trigger] batch_last(f, i) <= first + flat(f).len() - 1 by {
            if i < t.len() { assert(batch_last(t, i) <= first + flat(t).len() - 1); }
        }
    }
}
// label: C02.idx.pre
pub proof fn lemma_seg_wf_idx_strict(s: &Segment)
    requires seg_wf(s),
    ensures idx_strict(s.index_writer->0.idx()),
{
    let f = seg_disk(s);
    let ix = s.index_writer->0.idx();
    assert forall|i: int| 0 <= i < flat(f).len() implies (#[trigger] flat(f)[i]).offset == s.start_offset + i by {
        assert(flat(f)[i] == seg_msgs(s)[i]);
    }
    lemma_batch_lasts_increase(f, s.start_offset as int);
    assert forall|i: int, j: int| 0 <= i < j < ix.len() implies (#[trigger] ix[i]).offset < (#[trigger] ix[j]).offset by {
        assert(batch_last(f, i) < batch_last(f, j));
    }
}

// ---- LINK harnesses: the contracts other units ASSUME for functions proved here, proved from the real ones ---------------------
// Each harness has the assuming unit's stub signature, its `requires` / `ensures` copied VERBATIM from that unit's prelude.rs, and a
// body that is ONE call of the real extracted function: Verus proves "real contract ==> assumed contract" on every run.
// A later edit of a stub has to be mirrored here (and vice versa).
impl Segment {
    // copied from units/read_disk/prelude.rs, stub `Segment::load_highest_lower_bound_index` (idx_strict / is_first_ge / none_ge there
    // are vx/prelude/slices.rs, verbatim copies of this unit's prelude)
    // label: C02.link.read_disk.load_highest_lower_bound_index
    pub fn link_read_disk_load_highest_lower_bound_index(&self, indices: &[Index], start_offset: u32, end_offset: u32) -> (r: Result<IndexRange, IggyError>)
        requires
            idx_strict(indices@),
            start_offset + self.start_offset <= u64::MAX,
        ensures
            // [C02.idx.start]
            r is Ok ==> exists|k: int| is_first_ge(indices@, k, start_offset as int) && r->Ok_0.start == indices@[k],
            // [C02.idx.end]
            r is Ok ==> (exists|k: int| is_first_ge(indices@, k, end_offset as int) && r->Ok_0.end == indices@[k])
                || (none_ge(indices@, end_offset as int) && r->Ok_0.end == indices@.last()),
            // [C02.idx.err]
            r is Err <==> none_ge(indices@, start_offset as int),
    {
        self.load_highest_lower_bound_index(indices, start_offset, end_offset)
    }

    // copied from units/read_partition/prelude.rs, stub `Segment::get_messages_by_offset` (seq_keep / off_in / slice_of there are verbatim
    // copies of this unit's prelude; `seg_all` is vx/prelude/segview.rs; `max_int` is defined below as in read_partition's prelude)
    // label: C02.link.read_partition.get_messages_by_offset
    pub fn link_read_partition_get_messages_by_offset(&self, offset: u64, count: u32) -> (r: Result<Vec<RetainedMessage>, IggyError>)
        requires
            contig(seg_all(self), self.start_offset as int),
            self.unsaved_messages is Some ==> acc_wf(&self.unsaved_messages->0),
            offset + count <= u64::MAX, self.start_offset + count <= u64::MAX,
            disk_tier_wf(self),
            max_int(offset as int, self.start_offset as int) - self.start_offset <= u32::MAX,
            2 * max_int(offset as int, self.start_offset as int) + count <= u64::MAX,
        ensures r is Ok ==> r->Ok_0@ == slice_of(seg_all(self), max_int(offset as int, self.start_offset as int),
                                                 max_int(offset as int, self.start_offset as int) + count - 1),
    {
        self.get_messages_by_offset(offset, count)
    }

    // copied from units/read_partition/prelude.rs, stub `Segment::get_messages_by_timestamp` (ts_sorted / ts_slice_of / take / ts_ge there
    // are verbatim copies of this unit's prelude)
    // label: C02.link.read_partition.get_messages_by_timestamp
    pub fn link_read_partition_get_messages_by_timestamp(&self, start_timestamp: u64, count: usize) -> (r: Result<Vec<RetainedMessage>, IggyError>)
        requires ts_sorted(seg_buf(self)), seg_buf(self).len() + count <= usize::MAX,
        ensures r is Ok ==> r->Ok_0@ == ts_slice_of(seg_all(self), start_timestamp as int, count as int),
    {
        self.get_messages_by_timestamp(start_timestamp, count)
    }
}
// (vocabulary of units/read_partition/prelude.rs used by the copied clauses)
pub open spec fn max_int(a: int, b: int) -> int { if a >= b { a } else { b } }
