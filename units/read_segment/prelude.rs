// ---- unit prelude: read_segment (C02) ----
use crate::IggyError::InvalidOffset;      // mirrors `use iggy::error::IggyError::InvalidOffset;` of segments/indexes/index.rs

// ---- the oracle of C02 (from the statement): the retained messages whose offsets lie in [lo, hi], in log order ----
pub open spec fn seq_keep(s: Seq<RetainedMessage>, f: spec_fn(RetainedMessage) -> bool) -> Seq<RetainedMessage>
    decreases s.len(),
{
    if s.len() == 0 { Seq::empty() }
    else if f(s.last()) { seq_keep(s.drop_last(), f).push(s.last()) }
    else { seq_keep(s.drop_last(), f) }
}
pub open spec fn off_in(lo: int, hi: int) -> spec_fn(RetainedMessage) -> bool { |m: RetainedMessage| lo <= m.offset <= hi }
pub open spec fn ts_ge(t: int) -> spec_fn(RetainedMessage) -> bool { |m: RetainedMessage| m.timestamp >= t }
// slice(log, o, n) of DESIGN §6 C02 with hi = o+n-1
pub open spec fn slice_of(log: Seq<RetainedMessage>, lo: int, hi: int) -> Seq<RetainedMessage> { seq_keep(log, off_in(lo, hi)) }
// "the first n whose timestamp is at least t"
pub open spec fn take(s: Seq<RetainedMessage>, n: int) -> Seq<RetainedMessage> {
    s.subrange(0, if n <= 0 { 0 } else if n <= s.len() { n } else { s.len() as int })
}
pub open spec fn ts_slice_of(log: Seq<RetainedMessage>, t: int, n: int) -> Seq<RetainedMessage> { take(seq_keep(log, ts_ge(t)), n) }

pub open spec fn off_sorted(s: Seq<RetainedMessage>) -> bool {
    forall|i: int, j: int| 0 <= i <= j < s.len() ==> (#[trigger] s[i]).offset <= (#[trigger] s[j]).offset
}
pub open spec fn ts_sorted(s: Seq<RetainedMessage>) -> bool {
    forall|i: int, j: int| 0 <= i <= j < s.len() ==> (#[trigger] s[i]).timestamp <= (#[trigger] s[j]).timestamp
}

// ---- technical lemmas about seq_keep (proved) ----
pub proof fn lemma_keep_add(a: Seq<RetainedMessage>, b: Seq<RetainedMessage>, f: spec_fn(RetainedMessage) -> bool)
    ensures seq_keep(a + b, f) == seq_keep(a, f) + seq_keep(b, f),
    decreases b.len(),
{
    if b.len() == 0 {
        assert(a + b =~= a);
        assert(seq_keep(a, f) + seq_keep(b, f) =~= seq_keep(a, f));
    } else {
        lemma_keep_add(a, b.drop_last(), f);
        assert((a + b).drop_last() =~= a + b.drop_last());
        assert((a + b).last() == b.last());
        if f(b.last()) {
            assert(seq_keep(a, f) + seq_keep(b.drop_last(), f).push(b.last()) =~= (seq_keep(a, f) + seq_keep(b.drop_last(), f)).push(b.last()));
        }
    }
}
// the kept elements are exactly those of the index window [a, b)
pub proof fn lemma_keep_window(s: Seq<RetainedMessage>, f: spec_fn(RetainedMessage) -> bool, a: int, b: int)
    requires
        0 <= a <= b <= s.len(),
        forall|i: int| 0 <= i < s.len() ==> (f(#[trigger] s[i]) <==> a <= i < b),
    ensures seq_keep(s, f) == s.subrange(a, b),
    decreases s.len(),
{
    if s.len() == 0 {
        assert(s.subrange(a, b) =~= Seq::<RetainedMessage>::empty());
    } else {
        let n = s.len() - 1;
        let t = s.drop_last();
        assert(forall|i: int| 0 <= i < t.len() ==> t[i] == s[i]);
        if b == s.len() {
            if a == b {
                lemma_keep_window(t, f, n, n);
                assert(!f(s[n]));
                assert(s.subrange(a, b) =~= t.subrange(n, n));
            } else {
                lemma_keep_window(t, f, a, n);
                assert(f(s[n]));
                assert(s.subrange(a, b) =~= t.subrange(a, n).push(s.last()));
            }
        } else {
            lemma_keep_window(t, f, a, b);
            assert(!f(s[n]));
            assert(s.subrange(a, b) =~= t.subrange(a, b));
        }
    }
}
pub proof fn lemma_keep_none(s: Seq<RetainedMessage>, f: spec_fn(RetainedMessage) -> bool)
    requires forall|i: int| 0 <= i < s.len() ==> !f(#[trigger] s[i]),
    ensures seq_keep(s, f) == Seq::<RetainedMessage>::empty(),
{
    lemma_keep_window(s, f, 0, 0);
    assert(s.subrange(0, 0) =~= Seq::<RetainedMessage>::empty());
}
pub proof fn lemma_keep_ext(s: Seq<RetainedMessage>, f: spec_fn(RetainedMessage) -> bool, g: spec_fn(RetainedMessage) -> bool)
    requires forall|i: int| 0 <= i < s.len() ==> (f(#[trigger] s[i]) <==> g(s[i])),
    ensures seq_keep(s, f) == seq_keep(s, g),
    decreases s.len(),
{
    if s.len() > 0 {
        let t = s.drop_last();
        assert(forall|i: int| 0 <= i < t.len() ==> t[i] == s[i]);
        lemma_keep_ext(t, f, g);
        assert(f(s[s.len() - 1]) <==> g(s[s.len() - 1]));
    }
}

// The case analysis of a read inside one segment, on the abstract view: `d` = what is on disk, `b` = what is buffered,
// together contiguous from `first`; the split point is the first buffered offset `fbo`: everything on disk is below it,
// everything buffered is at or above it. Stated for arbitrary bounds so that it does not depend on how the code writes them.
pub proof fn lemma_tier_split(d: Seq<RetainedMessage>, b: Seq<RetainedMessage>, first: int, lo: int, hi: int)
    requires contig(d + b, first), b.len() > 0,
    ensures
        b[0].offset == first + d.len(),
        slice_of(d + b, lo, hi) == slice_of(d, lo, hi) + slice_of(b, lo, hi),
        // an upper bound at or above fbo-1 does not restrict the disk part; a lower bound at or below fbo does not restrict the buffer part
        forall|x: int, y: int| x >= b[0].offset - 1 && y >= b[0].offset - 1 ==> #[trigger] slice_of(d, lo, x) == #[trigger] slice_of(d, lo, y),
        forall|x: int, y: int| x <= b[0].offset && y <= b[0].offset ==> #[trigger] slice_of(b, x, hi) == #[trigger] slice_of(b, y, hi),
        // nothing on disk at or above fbo, nothing buffered below it
        forall|x: int, y: int| x >= b[0].offset ==> #[trigger] slice_of(d, x, y) == Seq::<RetainedMessage>::empty(),
        forall|x: int, y: int| y < b[0].offset ==> #[trigger] slice_of(b, x, y) == Seq::<RetainedMessage>::empty(),
{
    let s = d + b;
    lemma_keep_add(d, b, off_in(lo, hi));
    assert(forall|i: int| 0 <= i < d.len() ==> d[i] == s[i]);
    assert(forall|i: int| 0 <= i < b.len() ==> b[i] == s[d.len() + i]);
    assert(b[0] == s[d.len() as int]);
    let fbo = b[0].offset as int;
    assert(forall|i: int| 0 <= i < d.len() ==> (#[trigger] d[i]).offset < fbo);
    assert(forall|i: int| 0 <= i < b.len() ==> (#[trigger] b[i]).offset >= fbo);
    assert forall|x: int, y: int| x >= fbo - 1 && y >= fbo - 1 implies #[trigger] slice_of(d, lo, x) == #[trigger] slice_of(d, lo, y) by {
        lemma_keep_ext(d, off_in(lo, x), off_in(lo, y));
    }
    assert forall|x: int, y: int| x <= fbo && y <= fbo implies #[trigger] slice_of(b, x, hi) == #[trigger] slice_of(b, y, hi) by {
        lemma_keep_ext(b, off_in(x, hi), off_in(y, hi));
    }
    assert forall|x: int, y: int| x >= fbo implies #[trigger] slice_of(d, x, y) == Seq::<RetainedMessage>::empty() by {
        lemma_keep_none(d, off_in(x, y));
    }
    assert forall|x: int, y: int| y < fbo implies #[trigger] slice_of(b, x, y) == Seq::<RetainedMessage>::empty() by {
        lemma_keep_none(b, off_in(x, y));
    }
}

// ---- R8 schemas (A-std) ------------------------------------------------------------------------------------------
// `s.partition_point(pred)` (core::slice): "Returns the index of the partition point according to the given predicate
// (the index of the first element of the second partition). The slice is assumed to be partitioned according to the given
// predicate [...] If this slice is not partitioned, the returned result is unspecified and meaningless".
pub open spec fn partitioned<T>(s: Seq<T>, p: spec_fn(T) -> bool) -> bool {
    forall|i: int, j: int| 0 <= i < j < s.len() && p(#[trigger] s[j]) ==> p(#[trigger] s[i])
}
pub trait VecPartitionPoint<T> {
    spec fn ppv(&self) -> Seq<T>;
    fn partition_point_spec(&self, p: Ghost<spec_fn(T) -> bool>) -> (r: usize)
        requires partitioned(self.ppv(), p@),       // a call on a slice that is not partitioned has no meaning: made an obligation
        ensures
            r <= self.ppv().len(),
            forall|i: int| 0 <= i < r ==> (p@)(#[trigger] self.ppv()[i]),
            forall|i: int| r <= i < self.ppv().len() ==> !(p@)(#[trigger] self.ppv()[i]);
}
impl<T> VecPartitionPoint<T> for Vec<T> {
    open spec fn ppv(&self) -> Seq<T> { self@ }
    #[verifier::external_body]
    fn partition_point_spec(&self, p: Ghost<spec_fn(T) -> bool>) -> (r: usize) { unimplemented!() }
}
// `s[a..b].to_vec()`: Verus knows range indexing of a Vec (panics unless a <= b <= len: precondition); `to_vec` copies
pub assume_specification<T: Clone> [<[T]>::to_vec] (s: &[T]) -> (r: Vec<T>)
    ensures r@ == s@;

// `s.binary_search_by(|x| x.K.cmp(&t))` (core::slice): "If the slice is not sorted or if the comparator function does not
// implement an order consistent with the sort order of the underlying slice, the returned result is unspecified and
// meaningless. If the value is found then Result::Ok is returned, containing the index of the matching element. If there are
// multiple matches, then any one of the matches could be returned. [...] If the value is not found then Result::Err is
// returned, containing the index where a matching element could be inserted while maintaining sorted order."
pub open spec fn sorted_by_u32_key<T>(s: Seq<T>, key: spec_fn(T) -> u32) -> bool {
    forall|i: int, j: int| 0 <= i <= j < s.len() ==> key(#[trigger] s[i]) <= key(#[trigger] s[j])
}
#[verifier::external_body]
pub fn std_binary_search_by_key<T>(s: &[T], Ghost(key): Ghost<spec_fn(T) -> u32>, target: u32) -> (r: Result<usize, usize>)
    ensures
        match r { Ok(i) => i < s@.len(), Err(i) => i <= s@.len() },
        sorted_by_u32_key(s@, key) ==> match r {
            Ok(i) => key(s@[i as int]) == target,
            Err(i) => (forall|j: int| 0 <= j < i ==> key(#[trigger] s@[j]) < target)
                   && (forall|j: int| i <= j < s@.len() ==> key(#[trigger] s@[j]) > target),
        },
{ unimplemented!() }

// Vec::extend(Vec)
#[verifier::external_body]
pub fn vec_extend_vec(v: &mut Vec<RetainedMessage>, items: Vec<RetainedMessage>)
    ensures final(v)@ == old(v)@ + items@,
{ unimplemented!() }

// `v.into_iter().map(Arc::new).collect()` with Arc<RetainedMessage> == RetainedMessage (R4): the same vector (verified)
pub trait ArcMapCollect { fn into_iter_map_arc_new_collect(self) -> Vec<RetainedMessage>; }
impl ArcMapCollect for Vec<RetainedMessage> {
    fn into_iter_map_arc_new_collect(self) -> (r: Vec<RetainedMessage>) ensures r@ == self@, { self }
}

// ---- callees of the segment read path that are under contract elsewhere (ASSUMED here) -------------------------------
// The reading invariant of the disk tier: `rd_wf` of units/read_disk/prelude.rs (log reader, index reader and cached index are
// views of the same two files; one index record per stored batch carrying its last relative offset AND its file position; file
// below 4 GiB). It is not expressible in this unit's vocabulary (no index reader, no file positions here), so it is carried BY
// NAME: unit read_disk defines `disk_tier_wf(s)` as its `rd_wf(s)` and proves the stub below under it; here (and in unit
// read_partition) it is an uninterpreted hypothesis that the callers pass up to the top-level `requires`.
pub uninterp spec fn disk_tier_wf(s: &Segment) -> bool;
impl Segment {
    // Segment::load_messages_from_disk (reading_messages.rs): index lookup + sequential batch read + per-message filter.
    // ASSUMED (verified separately in unit read_log / read_index_log): returns exactly the on-disk messages of this
    // segment with start_offset <= offset <= end_offset, in file order. The real function computes
    // `(start_offset - self.start_offset) as u32`, hence the precondition.
    // LINKED: unit read_disk proves exactly this contract of the real function (units/read_disk/lemmas.rs, harness
    // [C02.link.read_segment.load_messages_from_disk]; an edit here has to be mirrored there). The link added the last three
    // preconditions — the stub had only `start_offset >= self.start_offset`, the real function needs all four.
    #[verifier::external_body]
    pub fn load_messages_from_disk(&self, start_offset: u64, end_offset: u64) -> (r: Result<Vec<RetainedMessage>, IggyError>)
        requires start_offset >= self.start_offset,
            disk_tier_wf(self),
            // the relative START offset fits the index's u32 (`(start_offset - self.start_offset) as u32` would truncate)
            start_offset - self.start_offset <= u32::MAX,
            // F12 (DESIGN §8): the capacity hint `(start_offset + end_offset + 1) as usize` of load_messages_from_segment_file
            start_offset + end_offset + 1 <= u64::MAX,
        ensures r is Ok ==> r->Ok_0@ == slice_of(flat(seg_disk(self)), start_offset as int, end_offset as int),
    { unimplemented!() }
    // Segment::load_messages_from_disk_by_timestamp: ASSUMED to return the first `count` on-disk messages of this segment
    // whose timestamp is >= start_timestamp, in file order (index lookup by timestamp + batch read + filter; unit read_log)
    #[verifier::external_body]
    pub fn load_messages_from_disk_by_timestamp(&self, start_timestamp: u64, count: usize) -> (r: Result<Vec<RetainedMessage>, IggyError>)
        ensures r is Ok ==> r->Ok_0@ == ts_slice_of(flat(seg_disk(self)), start_timestamp as int, count as int),
    { unimplemented!() }
}

// ---- index vocabulary ([C02.idx]) -------------------------------------------------------------------------------------
pub open spec fn idx_key() -> spec_fn(Index) -> u32 { |x: Index| x.offset }
// index records of a segment carry the last relative offset of their batch: strictly increasing
pub open spec fn idx_strict(s: Seq<Index>) -> bool {
    forall|i: int, j: int| 0 <= i < j < s.len() ==> (#[trigger] s[i]).offset < (#[trigger] s[j]).offset
}
// k is the position of the first record whose offset is >= o
pub open spec fn is_first_ge(s: Seq<Index>, k: int, o: int) -> bool {
    &&& 0 <= k < s.len()
    &&& s[k].offset >= o
    &&& forall|j: int| 0 <= j < k ==> (#[trigger] s[j]).offset < o
}
// no record has an offset >= o
pub open spec fn none_ge(s: Seq<Index>, o: int) -> bool {
    forall|j: int| 0 <= j < s.len() ==> (#[trigger] s[j]).offset < o
}
