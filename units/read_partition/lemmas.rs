// ---- lemmas: read_partition (C02) ----
