// ---- lemmas: read_partition (C02; below-earliest clause of C14) ----
// All proved. Hints of contracts.vspec call them (smoke_lemmas = true).

// ---- seq_keep (same statements as in unit read_segment) ----
pub proof fn lemma_keep_add(a: Seq<RetainedMessage>, b: Seq<RetainedMessage>, f: spec_fn(RetainedMessage) -> bool)
    ensures seq_keep(a + b, f) == seq_keep(a, f) + seq_keep(b, f),
    decreases b.len(),
{
    if b.len() == 0 {
        assert(a + b =~= a);
        assert(seq_keep(a, f) + seq_keep(b, f) =~= seq_keep(a, f));
    } else {
        lemma_keep_add(a, b.drop_last(), f);
        assert((a + b).drop_last() =~= a + b.drop_last());
        assert((a + b).last() == b.last());
        if f(b.last()) {
            assert(seq_keep(a, f) + seq_keep(b.drop_last(), f).push(b.last()) =~= (seq_keep(a, f) + seq_keep(b.drop_last(), f)).push(b.last()));
        }
    }
}
// the kept elements are exactly those of the index window [a, b)
pub proof fn lemma_keep_window(s: Seq<RetainedMessage>, f: spec_fn(RetainedMessage) -> bool, a: int, b: int)
    requires
        0 <= a <= b <= s.len(),
        forall|i: int| 0 <= i < s.len() ==> (f(#[trigger] s[i]) <==> a <= i < b),
    ensures seq_keep(s, f) == s.subrange(a, b),
    decreases s.len(),
{
    if s.len() == 0 {
        assert(s.subrange(a, b) =~= Seq::<RetainedMessage>::empty());
    } else {
        let n = s.len() - 1;
        let t = s.drop_last();
        assert(forall|i: int| 0 <= i < t.len() ==> t[i] == s[i]);
        if b == s.len() {
            if a == b {
                lemma_keep_window(t, f, n, n);
                assert(!f(s[n]));
                assert(s.subrange(a, b) =~= t.subrange(n, n));
            } else {
                lemma_keep_window(t, f, a, n);
                assert(f(s[n]));
                assert(s.subrange(a, b) =~= t.subrange(a, n).push(s.last()));
            }
        } else {
            lemma_keep_window(t, f, a, b);
            assert(!f(s[n]));
            assert(s.subrange(a, b) =~= t.subrange(a, b));
        }
    }
}
// the same for vstd's Seq::filter (used by the R8 schema of `iter().filter().collect()`)
pub proof fn lemma_filter_window<T>(s: Seq<T>, f: spec_fn(T) -> bool, a: int, b: int)
    requires
        0 <= a <= b <= s.len(),
        forall|i: int| 0 <= i < s.len() ==> (f(#[trigger] s[i]) <==> a <= i < b),
    ensures s.filter(f) == s.subrange(a, b),
    decreases s.len(),
{
    reveal_with_fuel(Seq::filter, 2);
    if s.len() == 0 {
        assert(s.subrange(a, b) =~= Seq::<T>::empty());
        assert(s.filter(f) =~= Seq::<T>::empty());
    } else {
        let n = s.len() - 1;
        let t = s.drop_last();
        assert(forall|i: int| 0 <= i < t.len() ==> t[i] == s[i]);
        if b == s.len() {
            if a == b {
                lemma_filter_window(t, f, n, n);
                assert(!f(s[n]));
                assert(s.subrange(a, b) =~= t.subrange(n, n));
            } else {
                lemma_filter_window(t, f, a, n);
                assert(f(s[n]));
                assert(s.subrange(a, b) =~= t.subrange(a, n).push(s.last()));
            }
        } else {
            lemma_filter_window(t, f, a, b);
            assert(!f(s[n]));
            assert(s.subrange(a, b) =~= t.subrange(a, b));
        }
    }
}

// ---- the oracle on a contiguous run is an index window ----
pub proof fn lemma_slice_window(l: Seq<RetainedMessage>, first: int, lo: int, hi: int)
    requires contig(l, first),
    ensures slice_of(l, lo, hi) == window(l, first, lo, hi),
{
    let n = l.len() as int;
    let a = clip(lo - first, n);
    let b0 = clip(hi + 1 - first, n);
    let b = if a <= b0 { b0 } else { a };
    assert forall|i: int| 0 <= i < n implies (off_in(lo, hi)(#[trigger] l[i]) <==> a <= i < b) by {
        assert(l[i].offset == first + i);
    }
    lemma_keep_window(l, off_in(lo, hi), a, b);
    if a > b0 { assert(l.subrange(a, a) =~= Seq::<RetainedMessage>::empty()); }
}
// label: C02.oracle.complete
// Reading of the oracle as the statement words it: on a gap-free log the slice has no holes, no repeats, no foreign
// messages and is not shorter than what is available in the range.
pub proof fn c02_slice_is_exact(l: Seq<RetainedMessage>, first: int, lo: int, hi: int)
    requires contig(l, first), first <= lo <= hi,
    ensures
        // consecutive offsets starting at lo (no holes, no repeats, offset order), every element is the log's message of that offset
        forall|k: int| 0 <= k < slice_of(l, lo, hi).len() ==> (#[trigger] slice_of(l, lo, hi)[k]) == l[lo - first + k]
            && slice_of(l, lo, hi)[k].offset == lo + k,
        // as many as are available: min(hi, last offset) - lo + 1
        slice_of(l, lo, hi).len() == (if lo - first >= l.len() { 0 } else if hi + 1 - first >= l.len() { l.len() - (lo - first) } else { hi - lo + 1 }),
{
    lemma_slice_window(l, first, lo, hi);
}

// ---- shape of the log: concatenation of consecutive contiguous segments ----
pub open spec fn seg_end(segs: Seq<Segment>, i: int) -> int { segs[i].start_offset + seg_all(&segs[i]).len() }

pub proof fn lemma_log_split(segs: Seq<Segment>, lo: int, hi: int, k: int)
    requires 0 <= lo <= hi <= segs.len(), 0 <= k <= hi - lo,
    ensures log_upto(segs, lo + k) == log_upto(segs, lo) + log_upto(segs.subrange(lo, hi), k),
    decreases k,
{
    if k == 0 {
        assert(log_upto(segs, lo) + Seq::<RetainedMessage>::empty() =~= log_upto(segs, lo));
    } else {
        lemma_log_split(segs, lo, hi, k - 1);
        assert(segs.subrange(lo, hi)[k - 1] == segs[lo + k - 1]);
        let a = log_upto(segs, lo); let b = log_upto(segs.subrange(lo, hi), k - 1); let c = seg_all(&segs[lo + k - 1]);
        assert((a + b) + c =~= a + (b + c));
    }
}
pub proof fn lemma_sub_wf(segs: Seq<Segment>, lo: int, hi: int)
    requires segs_wf(segs), 0 <= lo <= hi <= segs.len(),
    ensures segs_wf(segs.subrange(lo, hi)),
{
    let d = segs.subrange(lo, hi);
    assert forall|i: int| 0 <= i < d.len() implies contig(seg_all(#[trigger] &d[i]), d[i].start_offset as int) by {
        assert(d[i] == segs[lo + i]);
    }
    assert forall|i: int, j: int| 0 <= i && j == i + 1 && j < d.len() implies seg_all(&d[i]).len() > 0
            && (#[trigger] d[i]).start_offset + seg_all(&d[i]).len() == (#[trigger] d[j]).start_offset by {
        assert(d[i] == segs[lo + i] && d[j] == segs[lo + j]);
    }
}
pub proof fn lemma_log_shape(segs: Seq<Segment>, n: int)
    requires segs_wf(segs), 0 <= n <= segs.len(), segs.len() > 0,
    ensures
        contig(log_upto(segs, n), segs[0].start_offset as int),
        log_upto(segs, n).len() == (if n == 0 { 0 } else { seg_end(segs, n - 1) - segs[0].start_offset }),
        0 < n < segs.len() ==> log_upto(segs, n).len() == segs[n].start_offset - segs[0].start_offset,
    decreases n,
{
    if n > 0 {
        lemma_log_shape(segs, n - 1);
        let f = segs[0].start_offset as int;
        let a = log_upto(segs, n - 1); let b = seg_all(&segs[n - 1]);
        assert(contig(b, segs[n - 1].start_offset as int));
        if n - 1 > 0 { assert(seg_end(segs, n - 2) == segs[n - 1].start_offset); }
        assert(a.len() == segs[n - 1].start_offset - f);
        assert forall|i: int| 0 <= i < (a + b).len() implies (#[trigger] (a + b)[i]).offset == f + i by {
            if i < a.len() { assert((a + b)[i] == a[i]); } else { assert((a + b)[i] == b[i - a.len()]); }
        }
        if n < segs.len() { assert(seg_end(segs, n - 1) == segs[n].start_offset); }
    }
}
pub proof fn lemma_sorted_ij(segs: Seq<Segment>, i: int, j: int)
    requires segs_wf(segs), 0 <= i < j < segs.len(),
    ensures segs[i].start_offset < segs[j].start_offset,
    decreases j - i,
{
    assert(seg_all(&segs[j - 1]).len() > 0 && segs[j - 1].start_offset + seg_all(&segs[j - 1]).len() == segs[j].start_offset);
    if i < j - 1 { lemma_sorted_ij(segs, i, j - 1); }
}
pub proof fn lemma_sorted(segs: Seq<Segment>)
    requires segs_wf(segs),
    ensures sorted_by_start(segs),
{
    assert forall|i: int, j: int| 0 <= i < j < segs.len() implies segs[i].start_offset < segs[j].start_offset by { lemma_sorted_ij(segs, i, j); }
}
// the messages of the segments lo..hi are the corresponding index range of the whole log
pub proof fn lemma_log_range(segs: Seq<Segment>, lo: int, hi: int)
    requires segs_wf(segs), 0 <= lo < hi <= segs.len(),
    ensures ({
        let l = log_upto(segs, segs.len() as int); let f = segs[0].start_offset as int;
        let dl = log_upto(segs.subrange(lo, hi), hi - lo);
        &&& contig(l, f) && l.len() == seg_end(segs, segs.len() - 1) - f
        &&& contig(dl, segs[lo].start_offset as int) && dl.len() == seg_end(segs, hi - 1) - segs[lo].start_offset
        &&& f <= segs[lo].start_offset && segs[lo].start_offset - f + dl.len() <= l.len()
        &&& dl == l.subrange(segs[lo].start_offset - f, segs[lo].start_offset - f + dl.len())
    }),
{
    let n = segs.len() as int;
    let l = log_upto(segs, n); let f = segs[0].start_offset as int;
    let d = segs.subrange(lo, hi);
    let dl = log_upto(d, hi - lo);
    lemma_log_shape(segs, n); lemma_log_shape(segs, lo); lemma_log_shape(segs, hi);
    lemma_sub_wf(segs, lo, hi);
    lemma_log_shape(d, hi - lo);
    assert(d[0] == segs[lo] && d[hi - lo - 1] == segs[hi - 1]);
    lemma_log_split(segs, lo, hi, hi - lo);          // log_upto(hi) == log_upto(lo) + dl
    lemma_log_split(segs, hi, n, n - hi);            // l == log_upto(hi) + rest
    let pre = log_upto(segs, lo); let rest = log_upto(segs.subrange(hi, n), n - hi);
    assert(l == (pre + dl) + rest);
    assert(pre.len() == segs[lo].start_offset - f);
    assert(dl =~= l.subrange(pre.len() as int, (pre.len() + dl.len()) as int));
}

// ---- consequences of read_wf ----
pub proof fn lemma_log_facts(p: &Partition)
    requires read_wf(p), p.segments@.len() > 0,
    ensures
        contig(log(p), first_retained(p)),
        log(p).len() == next_offset(p) - first_retained(p),
        last_seg(p).current_offset >= last_seg(p).start_offset,
        last_seg(p).current_offset >= p.current_offset,
        last_seg(p).current_offset <= p.current_offset + 1,
        log(p).len() > 0 ==> p.should_increment_offset && log(p).last().offset == p.current_offset,
        sorted_by_start(p.segments@),
{
    let segs = p.segments@; let n = segs.len() as int;
    lemma_log_shape(segs, n);
    lemma_sorted(segs);
    let a = seg_all(last_seg(p));
    if a.len() > 0 { assert(a[a.len() - 1].offset == last_seg(p).start_offset + a.len() - 1); }
    if log(p).len() > 0 { assert(log(p)[log(p).len() - 1].offset == first_retained(p) + log(p).len() - 1); }
}
// [C02.cache]: what the cache path returns for a hit at or above the earliest retained offset — slice_of(cache, start, end)
// — is the slice of the log
pub proof fn lemma_cache_hit(p: &Partition, start: int, end: int)
    requires read_wf(p), cache_msgs(p).len() > 0, cache_msgs(p)[0].offset <= start <= end <= p.current_offset, start >= first_retained(p),
    ensures slice_of(cache_msgs(p), start, end) == slice_of(log(p), start, end),
{
    lemma_log_facts(p);
    let l = log(p); let c = cache_msgs(p); let c0 = c[0].offset as int; let f = first_retained(p);
    lemma_slice_window(c, c0, start, end);
    lemma_slice_window(l, f, start, end);
    let wc = window(c, c0, start, end); let wl = window(l, f, start, end);
    assert(wc.len() == wl.len());
    assert forall|k: int| 0 <= k < wc.len() implies wc[k] == wl[k] by {
        assert(wc[k] == c[start - c0 + k]);
        assert(c[start - c0 + k].offset == start + k);
        assert(wl[k] == l[start - f + k]);
    }
    assert(wc =~= wl);
}
// clamping the end of the range to the newest offset does not change the slice
pub proof fn lemma_end_clamp(p: &Partition, start: int, count: int, end: int)
    requires
        read_wf(p), p.segments@.len() > 0, count >= 1,
        end == (if start + count - 1 > last_seg(p).current_offset { last_seg(p).current_offset as int } else { start + count - 1 }),
    ensures slice_of(log(p), start, end) == slice_of(log(p), start, start + count - 1),
{
    lemma_log_facts(p);
    lemma_slice_window(log(p), first_retained(p), start, end);
    lemma_slice_window(log(p), first_retained(p), start, start + count - 1);
}
// a start beyond the current offset, or an empty partition: nothing to return
pub proof fn lemma_beyond(p: &Partition, start: int, hi: int)
    requires read_wf(p), p.segments@.len() == 0 || start > p.current_offset,
    ensures slice_of(log(p), start, hi) == Seq::<RetainedMessage>::empty(),
        start < first_retained(p) ==> log(p).len() == 0,
{
    if p.segments@.len() > 0 {
        lemma_log_facts(p);
        lemma_slice_window(log(p), first_retained(p), start, hi);
    }
}

// ---- the segment path ----
// no segment's range intersects [start, end]: the requested range holds no retained message
pub proof fn lemma_no_hit(p: &Partition, start: int, count: int, end: int)
    requires
        read_wf(p), p.segments@.len() > 0, count >= 1, start <= p.current_offset, start < first_retained(p),
        end == (if start + count - 1 > last_seg(p).current_offset { last_seg(p).current_offset as int } else { start + count - 1 }),
        forall|i: int| 0 <= i < p.segments@.len() ==> !seg_hits(p.segments@, i, start, end),
    ensures slice_of(log(p), start, start + count - 1) == Seq::<RetainedMessage>::empty(),
{
    lemma_log_facts(p);
    let segs = p.segments@;
    assert(!seg_hits(segs, 0, start, end));
    lemma_slice_window(log(p), first_retained(p), start, start + count - 1);
}
// index arithmetic of windows, on plain sequences
// a part of a contiguous run that contains the start of the range and (unless it reaches the end of the run) its end
pub proof fn lemma_window_inside(l: Seq<RetainedMessage>, f: int, dl: Seq<RetainedMessage>, p0: int, start: int, count: int)
    requires
        0 <= p0, p0 + dl.len() <= l.len(), dl == l.subrange(p0, p0 + dl.len()),
        f + p0 <= start, count >= 1,
        p0 + dl.len() == l.len() || start + count <= f + p0 + dl.len(),
    ensures window(dl, f + p0, start, start + count - 1) == window(l, f, start, start + count - 1),
{
    let a = clip(start - (f + p0), dl.len() as int); let b = clip(start + count - (f + p0), dl.len() as int);
    let a2 = clip(start - f, l.len() as int); let b2 = clip(start + count - f, l.len() as int);
    assert(a <= b && a2 <= b2);
    assert(a2 == p0 + a && b2 == p0 + b);
    assert(dl.subrange(a, b) =~= l.subrange(a2, b2));
}
// a prefix of a contiguous run, read from its first message, for a range that starts below the run
pub proof fn lemma_window_below(l: Seq<RetainedMessage>, f: int, dl: Seq<RetainedMessage>, start: int, count: int)
    requires
        dl.len() <= l.len(), dl == l.subrange(0, dl.len() as int), start < f, count >= 1,
        dl.len() == l.len() || start + count <= f + dl.len(),
    ensures ({
        let r = window(dl, f, f, f + count - 1);
        r.len() <= count && r.len() <= l.len() && r == l.subrange(0, r.len() as int) && window(l, f, start, start + count - 1).len() <= r.len()
    }),
{
    let b = clip(count, dl.len() as int);
    let r = window(dl, f, f, f + count - 1);
    assert(r == dl.subrange(0, b));
    assert(r =~= l.subrange(0, b));
    let b2 = clip(start + count - f, l.len() as int);
    assert(window(l, f, start, start + count - 1) == l.subrange(0, b2));
}
// integer consequences of "lo..hi are exactly the intersecting segments"
pub proof fn lemma_hit_bounds(segs: Seq<Segment>, lo: int, hi: int, start: int, end: int)
    requires segs_wf(segs), hit_range(segs, start, end, lo, hi), lo < hi,
    ensures
        hi < segs.len() ==> segs[hi].start_offset > end,
        start < segs[0].start_offset ==> lo == 0,
{
    let n = segs.len() as int;
    assert(seg_hits(segs, lo, start, end));
    if hi < n {
        assert(!seg_hits(segs, hi, start, end));
        if hi + 1 < n {
            if lo + 1 < hi + 1 { lemma_sorted_ij(segs, lo + 1, hi + 1); }
            assert(segs[hi + 1].start_offset > start);
        }
    }
    if start < segs[0].start_offset && lo > 0 {
        assert(!seg_hits(segs, 0, start, end));
        lemma_sorted_ij(segs, 0, lo);
        lemma_sorted_ij(segs, 0, 1);
    }
}
// the segments lo..hi are exactly those whose range intersects [start, end]: reading `count` messages from
// max(start, first of them) out of their concatenation is the requested slice (start inside the log), or a run from the
// earliest retained message that covers the requested range (start below the log)
pub proof fn lemma_segment_path(p: &Partition, lo: int, hi: int, start: int, count: int, end: int)
    requires
        read_wf(p), p.segments@.len() > 0, count >= 1, start <= p.current_offset,
        end == (if start + count - 1 > last_seg(p).current_offset { last_seg(p).current_offset as int } else { start + count - 1 }),
        hit_range(p.segments@, start, end, lo, hi), lo < hi,
        start >= first_retained(p) ==> p.segments@[lo].start_offset <= start,
    ensures ({
        let d = p.segments@.subrange(lo, hi); let dl = log_upto(d, hi - lo); let m = max_int(start, d[0].start_offset as int);
        &&& segs_wf(d)
        &&& start >= first_retained(p) ==> slice_of(dl, m, m + count - 1) == slice_of(log(p), start, start + count - 1)
        &&& start < first_retained(p) ==> earliest_run(log(p), slice_of(dl, m, m + count - 1), start, count)
    }),
{
    let segs = p.segments@; let n = segs.len() as int;
    let d = segs.subrange(lo, hi); let dl = log_upto(d, hi - lo);
    let l = log(p); let f = first_retained(p);
    let slo = segs[lo].start_offset as int;
    let m = max_int(start, slo);
    let h = start + count - 1;
    lemma_log_facts(p);
    lemma_sub_wf(segs, lo, hi);
    lemma_log_range(segs, lo, hi);
    lemma_hit_bounds(segs, lo, hi, start, end);
    assert(d[0] == segs[lo]);
    assert(l == log_upto(segs, n));
    let p0 = slo - f;
    assert(dl == l.subrange(p0, p0 + dl.len()));
    // unless the range of segments reaches the end of the log, the requested range ends before the next segment
    assert(p0 + dl.len() == l.len() || start + count <= f + p0 + dl.len()) by {
        if hi < n {
            assert(segs[hi].start_offset <= last_seg(p).start_offset) by { if hi < n - 1 { lemma_sorted_ij(segs, hi, n - 1); } }
            assert(end == h);
            assert(seg_end(segs, hi - 1) == segs[hi].start_offset);
        }
    }
    lemma_slice_window(dl, slo, m, m + count - 1);
    lemma_slice_window(l, f, start, h);
    if start >= f {
        lemma_window_inside(l, f, dl, p0, start, count);
    } else {
        lemma_window_below(l, f, dl, start, count);
    }
}

// label: C02.tier_independence
// Two partition states with the same log (whatever the split between cache / unsaved buffer / segments / stored batches,
// indexes cached or not) answer an offset poll inside the log identically — immediate from [C02.slice].
pub proof fn c02_tier_independence(p1: &Partition, p2: &Partition, start: int, count: int, r1: Seq<RetainedMessage>, r2: Seq<RetainedMessage>)
    requires
        log(p1) == log(p2),
        r1 == slice_of(log(p1), start, start + count - 1),      // [C02.slice] for p1
        r2 == slice_of(log(p2), start, start + count - 1),      // [C02.slice] for p2
    ensures r1 == r2,
{}

// ---- filter_segments_by_offsets ----
// first index >= from whose segment starts above `end` (or the length)
pub open spec fn first_above(segs: Seq<Segment>, end: int, from: int) -> int
    decreases segs.len() - from,
{
    if from >= segs.len() { segs.len() as int } else if segs[from].start_offset > end { from } else { first_above(segs, end, from + 1) }
}
pub proof fn lemma_first_above(segs: Seq<Segment>, end: int, from: int)
    requires sorted_by_start(segs), 0 <= from <= segs.len(),
    ensures
        from <= first_above(segs, end, from) <= segs.len(),
        forall|i: int| from <= i < segs.len() ==> ((#[trigger] segs[i]).start_offset <= end <==> i < first_above(segs, end, from)),
    decreases segs.len() - from,
{
    if from < segs.len() && segs[from].start_offset <= end { lemma_first_above(segs, end, from + 1); }
}
// `lo` = what rposition(start_offset <= start) yields (or 0), k = where the filter (start_offset <= end) stops holding:
// lo..k are exactly the segments whose range intersects [start, end]
pub proof fn lemma_filter_hits(segs: Seq<Segment>, start: int, end: int, lo: int)
    requires
        sorted_by_start(segs), start <= end, 0 <= lo <= segs.len(), lo < segs.len() || segs.len() == 0,
        forall|j: int| lo < j < segs.len() ==> (#[trigger] segs[j]).start_offset > start,
        lo > 0 ==> segs[lo].start_offset <= start,
    ensures
        lo <= first_above(segs, end, lo) <= segs.len(),
        hit_range(segs, start, end, lo, first_above(segs, end, lo)),
        forall|i: int| lo <= i < segs.len() ==> ((#[trigger] segs[i]).start_offset <= end <==> i < first_above(segs, end, lo)),
        (segs.len() > 0 && segs[lo].start_offset <= start) ==> lo < first_above(segs, end, lo),
{
    let k = first_above(segs, end, lo);
    lemma_first_above(segs, end, lo);
    assert forall|i: int| 0 <= i < segs.len() implies ((lo <= i < k) <==> #[trigger] seg_hits(segs, i, start, end)) by {
        if i < lo {
            assert(segs[i + 1].start_offset <= segs[lo].start_offset);
        } else if i < k {
            assert(segs[i].start_offset <= end);
        } else {
            assert(segs[i].start_offset > end);
        }
    }
}

// ---- get_messages_from_segments: one step of the accumulation, and the early stop ----
// segs consecutive, f = first start, [lo, hi] = [max(offset, f), lo + count - 1]; w = what has been collected from the first i
// segments; sm = what segment i returns for (offset, remaining = count - |w|)
pub proof fn lemma_multi_step(segs: Seq<Segment>, i: int, offset: int, count: int, w: Seq<RetainedMessage>, sm: Seq<RetainedMessage>)
    requires
        segs_wf(segs), 0 <= i < segs.len(), count >= 0,
        w == window(log_upto(segs, i), segs[0].start_offset as int, max_int(offset, segs[0].start_offset as int), max_int(offset, segs[0].start_offset as int) + count - 1),
        count - w.len() > 0,
        sm == slice_of(seg_all(&segs[i]), max_int(offset, segs[i].start_offset as int), max_int(offset, segs[i].start_offset as int) + (count - w.len()) - 1),
    ensures
        w + sm == window(log_upto(segs, i + 1), segs[0].start_offset as int, max_int(offset, segs[0].start_offset as int), max_int(offset, segs[0].start_offset as int) + count - 1),
        sm.len() <= count - w.len(),
{
    let f = segs[0].start_offset as int; let lo = max_int(offset, f); let hi = lo + count - 1;
    let si = segs[i].start_offset as int;
    let li = log_upto(segs, i); let a = seg_all(&segs[i]); let l1 = log_upto(segs, i + 1);
    let rem = count - w.len();
    let m = max_int(offset, si);
    lemma_log_shape(segs, i); lemma_log_shape(segs, i + 1);
    assert(l1 == li + a);
    assert(contig(a, si));
    if i > 0 { lemma_sorted_ij(segs, 0, i); }
    assert(li.len() == si - f);
    lemma_slice_window(a, si, m, m + rem - 1);
    // the window of segment i asked for (m, rem) is its part of the window [lo, hi]
    assert(window(a, si, m, m + rem - 1) == window(a, si, lo, hi)) by {
        if i == 0 || offset >= si {
            assert(m == lo);
            assert(w.len() == 0);
        } else {
            assert(m == si && lo <= si);
            assert(w.len() == si - lo);
        }
    }
    let wa = window(a, si, lo, hi); let w1 = window(l1, f, lo, hi);
    assert(w + wa =~= w1);
}
// `count` messages have been collected from the first i segments: the later segments hold nothing of the window
pub proof fn lemma_multi_full(segs: Seq<Segment>, i: int, offset: int, count: int)
    requires
        segs_wf(segs), 0 <= i <= segs.len(), segs.len() > 0, count >= 0,
        window(log_upto(segs, i), segs[0].start_offset as int, max_int(offset, segs[0].start_offset as int), max_int(offset, segs[0].start_offset as int) + count - 1).len() == count,
    ensures
        window(log_upto(segs, i), segs[0].start_offset as int, max_int(offset, segs[0].start_offset as int), max_int(offset, segs[0].start_offset as int) + count - 1)
            == window(log_upto(segs, segs.len() as int), segs[0].start_offset as int, max_int(offset, segs[0].start_offset as int), max_int(offset, segs[0].start_offset as int) + count - 1),
{
    let n = segs.len() as int;
    let f = segs[0].start_offset as int; let lo = max_int(offset, f); let hi = lo + count - 1;
    lemma_log_split(segs, i, n, n - i);
    let li = log_upto(segs, i); let ln = log_upto(segs, n);
    assert(ln == li + log_upto(segs.subrange(i, n), n - i));
    assert(window(li, f, lo, hi) =~= window(ln, f, lo, hi));
}
pub proof fn lemma_log_one(d: Seq<Segment>)
    requires d.len() >= 1,
    ensures log_upto(d, 1) == seg_all(&d[0]),
{
    reveal_with_fuel(log_upto, 2);
    assert(Seq::<RetainedMessage>::empty() + seg_all(&d[0]) =~= seg_all(&d[0]));
}
pub proof fn lemma_slice_empty(l: Seq<RetainedMessage>, lo: int, hi: int)
    requires lo > hi,
    ensures slice_of(l, lo, hi) == Seq::<RetainedMessage>::empty(),
{
    lemma_keep_window(l, off_in(lo, hi), 0, 0);
    assert(l.subrange(0, 0) =~= Seq::<RetainedMessage>::empty());
}

// ---- the partition-level polls ----
pub proof fn lemma_starts_bounded(p: &Partition)
    requires read_wf(p), p.segments@.len() > 0,
    ensures forall|j: int| 0 <= j < p.segments@.len() ==> (#[trigger] p.segments@[j]).start_offset <= next_offset(p),
{
    let segs = p.segments@; let n = segs.len() as int;
    assert forall|j: int| 0 <= j < n implies (#[trigger] segs[j]).start_offset <= next_offset(p) by {
        if j < n - 1 { lemma_sorted_ij(segs, j, n - 1); }
    }
}
// everything get_messages_by_offset needs to know once filter_segments_by_offsets has returned segments lo..hi
pub proof fn lemma_by_offset(p: &Partition, lo: int, hi: int, start: int, count: int, end: int)
    requires
        read_wf(p), p.segments@.len() > 0, 1 <= count <= u32::MAX, start <= p.current_offset,
        end == (if start + count - 1 > last_seg(p).current_offset { last_seg(p).current_offset as int } else { start + count - 1 }),
        hit_range(p.segments@, start, end, lo, hi),
        (p.segments@[0].start_offset <= start) ==> lo < hi && p.segments@[lo].start_offset <= start,
    ensures ({
        let d = p.segments@.subrange(lo, hi); let dl = log_upto(d, hi - lo);
        &&& segs_wf(d)
        &&& forall|i: int| 0 <= i < d.len() ==> (#[trigger] d[i]).start_offset + count <= u64::MAX
        &&& forall|i: int| 0 <= i < d.len() ==> disk_pre(#[trigger] d[i], start, count)
        &&& start + count <= u64::MAX
        &&& lo == hi ==> start < first_retained(p) && earliest_run(log(p), Seq::<RetainedMessage>::empty(), start, count)
        &&& lo < hi ==> {
                let m = max_int(start, d[0].start_offset as int);
                &&& start >= first_retained(p) ==> slice_of(dl, m, m + count - 1) == slice_of(log(p), start, start + count - 1)
                &&& start < first_retained(p) ==> earliest_run(log(p), slice_of(dl, m, m + count - 1), start, count)
                &&& hi - lo == 1 ==> dl == seg_all(&d[0])
                &&& contig(seg_all(&d[0]), d[0].start_offset as int)
            }
    }),
{
    let segs = p.segments@;
    let d = segs.subrange(lo, hi);
    lemma_sub_wf(segs, lo, hi);
    lemma_starts_bounded(p);
    assert forall|i: int| 0 <= i < d.len() implies (#[trigger] d[i]).start_offset + count <= u64::MAX by { assert(d[i] == segs[lo + i]); }
    // the disk-tier preconditions: only the first intersecting segment can start below `start`, and `start` then lies inside it
    assert forall|i: int| 0 <= i < d.len() implies disk_pre(#[trigger] d[i], start, count) by {
        let n = segs.len() as int; let j = lo + i;
        assert(d[i] == segs[j]);
        assert(segs[j].start_offset <= next_offset(p));
        assert(seg_all(&segs[j]).len() <= u32::MAX);
        if segs[j].start_offset <= start {
            if j + 1 < n {
                assert(seg_all(&segs[j]).len() > 0 && segs[j].start_offset + seg_all(&segs[j]).len() == segs[j + 1].start_offset);
                if i > 0 {
                    assert(seg_hits(segs, lo, start, end));
                    if lo + 1 < j { lemma_sorted_ij(segs, lo + 1, j); }
                } else {
                    assert(seg_hits(segs, j, start, end));
                }
            }
        }
    }
    if lo == hi {
        assert forall|i: int| 0 <= i < segs.len() implies !seg_hits(segs, i, start, end) by {}
        lemma_no_hit(p, start, count, end);
        assert(log(p).subrange(0, 0) =~= Seq::<RetainedMessage>::empty());
    } else {
        lemma_segment_path(p, lo, hi, start, count, end);
        if hi - lo == 1 { lemma_log_one(d); }
        assert(contig(seg_all(&d[0]), d[0].start_offset as int));
    }
}
// first poll on a log that still starts at offset 0
pub proof fn lemma_first(p: &Partition, count: int)
    requires read_wf(p), count >= 1, first_retained(p) == 0,
    ensures slice_of(log(p), 0, count - 1) == take(log(p), count),
{
    if p.segments@.len() > 0 {
        lemma_log_facts(p);
        lemma_slice_window(log(p), 0, 0, count - 1);
    } else {
        assert(take(log(p), count) =~= Seq::<RetainedMessage>::empty());
    }
}
// last poll: requested = min(count, current_offset + 1), start = current_offset + 1 - requested
pub proof fn lemma_last(p: &Partition, count: int, requested: int, start: int)
    requires
        read_wf(p), count >= 1,
        requested == (if count > p.current_offset + 1 { p.current_offset + 1 } else { count }),
        start == 1 + p.current_offset - requested,
    ensures
        start >= first_retained(p) ==> slice_of(log(p), start, start + requested - 1) == last_n(log(p), count),
        start < first_retained(p) ==> forall|r: Seq<RetainedMessage>| #[trigger] earliest_run(log(p), r, start, requested) ==> r == last_n(log(p), count),
        // (after the F230 repair the poll below the earliest retained offset answers exactly: the slice from the earliest one)
        start < first_retained(p) ==> slice_of(log(p), first_retained(p), first_retained(p) + requested - 1) == last_n(log(p), count),
{
    let l = log(p); let f = first_retained(p);
    if p.segments@.len() > 0 {
        lemma_log_facts(p);
        lemma_slice_window(l, f, start, start + requested - 1);
        if start >= f {
            assert(window(l, f, start, start + requested - 1) =~= last_n(l, count));
        } else {
            assert forall|r: Seq<RetainedMessage>| #[trigger] earliest_run(l, r, start, requested) implies r == last_n(l, count) by {
                assert(r =~= l);
            }
            lemma_slice_window(l, f, f, f + requested - 1);
            assert(window(l, f, f, f + requested - 1) =~= l);
            assert(l =~= last_n(l, count));
        }
    } else {
        lemma_slice_empty(l, 1, 0);
        assert(slice_of(l, start, start + requested - 1) =~= Seq::<RetainedMessage>::empty()) by { reveal_with_fuel(seq_keep, 2); }
    }
}

// ---- timestamp poll ----
pub proof fn lemma_keep_none(s: Seq<RetainedMessage>, f: spec_fn(RetainedMessage) -> bool)
    requires forall|i: int| 0 <= i < s.len() ==> !f(#[trigger] s[i]),
    ensures seq_keep(s, f) == Seq::<RetainedMessage>::empty(),
{
    lemma_keep_window(s, f, 0, 0);
    assert(s.subrange(0, 0) =~= Seq::<RetainedMessage>::empty());
}
// a segment whose end_timestamp is below the query holds no message of the answer
pub proof fn lemma_ts_skip(segs: Seq<Segment>, i: int, t: int)
    requires
        0 <= i < segs.len(), segs[i].end_timestamp < t, seg_ts_wf(&segs[i]),
    ensures seq_keep(log_upto(segs, i + 1), ts_ge(t)) == seq_keep(log_upto(segs, i), ts_ge(t)),
{
    let a = seg_all(&segs[i]);
    lemma_keep_none(a, ts_ge(t));
    lemma_keep_add(log_upto(segs, i), a, ts_ge(t));
    assert(seq_keep(log_upto(segs, i), ts_ge(t)) + Seq::<RetainedMessage>::empty() =~= seq_keep(log_upto(segs, i), ts_ge(t)));
}
// k = the matching messages of the first i segments (fewer than count), sm = what segment i returns for the remaining count
pub proof fn lemma_ts_step(segs: Seq<Segment>, i: int, t: int, count: int, k: Seq<RetainedMessage>, sm: Seq<RetainedMessage>)
    requires
        0 <= i < segs.len(), k == seq_keep(log_upto(segs, i), ts_ge(t)), k.len() < count,
        sm == ts_slice_of(seg_all(&segs[i]), t, count - k.len()),
    ensures
        sm.len() <= count - k.len(),
        sm.len() < count - k.len() ==> k + sm == seq_keep(log_upto(segs, i + 1), ts_ge(t)),
        sm.len() == count - k.len() ==> k + sm == ts_slice_of(log_upto(segs, segs.len() as int), t, count),
{
    let n = segs.len() as int;
    let a = seg_all(&segs[i]); let ka = seq_keep(a, ts_ge(t));
    lemma_keep_add(log_upto(segs, i), a, ts_ge(t));
    let k1 = seq_keep(log_upto(segs, i + 1), ts_ge(t));
    assert(k1 == k + ka);
    if sm.len() < count - k.len() {
        assert(sm =~= ka);
    } else {
        lemma_log_split(segs, i + 1, n, n - (i + 1));
        let rest = log_upto(segs.subrange(i + 1, n), n - (i + 1));
        lemma_keep_add(log_upto(segs, i + 1), rest, ts_ge(t));
        let kn = seq_keep(log_upto(segs, n), ts_ge(t));
        assert(kn == k1 + seq_keep(rest, ts_ge(t)));
        assert(k + sm =~= take(kn, count));
    }
}

// label: C02.wf.bridge
// read_wf's conjuncts about the last segment are consequences of part_wf, the invariant unit `offsets` maintains on the
// write path (for a closed last segment additionally: it holds exactly the offsets start..=end_offset).
pub proof fn c02_last_segment_from_part_wf(p: &Partition)
    requires
        part_wf(p),
        last_seg(p).is_closed ==> last_seg(p).start_offset + seg_all(last_seg(p)).len() == last_seg(p).end_offset + 1,
    ensures
        last_seg(p).start_offset + seg_all(last_seg(p)).len() == next_offset(p),
        seg_all(last_seg(p)).len() > 0 ==> last_seg(p).current_offset == p.current_offset,
        seg_all(last_seg(p)).len() == 0 ==> last_seg(p).current_offset == last_seg(p).start_offset,
        !last_seg(p).is_closed ==> contig(seg_all(last_seg(p)), last_seg(p).start_offset as int),
{
    let s = last_seg(p);
    assert(seg_all(s) == seg_msgs(s));
    if !s.is_closed && seg_msgs(s).len() > 0 {
        assert(seg_msgs(s)[seg_msgs(s).len() - 1].offset == s.start_offset + seg_msgs(s).len() - 1);
    }
}
