// ---- unit prelude: read_partition (C02; below-earliest clause of C14) ----
global size_of usize == 8;   // 64-bit target (u64 offsets differences widen losslessly to usize)

// ---- the oracle of C02 (from the property statement) ---------------------------------------------------------------
// Same vocabulary as unit read_segment (whose proved [C02.tier] is this unit's ASSUMED contract of the segment tier):
// "precisely the retained messages whose offsets lie in [lo, hi], in offset order" = the order-preserving filter of the log.
pub open spec fn seq_keep(s: Seq<RetainedMessage>, f: spec_fn(RetainedMessage) -> bool) -> Seq<RetainedMessage>
    decreases s.len(),
{
    if s.len() == 0 { Seq::empty() }
    else if f(s.last()) { seq_keep(s.drop_last(), f).push(s.last()) }
    else { seq_keep(s.drop_last(), f) }
}
pub open spec fn off_in(lo: int, hi: int) -> spec_fn(RetainedMessage) -> bool { |m: RetainedMessage| lo <= m.offset <= hi }
pub open spec fn ts_ge(t: int) -> spec_fn(RetainedMessage) -> bool { |m: RetainedMessage| m.timestamp >= t }
pub open spec fn slice_of(log: Seq<RetainedMessage>, lo: int, hi: int) -> Seq<RetainedMessage> { seq_keep(log, off_in(lo, hi)) }
pub open spec fn take(s: Seq<RetainedMessage>, n: int) -> Seq<RetainedMessage> {
    s.subrange(0, if n <= 0 { 0 } else if n <= s.len() { n } else { s.len() as int })
}
// "the first n messages whose timestamp is at least t"
pub open spec fn ts_slice_of(log: Seq<RetainedMessage>, t: int, n: int) -> Seq<RetainedMessage> { take(seq_keep(log, ts_ge(t)), n) }

// the log of a partition: the messages of its segments (wherever they live: disk batches or unsaved buffer), in segment order
pub open spec fn log_upto(segs: Seq<Segment>, n: int) -> Seq<RetainedMessage>
    decreases n,
{
    if n <= 0 { Seq::empty() } else { log_upto(segs, n - 1) + seg_all(&segs[n - 1]) }
}
pub open spec fn log(p: &Partition) -> Seq<RetainedMessage> { log_upto(p.segments@, p.segments@.len() as int) }
// offset of the earliest retained message (start of the first segment)
pub open spec fn first_retained(p: &Partition) -> int {
    if p.segments@.len() > 0 { p.segments@[0].start_offset as int } else { 0 }
}
pub open spec fn cache_msgs(p: &Partition) -> Seq<RetainedMessage> {
    match p.cache { Some(c) => c.buffer@, None => Seq::empty() }
}

// ---- what the read path relies on (established by the write path: units offsets / recovery / retention) ------------
// segments sorted by start offset; each holds a contiguous run starting at its start offset; a non-last segment is
// non-empty and ends right before its successor (segment files are named by start offset, so starts are distinct)
pub open spec fn segs_wf(segs: Seq<Segment>) -> bool {
    &&& forall|i: int| 0 <= i < segs.len() ==> contig(seg_all(#[trigger] &segs[i]), segs[i].start_offset as int)
    // (two bound variables so that the trigger names both neighbours: no matching loop)
    &&& forall|i: int, j: int| 0 <= i && j == i + 1 && j < segs.len() ==> seg_all(&segs[i]).len() > 0
            && (#[trigger] segs[i]).start_offset + seg_all(&segs[i]).len() == (#[trigger] segs[j]).start_offset
    // a segment's accumulator, when it holds messages, starts at its first buffered offset (acc_wf of the write path: seg_wf of
    // segview.rs for the open segment, no accumulator on closed ones). The segment tier splits disk / buffer at the accumulator's
    // base offset: added when the stub of Segment::get_messages_by_offset was LINKED to unit read_segment, whose real function
    // needs it ([C02.link.read_partition.get_messages_by_offset])
    &&& forall|i: int| 0 <= i < segs.len() ==> ((#[trigger] segs[i]).unsaved_messages is Some ==> acc_wf(&segs[i].unsaved_messages->0))
    // the preconditions of the DISK tier, surfaced when the chain read_partition -> read_segment -> read_disk was linked: the
    // reading invariant of unit read_disk (`rd_wf`, carried by name — see disk_tier_wf below), and A-size: a segment holds fewer
    // than 2^32 messages (relative offsets in index records are u32; the same assumption as assume_segment_below_4g of unit offsets)
    &&& forall|i: int| 0 <= i < segs.len() ==> disk_tier_wf(#[trigger] &segs[i]) && seg_all(&segs[i]).len() <= u32::MAX
}
// `rd_wf` of units/read_disk/prelude.rs (log reader, index reader and cached index are views of the same two files; one index
// record per stored batch with its last relative offset and its file position; file below 4 GiB). Not expressible in this unit's
// vocabulary: an uninterpreted hypothesis here and in unit read_segment, DEFINED as rd_wf in unit read_disk, which proves the
// disk tier under it ([C02.link.read_segment.load_messages_from_disk]).
pub uninterp spec fn disk_tier_wf(s: &Segment) -> bool;
pub open spec fn sorted_by_start(segs: Seq<Segment>) -> bool {
    forall|i: int, j: int| 0 <= i < j < segs.len() ==> segs[i].start_offset < segs[j].start_offset
}
pub open spec fn read_wf(p: &Partition) -> bool {
    &&& segs_wf(p.segments@)
    &&& p.segments@.len() > 0 ==> {
            // the log ends at the partition's current offset; the last segment's current_offset is its newest message's
            // offset (its start offset while it is empty) — seg_wf / part_wf of the write path
            &&& last_seg(p).start_offset + seg_all(last_seg(p)).len() == next_offset(p)
            &&& seg_all(last_seg(p)).len() > 0 ==> last_seg(p).current_offset == p.current_offset
            &&& seg_all(last_seg(p)).len() == 0 ==> last_seg(p).current_offset == last_seg(p).start_offset
        }
    // nothing has been assigned yet: the offset counter still stands at 0 (Partition::create / purge / load)
    &&& !p.should_increment_offset ==> p.current_offset == 0
    // A-size: offsets stay away from 2^63 by more than one request's count (was: from 2^64, `p.current_offset + 1 + u32::MAX <=
    // u64::MAX`. F12 of DESIGN §8: the disk tier computes the capacity hint `(start_offset + end_offset + 1) as usize` — the
    // precondition of the real Segment::load_messages_from_segment_file in unit read_disk, which the unlinked stubs had hidden)
    &&& 2 * (p.current_offset + 1) + u32::MAX <= u64::MAX
    &&& cache_wf(p)
}
// The cache (property anchor `Partition.cache`: "contiguous suffix of the log kept in memory"), as the write path and
// retention really maintain it: a contiguous run that ends at the newest message (append_messages extends it with every
// stored batch, eviction pops from the front) and agrees with the retained log wherever the two overlap. It is NOT assumed
// to start inside the retained log: Partition::delete_segment removes a segment from the log without trimming the cache.
pub open spec fn cache_wf(p: &Partition) -> bool {
    let c = cache_msgs(p);
    c.len() > 0 ==> {
        &&& p.segments@.len() > 0 && p.should_increment_offset
        &&& contig(c, c[0].offset as int)
        &&& c[0].offset + c.len() == p.current_offset + 1
        &&& forall|i: int| 0 <= i < c.len() && (#[trigger] c[i]).offset >= first_retained(p) ==> c[i] == log(p)[c[i].offset - first_retained(p)]
    }
}
// timestamp polls: a segment is skipped when its end_timestamp is below the query — sound when no message of the
// segment is newer than end_timestamp (append_batch sets it to the newest message's timestamp; A-clock: monotone).
// The other two conjuncts are the preconditions under which unit read_segment proves the segment tier ([C02.tier.ts]):
// buffered timestamps non-decreasing (A-clock), fewer than 2^32 buffered messages (A-size).
pub open spec fn ts_sorted(s: Seq<RetainedMessage>) -> bool {
    forall|i: int, j: int| 0 <= i <= j < s.len() ==> (#[trigger] s[i]).timestamp <= (#[trigger] s[j]).timestamp
}
pub open spec fn seg_ts_wf(s: &Segment) -> bool {
    &&& forall|j: int| 0 <= j < seg_all(s).len() ==> (#[trigger] seg_all(s)[j]).timestamp <= s.end_timestamp
    &&& ts_sorted(seg_buf(s))
    &&& seg_buf(s).len() <= u32::MAX
}
pub open spec fn ts_wf(p: &Partition) -> bool {
    forall|i: int| 0 <= i < p.segments@.len() ==> seg_ts_wf(#[trigger] &p.segments@[i])
}
// stored consumer offsets never exceed the current offset (Partition::store_consumer_offset rejects larger ones; unit consumer_offsets)
pub open spec fn stored_bounded(p: &Partition) -> bool {
    &&& forall|id: u32| #[trigger] p.consumer_offsets@.contains_key(id) ==> p.consumer_offsets@[id].offset <= p.current_offset
    &&& forall|id: u32| #[trigger] p.consumer_group_offsets@.contains_key(id) ==> p.consumer_group_offsets@[id].offset <= p.current_offset
}

// ---- working form of the oracle on contiguous runs: an index window ------------------------------------------------
pub open spec fn clip(x: int, n: int) -> int { if x < 0 { 0 } else if x > n { n } else { x } }
// messages of the contiguous run l (first offset `first`) whose offset lies in [lo, hi]
pub open spec fn window(l: Seq<RetainedMessage>, first: int, lo: int, hi: int) -> Seq<RetainedMessage> {
    let a = clip(lo - first, l.len() as int);
    let b = clip(hi + 1 - first, l.len() as int);
    if a <= b { l.subrange(a, b) } else { Seq::empty() }
}

// [C02.first-retained]/[C14.earliest], stated loosely on purpose (DESIGN C02 oracle paragraph): a poll reaching below the
// earliest retained offset yields a contiguous run that STARTS AT THE EARLIEST retained message, has at most `count`
// messages and at least the messages of the requested range.
pub open spec fn earliest_run(l: Seq<RetainedMessage>, r: Seq<RetainedMessage>, start: int, count: int) -> bool {
    &&& r.len() <= count && r.len() <= l.len()
    &&& r == l.subrange(0, r.len() as int)
    &&& slice_of(l, start, start + count - 1).len() <= r.len()
}
pub open spec fn last_n(l: Seq<RetainedMessage>, n: int) -> Seq<RetainedMessage> {
    if n >= l.len() { l } else { l.subrange(l.len() - n, l.len() as int) }
}

// the segments a Vec<&Segment> refers to
pub open spec fn derefs(r: Seq<&Segment>) -> Seq<Segment> { Seq::new(r.len(), |i: int| *r[i]) }
// "the segment's range intersects [a, b]": segment i covers the offsets from its start up to (excluding) the next start
pub open spec fn seg_hits(segs: Seq<Segment>, i: int, a: int, b: int) -> bool {
    segs[i].start_offset <= b && (i + 1 < segs.len() ==> segs[i + 1].start_offset > a)
}
pub open spec fn hit_range(segs: Seq<Segment>, a: int, b: int, lo: int, hi: int) -> bool {
    &&& 0 <= lo <= hi <= segs.len()
    &&& forall|i: int| 0 <= i < segs.len() ==> ((lo <= i < hi) <==> #[trigger] seg_hits(segs, i, a, b))
}
pub open spec fn max_int(a: int, b: int) -> int { if a >= b { a } else { b } }
// the arithmetic preconditions of the disk tier for a poll (offset, count) on segment s: the clamped start lies within u32 of the
// segment start; the capacity hint `start + end + 1` (F12) does not overflow
pub open spec fn disk_pre(s: Segment, offset: int, count: int) -> bool {
    max_int(offset, s.start_offset as int) - s.start_offset <= u32::MAX && 2 * max_int(offset, s.start_offset as int) + count <= u64::MAX
}

// ---- stubs: the segment tier (ASSUMED here, proved by unit read_segment as [C02.tier]) ------------------------------
impl Segment {
    // Segment::get_messages_by_offset: "returns exactly the segment's messages with max(offset,start) <= m.offset <=
    // that+count-1, in order" — whichever of disk / unsaved buffer holds them. The arithmetic precondition is the one of
    // its `offset + (count - 1) as u64`.
    // LINKED: units/read_segment/lemmas.rs, harness [C02.link.read_partition.get_messages_by_offset], proves this contract from the real function
    // (mirror edits there). The link added the preconditions from `acc_wf` on: the real segment tier needs them, the stub had hidden them.
    #[verifier::external_body]
    pub fn get_messages_by_offset(&self, offset: u64, count: u32) -> (r: Result<Vec<RetainedMessage>, IggyError>)
        requires
            contig(seg_all(self), self.start_offset as int),
            self.unsaved_messages is Some ==> acc_wf(&self.unsaved_messages->0),
            offset + count <= u64::MAX, self.start_offset + count <= u64::MAX,
            disk_tier_wf(self),
            max_int(offset as int, self.start_offset as int) - self.start_offset <= u32::MAX,
            2 * max_int(offset as int, self.start_offset as int) + count <= u64::MAX,
        ensures r is Ok ==> r->Ok_0@ == slice_of(seg_all(self), max_int(offset as int, self.start_offset as int),
                                                 max_int(offset as int, self.start_offset as int) + count - 1),
    { unimplemented!() }
    // Segment::get_messages_by_timestamp: the first `count` messages of the segment with timestamp >= start_timestamp
    // LINKED: units/read_segment/lemmas.rs, harness [C02.link.read_partition.get_messages_by_timestamp] (mirror edits there)
    #[verifier::external_body]
    pub fn get_messages_by_timestamp(&self, start_timestamp: u64, count: usize) -> (r: Result<Vec<RetainedMessage>, IggyError>)
        requires ts_sorted(seg_buf(self)), seg_buf(self).len() + count <= usize::MAX,
        ensures r is Ok ==> r->Ok_0@ == ts_slice_of(seg_all(self), start_timestamp as int, count as int),
    { unimplemented!() }
}

// ---- R8 schemas (documented std semantics; closure body lifted verbatim into the ghost predicate) -------------------
// v.iter().rposition(|x| P(x)): index of the LAST element satisfying P
#[verifier::external_body]
pub fn std_iter_rposition<T>(v: &Vec<T>, Ghost(f): Ghost<spec_fn(T) -> bool>) -> (r: Option<usize>)
    ensures match r {
        Some(i) => i < v@.len() && f(v@[i as int]) && forall|j: int| i < j < v@.len() ==> !f(#[trigger] v@[j]),
        None => forall|j: int| 0 <= j < v@.len() ==> !f(#[trigger] v@[j]),
    },
{ unimplemented!() }
// v[from..].iter().filter(|x| P(x)).collect::<Vec<&T>>(): references to the elements at index >= from satisfying P, in
// order. `v[from..]` panics when from > len.
#[verifier::external_body]
pub fn std_slice_from_iter_filter_collect<'a, T>(v: &'a Vec<T>, from: usize, Ghost(f): Ghost<spec_fn(T) -> bool>) -> (r: Vec<&'a T>)
    requires from <= v@.len(),
    ensures Seq::new(r@.len(), |i: int| *r@[i]) == v@.subrange(from as int, v@.len() as int).filter(f),
{ unimplemented!() }
// Vec::extend(Vec): appends the elements in order
#[verifier::external_body]
pub fn vec_extend_vec<T>(v: &mut Vec<T>, items: Vec<T>)
    ensures final(v)@ == old(v)@ + items@,
{ unimplemented!() }
// `v.into_iter().map(Arc::new).collect()`: Arc::new is the identity under R4 (Arc<T> -> T) — verified, not trusted
pub fn std_into_iter_map_arc_new_collect<T>(v: Vec<T>) -> (r: Vec<T>) ensures r@ == v@, { v }

// cache metrics (AtomicU64 hits / misses behind &self): not part of any view
#[verifier::external_body]
pub struct MetricCounter { x: u8 }
impl MetricCounter {
    #[verifier::external_body]
    pub fn fetch_add(&self, n: u64, ord: Ordering) -> (r: u64) { unimplemented!() }
}

// the offset a polling consumer has stored in this partition: individual consumers and consumer groups have separate maps
pub open spec fn stored_offset(p: &Partition, c: PollingConsumer) -> Option<u64> {
    match c {
        PollingConsumer::Consumer(id, _) => if p.consumer_offsets@.contains_key(id) { Some(p.consumer_offsets@[id].offset) } else { None },
        PollingConsumer::ConsumerGroup(id, _) => if p.consumer_group_offsets@.contains_key(id) { Some(p.consumer_group_offsets@[id].offset) } else { None },
    }
}
