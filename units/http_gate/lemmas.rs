// ---- lemmas / composition harnesses of unit http_gate ----

// label: C10.http.revoke.restart
// "the same credentials behave identically before and after a restart", for a revoked JWT: revoke_token returned Ok; the server
// restarts (JwtManager::new: the same file and configuration, an EMPTY table); load_revoked_tokens returns Ok (build_app_state
// panics otherwise: the HTTP server does not come up) => the token id is revoked again. Client code over the extracted functions only.
pub fn c10_http_revoke_survives_restart(m: JwtManager, token_id: &Name, expiry: u64) {
    let mut m = m;
    let r = m.revoke_token(token_id, expiry);
    if r.is_ok() {
        let mut m2 = JwtManager { issuer: m.issuer, validator: m.validator, tokens_storage: m.tokens_storage, revoked_tokens: HashMap::new(), validations: m.validations };
        assert(m2.tokens_storage.persisted().contains_key(*token_id));     // [C10.http.revoke.persist]
        let l = m2.load_revoked_tokens();
        if l.is_ok() {
            let b = m2.is_token_revoked(token_id);
            assert(b);
        }
    }
}

// label: C10.http.logout.restart
// the same for a logout through the handler: after `DELETE /users/logout` returned Ok and a restart, the token of that request is
// still revoked
pub fn c10_http_logout_survives_restart(state: AppState, identity: Identity) {
    let mut state = state;
    let ghost id = identity.token_id;
    let r = http_logout_user(&mut state, identity);
    if r.is_ok() {
        let m = state.jwt_manager;
        let mut m2 = JwtManager { issuer: m.issuer, validator: m.validator, tokens_storage: m.tokens_storage, revoked_tokens: HashMap::new(), validations: m.validations };
        let l = m2.load_revoked_tokens();
        if l.is_ok() {
            assert(revoked(&m2, id));
        }
    }
}

// label: C10.http.logout.deauth
// "logging out de-authenticates": a request that comes with a token whose id is revoked has NO credentials - whatever else is
// true of the token - so by [C09.http.public.exact] the middleware answers 401 on every non-public path
pub proof fn c10_http_revoked_token_has_no_credentials(m: &JwtManager, req: &Request<Body>)
    requires
        bearer_of(&req.headers) matches Some(t) && (token_authentic(m, t) matches Some(c) && revoked(m, c.jti)),
    ensures
        credentials(m, req) is None,
{
}
