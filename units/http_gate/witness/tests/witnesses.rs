// Witnesses of unit http_gate (properties C09 / C10, HTTP side) on the REAL crates. Each f19x test asserts the CORRECT behaviour,
// so it FAILS on a tree that has the defect and passes on the repaired tree (./run.sh <tree>).
//
// F190  C10 "deleting the user ... ends that credential's validity". `POST /users/refresh-token` is a public path: the middleware
//       lets it through, `JwtManager::refresh_token` only checks signature + revocation, and the handler never looks at the
//       catalogue. A user that has been DELETED keeps exchanging his token for a fresh one, for ever (each refresh revokes the old
//       token and hands out a new one with a new expiry) - obligation [C10.http.refresh.user].
// F191  C10 "logging out de-authenticates the connection". A token is accepted by the validator until `exp + clock_skew` (the
//       validation leeway, default 5 s, configurable), but the cleaner (`delete_expired_revoked_tokens`, every 300 s) forgets the
//       revocation of every token with `exp <= now`. Between `exp` and `exp + clock_skew` a logged-out token whose revocation has
//       been cleaned is accepted again - obligation [C10.http.expired.cleanup].
use iggy::client::{Client, UserClient};
use iggy::http::client::HttpClient;
use iggy::http::HttpTransport;
use iggy::identifier::Identifier;
use iggy::models::user_status::UserStatus;
use iggy::utils::duration::IggyDuration;
use iggy::utils::expiry::IggyExpiry;
use iggy::utils::timestamp::IggyTimestamp;
use server::configs::http::HttpConfig;
use server::configs::server::{DataMaintenanceConfig, PersonalAccessTokenConfig};
use server::configs::system::SystemConfig;
use server::http::jwt::jwt_manager::JwtManager;
use server::streaming::persistence::persister::{FilePersister, PersisterKind};
use server::streaming::systems::system::{SharedSystem, System};
use std::net::SocketAddr;
use std::sync::Arc;

async fn start_system(path: &str) -> SharedSystem {
    let config = Arc::new(SystemConfig { path: path.to_string(), ..Default::default() });
    let mut system = System::new(config, DataMaintenanceConfig::default(), PersonalAccessTokenConfig::default());
    system.init().await.unwrap();
    SharedSystem::new(system)
}

async fn start_http(system: SharedSystem) -> SocketAddr {
    let mut config = HttpConfig::default();
    config.address = "127.0.0.1:0".to_string();
    config.tls.enabled = false;
    server::http::http_server::start(config, system).await
}

fn http_client(addr: SocketAddr) -> HttpClient {
    HttpClient::new(&format!("http://{addr}")).unwrap()
}

#[tokio::test(flavor = "multi_thread", worker_threads = 4)]
async fn f190_deleted_user_cannot_refresh_his_token() {
    let dir = tempfile::TempDir::new().unwrap();
    let system = start_system(dir.path().join("local_data").to_str().unwrap()).await;
    let addr = start_http(system.clone()).await;

    let root = http_client(addr);
    root.connect().await.unwrap();
    root.login_user("iggy", "iggy").await.expect("root login");
    let alice_info = root.create_user("alice", "secret123", UserStatus::Active, None).await.expect("create alice");

    let alice = http_client(addr);
    let identity = alice.login_user("alice", "secret123").await.expect("alice login");
    assert_eq!(identity.user_id, alice_info.id);
    let token0 = identity.access_token.expect("token").token;
    // control: while alice exists her token refreshes (the old one is revoked, a new one is handed out)
    let (status, token1) = refresh(addr, &token0).await;
    assert_eq!(status, 200, "control: an existing user refreshes her token");
    let token1 = token1.unwrap();

    root.delete_user(&Identifier::numeric(alice_info.id).unwrap()).await.expect("delete alice");
    assert!(root.get_user(&Identifier::numeric(alice_info.id).unwrap()).await.unwrap().is_none(), "alice is gone");
    // alice cannot log in any more ...
    assert!(http_client(addr).login_user("alice", "secret123").await.is_err(), "control: a deleted user cannot log in");

    // ... but the token she still holds is exchanged for a fresh one, again and again
    let (first, token2) = refresh(addr, &token1).await;
    let second = match &token2 {
        Some(t) => Some(refresh(addr, t).await.0),
        None => None,
    };
    println!("F190: user {} deleted; POST /users/refresh-token with her token -> HTTP {first}, with the token that returned -> {second:?}", alice_info.id);
    assert!(
        first != 200,
        "F190: the deleted user {} was handed a fresh access token (refresh -> HTTP {first}, again -> {second:?}): deleting the user did not end the credential's validity",
        alice_info.id
    );
    assert_eq!(first, 401, "a refused refresh is answered 401 Unauthorized");
}

// `POST /users/refresh-token {"token": t}` -> (HTTP status, the fresh token if one was handed out). Plain reqwest: the SDK's
// `HttpClient::refresh_access_token` cannot be used - it awaits the write lock of its token cell while still holding the read guard
// (observation O4: it never returns).
async fn refresh(addr: SocketAddr, token: &str) -> (u16, Option<String>) {
    let response = reqwest::Client::new()
        .post(format!("http://{addr}/users/refresh-token"))
        .json(&serde_json::json!({ "token": token }))
        .send()
        .await
        .expect("request");
    let status = response.status().as_u16();
    let body: serde_json::Value = response.json().await.unwrap_or(serde_json::Value::Null);
    let fresh = body.get("access_token").and_then(|t| t.get("token")).and_then(|t| t.as_str()).map(|t| t.to_string());
    (status, fresh)
}

#[tokio::test(flavor = "multi_thread", worker_threads = 4)]
async fn f191_cleaner_keeps_the_revocation_while_the_token_is_still_accepted() {
    let dir = tempfile::TempDir::new().unwrap();
    let path = dir.path().join("tokens");
    let mut config = HttpConfig::default().jwt;
    config.access_token_expiry = IggyExpiry::ExpireDuration(IggyDuration::new_from_secs(1));
    config.clock_skew = IggyDuration::new_from_secs(30); // the server's default is 5 s; documented as configurable
    let algorithm = config.get_algorithm().unwrap();
    let manager = JwtManager::from_config(Arc::new(PersisterKind::File(FilePersister)), path.to_str().unwrap(), &config).unwrap();

    // login: a token for user 2
    let token = manager.generate(2).unwrap();
    let claims = manager.decode(&token.access_token, algorithm).expect("fresh token decodes").claims;
    // logout: what http/users.rs::logout_user does with the Identity of the request
    manager.revoke_token(&claims.jti, claims.exp).await.unwrap();
    assert!(manager.is_token_revoked(&claims.jti).await);

    // the token's `exp` passes; the validator still accepts it (leeway = clock_skew)
    tokio::time::sleep(std::time::Duration::from_millis(2500)).await;
    let now = IggyTimestamp::now().to_secs();
    assert!(claims.exp < now);
    assert!(manager.decode(&token.access_token, algorithm).is_ok(), "control: within the leeway the validator accepts the token");

    // what the cleaner task (http/jwt/cleaner.rs, every 300 s) does
    manager.delete_expired_revoked_tokens(now).await.unwrap();

    // what jwt_auth checks for the next request with this token
    let accepted = manager.decode(&token.access_token, algorithm).is_ok();
    let revoked = manager.is_token_revoked(&claims.jti).await;
    println!("F191: exp = {}, now = {now}, clock_skew = 30 s: after the cleaner ran, decode ok = {accepted}, revoked = {revoked}", claims.exp);
    assert!(
        !(accepted && !revoked),
        "F191: a logged-out token (exp {} <= now {now} <= exp + clock_skew) passes the middleware's checks again after the cleaner ran: decode ok, not revoked",
        claims.exp
    );
}

// O3 (observation, NOT a new defect: the cause is the known finding F7 [C05.sim.users] - user ids are re-seeded to max+1 at a
// restart - seen from the HTTP side). A JWT names its user by id only. History: alice = user 2 logs in; root deletes alice; restart;
// root creates bob, who gets id 2 again (F7); alice's still unexpired token now acts as bob. Asserts the correct behaviour, so it
// fails on every tree as long as F7 is open: run explicitly with `./run.sh <tree> --ignored o3_`.
#[ignore]
#[tokio::test(flavor = "multi_thread", worker_threads = 4)]
async fn o3_jwt_of_a_deleted_user_acts_as_the_user_that_reuses_the_id_after_a_restart() {
    let dir = tempfile::TempDir::new().unwrap();
    let data = dir.path().join("local_data");
    let system = start_system(data.to_str().unwrap()).await;
    let addr = start_http(system.clone()).await;
    let root = http_client(addr);
    root.login_user("iggy", "iggy").await.expect("root login");
    let alice_info = root.create_user("alice", "secret123", UserStatus::Active, None).await.expect("create alice");
    let alice = http_client(addr);
    let identity = alice.login_user("alice", "secret123").await.expect("alice login");
    let alice_token = identity.access_token.expect("token").token;
    root.delete_user(&Identifier::numeric(alice_info.id).unwrap()).await.expect("delete alice");
    drop(system);

    // restart: a new System over the same data directory, a new HTTP server with the same (configured) JWT secret
    let system = start_system(data.to_str().unwrap()).await;
    let addr = start_http(system.clone()).await;
    let root = http_client(addr);
    root.login_user("iggy", "iggy").await.expect("root login after restart");
    let bob_info = root.create_user("bob", "secret456", UserStatus::Active, None).await.expect("create bob");
    println!("O3: alice had id {}, bob got id {}", alice_info.id, bob_info.id);

    let ghost = http_client(addr);
    ghost.set_access_token(Some(alice_token)).await;
    // GET /users/{id} is allowed without any permission when the id is the caller's own
    let seen = ghost.get_user(&Identifier::numeric(bob_info.id).unwrap()).await;
    println!("O3: GET /users/{} with the deleted alice's token -> {:?}", bob_info.id, seen.as_ref().map(|u| u.as_ref().map(|u| u.username.clone())));
    assert!(
        !matches!(seen, Ok(Some(_))),
        "O3: the token of the deleted user alice (id {}) reads bob (id {}) as its own account",
        alice_info.id,
        bob_info.id
    );
}
