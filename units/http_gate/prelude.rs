// ---- unit prelude: http_gate (C09 / C10, the HTTP side of authentication) -------------------------------------------------
// C09: "Every request other than ping, login and the few HTTP endpoints the server explicitly declares public is refused on a
//       connection that has not authenticated"
// C10: "Logging out de-authenticates the connection, deleting the user or the token ends that credential's validity, the same
//       credentials behave identically before and after a restart"
// Stand-ins (R4) and spec vocabulary. Nothing here re-states a function body of /repo.
//
// On HTTP "the connection has authenticated" is: the request carries `Authorization: Bearer <t>`, <t> is authentic for the
// server's JwtManager (verifies under its key with the validation registered for the algorithm of <t>'s own header) and the id of
// <t> is not in the revoked table. The stage behind the middleware is reached only through `Next::run`, whose labelled
// preconditions ARE the gate (checked at every call site in extracted code).

// --- strings: opaque texts; view = the characters ---
#[verifier::external_body]
#[derive(Debug)]
pub struct Name { s: String }
impl View for Name {
    type V = Seq<char>;
    uninterp spec fn view(&self) -> Seq<char>;
}
// `&s[n..]` on a str takes a BYTE offset and panics unless it lies on a char boundary inside the string. Sufficient condition
// used here: the first n characters are ASCII (then byte offset n == character offset n, a boundary)
pub open spec fn ascii_prefix(s: Seq<char>, n: int) -> bool {
    0 <= n <= s.len() && forall|i: int| 0 <= i < n ==> (#[trigger] s[i] as u32) < 128
}
impl Name {
    #[verifier::external_body]
    pub fn to_owned(&self) -> (r: Name) ensures r == *self { unimplemented!() }
    #[verifier::external_body]
    pub fn to_string(&self) -> (r: Name) ensures r == *self { unimplemented!() }
    #[verifier::external_body]
    pub fn is_empty(&self) -> (r: bool) ensures r == (self@.len() == 0) { unimplemented!() }
    // str::starts_with(&str): exact prefix test
    #[verifier::external_body]
    pub fn starts_with(&self, p: &str) -> (r: bool) ensures r == p@.is_prefix_of(self@) { unimplemented!() }
}
impl Clone for Name {
    #[verifier::external_body]
    fn clone(&self) -> (r: Name) ensures r == *self { unimplemented!() }
}
impl vstd::std_specs::core::IndexSpecImpl<core::ops::RangeFrom<usize>> for Name {
    open spec fn index_req(&self, i: &core::ops::RangeFrom<usize>) -> bool { ascii_prefix(self@, i.start as int) }
}
impl core::ops::Index<core::ops::RangeFrom<usize>> for Name {
    type Output = Name;
    #[verifier::external_body]
    fn index(&self, i: core::ops::RangeFrom<usize>) -> (r: &Name)
        ensures r@ == self@.subrange(i.start as int, self@.len() as int),
    { unimplemented!() }
}

// A-std: `<[&str]>::contains(&x)` is `==` (string equality) against some element
pub use strax::slice_contains_spec;
pub assume_specification<T: PartialEq> [<[T]>::contains] (s: &[T], x: &T) -> (r: bool)
    ensures r == slice_contains_spec(s@, *x);
pub mod strax {
    use vstd::prelude::*;
    pub uninterp spec fn slice_contains_spec<T>(s: Seq<T>, x: T) -> bool;
    pub uninterp spec fn pat_text<P>(p: P) -> Seq<char>;
    #[verifier::external_body]
    pub broadcast proof fn axiom_pat_text_str(p: &str)
        ensures #[trigger] pat_text::<&str>(p) == p@,
    {}
    #[verifier::external_body]
    pub broadcast proof fn axiom_str_slice_contains(s: Seq<&'static str>, x: &str)
        ensures #[trigger] slice_contains_spec::<&str>(s, x) == (exists|i: int| 0 <= i < s.len() && (#[trigger] s[i])@ == x@),
    {}
}
// A-std: `str::starts_with(pat)` with a string pattern is the exact prefix test. The unmodified middleware never calls it on the
// request path; the spec is here so that an edit that turns the equality on the path into a prefix match stays inside the
// verified subset and is REFUTED ([C09.http.public]) instead of being undecided. (`Pattern` is an unstable trait name:
// unit.toml `crate_attrs = ["#![feature(pattern)]"]`.)
pub use strax::pat_text;
pub assume_specification<P: core::str::pattern::Pattern> [str::starts_with::<P>] (s: &str, p: P) -> (r: bool)
    ensures r == pat_text(p).is_prefix_of(s@);
broadcast use {strax::axiom_str_slice_contains, strax::axiom_pat_text_str, storax::axiom_bincode_prefix};

// --- errors ---
#[derive(Debug)]
pub enum IggyError {
    InvalidAccessToken,
    InvalidJwtAlgorithm(Name),
    Unauthenticated,
    CannotGenerateJwt,
    CannotSerializeResource,
    Other(u32),
}
// http/error.rs: `#[error(transparent)] Error(#[from] IggyError)` (thiserror derives this From)
#[derive(Debug)]
pub enum CustomError { Error(IggyError), ResourceNotFound }
impl From<IggyError> for CustomError {
    fn from(e: IggyError) -> (r: CustomError) ensures r == CustomError::Error(e) { CustomError::Error(e) }
}
impl vstd::std_specs::convert::FromSpecImpl<IggyError> for CustomError {
    open spec fn obeys_from_spec() -> bool { true }
    open spec fn from_spec(v: IggyError) -> CustomError { CustomError::Error(v) }
}

// --- small values ---
#[derive(Clone, Copy)]
pub struct SocketAddr(pub u64);
#[derive(Clone, Copy)]
pub struct Ulid(pub u128);
#[derive(Clone, Copy)]
pub struct StatusCode(pub u16);
impl StatusCode {
    pub const UNAUTHORIZED: StatusCode = StatusCode(401);
    pub const NO_CONTENT: StatusCode = StatusCode(204);
}
pub struct Json<T>(pub T);
// iggy::utils::duration::IggyDuration: `as_secs()` is `self.duration.as_secs() as u32` (truncating, as in the source)
#[derive(Clone, Copy)]
pub struct IggyDuration { pub secs: u64 }
impl IggyDuration {
    #[verifier::external_body]
    pub fn as_secs(&self) -> (r: u32) ensures r as u64 == self.secs % 0x1_0000_0000 { unimplemented!() }
}
pub struct IggyTimestamp(pub u64);
impl IggyTimestamp {
    #[verifier::external_body]
    pub fn now() -> (r: IggyTimestamp) { unimplemented!() }
    // SystemTime::duration_since(UNIX_EPOCH).as_secs(): SystemTime holds i64 seconds on Linux (A-clock)
    #[verifier::external_body]
    pub fn to_secs(&self) -> (r: u64) ensures r <= 0x7fff_ffff_ffff_ffff { unimplemented!() }
}
pub mod uuid {
    use super::*;
    #[verifier::external_body]
    pub struct Uuid { x: u8 }
    impl Uuid {
        #[verifier::external_body]
        pub fn now_v7() -> (r: Uuid) { unimplemented!() }
        #[verifier::external_body]
        pub fn to_string(&self) -> (r: Name) { unimplemented!() }
    }
}
// R6: AtomicU32 / AtomicBool of the session as plain cells
pub struct Cell32 { pub v: u32 }
impl Cell32 { pub fn new(v: u32) -> (r: Cell32) ensures r.v == v { Cell32 { v } } }
pub struct CellBool { pub v: bool }
impl CellBool { pub fn new(v: bool) -> (r: CellBool) ensures r.v == v { CellBool { v } } }

// --- jsonwebtoken 9.3.1 (A-jwt) ---
#[derive(Clone, Copy, PartialEq, Eq, Debug)]
pub enum Algorithm { HS256, HS384, HS512, ES256, ES384, RS256, RS384, RS512, PS256, PS384, PS512, EdDSA }
#[verifier::external_body] pub struct EncodingKey { x: u8 }
#[verifier::external_body] pub struct DecodingKey { x: u8 }
#[derive(Debug)]
pub struct JwtError { pub kind: u8 }
// the JOSE header: only `alg` is ever looked at (Header::new(alg): typ = "JWT", everything else None)
pub struct Header { pub alg: Algorithm }
impl Header {
    pub fn new(algorithm: Algorithm) -> (r: Header) ensures r.alg == algorithm { Header { alg: algorithm } }
}
pub struct TokenData<T> { pub header: Header, pub claims: T }
// Validation: `leeway` is the one field the code writes; algorithms / iss / aud are behind the setters
pub struct Validation { pub leeway: u64, pub validate_exp: bool, pub algorithm: Algorithm, pub iss: Option<Seq<Name>>, pub aud: Option<Seq<Name>> }
impl Validation {
    // Validation::new(alg): leeway 60, validate_exp true, validate_nbf false, algorithms [alg], no iss/aud
    #[verifier::external_body]
    pub fn new(alg: Algorithm) -> (r: Validation)
        ensures r.leeway == 60 && r.validate_exp && r.algorithm == alg && r.iss is None && r.aud is None,
    { unimplemented!() }
    #[verifier::external_body]
    pub fn set_issuer(&mut self, items: &[Name])
        ensures *final(self) == (Validation { iss: Some(items@), ..*old(self) }),
    { unimplemented!() }
    #[verifier::external_body]
    pub fn set_audience(&mut self, items: &[Name])
        ensures *final(self) == (Validation { aud: Some(items@), ..*old(self) }),
    { unimplemented!() }
}
// the header a token text announces (decode_header parses the first segment; no key involved)
pub uninterp spec fn header_of(token: Seq<char>) -> Option<Header>;
// the clock-free verdict of `decode`: Some(claims) iff the signature of `token` verifies under `key`, the header's alg is the
// validation's, iss/aud are accepted by it and the payload deserialises to `claims`
pub uninterp spec fn verified_claims<T>(token: Seq<char>, key: DecodingKey, validation: Validation) -> Option<T>;
// `token` is what `encode` made of (claims, key)
pub uninterp spec fn issued<T>(token: Seq<char>, claims: T, key: EncodingKey) -> bool;
#[verifier::external_body]
pub fn decode_header(token: &Name) -> (r: Result<Header, JwtError>)
    ensures match r { Ok(h) => header_of(token@) == Some(h), Err(_) => header_of(token@) is None },
{ unimplemented!() }
// decode: Ok ONLY for a verified token (and, not modelled, only while exp >= now - leeway: see token_dead)
#[verifier::external_body]
pub fn decode<T>(token: &Name, key: &DecodingKey, validation: &Validation) -> (r: Result<TokenData<T>, JwtError>)
    ensures r matches Ok(data) ==> verified_claims::<T>(token@, *key, *validation) == Some(data.claims) && header_of(token@) == Some(data.header),
{ unimplemented!() }
#[verifier::external_body]
pub fn encode<T>(header: &Header, claims: &T, key: &EncodingKey) -> (r: Result<Name, JwtError>)
    ensures r matches Ok(t) ==> header_of(t@) == Some(*header) && issued::<T>(t@, *claims, *key),
{ unimplemented!() }
pub mod jsonwebtoken {
    pub use super::decode_header;
    pub use super::decode;
}

// "authentic for this manager": the token announces an algorithm the manager has a validation for and verifies under the
// manager's decoding key with THAT validation (written from the statement of the task, not from JwtManager::decode)
pub open spec fn token_authentic(m: &JwtManager, token: Seq<char>) -> Option<JwtClaims> {
    match header_of(token) {
        Some(h) => if m.validations@.contains_key(h.alg) { verified_claims::<JwtClaims>(token, m.validator.key, m.validations@[h.alg]) } else { None },
        None => None,
    }
}
pub open spec fn revoked(m: &JwtManager, id: Name) -> bool { m.revoked_tokens@.contains_key(id) }

// jsonwebtoken accepts a verified token while `exp >= now - leeway` (validation.rs: Err(ExpiredSignature) iff
// `exp < now - leeway`); a token is DEAD at `now` - no decode at or after `now` accepts it - iff `exp + leeway < now`.
// Every validation of the manager carries the leeway `validator.clock_skew.as_secs()` ([C10.shape.http.leeway]).
pub open spec fn mgr_leeway(m: &JwtManager) -> int { (m.validator.clock_skew.secs % 0x1_0000_0000) as int }
pub open spec fn token_dead(exp: u64, leeway: int, now: u64) -> bool { exp + leeway < now }

// --- the revoked-token file (A-storage). TokenStorage::{save_revoked_access_token, delete_revoked_access_tokens} are EXTRACTED;
// the stubs below are what they stand on: the loader, the persister, bincode ---
#[verifier::external_body]
#[derive(Debug)]
pub struct PersisterKind { x: u8 }
impl PersisterKind {
    // the bytes of the file at `path` (None: no such file)
    pub uninterp spec fn content(&self, path: Name) -> Option<Seq<u8>>;
    // FilePersister / FileWithSyncPersister::overwrite = file::overwrite(path) - OpenOptions create(true).write(true).truncate(FALSE) -
    // then write_all(bytes): Ok => the file STARTS WITH `bytes` (a longer old file keeps its tail). On Err nothing is known about
    // this file (a failed write_all leaves it torn). No other file is touched. (R6: the file system through `&mut`.)
    #[verifier::external_body]
    pub fn overwrite(&mut self, path: &Name, bytes: &[u8]) -> (r: Result<(), IggyError>)
        ensures
            r is Ok ==> (final(self).content(*path) matches Some(b) && bytes@.is_prefix_of(b)),
            forall|p: Name| p != *path ==> final(self).content(p) == old(self).content(p),
    { unimplemented!() }
}
// bincode 1.3.3 (A-bincode): `serialize(&map)` yields SOME encoding of the map (entries in the map's iteration order, behind a length
// prefix); `deserialize(bytes)` - `DefaultOptions::new().with_fixint_encoding().allow_trailing_bytes()` - reads the length prefix and
// that many entries and IGNORES what follows: any byte string that starts with an encoding of m deserialises to m
pub use storax::{encodes, decoded};
pub mod storax {
    use vstd::prelude::*;
    use super::Name;
    pub uninterp spec fn encodes(bytes: Seq<u8>, m: Map<Name, u64>) -> bool;
    pub uninterp spec fn decoded(bytes: Seq<u8>) -> Option<Map<Name, u64>>;
    #[verifier::external_body]
    pub broadcast proof fn axiom_bincode_prefix(e: Seq<u8>, m: Map<Name, u64>, b: Seq<u8>)
        requires #[trigger] encodes(e, m), #[trigger] e.is_prefix_of(b),
        ensures decoded(b) == Some(m),
    {}
}
pub struct BincodeError { pub p: u8 }
pub struct AnyhowError { pub p: u8 }
pub mod bincode {
    use super::*;
    #[verifier::external_body]
    pub fn serialize(map: &HashMap<Name, u64>) -> (r: Result<Vec<u8>, BincodeError>)
        ensures r matches Ok(bytes) ==> encodes(bytes@, map@),
    { unimplemented!() }
}
// anyhow::Context::with_context(|| text): Ok stays Ok with the same value, Err becomes an anyhow error carrying the text
pub trait Context<T> { fn with_context<F: FnOnce() -> &'static str>(self, f: F) -> Result<T, AnyhowError>; }
impl<T, E> Context<T> for Result<T, E> {
    #[verifier::external_body]
    fn with_context<F: FnOnce() -> &'static str>(self, f: F) -> (r: Result<T, AnyhowError>)
        ensures
            self matches Ok(v) ==> r == Ok::<T, AnyhowError>(v),
            self is Err ==> r is Err,
    { unimplemented!() }
}
// what the file at `path` holds, read the way load_all_revoked_access_tokens reads it: no file => no entries
pub open spec fn file_map(content: Option<Seq<u8>>) -> Map<Name, u64> {
    match content {
        Some(b) => match decoded(b) { Some(m) => m, None => Map::empty() },
        None => Map::empty(),
    }
}
// v lists exactly the entries of m
pub open spec fn lists(v: Seq<RevokedAccessToken>, m: Map<Name, u64>) -> bool {
    &&& forall|i: int| 0 <= i < v.len() ==> m.contains_key(#[trigger] v[i].id) && m[v[i].id] == v[i].expiry
    &&& forall|id: Name| #[trigger] m.contains_key(id) ==> exists|i: int| 0 <= i < v.len() && v[i].id == id
}
impl TokenStorage {
    pub open spec fn persisted(&self) -> Map<Name, u64> { file_map(self.persister.content(self.path)) }
    // load_all_revoked_access_tokens (I/O: open, metadata, read_exact, bincode::deserialize, map -> Vec): Ok(v) lists what the file
    // holds - an empty list when the file cannot be opened ("No revoked access tokens found"), Err when it does not deserialise
    #[verifier::external_body]
    pub fn load_all_revoked_access_tokens(&self) -> (r: Result<Vec<RevokedAccessToken>, IggyError>)
        ensures r matches Ok(v) ==> lists(v@, self.persisted()),
    { unimplemented!() }
}
// R8 schema: `tokens.into_iter().map(|token| F(token)).collect::<AHashMap<_, _>>()`: every element's pair goes into the map (a later
// pair with the same key overwrites an earlier one), nothing else does
#[verifier::external_body]
pub fn collect_pairs(v: Vec<RevokedAccessToken>, Ghost(f): Ghost<spec_fn(RevokedAccessToken) -> (Name, u64)>) -> (r: HashMap<Name, u64>)
    ensures
        forall|i: int| 0 <= i < v@.len() ==> r@.contains_key(f(#[trigger] v@[i]).0),
        forall|k: Name| #[trigger] r@.contains_key(k) ==> exists|i: int| 0 <= i < v@.len() && f(v@[i]) == (k, r@[k]),
{ unimplemented!() }
// typed view of a Vec<Name> local (`let mut v = Vec::new()` leaves the element type to inference)
pub open spec fn names_of(v: &Vec<Name>) -> Seq<Name> { v@ }
// memory and file agree on what the file holds (the file may lag behind memory after a failed save)
pub open spec fn store_agrees(m: &JwtManager) -> bool {
    forall|id: Name| #[trigger] m.tokens_storage.persisted().contains_key(id)
        ==> m.revoked_tokens@.contains_key(id) && m.revoked_tokens@[id] == m.tokens_storage.persisted()[id]
}
impl JwtManager {
    // feeds the payload of IggyError::InvalidJwtAlgorithm only
    #[verifier::external_body]
    pub fn map_algorithm_to_string(algorithm: Algorithm) -> (r: Name) { unimplemented!() }
}

// --- the request as the middleware sees it (axum / http stand-ins) ---
#[verifier::external_body] pub struct Body { x: u8 }
#[verifier::external_body] pub struct Uri { x: u8 }
impl Uri {
    pub uninterp spec fn path_spec(&self) -> Seq<char>;
    #[verifier::external_body]
    pub fn path(&self) -> (r: &str) ensures r@ == self.path_spec() { unimplemented!() }
}
pub struct ToStrError { pub x: u8 }
// a header value; `text` is None when it is not visible ASCII (to_str fails)
pub struct HeaderValue { pub text: Option<Name> }
impl HeaderValue {
    #[verifier::external_body]
    pub fn to_str(&self) -> (r: Result<&Name, ToStrError>)
        ensures match r { Ok(s) => self.text == Some(*s), Err(_) => self.text is None },
    { unimplemented!() }
}
#[verifier::external_body] pub struct HeaderMap { x: u8 }
impl HeaderMap {
    // the (first) value of the header of that (case-insensitive) name
    pub uninterp spec fn lookup(&self, name: Seq<char>) -> Option<HeaderValue>;
    #[verifier::external_body]
    pub fn get(&self, key: &str) -> (r: Option<&HeaderValue>)
        ensures match r { Some(v) => self.lookup(key@) == Some(*v), None => self.lookup(key@) is None },
    { unimplemented!() }
}
// typed extensions: the two types this server stores
pub struct Extensions { pub details: Option<RequestDetails>, pub identity: Option<Identity> }
pub trait ExtItem: Sized {
    spec fn peek(e: &Extensions) -> Option<Self>;
    spec fn put(e: Extensions, v: Self) -> Extensions;
}
impl ExtItem for RequestDetails {
    open spec fn peek(e: &Extensions) -> Option<RequestDetails> { e.details }
    open spec fn put(e: Extensions, v: RequestDetails) -> Extensions { Extensions { details: Some(v), ..e } }
}
impl ExtItem for Identity {
    open spec fn peek(e: &Extensions) -> Option<Identity> { e.identity }
    open spec fn put(e: Extensions, v: Identity) -> Extensions { Extensions { identity: Some(v), ..e } }
}
impl Extensions {
    #[verifier::external_body]
    pub fn get<T: ExtItem>(&self) -> (r: Option<&T>)
        ensures match r { Some(v) => T::peek(self) == Some(*v), None => T::peek(self) is None },
    { unimplemented!() }
    #[verifier::external_body]
    pub fn insert<T: ExtItem>(&mut self, v: T) -> (r: Option<T>)
        ensures *final(self) == T::put(*old(self), v),
    { unimplemented!() }
}
pub struct Request<B> { pub uri: Uri, pub headers: HeaderMap, pub extensions: Extensions, pub body: B }
impl<B> Request<B> {
    #[verifier::external_body]
    pub fn uri(&self) -> (r: &Uri) ensures *r == self.uri { unimplemented!() }
    #[verifier::external_body]
    pub fn headers(&self) -> (r: &HeaderMap) ensures *r == self.headers { unimplemented!() }
    #[verifier::external_body]
    pub fn extensions(&self) -> (r: &Extensions) ensures *r == self.extensions { unimplemented!() }
    #[verifier::external_body]
    pub fn extensions_mut(&mut self) -> (r: &mut Extensions)
        ensures *r == old(self).extensions,
            final(self).extensions == *final(r) && final(self).uri == old(self).uri && final(self).headers == old(self).headers && final(self).body == old(self).body,
    { unimplemented!() }
}

// --- the gate (written from the property statement) ---
// the documented public endpoints; matching is equality on the WHOLE path
pub open spec fn documented_public(p: Seq<char>) -> bool {
    p == "/"@ || p == "/metrics"@ || p == "/ping"@ || p == "/stats"@ || p == "/users/login"@ || p == "/users/refresh-token"@
        || p == "/personal-access-tokens/login"@
}
// the <t> of an `Authorization: Bearer <t>` header
pub open spec fn bearer_of(h: &HeaderMap) -> Option<Seq<char>> {
    match h.lookup("authorization"@) {
        Some(v) => match v.text {
            Some(s) => if "Bearer "@.is_prefix_of(s@) { Some(s@.subrange(7, s@.len() as int)) } else { None },
            None => None,
        },
        None => None,
    }
}
// the claims the request authenticates with: bearer token present, authentic for the manager, id not revoked
pub open spec fn credentials(m: &JwtManager, req: &Request<Body>) -> Option<JwtClaims> {
    match bearer_of(&req.headers) {
        Some(t) => match token_authentic(m, t) {
            Some(c) => if revoked(m, c.jti) { None } else { Some(c) },
            None => None,
        },
        None => None,
    }
}
pub open spec fn identity_of(c: JwtClaims, ip: SocketAddr) -> Identity {
    Identity { token_id: c.jti, token_expiry: c.exp, user_id: c.sub, ip_address: ip }
}

#[verifier::external_body] pub struct Response { x: u8 }
impl Response {
    // the request the inner stage was run with, and the stage that ran it
    pub uninterp spec fn served(&self) -> Request<Body>;
    pub uninterp spec fn by(&self) -> Next;
}
#[verifier::external_body] pub struct Next { x: u8 }
impl Next {
    // the application state the inner stage was built with (A-layers)
    pub uninterp spec fn app(&self) -> AppState;
    // A-next: THE way into the handlers. Anonymous (no Identity) only for a documented public path; with an Identity only for a
    // request that carries valid credentials, and then the Identity is exactly the token's
    #[verifier::external_body]
    pub fn run(self, request: Request<Body>) -> (r: Response)
        requires
            request.extensions.identity is None ==> documented_public(request.uri.path_spec()),                 //@requires [C09.http.public]
            request.extensions.identity is Some ==> credentials(&self.app().jwt_manager, &request) is Some,      //@requires [C09.http.gate]
            request.extensions.identity matches Some(i) ==> (request.extensions.details matches Some(d) && (credentials(&self.app().jwt_manager, &request) matches Some(c) ==> i == identity_of(c, d.ip_address))),     //@requires [C09.http.identity]
        ensures r.served() == request && r.by() == self,
    { unimplemented!() }
}

// --- the catalogue behind the handlers (stub; units credentials / authn_gate are about it) ---
pub struct User { pub id: u32 }
pub enum IdKind { Numeric, Text }
pub struct Identifier { pub kind: IdKind, pub value: u32 }
impl Identifier {
    // sdk Identifier::numeric: 0 is refused, otherwise the numeric identifier of `value`
    #[verifier::external_body]
    pub fn numeric(value: u32) -> (r: Result<Identifier, IggyError>)
        ensures match r { Ok(i) => value != 0 && i.kind is Numeric && i.value == value, Err(_) => value == 0 },
    { unimplemented!() }
}
#[verifier::external_body] pub struct System { x: u8 }
impl System {
    pub uninterp spec fn user_ids(&self) -> Set<u32>;
    // the user a password login of (username, password) authenticates (unit credentials: [C10.login])
    pub uninterp spec fn logged_in(&self, username: Name, password: Name) -> Option<u32>;
    #[verifier::external_body]
    pub fn login_user(&self, username: &Name, password: &Name, session: Option<&Session>) -> (r: Result<&User, IggyError>)
        ensures r matches Ok(u) ==> self.logged_in(*username, *password) == Some(u.id) && self.user_ids().contains(u.id),
    { unimplemented!() }
    #[verifier::external_body]
    pub fn logout_user(&self, session: &Session) -> (r: Result<(), IggyError>)
        ensures r is Ok ==> session.user_id.v != 0 && self.user_ids().contains(session.user_id.v),
    { unimplemented!() }
    #[verifier::external_body]
    pub fn get_user(&self, user_id: &Identifier) -> (r: Result<&User, IggyError>)
        ensures r matches Ok(u) ==> self.user_ids().contains(u.id) && (user_id.kind is Numeric ==> u.id == user_id.value),
    { unimplemented!() }
}
impl LoginUser {
    // Validatable::validate (sdk): length bounds of username / password
    #[verifier::external_body]
    pub fn validate(&self) -> (r: Result<(), IggyError>) { unimplemented!() }
}
